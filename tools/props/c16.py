"""C16 — export followed by import reproduces the object exactly (DESIGN §C16).

Every case goes through a real file in a fresh temporary directory (removed after the case). Doubles are carried as
their 64-bit patterns (Python ints), so every comparison made in Coq is bit-for-bit."""
import math
import os
import re
import shutil
import struct
import tempfile

from vcheck import Case, gz, gnlist, gnmat
import tgen

PROP = "C16"
LEVEL = "proof"
GEN_UNITS = ["GenUtils3b"]     # Props/C16Gen.v: export_size over the generated pyttb_utils.parse_shape
COQ_TARGETS = ["Props/C16.vo", "Props/C16Num.vo", "Props/C16Gen.vo", "Model/C16Harness.vo", "Model/C16Lines.vo", "Model/Harness.vo"]
THEOREM_FILES = ["Props/C16.v", "Props/C16Num.v", "Props/C16Gen.v"]
COQ_IMPORTS = ("From Coq Require Import String.\nFrom Coq Require Import List ZArith Bool.\n"
               "From PV Require Import Base.Index Np.Array Model.Sparse Model.Repr Model.Harness Model.C16IO Model.C16Big Model.C16Text Model.C16Harness.\n")
RULE = ("objects of the four kinds (np.ndarray as 2-way matrix and as 0-/1-/3-/4-way array) with seeded random shapes (orders 1-5, singleton "
        "modes, 1-way, ZERO sizes, ORDER 0: ttb.tensor(), ttb.sptensor(), ttb.ktensor(), 0-d arrays; ranks 1-5, non-square factors; sparse: empty/one/some/full, stored orders sorted/reversed/random, "
        "index bases -3..10); values = finite doubles over the whole exponent range (uniform bit patterns, subnormals, +-max, "
        "+-min normal, powers of two +-1 ulp, 17-significant-digit-critical constants, +-0), carried as 64-bit patterns; "
        "MEMORY LAYOUTS AND HISTORIES: C-ordered / strided / negative-stride arrays assigned to T.data, K.factor_matrices[n], "
        "K.weights, S.subs, S.vals, copy=False constructors, objects left behind by normalize('all' | k | sort), redistribute, "
        "arrange, permute, S - S (computed empty), S * 2 — the reference is the object read entry by entry just before export, and "
        "export must leave it unchanged; sparse tensors with explicitly STORED +0.0 / -0.0 (plain constructor, in-place edit of "
        "vals, all entries zero); sparse tensors with LONG modes (1e9 .. 2^63-1) and subscripts next to 2^53 and to the ends of the "
        "mode (op sptensor_big, Z-subscript model); ELEMENT TYPES: dense data, sparse values, matrices / arrays and assigned Kruskal "
        "weights / factors of types int8..int64, uint8..uint64, bool, float16, float32 (values a double holds exactly, type extremes, "
        "+-2^53, 2^62; what must come back is the float64 object with the same numbers), sparse SUBSCRIPT arrays of every integer "
        "type with modes as long as the type allows and subscripts up to the type's largest value AND that value itself "
        "(repaired C16-N4); MATRICES in every memory layout: C, asfortranarray, strided, negative strides, slice of a 3-d array, "
        "A.T of a C array, and the F-ordered arrays pyttb itself hands out (a factor matrix of a ktensor built by pyttb, "
        "T.to_tenmat(...).double(), T.double(), a frontal slice of a 3-way T.double()), 3-way arrays handed out by tensor.double(), a "
        "column of a stored factor matrix as 1-way array (the route is checked to hand out the intended array); dense tensors GROWN by pyttb (assignment of an element / a block beyond the current sizes: the data array pyttb "
        "allocates then is not F-contiguous); non-default fmt_data / fmt_weights for all kinds; malformed stream (import "
        "side): valid files from an independent pure-Python writer, mutated 33 ways (wrong type word, truncation, extra / missing "
        "tokens on header and entry lines, one-subscript entry, index_base too large / too small, out-of-range subscript, values "
        "re-flowed over lines, blank lines, word among values, float subscript, trailing junk, nnz / rank / column mismatches, "
        "dropped or replaced 'matrix' line, negative size, zero size (with and without a matching body), empty file, files of "
        "ORDER 0 of every kind with and without entries / rank / value / sizes that contradict the order line); WHITE SPACE "
        "(op wsfile, character-level model): valid files re-written with blanks before / after the tokens of a line, CR LF line "
        "ends, LONE carriage returns (as padding, next to / instead of the separating blank, as the only line ends of the file), runs of blanks between tokens on header / entry lines and among values, white-space-only lines, no final line "
        "break, TAB / VT / FF as padding of a line, instead of / next to / between the blanks that separate texts on header, "
        "entry and value lines, and attached to the type word; rank-0 Kruskal tensors and files (incl. junk on the lines import "
        "drops, missing row lines, rank line 0 over a rank-R body); non-trivial = more than one value and not all values equal")
CORRESPONDENCE_ONLY = [
    "the number text conversion itself (libc printf / strtod behind numpy tofile / fromfile and float()): that both are CORRECTLY "
    "ROUNDED (then parse(print v) = v for '%.16e' is a theorem: C16_seventeen_digits) and that parse(print_fmt v) = float(fmt % v) for a coarser fmt_data / fmt_weights is compared bit-for-bit on "
    "real files; everything else about non-default formats is proved (C16_roundtrip_any_format: what is read back is the object "
    "with every value replaced by parse(print_fmt v))",
    "classification of a white-space-free piece of a file as word / integer text / number text (what int(), np.int64() and "
    "float() accept: regular expressions in the harness); white space other than blank / tab / VT / FF / CR / LF (e.g. U+00A0, "
    "U+001C-1F) is outside the character-level model (carriage returns, lone ones included, are inside since /repo a0b5a3f)",
    "export_data / import_data themselves are a HAND transliteration (Model/C16IO.v, C16Lines.v, C16Text.v), tied to the source by "
    "the correspondence stream on real files; the translator covers pyttb_utils.parse_shape as called by export_size "
    "(C16_export_size_generated over Gen/GenUtils3b.v), not the bodies of export_data / import_data",
]
ASSUMPTIONS = [
    "parse (print v) = v for every finite double v, where print is numpy tofile with format '%.16e' (libc printf: 1 + 16 = 17 "
    "significant decimal digits) and parse is numpy fromfile(sep=' ') / float(str) (strtod): a Section hypothesis of the round-trip "
    "theorems. 17 significant digits suffice for binary64 (17 >= ceil(53*log10(2)) + 1: two distinct doubles never share a correctly "
    "rounded 17-digit decimal, so a correctly rounded parse returns the double printed); 16 digits ('%.15e') do not. Correct rounding "
    "of libc's printf/strtod is trusted and TESTED; since wave 4 the step from correct rounding to parse(print v) = v is PROVED "
    "(Props/C16Num.v, over Q, no axioms): C16_seventeen_digits — a decimal within half a unit of the 17th significant digit of a "
    "nonzero binary64 number x (canonical significand / exponent, subnormals included) is strictly nearer to x than to any other "
    "binary64 number; C16_sixteen_digits_collide — with 16 digits two neighbouring doubles share their nearest decimal. Rounding "
    "of libc's printf/strtod is TESTED bit-for-bit on every double written by the correspondence stream (count in "
    "coverage.explanation); the seeded '%.15e' mutant is detected by these cases. C16_roundtrip_any_format needs no hypothesis",
    "a file is modelled at three levels, each tied to pyttb on real files: characters (Model/C16Text.v: blank / CR / LF / "
    "tab-VT-FF / white-space-free piece; readline().strip().split(' ') and np.fromfile's skipping as one pass), lines of tokens read line-"
    "sensitively (Model/C16Lines.v: readline() for header / sparse entry lines, np.fromfile for values), and the plain token "
    "sequence (Model/C16IO.v); C16_tokenise and the line-level theorems connect them",
    "an integer text at a value position denotes the double float(text) (harness: exact bit pattern for |z| < 2^53)",
    "sparse tensors with modes too long for unary numbers are checked against the Z-subscript model (Model/C16Big.v), proved "
    "equal to the nat object model through Z.of_nat on every token stream (C16_long_import_bridge / C16_long_export_bridge)",
]
_STATS = {"doubles": 0, "files": 0, "text_mismatch": 0, "badfiles": 0, "badfiles_accepted": 0}
EXPLANATION = ""


def _explain():
    global EXPLANATION
    EXPLANATION = (f"{_STATS['files']} real files written and re-read; {_STATS['doubles']} doubles went through "
                   f"print->file->parse and were compared bit-for-bit (parse(print v)=v assumption tested on each); "
                   f"{_STATS['text_mismatch']} number texts differed from Python's '%.16e' rendering. The layout of "
                   "each real file is compared token by token, line by line, with the model's export in Coq; the "
                   "model's import (token-level and line-sensitive) is run on the tokens of the real file and compared with "
                   f"pyttb's import_data result. Malformed stream: {_STATS['badfiles']} mutated files, of which pyttb accepted "
                   f"{_STATS['badfiles_accepted']}; the line-sensitive model gave pyttb's verdict (and object) on each.")


_explain()

# ---------------------------------------------------------------- doubles as bit patterns
def f2b(x):
    return struct.unpack("<Q", struct.pack("<d", float(x)))[0]


def b2f(b):
    return struct.unpack("<d", struct.pack("<Q", b))[0]


CRITICAL = [0.1, 0.2, 0.1 + 0.2, 1.0 / 3.0, 2.0 / 3.0, 1e22, 1e23, 9.999999999999999e22, 8.98846567431158e307,
            2.2250738585072011e-308, 2.2250738585072014e-308, 1.7976931348623157e308, 4.9e-324, 5e-324,
            1.0000000000000002, 0.9999999999999999, 9007199254740992.0, 9007199254740991.0, 9007199254740994.0,
            123456789012345.67, 1.2345678901234567e-5, 5.0e-1, 1e-7, 1e16, 1e15 + 0.125, 3.141592653589793,
            2.718281828459045, 6.02214076e23, 6.62607015e-34, 1.7976931348623155e308, 4.4501477170144023e-308,
            2.2204460492503131e-16, 7.2057594037927933e16, 9.5367431640625e-07, 1.4142135623730951]
MAXF = 0x7FEFFFFFFFFFFFFF
MINN = 0x0010000000000000
SIGN = 0x8000000000000000


def rand_bits(rng):
    """a finite double, as its bit pattern, drawn over the whole exponent range"""
    k = rng.random()
    if k < 0.40:                      # uniform bit pattern with a finite exponent
        b = (rng.randrange(0, 2047) << 52) | rng.getrandbits(52)
    elif k < 0.52:                    # subnormals
        b = rng.choice([1, 2, 3, MINN - 1, MINN - 2, rng.getrandbits(52), rng.getrandbits(30), rng.getrandbits(10) + 1])
    elif k < 0.60:                    # extremes
        b = rng.choice([MAXF, MAXF - 1, MINN, MINN + 1, 0])
    elif k < 0.75:                    # powers of two +- 1 ulp
        e = rng.randrange(1, 2047)
        b = (e << 52) + rng.choice([-1, 0, 1])
    elif k < 0.90:                    # 17-digit-critical constants (and small perturbations)
        b = f2b(rng.choice(CRITICAL)) + rng.choice([0, 0, 0, 1, -1])
    else:                             # "ordinary" magnitudes
        b = f2b(rng.choice([1, -1]) * rng.random() * 10 ** rng.randint(-3, 6))
        return b
    if b < 0 or ((b >> 52) & 0x7FF) == 0x7FF:      # a perturbation left the finite range: draw again
        return rand_bits(rng)
    if rng.random() < 0.5:
        b |= SIGN
    return b


def rand_vals(rng, n, nonzero=False):
    out = []
    while len(out) < n:
        b = rand_bits(rng)
        if nonzero and (b & ~SIGN) == 0:
            continue
        out.append(b)
    return out


# ---------------------------------------------------------------- generators
def gen_cases(rng, tier):
    big = tier == "thorough"
    cases = []

    def nt(bits):
        return len(bits) > 1 and len(set(bits)) > 1

    # dense tensors ----------------------------------------------------------------
    shapes = [(1,), (5,), (1, 1), (2, 3), (3, 2), (1, 4), (4, 1), (2, 3, 4), (4, 3, 2), (2, 1, 3), (1, 1, 1), (2, 2, 2, 2),
              (3, 1, 2, 1, 2)]
    shapes += [tuple(tgen.rand_shape(rng, maxn=5, maxcells=(400 if big else 60), maxdim=(8 if big else 5)))
               for _ in range(260 if big else 45)]
    for shp in shapes:
        bits = rand_vals(rng, math.prod(shp))
        cases.append(Case("tensor", {"shape": list(shp), "bits": bits}, nt(bits)))
    # long value lists: volume for the parse(print v) = v assumption (spread over the list so that the coqc shards balance)
    volume = []
    for k in range(62 if big else 2):
        n = 1000 if big else 400
        shp = [n] if k % 3 == 0 else ([n // 8, 8] if k % 3 == 1 else [5, n // 20, 4])
        bits = rand_vals(rng, math.prod(shp))
        volume.append(Case("tensor", {"shape": shp, "bits": bits}, True))
    # -0.0 / +0.0 / extremes explicitly
    cases.append(Case("tensor", {"shape": [2, 3], "bits": [SIGN, 0, MAXF, MAXF | SIGN, 1, 1 | SIGN]}, True))
    cases.append(Case("tensor", {"shape": [len(CRITICAL)], "bits": [f2b(x) for x in CRITICAL]}, True))
    # sparse tensors ------------------------------------------------------------------
    for _ in range(330 if big else 70):
        shp = tgen.rand_shape(rng, maxn=5, maxcells=(600 if big else 120), maxdim=(9 if big else 6))
        n = math.prod(shp)
        allsubs = tgen.all_subs(shp)
        k = rng.choice([0, 1, min(n, 2), rng.randint(0, n), n if n <= (120 if big else 30) else rng.randint(0, 30)])
        subs = rng.sample(allsubs, k)
        order = rng.choice(["sorted", "reversed", "random"])
        if order == "sorted":
            subs.sort(key=lambda s: s[::-1])
        elif order == "reversed":
            subs.sort(key=lambda s: s[::-1], reverse=True)
        bits = rand_vals(rng, k, nonzero=True)
        base = rng.choice([1, 1, 1, 0, 0, 2, -3, 10])
        cases.append(Case("sptensor", {"shape": list(shp), "subs": subs, "bits": bits, "base": base}, k > 1))
    cases.append(Case("sptensor", {"shape": [4], "subs": [[3], [0], [2]], "bits": [1, MAXF, MINN | SIGN], "base": 1}, True))
    cases.append(Case("sptensor", {"shape": [4], "subs": [[3], [0], [2]], "bits": [1, MAXF, MINN | SIGN], "base": 0}, True))
    cases.append(Case("sptensor", {"shape": [2, 3], "subs": [], "bits": [], "base": 1}, False))
    # Kruskal tensors ------------------------------------------------------------------
    for _ in range(220 if big else 45):
        shp = tgen.rand_shape(rng, maxn=5, maxcells=10 ** 9, maxdim=(8 if big else 5))
        R = rng.randint(1, 5)
        w = rand_vals(rng, R)
        facs = [[rand_vals(rng, R) for _ in range(d)] for d in shp]
        cases.append(Case("ktensor", {"shape": list(shp), "weights": w, "factors": facs}, True))
    cases.append(Case("ktensor", {"shape": [3], "weights": rand_vals(rng, 2), "factors": [[rand_vals(rng, 2) for _ in range(3)]]}, True))
    cases.append(Case("ktensor", {"shape": [1, 1], "weights": rand_vals(rng, 1), "factors": [[rand_vals(rng, 1)], [rand_vals(rng, 1)]]}, False))
    # matrices -----------------------------------------------------------------------
    for _ in range(200 if big else 45):
        m, n = rng.randint(1, 9 if big else 6), rng.randint(1, 9 if big else 6)
        rows = [rand_vals(rng, n) for _ in range(m)]
        cases.append(Case("matrix", {"m": m, "n": n, "rows": rows, "layout": rng.choice(M_LAYOUTS)}, m * n > 1))
    # np.ndarray that is not 2-way (vector, 3-way, 4-way): shape and C-order listing
    for _ in range(90 if big else 20):
        shp = tgen.rand_shape(rng, maxn=4, maxcells=(200 if big else 48), maxdim=6)
        if len(shp) == 2:
            shp = shp + [rng.randint(1, 3)]
        cbits = rand_vals(rng, math.prod(shp))
        cases.append(Case("ndarray", {"shape": shp, "cbits": cbits, "layout": rng.choice(["C", "F"])}, nt(cbits)))
    # rank-0 Kruskal tensors (constructible with ktensor.from_function(f, shape, 0)): finding C16-N1, repaired in /repo
    # 20317ef (the witness [2, 3] first); zero sizes and singleton modes with rank 0 too
    for shp in [(2, 3), (4,), (1, 1, 2), (2, 0), (0,), (3, 1, 2, 2)]:
        cases.append(Case("ktensor", {"shape": list(shp), "weights": [], "factors": [[[] for _ in range(d)] for d in shp]}, False))
    # optional format arguments: the round trip is claimed for the default only; with another format the LAYOUT is the same
    # and what is read back is the object with every value replaced by float(fmt % value)
    for _ in range(60 if big else 16):
        kind = rng.choice(["tensor", "sptensor", "ktensor", "matrix"])
        fd = rng.choice(["%.3e", "%.8e", "%.17e", "%.16e", "%.1e"])
        fw = rng.choice([None, "%.2e", "%.17e", "%.5e"])
        shp = tgen.rand_shape(rng, maxn=3, maxcells=24, maxdim=4)
        vals = lambda n: [f2b(rng.choice([1, -1]) * rng.random() * 10 ** rng.randint(-3, 4)) for _ in range(n)]
        if kind == "tensor":
            a = {"shape": shp, "bits": vals(math.prod(shp))}
        elif kind == "sptensor":
            subs = rng.sample(tgen.all_subs(shp), rng.randint(1, min(5, math.prod(shp))))
            a = {"shape": shp, "subs": subs, "bits": vals(len(subs)), "base": 1}
        elif kind == "ktensor":
            R = rng.randint(1, 3)
            a = {"shape": shp, "weights": vals(R), "factors": [[vals(R) for _ in range(d)] for d in shp]}
        else:
            m, n = rng.randint(1, 4), rng.randint(1, 4)
            a = {"m": m, "n": n, "rows": [vals(n) for _ in range(m)], "layout": "C"}
        a["fmt_data"], a["fmt_weights"] = fd, fw
        cases.append(Case(kind, a, True))
    cases += gen_history_cases(rng, big)
    cases += gen_dtype_cases(rng, big)
    # zero sizes: objects without any entry are written with an empty value line and must come back with their shape
    for shp in [(0,), (0, 3), (2, 0), (2, 0, 3), (0, 0), (1, 0, 1, 2)]:
        cases.append(Case("tensor", {"shape": list(shp), "bits": []}, False))
    for m, n in [(0, 3), (3, 0), (0, 0), (0, 1)]:
        cases.append(Case("matrix", {"m": m, "n": n, "rows": [[] for _ in range(m)], "layout": rng.choice(["C", "F"])}, False))
    for shp in [(0,), (2, 0, 2), (0, 1, 0)]:
        cases.append(Case("ndarray", {"shape": list(shp), "cbits": [], "layout": "C"}, False))
    for shp in [(0, 2), (2, 0, 3), (0,), (3, 0)]:
        R = rng.randint(1, 3)
        cases.append(Case("ktensor", {"shape": list(shp), "weights": rand_vals(rng, R),
                                      "factors": [[rand_vals(rng, R) for _ in range(d)] for d in shp]}, True))
    # ORDER 0 (finding C16-N2, repaired in /repo b512e35): the objects without modes pyttb can hold — ttb.tensor(), ttb.sptensor(),
    # ttb.ktensor() (no entry / stored entry / weight) and 0-d arrays (one entry) — are ordinary inputs; every index base, every
    # element type and layout a 0-d array can have
    cases.append(Case("tensor", {"shape": [], "bits": []}, False))
    for b in (1, 0, 2, -3):
        cases.append(Case("sptensor", {"shape": [], "subs": [], "bits": [], "base": b}, False))
    cases.append(Case("ktensor", {"shape": [], "weights": [], "factors": []}, False))
    for k in range(12 if big else 5):
        cases.append(Case("ndarray", {"shape": [], "cbits": rand_vals(rng, 1), "layout": rng.choice(["C", "F", "view0"])}, False))
    for dt in ("int8", "uint64", "float32", "bool"):
        cases.append(Case("ndarray", {"shape": [], "cbits": _dtype_vals(rng, dt, 1), "layout": "C", "dtype": dt}, False))
    for fd in ("%.3e", "%.17e"):
        cases.append(Case("ndarray", {"shape": [], "cbits": [f2b(1234.56789)], "layout": "C", "fmt_data": fd, "fmt_weights": None}, False))
    cases.append(Case("tensor", {"shape": [], "bits": [], "fmt_data": "%.3e", "fmt_weights": None}, False))
    cases.append(Case("ktensor", {"shape": [], "weights": [], "factors": [], "fmt_data": "%.3e", "fmt_weights": "%.2e"}, False))
    # regression inputs of repaired findings (ordinary cases now): C16-N4 uint8 subscript 255; C19-N14 1-based file read with
    # index_base 2; C16-N3 the CR LF file of a rank-0 Kruskal tensor
    cases.append(Case("sptensor_big", {"shape": [256, 3], "subs": [[0, 1], [255, 2]], "bits": [f2b(1.5), f2b(2.5)], "base": 1,
                                       "subs_dtype": "uint8"}, True))
    cases.append(Case("badfile", {"lines": [["sptensor"], ["2"], ["2", "3"], ["1"], ["1", "2", "5.0"]], "base": 2,
                                  "mutation": "base_mismatch_low", "kind": "sptensor"}, True))
    cases.append(Case("wsfile", {"text": "ktensor\r\n2\r\n1 2\r\n0\r\n\r\nmatrix\r\n2\r\n1 0\r\n\r\nmatrix\r\n2\r\n2 0\r\n\r\n\r\n",
                                 "base": 1, "ws": "crlf", "kind": "ktensor"}, True))
    cases += gen_badfiles(rng, big)
    cases += gen_wsfiles(rng, big)
    for k, vc in enumerate(volume):
        cases.insert((k * len(cases)) // len(volume), vc)
    return cases


# ---------------------------------------------------------------- memory layouts, multi-step histories, stored zeros
M_LAYOUTS = ["C", "F", "strided", "transposed_view", "negstride", "slice3d", "T_of_C", "kfactor", "tenmat_double", "tensor_double",
             "double_slice", "kfactor_nocopy"]
T_HIST = ["ctor_C", "ctor_nocopy", "assign_C", "assign_strided", "assign_negstride", "permute_back", "grown_elem", "grown_block"]
K_HIST = ["assign_C", "assign_C_some", "assign_strided", "normalize_all", "normalize_k", "normalize_sort", "redistribute",
          "weights_strided", "ctor_nocopy", "arrange"]
S_HIST = ["ctor_zeros", "ctor_zeros", "edit_vals", "assign_layout", "ctor_nocopy", "minus_self", "scaled", "all_zero"]


def _ordinary(rng, n, zero_ok=False):
    out = []
    for _ in range(n):
        if zero_ok and rng.random() < 0.15:
            out.append(rng.choice([0, SIGN]))
        else:
            out.append(f2b(rng.choice([1, -1]) * (0.1 + rng.random()) * 2.0 ** rng.randint(-24, 24)))
    return out


def gen_history_cases(rng, big):
    """objects whose arrays are NOT in the layout pyttb's constructors produce (C-ordered, strided, negative strides:
    assigned to the public attributes or left behind by normalize / redistribute / permute), objects that come out of
    other operations, and sparse tensors with explicitly stored +0.0 / -0.0 (plain constructor, in-place edit of vals)"""
    out = []
    # dense tensors: at least two modes of size >= 2 so that the layouts differ
    fixed = [(2, 3), (3, 2, 2), (2, 3, 4), (2, 2, 3, 2), (1, 3, 2), (4,), (2, 3, 4), (3, 4, 2), (2, 1, 2, 3, 2)]
    for k in range(48 if big else 16):
        shp = list(fixed[k]) if k < len(fixed) else tgen.rand_shape(rng, maxn=5, maxcells=(200 if big else 60), maxdim=5)
        bits = rand_vals(rng, math.prod(shp))
        a = {"shape": shp, "bits": bits, "hist": T_HIST[k % len(T_HIST)]}
        if a["hist"] == "permute_back":
            q = list(range(len(shp)))
            rng.shuffle(q)
            a["perm"] = q
        if a["hist"] in ("grown_elem", "grown_block"):
            # a tensor GROWN by pyttb itself (assignment beyond the current sizes): its data array is what pyttb allocates
            # then (not F-contiguous); needs >= 2 modes (a 1-way tensor cannot be resized) and a mode of size >= 2
            if len(shp) < 2:
                shp = a["shape"] = shp + [rng.randint(2, 3)]
                bits = a["bits"] = rand_vals(rng, math.prod(shp))
            if max(shp) < 2:
                shp[rng.randrange(len(shp))] = 3
                bits = a["bits"] = rand_vals(rng, math.prod(shp))
            if a["hist"] == "grown_elem":
                a["from"] = [rng.randint(1, d) for d in shp]
                if a["from"] == shp:
                    j = rng.choice([j for j, d in enumerate(shp) if d >= 2])
                    a["from"][j] = shp[j] - 1
            else:
                j = rng.choice([j for j, d in enumerate(shp) if d >= 2])
                a["grow_mode"], a["grow_from"], a["int_key"] = j, rng.randint(1, shp[j] - 1), rng.random() < 0.4
        out.append(Case("tensor", a, len(set(bits)) > 1))
    # Kruskal tensors: rank >= 2 and mode sizes >= 2 mostly (both layouts coincide otherwise), some rank 1 / singleton
    for k in range(70 if big else 24):
        shp = tgen.rand_shape(rng, maxn=4, maxcells=10 ** 9, maxdim=5)
        R = rng.randint(2, 4)
        if k % 6 == 5:
            R = 1
        elif k % 6 != 4:
            shp = [max(d, 2) for d in shp]
        h = K_HIST[k % len(K_HIST)]
        value_changing = h in ("normalize_all", "normalize_k", "normalize_sort", "redistribute", "arrange")
        vals = (lambda n: _ordinary(rng, n)) if value_changing else (lambda n: rand_vals(rng, n))
        a = {"shape": shp, "weights": vals(R), "factors": [[vals(R) for _ in range(d)] for d in shp], "hist": h,
             "mode": rng.randrange(len(shp)), "which": [rng.random() < 0.5 for _ in shp]}
        if not any(a["which"]):
            a["which"][rng.randrange(len(shp))] = True
        out.append(Case("ktensor", a, True))
    # sparse tensors
    for k in range(70 if big else 24):
        shp = tgen.rand_shape(rng, maxn=4, maxcells=(200 if big else 60), maxdim=5)
        n = math.prod(shp)
        h = S_HIST[k % len(S_HIST)]
        nz = rng.choice([1, min(n, 2), min(n, 3), rng.randint(1, n), rng.randint(1, n)])
        subs = rng.sample(tgen.all_subs(shp), nz)
        order = rng.choice(["sorted", "reversed", "random"])
        if order == "sorted":
            subs.sort(key=lambda s_: s_[::-1])
        elif order == "reversed":
            subs.sort(key=lambda s_: s_[::-1], reverse=True)
        if h == "ctor_zeros":
            bits = _ordinary(rng, nz, zero_ok=True) if rng.random() < 0.5 else [rng.choice([0, SIGN]) if rng.random() < 0.4 else b
                                                                               for b in rand_vals(rng, nz, nonzero=True)]
            if not any((b & ~SIGN) == 0 for b in bits):
                bits[rng.randrange(nz)] = rng.choice([0, SIGN])
        elif h == "all_zero":
            bits = [rng.choice([0, SIGN]) for _ in range(nz)]
        elif h in ("minus_self", "scaled"):
            bits = _ordinary(rng, nz)
        else:
            bits = rand_vals(rng, nz, nonzero=True)
        a = {"shape": shp, "subs": subs, "bits": bits, "base": rng.choice([1, 1, 1, 0, 2, -3]), "hist": h}
        if h == "edit_vals":
            a["edits"] = [[j, rng.choice([0, SIGN])] for j in sorted(rng.sample(range(nz), rng.randint(1, nz)))]
        out.append(Case("sptensor", a, True))
    # sparse tensors with very long modes (only the stored entries take memory): subscripts are np.int64 texts and must
    # travel exactly (not through a double); mode sizes around and beyond 2^53, subscripts next to the ends of the mode
    LONG = [10 ** 9, 2 ** 53, 2 ** 53 + 2, 2 ** 54 + 6, 2 ** 60, 2 ** 62 + 10, 2 ** 63 - 1, 3 * 10 ** 18 + 7]
    for k in range(36 if big else 12):
        N = rng.randint(1, 3)
        shp = [rng.choice([1, 2, 3, 5]) for _ in range(N)]
        for j in rng.sample(range(N), rng.randint(1, N)):
            shp[j] = rng.choice(LONG)
        nz = rng.randint(1, 5)
        subs = []
        while len(subs) < nz:
            row = []
            for d in shp:
                if d <= 5:
                    row.append(rng.randrange(d))
                else:
                    x = rng.choice([d - 1, d - 2, d - 3, d - rng.randrange(1, 2000), 2 ** 53 + rng.randrange(-4, 9), d // 2 + 1,
                                    d // 3, rng.randrange(d), rng.randrange(10), (d - 1) | 1, ((d - 1) | 3) - 2])
                    row.append(min(max(x, 0), d - 1))
            if row not in subs:
                subs.append(row)
        top = max(max(r) for r in subs)            # the subscript texts of the file (subscript + base) must stay inside int64
        base = rng.choice([b for b in [1, 1, 0, 2, -3] if top + b < 2 ** 63])
        out.append(Case("sptensor_big", {"shape": shp, "subs": subs, "bits": rand_vals(rng, nz), "base": base}, True))
    # sparse tensors without a stored entry that ARISE from a computation are covered by minus_self; matrices / arrays:
    for k in range(40 if big else 12):
        shp = tgen.rand_shape(rng, maxn=4, maxcells=48, maxdim=5)
        if len(shp) == 2:
            shp = shp + [rng.randint(2, 3)]
        cbits = rand_vals(rng, math.prod(shp))
        out.append(Case("ndarray", {"shape": shp, "cbits": cbits,
                                    "layout": ["strided", "transposed_view", "negstride", "F", "tensor_double", "tensor_double_nocopy"][k % 6]},
                        len(set(cbits)) > 1))
    # 1-way arrays pyttb hands out: a column of a stored factor matrix (a strided view of F-ordered data)
    for k in range(12 if big else 4):
        n = rng.randint(2, 6)
        cbits = rand_vals(rng, n)
        out.append(Case("ndarray", {"shape": [n], "cbits": cbits, "layout": "factor_column"}, len(set(cbits)) > 1))
    # matrices with at least two rows and two columns (the layouts differ) in EVERY memory layout, those of the arrays pyttb
    # itself hands out included (pyttb stores F-ordered data: a factor matrix of a ktensor, a tenmat's / tensor's double(),
    # a frontal slice of a 3-way tensor's double())
    for k in range(3 * len(M_LAYOUTS) if big else len(M_LAYOUTS)):
        m, n = rng.randint(2, 5), rng.randint(2, 5)
        rows = [rand_vals(rng, n) for _ in range(m)]
        out.append(Case("matrix", {"m": m, "n": n, "rows": rows, "layout": M_LAYOUTS[k % len(M_LAYOUTS)]}, True))
    return out



# ---------------------------------------------------------------- element types other than float64 / int64
# value range of each integer type, and the largest subscript a subscript array of that type can hold
INT_RANGE = {"int8": (-2 ** 7, 2 ** 7 - 1), "uint8": (0, 2 ** 8 - 1), "int16": (-2 ** 15, 2 ** 15 - 1), "uint16": (0, 2 ** 16 - 1),
             "int32": (-2 ** 31, 2 ** 31 - 1), "uint32": (0, 2 ** 32 - 1), "int64": (-2 ** 63, 2 ** 63 - 1), "uint64": (0, 2 ** 64 - 1),
             "bool": (0, 1)}
VAL_DTYPES = ["int64", "int32", "int16", "int8", "uint8", "uint16", "uint32", "uint64", "bool", "float32", "float16"]
SUB_DTYPES = ["int32", "int16", "int8", "uint8", "uint16", "uint32", "uint64", "int64"]


def _dtype_vals(rng, dt, n, nonzero=False):
    """n values of element type dt, as the bit patterns of the float64 numbers equal to them (only values a double holds
    exactly: the property speaks about double values; integers beyond 2^53 that are no doubles are outside it)"""
    out = []
    while len(out) < n:
        if dt == "float32":
            v = struct.unpack("<f", struct.pack("<I", (rng.randrange(0, 255) << 23) | rng.getrandbits(23) | (rng.getrandbits(1) << 31)))[0]
        elif dt == "float16":
            v = struct.unpack("<e", struct.pack("<H", (rng.randrange(0, 31) << 10) | rng.getrandbits(10) | (rng.getrandbits(1) << 15)))[0]
        else:
            lo, hi = INT_RANGE[dt]
            v = rng.choice([lo, hi, 0, 1, min(hi, 2), max(lo, -1), rng.randint(lo, hi), rng.randint(max(lo, -100), min(hi, 100)),
                            min(hi, 2 ** 53), max(lo, -2 ** 53), min(hi, 2 ** 53 - 1), min(hi, 2 ** 62), min(hi, 3 * 2 ** 60)])
            if int(float(v)) != v:              # not a double: keep the 53 leading bits
                v = int(float(v))
                if not lo <= v <= hi:
                    continue
        if nonzero and v == 0:
            continue
        out.append(f2b(float(v)))
    return out


def gen_dtype_cases(rng, big):
    """objects whose arrays hold another element type than float64 (values) / the platform integer (subscripts): dense data,
    sparse values, matrices, weights / factors assigned to a Kruskal tensor, and sparse SUBSCRIPT arrays of narrow integer
    types with subscripts up to the largest value the type holds. What must come back is the float64 object with the same
    numbers (import always builds float64 / int64 arrays); `bits` are the patterns of those float64 numbers."""
    out = []
    for k in range(44 if big else 11):
        dt = VAL_DTYPES[k % len(VAL_DTYPES)]
        shp = tgen.rand_shape(rng, maxn=4, maxcells=40, maxdim=5)
        bits = _dtype_vals(rng, dt, math.prod(shp))
        out.append(Case("tensor", {"shape": shp, "bits": bits, "hist": "dtype", "dtype": dt}, len(set(bits)) > 1))
    for k in range(44 if big else 11):
        dt = VAL_DTYPES[(k + 3) % len(VAL_DTYPES)]
        shp = tgen.rand_shape(rng, maxn=4, maxcells=60, maxdim=5)
        nz = rng.randint(1, min(6, math.prod(shp)))
        subs = rng.sample(tgen.all_subs(shp), nz)
        bits = _dtype_vals(rng, dt, nz, nonzero=(rng.random() < 0.6))
        out.append(Case("sptensor", {"shape": shp, "subs": subs, "bits": bits, "base": rng.choice([1, 1, 0, 2]), "hist": "vals_dtype",
                                     "dtype": dt}, nz > 1))
    for k in range(22 if big else 6):
        dt = VAL_DTYPES[(k + 5) % len(VAL_DTYPES)]
        m, n = rng.randint(1, 4), rng.randint(1, 4)
        rows = [_dtype_vals(rng, dt, n) for _ in range(m)]
        out.append(Case("matrix", {"m": m, "n": n, "rows": rows, "layout": rng.choice(["C", "F", "transposed_view"]), "dtype": dt}, m * n > 1))
    for k in range(22 if big else 6):
        dt = VAL_DTYPES[(k + 7) % len(VAL_DTYPES)]
        shp = tgen.rand_shape(rng, maxn=4, maxcells=40, maxdim=4)
        if len(shp) == 2:
            shp = shp + [2]
        cbits = _dtype_vals(rng, dt, math.prod(shp))
        out.append(Case("ndarray", {"shape": shp, "cbits": cbits, "layout": rng.choice(["C", "F", "strided"]), "dtype": dt}, len(set(cbits)) > 1))
    # Kruskal tensors: the constructor wants float64 factors, the public attributes take anything
    for k in range(22 if big else 6):
        dt = VAL_DTYPES[(k + 1) % len(VAL_DTYPES)]
        dw = rng.choice([dt, dt, "float64", "int64", "float32"])
        shp = tgen.rand_shape(rng, maxn=4, maxcells=10 ** 9, maxdim=4)
        R = rng.randint(1, 3)
        which = [rng.random() < 0.6 for _ in shp]
        which[rng.randrange(len(shp))] = True
        a = {"shape": shp, "weights": (rand_vals(rng, R) if dw == "float64" else _dtype_vals(rng, dw, R)),
             "factors": [[(_dtype_vals(rng, dt, R) if which[j] else rand_vals(rng, R)) for _ in range(d)] for j, d in enumerate(shp)],
             "hist": "assign_dtype", "dtype": dt, "wdtype": dw, "which": which, "mode": 0}
        out.append(Case("ktensor", a, True))
    # sparse subscript arrays of every integer type; modes as long as the type allows, subscripts up to the largest value the
    # type holds (class C16-N4: `subs + 1` is computed in the type of the subscript array) and next to it
    for k in range(64 if big else 24):
        dt = SUB_DTYPES[k % len(SUB_DTYPES)]
        top = min(INT_RANGE[dt][1], 2 ** 63 - 2)          # largest subscript the type holds (the mode size must stay an int64)
        N = rng.randint(1, 3)
        at_max = (k // len(SUB_DTYPES)) % 3 == 1 and top < 2 ** 62
        shp = [rng.choice([1, 2, 3, 5, min(top + 1, 100), top + 1, top + 1, max(top // 2, 1), max(top - 1, 1)]) for _ in range(N)]
        if at_max:
            shp[rng.randrange(N)] = top + 1
        nz = rng.randint(1, min(4, math.prod(shp) if at_max else math.prod(min(d, top) for d in shp)))
        subs = []
        while len(subs) < nz:
            row = [min(max(rng.choice([d - 1, d - 2, d - 3, d // 2, rng.randrange(d), rng.randrange(d), 0, 1]), 0), d - 1) for d in shp]
            if not at_max:
                row = [min(x, top - 1) for x in row]
            if row not in subs:
                subs.append(row)
        if at_max and not any(x == top for r in subs for x in r):
            j = shp.index(top + 1)
            subs[0][j] = top
            subs = [r for i_, r in enumerate(subs) if i_ == 0 or r != subs[0]]
        big_top = max(max(r) for r in subs)
        base = rng.choice([b for b in [1, 1, 0, 2, -3] if big_top + max(b, 1) < 2 ** 63])
        out.append(Case("sptensor_big", {"shape": shp, "subs": subs, "bits": rand_vals(rng, len(subs)), "base": base, "subs_dtype": dt}, True))
    return out

# ---------------------------------------------------------------- malformed files (import side, line-sensitive)
def _fv(rng):
    return rng.choice(["1.5000000000000000e+00", "-2.2500000000000000e+00", "3.0000000000000000e+05", "7.0000000000000000e-03",
                       "1.0000000000000000e+00", "4", "-3", "2.5", "1e3"])


def _good_file(rng):
    """a valid file written by an independent pure-Python writer: (kind, lines as lists of strings, info)"""
    kind = rng.choice(["tensor", "sptensor", "sptensor", "ktensor", "ktensor", "matrix"])
    shp = tgen.rand_shape(rng, maxn=3, maxcells=12, maxdim=3)
    L = [[kind], [str(len(shp))], [str(d) for d in shp]]
    info = {"kind": kind, "shape": shp}
    if kind == "tensor":
        L += [[_fv(rng)] for _ in range(math.prod(shp))]
    elif kind == "matrix":
        if rng.random() < 0.6:
            shp = [rng.randint(1, 3), rng.randint(1, 3)]
            L[1], L[2] = ["2"], [str(d) for d in shp]
        L += [[_fv(rng)] for _ in range(math.prod(shp))]
    elif kind == "sptensor":
        nz = rng.randint(0, min(4, math.prod(shp)))
        subs = rng.sample(tgen.all_subs(shp), nz)
        L.append([str(nz)])
        info["entry0"] = len(L)
        info["nz"] = nz
        L += [[str(x + 1) for x in s_] + [_fv(rng)] for s_ in subs]
    else:
        R = rng.choice([0, 1, 2, 3, rng.randint(0, 3)])
        info["rank"] = R
        L.append([str(R)])
        info["wline"] = len(L)
        L.append([_fv(rng) for _ in range(R)])
        info["mlines"] = []
        for d in shp:
            info["mlines"].append(len(L))
            L += [["matrix"], ["2"], [str(d), str(R)]] + [[_fv(rng) for _ in range(R)] for _ in range(d)]
    return kind, L, info


MUTATIONS = ["none", "type_word", "truncate", "header_extra", "sizes_extra", "sizes_short", "order_wrong", "line_extra_token",
             "line_drop_token", "one_subscript", "base_mismatch_low", "base_mismatch_high", "sub_out_of_range", "reflow_join",
             "reflow_split", "blank_line", "word_value", "float_subscript", "trailing_junk", "nnz_more", "nnz_less", "nnz_negative",
             "drop_matrix_line", "matrix_line_other", "weights_extra", "rank_mismatch", "factor_cols", "factor_1d", "neg_size",
             "empty_file", "first_line_number", "zero_size", "zero_size_consistent", "rank0_weights_junk", "rank0_rows_junk",
             "rank0_row_missing", "rank0_in_rank_file", "rank_line_zero", "order0", "order0", "order0_factor"]


def gen_badfiles(rng, big):
    out = []
    for k in range(len(MUTATIONS) * (12 if big else 4)):
        mut = MUTATIONS[k % len(MUTATIONS)]
        kind, L, info = _good_file(rng)
        L = [list(l) for l in L]
        base = 1
        body0 = {"tensor": 3, "matrix": 3, "sptensor": 4, "ktensor": 5}[kind]
        if mut == "type_word":
            L[0] = [rng.choice(["tensr", "Tensor", "sptensors", "dense", "matrix_", "k"])]
        elif mut == "truncate":
            L = L[: rng.randint(0, len(L) - 1)]
        elif mut == "header_extra":
            for j in sorted({0, 1, min(3, len(L) - 1)}):
                if j != 2 and (j < 3 or kind in ("sptensor", "ktensor")):
                    L[j] = L[j] + ["junk"]
        elif mut == "sizes_extra":
            L[2] = L[2] + ["2"]
        elif mut == "sizes_short":
            L[2] = L[2][:-1]
        elif mut == "order_wrong":
            L[1] = [str(int(L[1][0]) + rng.choice([-1, 1]))]
        elif mut in ("line_extra_token", "line_drop_token", "word_value", "float_subscript", "one_subscript"):
            if len(L) <= body0:
                continue
            j = rng.randrange(body0, len(L))
            if mut == "line_extra_token":
                L[j] = [rng.choice(["1", "2"])] + L[j]
            elif mut == "line_drop_token":
                L[j] = L[j][1:]
            elif mut == "word_value":
                L[j] = L[j][:-1] + ["x"]
            elif mut == "float_subscript":
                L[j] = ["1.0"] + L[j][1:]
            else:
                L[j] = [L[j][0], L[j][-1]] if len(L[j]) >= 2 else L[j]
        elif mut == "base_mismatch_low":
            base = rng.choice([2, 3])           # the file is 1-based, read with a larger base: subscripts fall below zero
        elif mut == "base_mismatch_high":
            base = rng.choice([0, -1])          # read with a smaller base: subscripts rise, possibly out of range
        elif mut == "sub_out_of_range":
            if kind != "sptensor" or not info["nz"]:
                continue
            j = info["entry0"] + rng.randrange(info["nz"])
            col = rng.randrange(len(info["shape"]))
            L[j][col] = str(info["shape"][col] + 1)
        elif mut == "reflow_join":
            if len(L) - body0 < 2:
                continue
            j = rng.randrange(body0, len(L) - 1)
            L[j:j + 2] = [L[j] + L[j + 1]]
        elif mut == "reflow_split":
            cands = [j for j in range(body0, len(L)) if len(L[j]) >= 2]
            if not cands:
                continue
            j = rng.choice(cands)
            c = rng.randrange(1, len(L[j]))
            L[j:j + 1] = [L[j][:c], L[j][c:]]
        elif mut == "blank_line":
            L.insert(rng.randint(1, len(L)), [])
        elif mut == "trailing_junk":
            L += [["9.0"], ["junk", "1"]]
        elif mut in ("nnz_more", "nnz_less", "nnz_negative"):
            if kind != "sptensor":
                continue
            L[3] = [str(info["nz"] + 1 if mut == "nnz_more" else (max(info["nz"] - 1, 0) if mut == "nnz_less" else -1))]
        elif mut in ("drop_matrix_line", "matrix_line_other", "weights_extra", "rank_mismatch", "factor_cols", "factor_1d"):
            if kind != "ktensor":
                continue
            j = rng.choice(info["mlines"])
            if mut == "drop_matrix_line":
                del L[j]
            elif mut == "matrix_line_other":
                L[j] = rng.choice([["anything", "here"], ["7"], []])
            elif mut == "weights_extra":
                L[info["wline"]] = L[info["wline"]] + [rng.choice(["9.0", "junk"])]
            elif mut == "rank_mismatch":
                L[3] = [str(int(L[3][0]) + 1)]
            elif mut == "factor_cols":
                L[j + 2] = [L[j + 2][0], str(int(L[j + 2][1]) + 1)]
            else:
                L[j + 1], L[j + 2] = ["1"], [str(int(L[j + 2][0]) * int(L[j + 2][1]))]
        elif mut == "neg_size":
            if kind == "matrix":
                continue            # np.fromfile(count < 0) reads everything and np.reshape treats any negative size as unknown
            if kind == "sptensor" and not info["nz"]:
                continue            # ttb.sptensor(empty subs, empty vals, (-1,)) is accepted by the constructor (C19 territory)
            L[2] = ["-" + L[2][0]] + L[2][1:]
        elif mut == "zero_size":
            # one header size becomes 0, the body stays (values / entries now in excess)
            j = rng.randrange(len(L[2]))
            L[2] = L[2][:j] + ["0"] + L[2][j + 1:]
        elif mut == "zero_size_consistent":
            # a well-formed file of an object with a zero size (sptensor: accepted by import although the constructor
            # refuses such a shape when called directly)
            shp0 = list(info["shape"])
            shp0[rng.randrange(len(shp0))] = 0
            if kind in ("tensor", "matrix"):
                L = [[kind], [str(len(shp0))], [str(d) for d in shp0], []]
            elif kind == "sptensor":
                L = [[kind], [str(len(shp0))], [str(d) for d in shp0], ["0"]]
            else:
                R = int(L[3][0])
                L = L[:5]
                L[2] = [str(d) for d in shp0]
                for d in shp0:
                    L += [["matrix"], ["2"], [str(d), str(R)]] + [[_fv(rng) for _ in range(R)] for _ in range(d)]
        elif mut in ("rank0_weights_junk", "rank0_rows_junk", "rank0_row_missing", "rank0_in_rank_file", "rank_line_zero"):
            # files around the lines import reads and DROPS for objects without entries (/repo 20317ef)
            shp0 = list(info["shape"])
            R = int(L[3][0]) if kind == "ktensor" else 0
            junk = lambda: rng.choice([["9.0"], ["junk"], ["1.5", "x"], ["matrix"], ["2"]])
            if mut == "rank_line_zero":
                if kind != "ktensor" or R == 0:
                    continue
                L[3] = ["0"]            # rank line 0 over a file of rank R: one line dropped, then R-column factors refused
            elif mut == "rank0_in_rank_file":
                if kind != "ktensor" or R == 0 or not info["mlines"]:
                    continue
                j = rng.choice(info["mlines"])     # one factor of a rank-R file declared without columns, body kept or emptied
                m = int(L[j + 2][0])
                L[j + 2] = [str(m), "0"]
                if rng.random() < 0.5:
                    L[j + 3:j + 3 + m] = [[] for _ in range(m)]
            else:
                L = [["ktensor"], [str(len(shp0))], [str(d) for d in shp0], ["0"], junk() if mut == "rank0_weights_junk" else []]
                for d in shp0:
                    rows = [junk() if mut == "rank0_rows_junk" else [] for _ in range(d)]
                    if mut == "rank0_row_missing" and rows and rng.random() < 0.7:
                        rows = rows[:-1]
                    L += [["matrix"], ["2"], [str(d), "0"]] + rows
                kind = "ktensor"
        elif mut == "order0":
            # files of objects WITHOUT modes (order line 0, empty sizes line: /repo b512e35) and their neighbours: entries / rank /
            # values announced or present, the value of a 0-d array missing, sizes that contradict the order line
            v = lambda: [_fv(rng)]
            kind = rng.choice(["tensor", "sptensor", "ktensor", "matrix"])
            body = {"tensor": [[[]], [], [v()], [v(), v()], [["x"]]],
                    "sptensor": [[["0"]], [["0"], v()], [["1"], v()], [["1"], ["1"] + v()], [["2"], v(), v()], [["1"]], [], [["-1"]], [["0", "junk"]]],
                    "ktensor": [[["0"], []], [["0"]], [["0"], ["junk", "1"]], [["0"], [], ["matrix"], ["2"], ["1", "0"], []], [["1"], v()],
                                [["2"], v() + v()], [["1"], []], [["1"], ["matrix"]], []],
                    "matrix": [[v()], [[]], [], [v() + v()], [v(), v()], [[], v()], [["x"]], [["3"]]]}[kind]
            head = rng.choice([[["0"], []]] * 6 + [[["0"], ["1"]], [["1"], []], [["0", "x"], []], [["0"]], [[], []], [["0"], ["0"]]])
            L = [[kind]] + [list(l) for l in head] + [list(l) for l in rng.choice(body)]
        elif mut == "order0_factor":
            # a Kruskal file one of whose FACTOR headers has order 0 (np.prod(()) = 1 value is read, a 0-d "factor")
            if kind != "ktensor" or not info["mlines"]:
                continue
            j = rng.choice(info["mlines"])
            L[j + 1], L[j + 2] = ["0"], []
        elif mut == "empty_file":
            L = []
        elif mut == "first_line_number":
            L[0] = ["3"]
        out.append(Case("badfile", {"lines": L, "base": base, "mutation": mut, "kind": kind}, True))
    return out


# ---------------------------------------------------------------- white space (character-level model, Model/C16Text.v)
WS_KINDS = ["styled", "styled", "crlf", "double_blank", "double_blank_values", "ws_only_line", "no_final_newline", "blank_lines_end",
            "trailing_only", "leading_only", "tab_pad", "tab_glue", "tab_glue_values", "tab_attached", "tab_only_piece", "tab_typeword",
            "tab_mixed", "tab_mixed", "lone_cr_eol", "cr_some_eol", "cr_before_eol"]
# tab, VT, FF (the atom AOws of Model/C16Text.v) and CR (ACR, read in the same way since import_data opens with newline="\n")
OWS = ["\t", "\t", "\x0b", "\x0c", "\r", "\r"]


def gen_wsfiles(rng, big):
    """valid files (independent pure-Python writer) re-written with other white space: blanks before / after the tokens of
    a line, CR LF line ends (all lines or some), runs of blanks between tokens, white-space-only lines, no final line break"""
    out = []
    for k in range(len(WS_KINDS) * (12 if big else 4)):
        ws = WS_KINDS[k % len(WS_KINDS)]
        kind, L, info = _good_file(rng)
        body0 = {"tensor": 3, "matrix": 3, "sptensor": 4, "ktensor": 5}[kind]
        if kind in ("tensor", "matrix") and rng.random() < 0.5:      # several values on a line
            vals = [t for ln in L[3:] for t in ln]
            L = L[:3]
            while vals:
                n = rng.randint(1, 3)
                L.append(vals[:n])
                vals = vals[n:]
        crlf_all = ws == "crlf" or (ws == "styled" and rng.random() < 0.3)
        seps = [[" "] * (len(ln) - 1) for ln in L]
        if ws in ("double_blank", "double_blank_values"):
            cands = [j for j in range(len(L)) if len(L[j]) >= 2 and ((j >= body0 and kind != "sptensor") == (ws == "double_blank_values"))]
            if not cands:
                continue
            j = rng.choice(cands)
            seps[j][rng.randrange(len(seps[j]))] = " " * rng.randint(2, 3)
        if ws in ("tab_glue", "tab_glue_values", "tab_attached", "tab_only_piece", "tab_mixed"):
            # tab / VT / FF inside a line: instead of the blank between two texts (one unreadable piece for readline() sites, two
            # values for np.fromfile), next to it (harmless), or as a piece of their own (unreadable / white space)
            o = lambda: "".join(rng.choice(OWS) for _ in range(rng.randint(1, 2)))
            new = {"tab_glue": lambda: o(), "tab_glue_values": lambda: o(),
                   "tab_attached": lambda: rng.choice([" " + o(), o() + " ", o() + " " + o()]),
                   "tab_only_piece": lambda: " " + o() + " ",
                   "tab_mixed": lambda: rng.choice([o(), " " + o(), o() + " ", " " + o() + " ", "  " + o(), o() + "  "])}[ws]
            values = lambda j: j >= body0 and kind != "sptensor"
            cands = [j for j in range(len(L)) if len(L[j]) >= 2 and (ws not in ("tab_glue", "tab_glue_values") or values(j) == (ws == "tab_glue_values"))]
            if not cands:
                continue
            for j in (cands if ws == "tab_mixed" else [rng.choice(cands)]):
                for i in range(len(seps[j])):
                    if ws != "tab_mixed" or rng.random() < 0.4:
                        seps[j][i] = new()
                if ws != "tab_mixed":
                    seps[j] = [" "] * len(seps[j])
                    seps[j][rng.randrange(len(seps[j]))] = new()
        if ws == "tab_typeword":
            o = rng.choice(OWS)
            L = [list(ln) for ln in L]
            L[0] = [kind] + rng.choice([[], ["x"], ["x", "2"]])
            seps[0] = [" "] * (len(L[0]) - 1)
            if len(L[0]) >= 2:
                seps[0][0] = rng.choice([o + " ", " " + o, o, " " + o + " "])
        pad = lambda n: "".join(rng.choice([" "] + OWS) for _ in range(n))
        text = ""
        cr_line = rng.randrange(len(L))
        for j, ln in enumerate(L):
            lead = rng.choice([0, 0, 1, 3]) if ws in ("styled", "leading_only") else 0
            trail = rng.choice([0, 0, 1, 2]) if ws in ("styled", "trailing_only", "crlf") else 0
            body = "".join(t + (seps[j][i] if i < len(seps[j]) else "") for i, t in enumerate(ln))
            eol = "\r\n" if crlf_all or (ws == "styled" and rng.random() < 0.2) else "\n"
            if ws == "lone_cr_eol":                 # old Mac line ends: the whole file is ONE line for readline()
                eol = "\r"
            elif ws == "cr_some_eol" and (j == cr_line or rng.random() < 0.15):
                eol = "\r"                          # a lone CR where a line should end: the two lines are one
            elif ws == "cr_before_eol":
                eol = "\r" * rng.randint(1, 3) + rng.choice(["\n", " \n", "\r\n"])
            if ws in ("tab_pad", "tab_typeword", "tab_mixed"):
                text += pad(rng.choice([0, 1, 2])) + body + pad(rng.choice([0, 0, 1, 2])) + (rng.choice(["\n", "\r\n"]) if ws == "tab_pad" else "\n")
                continue
            text += " " * lead + body + " " * trail + eol
        if ws == "ws_only_line":
            parts = text.split("\n")
            parts.insert(rng.randint(1, len(parts) - 1), " " * rng.randint(1, 3))
            text = "\n".join(parts)
        elif ws == "no_final_newline":
            text = text[:-1]
        elif ws == "blank_lines_end":
            text += rng.choice(["\n", " \n\n", "\r\n"])
        out.append(Case("wsfile", {"text": text, "base": 1, "ws": ws, "kind": kind}, True))
    return out


def atoms_of(text):
    """the characters of a file as atoms: ' ' / CR / LF one by one, and the maximal pieces free of white space"""
    out, piece = [], ""
    for ch in text:
        if ch in " \r\n\t\x0b\x0c":
            if piece:
                out.append(["t"] + _classify(piece))
                piece = ""
            out.append([{" ": "b", "\r": "r", "\n": "n"}.get(ch, "o")])
        else:
            assert not ch.isspace(), "white space outside the model"
            piece += ch
    if piece:
        out.append(["t"] + _classify(piece))
    return out


def _classify(t):
    if _INT.match(t):
        return ["i", int(t)]
    if _NUM.match(t):
        return ["n", f2b(float(t))]
    return ["w", t]


def gatoms(atoms):
    def ga(a):
        return {"b": "ABlank", "r": "ACR", "n": "ALF", "o": "AOws"}[a[0]] if a[0] != "t" else f"(ATok {gtok(a[1:])})"
    return "(@nil zatom)" if not atoms else "[" + "; ".join(ga(a) for a in atoms) + "]"


# ---------------------------------------------------------------- running pyttb through real files
_INT = re.compile(r"^[+-]?\d+$")
_NUM = re.compile(r"^[+-]?(\d+\.?\d*|\.\d+)([eE][+-]?\d+)?$")


def tokenize(text):
    """file text -> list of lines, each a list of ['w', str] | ['i', int] | ['n', bits, text]"""
    lines = text.split("\n")
    assert lines[-1] == "", "file does not end with a newline"
    out = []
    for ln in lines[:-1]:
        toks = []
        for t in ln.split():
            if _INT.match(t):
                toks.append(["i", int(t)])
            elif _NUM.match(t):
                toks.append(["n", f2b(float(t)), t])
            else:
                toks.append(["w", t])
        out.append(toks)
    return out


def _arr(np, bits, shape=None, order="C"):
    a = np.array(bits, dtype=np.uint64).view(np.float64)
    if shape is not None:
        a = a.reshape(shape, order=order)
    return a


def _bits(np, a, order="C"):
    a = np.asarray(a)
    if a.dtype != np.float64:
        return {"dtype": str(a.dtype)}
    return [int(x) for x in np.ravel(a, order=order).view(np.uint64)]


def run_impl(c):
    import logging
    import numpy as np
    import pyttb as ttb
    logging.getLogger().setLevel(logging.ERROR)     # "no copy ... must copy" warnings of the constructors
    a = c.args
    d = tempfile.mkdtemp(prefix="c16_")
    try:
        path = os.path.join(d, "obj.tns")
        base = 1
        if c.op in ("badfile", "wsfile"):
            import warnings
            if c.op == "wsfile":
                with open(path, "w", newline="") as fh:
                    fh.write(a["text"])
                with open(path, "r", newline="") as fh:
                    o = {"atoms": atoms_of(fh.read())}
            else:
                with open(path, "w") as fh:
                    fh.write("".join(" ".join(ln) + "\n" for ln in a["lines"]))
                lines = tokenize(open(path).read())
                o = {"lines": [[t[:2] for t in ln] for ln in lines]}
            _STATS["badfiles"] += 1
            _explain()
            try:
                with warnings.catch_warnings():
                    warnings.simplefilter("ignore")          # np.fromfile's short-read DeprecationWarning
                    got = ttb.import_data(path, index_base=a["base"])
            except Exception as ex:
                o["exc"] = type(ex).__name__
                o["msg"] = str(ex)[:200]
                return o
            _STATS["badfiles_accepted"] += 1
            _explain()
            o.update(_describe(np, ttb, got))
            return o
        pre = None
        if c.op == "tensor":
            obj = _build_tensor(np, ttb, a)
            nd = len(a["bits"])
        elif c.op == "sptensor":
            base = a["base"]
            obj = _build_sptensor(np, ttb, a)
            nd = len(a["subs"])
        elif c.op == "sptensor_big":
            base = a["base"]
            nd = len(a["subs"])
            obj = ttb.sptensor(np.array(a["subs"], dtype=a.get("subs_dtype", "int64")).reshape((nd, len(a["shape"]))),
                               _arr(np, a["bits"], (nd, 1)).copy(), tuple(a["shape"]))
            if obj.subs.dtype != np.dtype(a.get("subs_dtype", "int64")):
                return {"skip": "the constructor does not keep the subscript type"}
        elif c.op == "ktensor":
            R = len(a["weights"])
            obj = _build_ktensor(np, ttb, a)
            nd = R + sum(len(f) * R for f in a["factors"])
        elif c.op == "matrix":
            m, n = a["m"], a["n"]
            M = _arr(np, [b for row in a["rows"] for b in row], (m, n)).copy()
            if a.get("dtype"):
                M = M.astype(a["dtype"])
            if a["layout"] == "F":
                M = np.asfortranarray(M)
            elif a["layout"] == "strided":
                big = np.zeros((2 * m, 3 * n), dtype=M.dtype)
                big[::2, 1::3] = M
                M = big[::2, 1::3]
            elif a["layout"] == "transposed_view":
                M = np.ascontiguousarray(M.T).T
            elif a["layout"] == "negstride":
                M = np.ascontiguousarray(M[::-1, ::-1])[::-1, ::-1]
            elif a["layout"] == "slice3d":
                A3 = np.zeros((m, 3, n), order=("F" if m % 2 else "C"), dtype=M.dtype)
                A3[:, 1, :] = M
                M = A3[:, 1, :]
            elif a["layout"] == "T_of_C":
                M = np.array(M.T.tolist(), dtype=M.dtype).T          # A.T of a C-ordered literal
            elif a["layout"] in ("kfactor", "kfactor_nocopy"):
                # a factor matrix of a Kruskal tensor as pyttb stores it (the constructor keeps F-ordered copies)
                other = np.ones((2, n))
                K = (ttb.ktensor([np.asfortranarray(M.astype(float)), np.asfortranarray(other)], np.ones(n), copy=False)
                     if a["layout"] == "kfactor_nocopy" else ttb.ktensor([M.astype(float), other], np.ones(n)))
                M = K.factor_matrices[0]
            elif a["layout"] == "tenmat_double":
                M = ttb.tensor(M.astype(float)).to_tenmat(np.array([0])).double()     # the unfolding of a 2-way tensor
            elif a["layout"] == "tensor_double":
                M = ttb.tensor(M.astype(float)).double()
            elif a["layout"] == "double_slice":
                A3 = np.zeros((m, n, 2))
                A3[:, :, 1] = M
                M = ttb.tensor(A3).double()[:, :, 1]                 # a frontal slice of a 3-way tensor's array
            if M.shape != (m, n) or M.dtype != np.dtype(a.get("dtype") or "float64") or \
                    any(f2b(float(M[i, j])) != a["rows"][i][j] for i in range(m) for j in range(n)):
                return {"skip": "the layout route did not hand out the matrix (shape / element type / entries)"}
            obj = M
            nd = m * n
        elif c.op == "ndarray":
            M = _arr(np, a["cbits"], tuple(a["shape"]), "C").copy()
            if a.get("dtype"):
                M = M.astype(a["dtype"])
            obj = _relayout(np, M, a["layout"])
            nd = len(a["cbits"])
            if obj.shape != M.shape or obj.dtype != M.dtype or [f2b(float(x)) for x in obj.flat] != [f2b(float(x)) for x in M.flat]:
                return {"skip": "the layout route did not hand out the array (shape / element type / entries)"}
        else:
            raise ValueError(c.op)
        if a.get("dtype") and _dtype_lost(np, ttb, obj, a):
            return {"skip": "the object does not hold the requested element type"}
        if a.get("hist"):
            # the object as it is just before export_data, read entry by entry with plain indexing (no ravel / reshape)
            pre = _pre(np, ttb, obj)
            if c.op == "sptensor":
                nd = len(pre["subs"])
        if a.get("fmt_data") or a.get("fmt_weights"):
            ttb.export_data(obj, path, fmt_data=a.get("fmt_data"), fmt_weights=a.get("fmt_weights"))
        else:
            ttb.export_data(obj, path)
        text = open(path).read()
        lines = tokenize(text)
        lines1 = lines
        text_ok = True
        for ln in lines:
            for t in ln:
                if t[0] == "n":
                    if t[2] != "%.16e" % b2f(t[1]) and not (a.get("fmt_data") or a.get("fmt_weights")):
                        text_ok = False
                        _STATS["text_mismatch"] += 1
        one_based = True
        if base != 1:
            # the same file with another index base: shift the subscripts of the entry lines, nothing else
            raw = text.split("\n")
            for k in range(4, 4 + nd):
                parts = raw[k].split(" ")
                parts[:-1] = [str(int(p) - 1 + base) for p in parts[:-1]]
                raw[k] = " ".join(parts)
            with open(path, "w") as fh:
                fh.write("\n".join(raw))
            lines = tokenize(open(path).read())
        got = ttb.import_data(path) if base == 1 else ttb.import_data(path, index_base=base)
        _STATS["files"] += 1
        _STATS["doubles"] += nd
        _explain()
        o = {"lines": [[t[:2] for t in ln] for ln in lines], "lines1": None if base == 1 else [[t[:2] for t in ln] for ln in lines1], "text_ok": text_ok}
        o.update(_describe(np, ttb, got))
        if pre is not None:
            o["pre"] = pre
            o["post"] = _pre(np, ttb, obj)       # export_data must not change the object it writes
        return o
    except Exception as ex:
        return {"exc": type(ex).__name__, "msg": str(ex)[:300]}
    finally:
        shutil.rmtree(d, ignore_errors=True)


def _relayout(np, M, layout):
    """the same logical array in another memory layout"""
    if M.ndim == 0:
        if layout == "view0":
            return np.array([0.0, float(M), 0.0])[1:2].reshape(())      # a 0-d VIEW into a longer buffer
        return M
    if layout == "F":
        return np.asfortranarray(M)
    if layout in ("tensor_double", "tensor_double_nocopy"):
        # the array a dense tensor built by pyttb hands out (F-ordered)
        import pyttb as ttb
        return (ttb.tensor(np.asfortranarray(M), copy=False) if layout == "tensor_double_nocopy" else ttb.tensor(M)).double()
    if layout == "factor_column":
        import pyttb as ttb
        F = np.zeros((M.shape[0], 3))
        F[:, 1] = M
        return ttb.ktensor([F, np.ones((2, 3))], np.ones(3)).factor_matrices[0][:, 1]
    if layout == "strided":
        big = np.zeros([2 * d + 1 for d in M.shape], order="F", dtype=M.dtype)
        view = big[tuple(slice(1, None, 2) for _ in M.shape)]
        view[...] = M
        return view
    if layout == "transposed_view":
        return np.ascontiguousarray(M.transpose()).transpose()
    if layout == "negstride":
        rev = tuple(slice(None, None, -1) for _ in M.shape)
        return np.ascontiguousarray(M[rev])[rev]
    return np.ascontiguousarray(M)


def _build_tensor(np, ttb, a):
    shape = tuple(a["shape"])
    if not shape:
        return ttb.tensor()            # the only dense tensor without modes (no entry)
    X = _arr(np, a["bits"], shape, "F")
    h = a.get("hist")
    if not h:
        return ttb.tensor(X.copy(order="F"), shape)
    if h == "dtype":
        return ttb.tensor(X.astype(a["dtype"]))
    if h == "ctor_C":
        return ttb.tensor(np.ascontiguousarray(X))
    if h == "ctor_nocopy":
        return ttb.tensor(np.ascontiguousarray(X), copy=False)
    if h == "grown_elem":
        T0 = ttb.tensor(X[tuple(slice(0, d) for d in a["from"])].copy(order="F"))
        last = tuple(d - 1 for d in shape)
        T0[last] = X[last]                       # beyond the current sizes: pyttb re-allocates (zero padding)
        return T0
    if h == "grown_block":
        j, f = a["grow_mode"], a["grow_from"]
        T0 = ttb.tensor(X[tuple(slice(0, f if n == j else d) for n, d in enumerate(shape))].copy(order="F"))
        if a["int_key"] and f == shape[j] - 1:
            key = tuple(f if n == j else slice(None) for n, d in enumerate(shape))
        else:
            key = tuple(slice(f, d) if n == j else slice(0, d) for n, d in enumerate(shape))
        T0[key] = X[key]
        return T0
    if h == "permute_back":
        q = a["perm"]
        T0 = ttb.tensor(np.transpose(X, q).copy())
        return T0.permute(np.argsort(q))
    obj = ttb.tensor(X.copy(order="F"), shape)
    obj.data = _relayout(np, X, {"assign_C": "C", "assign_strided": "strided", "assign_negstride": "negstride"}[h])
    return obj


def _build_sptensor(np, ttb, a):
    shape = tuple(a["shape"])
    nz = len(a["subs"])
    h = a.get("hist")
    if not nz:
        return ttb.sptensor(shape=shape)
    subs = np.array(a["subs"], dtype=int).reshape((nz, len(shape)))
    vals = _arr(np, a["bits"], (nz, 1)).copy()
    if h == "vals_dtype":
        return ttb.sptensor(subs, vals.astype(a["dtype"]), shape)
    if h == "ctor_nocopy":
        return ttb.sptensor(np.asfortranarray(subs), vals, shape, copy=False)
    S = ttb.sptensor(subs, vals, shape)
    if h == "edit_vals":
        for j, b in a["edits"]:
            S.vals[j, 0] = b2f(b)
    elif h == "assign_layout":
        S.subs = _relayout(np, S.subs, "F" if nz % 2 else "strided")
        S.vals = _relayout(np, S.vals, "strided")
    elif h == "minus_self":
        S = S - S
    elif h == "scaled":
        S = S * 2.0
    return S


def _build_ktensor(np, ttb, a):
    R = len(a["weights"])
    if not a["factors"]:
        return ttb.ktensor()           # the only Kruskal tensor without modes (no weight, no factor)
    facs = [_arr(np, [b for row in f for b in row], (len(f), R)).copy() for f in a["factors"]]
    w = _arr(np, a["weights"]).copy()
    h = a.get("hist")
    if h == "ctor_nocopy":
        return ttb.ktensor(facs, w, copy=False)
    K = ttb.ktensor(facs, w)
    if not h:
        return K
    if h in ("assign_C", "assign_C_some", "assign_strided"):
        for n in range(len(facs)):
            if h == "assign_C" or a["which"][n]:
                K.factor_matrices[n] = _relayout(np, facs[n], "strided" if h == "assign_strided" else "C")
    elif h == "normalize_all":
        K.normalize(weight_factor="all")
    elif h == "normalize_k":
        K.normalize(weight_factor=a["mode"])
    elif h == "normalize_sort":
        K.normalize(sort=True)
        K.normalize(weight_factor=a["mode"])
    elif h == "redistribute":
        K.redistribute(a["mode"])
    elif h == "arrange":
        K.arrange()
    elif h == "assign_dtype":
        if a["wdtype"] != "float64":
            K.weights = w.astype(a["wdtype"])
        for n in range(len(facs)):
            if a["which"][n]:
                K.factor_matrices[n] = facs[n].astype(a["dtype"])
    elif h == "weights_strided":
        K.weights = _relayout(np, w, "strided")
        K.factor_matrices[a["mode"]] = _relayout(np, facs[a["mode"]], "negstride")
    return K


def _dtype_lost(np, ttb, obj, a):
    want = np.dtype(a["dtype"])
    if isinstance(obj, ttb.tensor):
        return obj.data.dtype != want
    if isinstance(obj, ttb.sptensor):
        return obj.vals.dtype != want
    if isinstance(obj, ttb.ktensor):
        return not any(f.dtype == want for f in obj.factor_matrices)
    return obj.dtype != want


def _pre(np, ttb, obj):
    if isinstance(obj, ttb.tensor):
        shp = [int(x) for x in obj.shape]
        return {"shape": shp, "data_shape": [int(x) for x in obj.data.shape],
                "bits": [f2b(float(obj.data[tuple(s_)])) for s_ in tgen.all_subs(shp)]}
    if isinstance(obj, ttb.sptensor):
        nz = int(obj.subs.shape[0]) if obj.subs.size else 0
        N = len(obj.shape)
        return {"shape": [int(x) for x in obj.shape], "subs": [[int(obj.subs[k, j]) for j in range(N)] for k in range(nz)],
                "bits": [f2b(float(obj.vals[k, 0])) for k in range(nz)]}
    if isinstance(obj, ttb.ktensor):
        R = int(obj.weights.shape[0])
        return {"weights": [f2b(float(obj.weights[r])) for r in range(R)],
                "factors": [[[f2b(float(f[i, r])) for r in range(R)] for i in range(f.shape[0])] for f in obj.factor_matrices]}
    return None


def _describe(np, ttb, got):
    o = {"type": type(got).__name__}
    if True:
        if isinstance(got, ttb.tensor):
            o["shape"] = [int(x) for x in got.shape]
            o["bits"] = _bits(np, got.data, "F")
            o["data_shape"] = [int(x) for x in got.data.shape]
        elif isinstance(got, ttb.sptensor):
            o["shape"] = [int(x) for x in got.shape]
            o["subs"] = [] if got.subs.size == 0 else [[int(x) for x in r] for r in got.subs]
            o["bits"] = [] if got.vals.size == 0 else _bits(np, got.vals)
            o["nnz"] = int(got.nnz)
        elif isinstance(got, ttb.ktensor):
            o["weights"] = _bits(np, got.weights)
            o["factors"] = [[_bits(np, row) for row in f] for f in got.factor_matrices]
            o["shape"] = [int(x) for x in got.shape]
        elif isinstance(got, np.ndarray):
            o["mshape"] = [int(x) for x in got.shape]
            o["rows"] = [_bits(np, row) for row in got] if got.ndim == 2 else None
            o["cbits"] = _bits(np, got, "C")
    return o


# ---------------------------------------------------------------- Gallina
def gzl(l):
    return "(@nil Z)" if not l else "[" + "; ".join(str(int(x)) for x in l) + "]%Z"


def gzm(m):
    return "(@nil (list Z))" if not m else "[" + "; ".join(gzl(r) for r in m) + "]"


def gtok(t):
    if t[0] == "w":
        assert re.match(r"^[A-Za-z_]+$", t[1])
        return f'(Word "{t[1]}"%string)'
    if t[0] == "i":
        return f"(Int {gz(t[1])})"
    return f"(Num {gz(t[1])})"


def glines(lines):
    def gl(ln):
        return "(@nil ztoken)" if not ln else "[" + "; ".join(gtok(t) for t in ln) + "]"
    return "(@nil (list ztoken))" if not lines else "[" + "; ".join(gl(ln) for ln in lines) + "]"


def _rnd(fmt, b):
    """float(fmt % v) as a bit pattern — Python's own formatting and parsing, independent of numpy's tofile/fromfile"""
    return f2b(float(fmt % b2f(b))) if fmt else b


def _rounded_args(c):
    """the object a non-default format is expected to give back: every value replaced by float(fmt % value)"""
    a = dict(c.args)
    fd, fw = a.get("fmt_data"), a.get("fmt_weights")
    if c.op in ("tensor", "sptensor"):
        a["bits"] = [_rnd(fd, b) for b in a["bits"]]
    elif c.op == "ktensor":
        a["weights"] = [_rnd(fw, b) for b in a["weights"]]
        a["factors"] = [[[_rnd(fd, b) for b in row] for row in f] for f in a["factors"]]
    elif c.op == "matrix":
        a["rows"] = [[_rnd(fd, b) for b in row] for row in a["rows"]]
    elif c.op == "ndarray":
        a["cbits"] = [_rnd(fd, b) for b in a["cbits"]]
    return Case(c.op, a, c.nontrivial)


def gspz(shape, subs, bits):
    return f"(mkSpz {gzl(shape)} {gzm(subs)} {gzl(bits)})"


def _ref_case(c, o):
    """the object export_data was given: the generated one, or (after a history) the one observed just before export"""
    pre = (o or {}).get("pre")
    if not pre:
        return c
    a = dict(c.args)
    a.update(pre)
    return Case(c.op, a, c.nontrivial)


def gobj_in(c):
    a = c.args
    if c.op == "tensor":
        return f"(OTensor (mkDense {gnlist(a['shape'])} {gzl(a['bits'])}))"
    if c.op == "sptensor":
        return f"(OSptensor (mkSp {gnlist(a['shape'])} {gnmat(a['subs'])} {gzl(a['bits'])}))"
    if c.op == "ktensor":
        return f"(OKtensor (mkK {gzl(a['weights'])} [" + "; ".join(gzm(f) for f in a["factors"]) + "]))"
    if c.op == "ndarray":
        return f"(OArray {gnlist(a['shape'])} {gzl(a['cbits'])})"
    return f"(OMatrix {a['m']} {a['n']} {gzm(a['rows'])})"


def gobj_out(o):
    t = o["type"]
    if any(x < 0 for x in (o.get("shape") or []) + (o.get("mshape") or [])):
        return None
    if t == "tensor":
        if isinstance(o["bits"], dict) or o["data_shape"] != (o["shape"] or [0]):
            return None                  # (the tensor without modes keeps the 1-d array of length 0)
        return f"(OTensor (mkDense {gnlist(o['shape'])} {gzl(o['bits'])}))"
    if t == "sptensor":
        if isinstance(o["bits"], dict) or o["nnz"] != len(o["subs"]) or any(x < 0 for r in o["subs"] for x in r):
            return None
        return f"(OSptensor (mkSp {gnlist(o['shape'])} {gnmat(o['subs'])} {gzl(o['bits'])}))"
    if t == "ktensor":
        if isinstance(o["weights"], dict) or any(isinstance(r, dict) for f in o["factors"] for r in f):
            return None
        return f"(OKtensor (mkK {gzl(o['weights'])} [" + "; ".join(gzm(f) for f in o["factors"]) + "]))"
    if t == "ndarray" and len(o["mshape"]) != 2:
        if isinstance(o["cbits"], dict):
            return None
        return f"(OArray {gnlist(o['mshape'])} {gzl(o['cbits'])})"
    if t == "ndarray":
        if o["rows"] is None or len(o["mshape"]) != 2 or any(isinstance(r, dict) for r in o["rows"]):
            return None
        return f"(OMatrix {o['mshape'][0]} {o['mshape'][1]} {gzm(o['rows'])})"
    return None


def coq_check(c, o):
    if c.op == "wsfile":
        b = gz(c.args["base"])
        if "exc" in o:
            return f"c16_text_ok {b} {gatoms(o['atoms'])} None"
        got = gobj_out(o)
        return "false" if got is None else f"c16_text_ok {b} {gatoms(o['atoms'])} (Some {got})"
    if c.op == "badfile":
        b = gz(c.args["base"])
        if "exc" in o:
            return f"c16_lines_ok {b} {glines(o['lines'])} None"
        got = gobj_out(o)
        if got is None:
            return "false"           # e.g. negative subscripts stored (C19-N14): not an object of the model
        return f"c16_lines_ok {b} {glines(o['lines'])} (Some {got})"
    if "skip" in o:
        return None
    if "exc" in o:
        return "false"
    if c.op == "sptensor_big":
        if o["type"] != "sptensor" or isinstance(o["bits"], dict) or o["nnz"] != len(o["subs"]) or not o["text_ok"]:
            return "false"
        a = c.args
        e = (f"c16_big_case {gz(a['base'])} {gspz(a['shape'], a['subs'], a['bits'])} {glines(o['lines'])} "
             f"{gspz(o['shape'], o['subs'], o['bits'])}")
        if o.get("lines1") is not None:
            e += f" && lines_eqb (zexport_spz 1%Z {gspz(a['shape'], a['subs'], a['bits'])}) {glines(o['lines1'])}"
        return e
    if c.args.get("fmt_data") or c.args.get("fmt_weights"):
        # non-default formats: same layout, values rounded by the format (what is read back is the rounded object)
        got = gobj_out(o)
        if got is None:
            return "false"
        return f"c16_case 1%Z {gobj_in(_rounded_args(c))} {glines(o['lines'])} {got}"
    got = gobj_out(o)
    if got is None or not o["text_ok"]:
        return "false"
    if o.get("pre") is not None:
        if o["pre"] != o["post"]:
            return "false"       # export_data changed the object it was given
        if any(((b >> 52) & 0x7FF) == 0x7FF for b in _all_bits(o["pre"])):
            return None          # the history overflowed: not a finite object
        c = _ref_case(c, o)
    base = c.args.get("base", 1)
    e = f"c16_case {gz(base)} {gobj_in(c)} {glines(o['lines'])} {got}"
    if o.get("lines1") is not None:      # the file pyttb itself wrote (base 1), before the harness re-based it
        e += f" && c16_file_ok 1%Z {gobj_in(c)} {glines(o['lines1'])}"
    return e


def _all_bits(pre):
    out = list(pre.get("bits") or []) + list(pre.get("weights") or [])
    for f in pre.get("factors") or []:
        for row in f:
            out += row
    return out


# ---------------------------------------------------------------- brute-force oracle (pure Python)
def oracle(c, o):
    a = c.args
    if c.op in ("badfile", "wsfile"):
        return None          # the property does not speak about malformed files; the model's verdict is the reference
    if a.get("fmt_data") or a.get("fmt_weights"):
        a = _rounded_args(c).args
    if "exc" in o:
        return f"export/import of an admissible object raised {o['exc']}: {o.get('msg')}"
    if o.get("pre") is not None:
        if o["pre"] != o["post"]:
            return "export_data changed the object it was given"
        a = _ref_case(c, o).args
    if "exc" in o:
        return f"export/import of an admissible object raised {o['exc']}: {o.get('msg')}"
    want_type = {"tensor": "tensor", "sptensor": "sptensor", "sptensor_big": "sptensor", "ktensor": "ktensor", "matrix": "ndarray",
                 "ndarray": "ndarray"}[c.op]
    if o["type"] != want_type:
        return f"type changed: {want_type} -> {o['type']}"
    if c.op == "tensor":
        if o["shape"] != a["shape"] or o["bits"] != a["bits"]:
            return "dense tensor not reproduced bit-for-bit"
    elif c.op in ("sptensor", "sptensor_big"):
        if o["shape"] != a["shape"] or o["subs"] != a["subs"] or o["bits"] != a["bits"]:
            return "sparse tensor (subscripts, their order, values) not reproduced"
        if a["base"] == 1:
            for k, s in enumerate(a["subs"]):
                ln = o["lines"][4 + k]
                if [t[1] for t in ln[:-1]] != [x + 1 for x in s]:
                    return "file does not carry 1-based subscripts"
    elif c.op == "ktensor":
        if o["weights"] != a["weights"] or o["factors"] != a["factors"]:
            return "Kruskal tensor (weights, factor matrices) not reproduced"
    elif c.op == "matrix":
        if o["mshape"] != [a["m"], a["n"]] or o["rows"] != a["rows"]:
            return "matrix not reproduced"
    elif c.op == "ndarray":
        if o["mshape"] != a["shape"] or o["cbits"] != a["cbits"]:
            return "array (shape, C-order listing) not reproduced"
    return None


# ---------------------------------------------------------------- known findings
# none open: C16-N1 (20317ef), C16-N2 (b512e35), C16-N3 (a0b5a3f), C16-N4 (dda4ae2) and C19-N14 are repaired in /repo; the model
# follows the repaired code and the former witness inputs are ordinary cases of gen_cases (rank-0 Kruskal tensors, order-0
# objects, the CR LF rank-0 file, uint8 subscript 255, the 1-based file read with index_base 2)
TRIGGERS = {}
WITNESSES = {}
