(* Proofs/W4KtensorVecLaws.v — laws of the GENERATED ktensor.tovec / ktensor.update (Gen/GenKtensor4.v) through the bridges
   of Proofs/W4KtensorVec.v: tovec computes the hand model k_tovec of Model/C08Kruskal.v and is total on well-formed
   tensors; update rejects unsorted modes, replaces the weights for mode -1, is the identity for no modes. *)
From Coq Require Import List ZArith Arith Bool Lia.
From PV Require Import Base.Index Base.Perm Np.NpZ Np.NpZ2 Np.NpZ3 Np.NpZ3c Np.NpZ3d Np.NpZ3e Np.NpZ4 Proofs.NpZProofs Model.Repr
  Model.C08Kruskal Model.W4Ktensor Model.W4KtensorVec Proofs.W4Loops Proofs.W4Slices Proofs.W4KtensorVec Gen.GenKtensor4.
Import ListNotations.
Local Open Scope Z_scope.

Lemma np_col_is_col (f : mat) (r : nat) : np_col f (Z.of_nat r) = col 0 f r.
Proof. unfold np_col, col. apply map_ext. intros row. apply znth_nat. Qed.

Lemma H_vec_factor_model (R : nat) (f : mat) : H_vec_factor (Z.of_nat R) f = vec_factor 0 R f.
Proof.
  unfold H_vec_factor, vec_factor, cols. rewrite w4_np_arange_0, map_map. f_equal. apply map_ext. intros r. apply np_col_is_col.
Qed.

Theorem gen_tovec_model (self : ktz) (incl : bool) (v : vec) :
  ktensor_tovec self incl = Ok v -> v = k_tovec 0 incl (to_K self).
Proof.
  rewrite tovec_bridge. unfold H_tovec. destruct (H_cols_ok self); [|discriminate]. intros E. injection E as <-.
  unfold k_tovec, to_K, krank. cbn [kweights kfactors]. f_equal. f_equal. apply map_ext. intros f. unfold zlen. apply H_vec_factor_model.
Qed.

(* on a well-formed tensor (every row of every factor has one entry per weight) tovec does not raise *)
Theorem gen_tovec_total (self : ktz) (incl : bool) :
  (forall f row, In f (kt_factors self) -> In row f -> zlen row = zlen (kt_weights self)) ->
  ktensor_tovec self incl = Ok (k_tovec 0 incl (to_K self)).
Proof.
  intros Hwf. assert (C : H_cols_ok self = true).
  { unfold H_cols_ok. apply forallb_forall. intros f Hf. apply forallb_forall. intros r Hr. apply in_np_arange in Hr.
    unfold np_col_ok. apply forallb_forall. intros row Hrow. apply w4_idx_ok_range. rewrite (Hwf f row Hf Hrow). lia. }
  destruct (ktensor_tovec self incl) as [v|] eqn:E.
  - f_equal. now apply gen_tovec_model.
  - rewrite tovec_bridge in E. unfold H_tovec in E. rewrite C in E. discriminate.
Qed.

Lemma zlen_cols_concat (f : mat) (l : vec) : zlen (concat (map (fun r => np_col f r) l)) = zlen l * np_nrows f.
Proof.
  induction l as [|r l IH]; cbn [map concat]; [reflexivity|]. rewrite zlen_app, zlen_np_col, IH, zlen_cons. lia.
Qed.

Theorem gen_tovec_length (self : ktz) (incl : bool) (v : vec) :
  (forall f row, In f (kt_factors self) -> In row f -> zlen row = zlen (kt_weights self)) ->
  ktensor_tovec self incl = Ok v ->
  zlen v = zlen (kt_weights self) * (zsum (kt_shape self) + (if incl then 1 else 0)).
Proof.
  intros Hwf E. rewrite tovec_bridge in E. unfold H_tovec in E. destruct (H_cols_ok self); [|discriminate]. injection E as <-.
  set (R := zlen (kt_weights self)). assert (HR : 0 <= R) by apply zlen_nonneg.
  assert (L : forall fs, zlen (concat (map (H_vec_factor R) fs)) = R * zsum (map np_nrows fs)).
  { induction fs as [|f fs IH]; cbn [map concat]; [unfold zsum; cbn; lia|].
    rewrite zlen_app, IH. change (zsum (np_nrows f :: map np_nrows fs)) with (np_nrows f + zsum (map np_nrows fs)).
    assert (Lf : zlen (H_vec_factor R f) = R * np_nrows f)
      by (unfold H_vec_factor; rewrite zlen_cols_concat, zlen_arange by exact HR; reflexivity).
    rewrite Lf. lia. }
  rewrite zlen_app, L. unfold kt_shape. destruct incl; [fold R|unfold zlen at 1; cbn [length]]; lia.
Qed.

(* ---- update ---- (two-pass text of /repo b9311d6) *)
Lemma zlen_ltb_0 {A} (l : list A) : (zlen l <? 0) = false.
Proof. apply Z.ltb_ge. apply zlen_nonneg. Qed.

Theorem gen_update_nil (self : ktz) (data : vec) : ktensor_update self [] data = Ok self.
Proof. rewrite update_bridge. unfold H_update. cbn [asc H_needed bind]. rewrite zlen_ltb_0. reflexivity. Qed.

Theorem gen_update_rejects_unsorted (self : ktz) (modes data : vec) : asc modes = false -> ktensor_update self modes data = Err.
Proof. intros H. rewrite update_bridge. unfold H_update. now rewrite H. Qed.

(* asc is STRICT since b9311d6: a repeated mode is rejected as well *)
Lemma asc_false_iff_descent (l : vec) : asc l = false <-> exists pre x y post, l = pre ++ x :: y :: post /\ y <= x.
Proof.
  split.
  - induction l as [|x l IH]; [discriminate|]. destruct l as [|y t]; [discriminate|]. cbn [asc].
    destruct (Z.ltb_spec x y) as [H|H]; cbn [andb].
    + intros E. destruct (IH E) as (pre & a & b & post & -> & Hab). exists (x :: pre), a, b, post. split; [reflexivity|exact Hab].
    + intros _. exists [], x, y, t. split; [reflexivity|exact H].
  - intros (pre & x & y & post & -> & H). induction pre as [|a pre IH]; cbn [app asc].
    + replace (x <? y) with false by (symmetry; apply Z.ltb_ge; exact H). reflexivity.
    + destruct (pre ++ x :: y :: post) eqn:E; [destruct pre; discriminate|]. rewrite IH. apply andb_false_r.
Qed.

(* mode -1: the weights become the first R entries of the data, the factors stay *)
Theorem gen_update_weights (self : ktz) (data : vec) : zlen (kt_weights self) <= zlen data ->
  ktensor_update self [-1] data = Ok (mkkt (firstn (length (kt_weights self)) data) (kt_factors self)).
Proof.
  intros H. rewrite update_bridge. unfold H_update, H_needed, H_need_step, H_update_loop, H_update_step, H_chunk. cbn [asc fst snd bind].
  replace (-1 =? -1) with true by reflexivity. cbn [bind].
  replace (zlen data <? 0 + zlen (kt_weights self)) with false by (symmetry; apply Z.ltb_ge; lia).
  cbn [bind fst]. unfold kt_set_weights. f_equal. f_equal.
  rewrite py_slice_in by (pose proof (zlen_nonneg (kt_weights self)); lia).
  cbn [Z.to_nat skipn]. f_equal. unfold zlen. lia.
Qed.

(* one factor: F-order reshape of the first m * R entries of the data *)
Theorem gen_update_factor (self : ktz) (k : nat) (data : vec) : (k < length (kt_factors self))%nat ->
  let m := np_nrows (nth k (kt_factors self) []) in let R := zlen (kt_weights self) in
  m * R <= zlen data ->
  ktensor_update self [Z.of_nat k] data =
  Ok (mkkt (kt_weights self) (upd (kt_factors self) k (np_reshape2 OrdF (firstn (Z.to_nat (m * R)) data) m R))).
Proof.
  intros Hk m R H. subst m R. rewrite update_bridge. unfold H_update, H_needed, H_need_step, H_update_loop, H_update_step, H_chunk. cbn [asc fst snd bind].
  replace (Z.of_nat k =? -1) with false by (symmetry; apply Z.eqb_neq; lia).
  replace (0 <=? Z.of_nat k) with true by (symmetry; apply Z.leb_le; lia).
  replace (Z.of_nat k <? zlen (kt_factors self)) with true by (symmetry; apply Z.ltb_lt; unfold zlen; lia).
  cbn [andb bind].
  rewrite w4_idx_ok_nat. replace (k <? length (kt_factors self))%nat with true by (symmetry; apply Nat.ltb_lt; exact Hk).
  rewrite znth_nat. set (m := np_nrows (nth k (kt_factors self) [])) in *. set (R := zlen (kt_weights self)) in *.
  match goal with |- context [zlen data <? 0 + ?mm * _] => assert (Em : mm = m) by reflexivity; rewrite !Em; clear Em end.
  assert (Hm : 0 <= m) by apply zlen_nonneg. assert (HR : 0 <= R) by apply zlen_nonneg.
  replace (zlen data <? 0 + m * R) with false by (symmetry; apply Z.ltb_ge; lia).
  rewrite py_slice_in by nia. cbn [Z.to_nat skipn]. replace (0 + m * R - 0) with (m * R) by lia.
  assert (Ok_ : np_reshape2_ok (firstn (Z.to_nat (m * R)) data) m R = true).
  { unfold np_reshape2_ok. apply andb_true_intro. split; [apply andb_true_intro; split; apply Z.leb_le; lia|].
    apply Z.eqb_eq. unfold zlen in *. rewrite firstn_length. nia. }
  rewrite Ok_. cbn [bind fst]. unfold kt_set_factor. now rewrite w4_np_set_nat.
Qed.
