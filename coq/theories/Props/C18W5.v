(* Props/C18W5.v — C18 wave 5: the printing / verbosity clause stated over the translator-GENERATED control-flow skeletons of the drivers
   (Gen/GenCpAls.v, GenTuckerAls.v, GenCpAprMu.v, GenSolver.v, GenHosvd.v: tools/pyx2v_skel.py regenerates them from /repo on every
   run; all numeric kernels are arbitrary).  The generated function's result - model, start, iteration count, fit, traces, world, or
   the exception - is the same for any two printing settings; for cp_als the one printing branch that assigns (final fit
   recomputation, A-43) is characterised exactly; for hosvd and tucker_als the hand-written print drivers of Proofs/C18Print.v (with the
   printed events) are bridged to the generated loops for every verbosity.  Trusted: the translator's drop rule for the ARGUMENTS of
   print calls (checked syntactically on every run: tools/props/c18_static.py, op print.static).
   Only statements, `exact`, Print Assumptions. *)
From Coq Require Import String List Arith Bool ZArith.
From PV Require Import Model.W4SPrelude Gen.GenCpAls Gen.GenTuckerAls Gen.GenCpAprMu Gen.GenSolver Gen.GenHosvd
  Model.C10Tucker Proofs.W4SHosvd Proofs.C18Print Proofs.C18GenPrint Proofs.C18GenPrintHosvd Proofs.C18GenPrintTucker.
Import ListNotations.
Local Open Scope nat_scope.

(* ---------------------------------------------------------------------------------------------- tucker_als *)
Section C18W5_tucker.
Variables T_F T_Mat T_X T_TT : Type.
Variable c_leF : T_F -> T_F -> bool.
Variable c_zeroF : T_F.
Variable k_ttm_excl : T_X -> list T_Mat -> nat -> bool -> T_X.
Variable k_nvecs : T_X -> nat -> nat -> T_Mat.
Variable k_ttm_core : T_X -> list T_Mat -> nat -> bool -> T_X.
Variable k_resid : T_F -> T_X -> T_F.
Variable k_fit : T_F -> T_F -> T_F.
Variable k_absdiff : T_F -> T_F -> T_F.
Variable k_ttensor : T_X -> list T_Mat -> bool -> T_TT.
Notation gmain := (GenTuckerAls.tucker_als_main T_F T_Mat T_X T_TT c_leF c_zeroF k_ttm_excl k_nvecs k_ttm_core k_resid k_fit k_absdiff k_ttensor).

(* generated tucker_als main part: (solution, Uinit, (iters, normresidual, fit)) or the exception - the same for any two printitn *)
Theorem C18_gen_print_tucker_als : forall X Uinit normX rank dimorder maxiters stoptol (p1 p2 : nat),
  gmain X Uinit normX rank dimorder maxiters stoptol p1 = gmain X Uinit normX rank dimorder maxiters stoptol p2.
Proof. exact (gen_tucker_als_print_indep T_F T_Mat T_X T_TT c_leF c_zeroF k_ttm_excl k_nvecs k_ttm_core k_resid k_fit k_absdiff k_ttensor). Qed.

(* BRIDGE: the hand print driver tk_run (printitn any Python int, header + status lines as events) instantiated with the generated
   kernels returns, under every printitn, what the generated code returns *)
Theorem C18_gen_print_tucker_als_bridge : forall (X : T_X) (normX : T_F) (rank dimorder : list nat) (stoptol : T_F),
  dimorder <> [] ->
  forall (p : Z) (p' : nat) maxiters Uinit,
  (forall k, In k dimorder -> k < length Uinit /\ k < length rank) ->
  option_map (h_fin T_F T_Mat T_X T_TT k_ttensor)
    (fst (tk_run (list T_Mat) T_X T_F (g_sweep T_Mat T_X k_ttm_excl k_nvecs k_ttm_core X rank dimorder) (k_resid normX)
                 (fun nr => k_fit nr normX) k_absdiff (g_ltb T_F c_leF) c_zeroF stoptol p maxiters Uinit)) =
  option_map (fun '(sol, _, out) => (sol, out)) (gmain X Uinit normX rank dimorder maxiters stoptol p').
Proof. exact (tucker_print_bridge T_F T_Mat T_X T_TT c_leF c_zeroF k_ttm_excl k_nvecs k_ttm_core k_resid k_fit k_absdiff k_ttensor). Qed.
End C18W5_tucker.

Print Assumptions C18_gen_print_tucker_als.
Print Assumptions C18_gen_print_tucker_als_bridge.

(* ---------------------------------------------------------------------------------------------- cp_apr (MU) *)
Section C18W5_mu.
Variables T_W T_F T_Mat T_Mask T_K T_X T_Pi : Type.
Variable c_leF : T_F -> T_F -> bool.
Variable c_zeroF : T_F.
Variable c_m1F : T_F.
Variable c_subF : T_F -> T_F -> T_F.
Variable k_normalize : T_K -> nat -> T_K.
Variable k_zeros_like_factor : T_K -> nat -> T_Mat.
Variable k_time : T_W -> T_W * T_F.
Variable k_violation_mask : list T_Mat -> nat -> T_K -> T_F -> T_Mask.
Variable k_any : T_Mask -> bool.
Variable k_add_kappa : T_K -> nat -> T_Mask -> T_F -> T_K.
Variable k_redistribute : T_K -> nat -> T_K.
Variable k_calculate_pi : T_X -> T_K -> nat -> nat -> nat -> T_Pi.
Variable k_calculate_phi : T_W -> T_X -> T_K -> nat -> nat -> T_Pi -> T_F -> T_W * T_Mat.
Variable k_kkt_mode : T_K -> nat -> list T_Mat -> T_F.
Variable k_mult_update : T_K -> nat -> list T_Mat -> T_K.
Variable k_normalize_mode : T_K -> nat -> nat -> T_K.
Variable k_max : list T_F -> T_F.
Variable k_normalize_sort : T_K -> nat -> bool -> T_K.
Variable k_loglikelihood : T_X -> T_K -> T_F.
Notation gmu := (GenCpAprMu.cp_apr_mu T_W T_F T_Mat T_Mask T_K T_X T_Pi c_leF c_zeroF c_m1F c_subF k_normalize k_zeros_like_factor k_time
  k_violation_mask k_any k_add_kappa k_redistribute k_calculate_pi k_calculate_phi k_kkt_mode k_mult_update k_normalize_mode k_max
  k_normalize_sort k_loglikelihood).

(* generated tt_cp_apr_mu: (M, output, world) or the exception - the same for any two pairs (printitn, printinneritn) *)
Theorem C18_gen_print_cp_apr_mu : forall w X rank init stoptol stoptime maxiters maxinneriters epsDivZero kappa kappatol N (p1 q1 p2 q2 : nat),
  gmu w X rank init stoptol stoptime maxiters maxinneriters epsDivZero p1 q1 kappa kappatol N =
  gmu w X rank init stoptol stoptime maxiters maxinneriters epsDivZero p2 q2 kappa kappatol N.
Proof. exact (gen_cp_apr_mu_print_indep T_W T_F T_Mat T_Mask T_K T_X T_Pi c_leF c_zeroF c_m1F c_subF k_normalize k_zeros_like_factor k_time
  k_violation_mask k_any k_add_kappa k_redistribute k_calculate_pi k_calculate_phi k_kkt_mode k_mult_update k_normalize_mode k_max
  k_normalize_sort k_loglikelihood). Qed.
End C18W5_mu.

Print Assumptions C18_gen_print_cp_apr_mu.

(* ---------------------------------------------------------------------------------------------- StochasticSolver.solve *)
Section C18W5_solver.
Variables T_W T_M T_E T_Data T_FH T_LB T_Sampler T_Subs T_Vals T_Wgts T_G T_FM T_Step T_Crng : Type.
Variable c_leE : T_E -> T_E -> bool.
Variable c_zeroE : T_E.
Variable c_zeroStep : T_Step.
Variable k_GCPSampler : T_Data -> T_Sampler.
Variable k_function_sample : T_W -> T_Sampler -> T_Data -> T_W * (T_Subs * T_Vals * T_Wgts).
Variable k_estimate_f : T_M -> T_Subs -> T_Vals -> T_Wgts -> T_FH -> bool -> T_E.
Variable k_reset_state : T_W -> T_W.
Variable k_gradient_sample : T_W -> T_Sampler -> T_Data -> T_W * (T_Subs * T_Vals * T_Wgts).
Variable k_crng : T_Sampler -> T_Crng.
Variable k_estimate_g : T_W -> T_M -> T_Subs -> T_Vals -> T_Wgts -> option T_FH -> T_Crng -> T_FH -> bool -> T_W * T_G.
Variable k_any_inf : T_G -> bool.
Variable k_update_step : T_W -> nat -> T_M -> T_G -> T_LB -> T_W * (T_FM * T_Step).
Variable k_set_factor_matrices : T_M -> T_FM -> T_M.
Variable k_set_failed_epoch : T_W -> T_W.
Notation gsolve := (GenSolver.solve T_W T_M T_E T_Data T_FH T_LB T_Sampler T_Subs T_Vals T_Wgts T_G T_FM T_Step T_Crng c_leE c_zeroE
  c_zeroStep k_GCPSampler k_function_sample k_estimate_f k_reset_state k_gradient_sample k_crng k_estimate_g k_any_inf k_update_step
  k_set_factor_matrices k_set_failed_epoch).

(* generated StochasticSolver.solve: (model, info, nfails, best model, world) or the exception - the same for any two self._printitn *)
Theorem C18_gen_print_solver : forall w max_iters epoch_iters max_fails f_est_tol init data fh gh lb sampler (p1 p2 : nat),
  gsolve w max_iters epoch_iters max_fails f_est_tol p1 init data fh gh lb sampler =
  gsolve w max_iters epoch_iters max_fails f_est_tol p2 init data fh gh lb sampler.
Proof. exact (gen_solver_print_indep T_W T_M T_E T_Data T_FH T_LB T_Sampler T_Subs T_Vals T_Wgts T_G T_FM T_Step T_Crng c_leE c_zeroE
  c_zeroStep k_GCPSampler k_function_sample k_estimate_f k_reset_state k_gradient_sample k_crng k_estimate_g k_any_inf k_update_step
  k_set_factor_matrices k_set_failed_epoch). Qed.
End C18W5_solver.

Print Assumptions C18_gen_print_solver.

(* ---------------------------------------------------------------------------------------------- cp_als *)
Section C18W5_cpals.
Variables T_F T_Mat T_UtU T_Wt T_K T_X : Type.
Variable c_leF : T_F -> T_F -> bool.
Variable c_zeroF : T_F.
Variable k_init_factors : T_K -> list T_Mat.
Variable k_restrict_dims : list nat -> list nat -> list nat.
Variable k_zeros_mttkrp : T_X -> list nat -> nat -> T_Mat.
Variable k_zeros_utu : nat -> nat -> T_UtU.
Variable k_set_gram : T_UtU -> nat -> list T_Mat -> T_UtU.
Variable k_ktensor_init : list T_Mat -> T_K -> T_K.
Variable k_innerprod : T_X -> T_K -> T_F.
Variable k_is_zero : T_F -> bool.
Variable k_resid0 : T_K -> T_F -> T_F.
Variable k_resid : T_F -> T_K -> T_F -> T_F.
Variable k_fit : T_F -> T_F -> T_F.
Variable k_mttkrp : T_X -> list T_Mat -> nat -> T_Mat.
Variable k_hadamard_others : T_UtU -> nat -> nat -> T_Mat.
Variable k_all_zero_mat : T_Mat -> bool.
Variable k_zeros_like : T_Mat -> T_Mat.
Variable k_solve : T_Mat -> T_Mat -> T_Mat.
Variable k_norm2_cols : T_Mat -> T_Wt.
Variable k_normmax_cols : T_Mat -> T_Wt.
Variable k_all_zero_wt : T_Wt -> bool.
Variable k_scale_cols : T_Mat -> T_Wt -> T_Mat.
Variable k_ktensor : list T_Mat -> T_Wt -> T_K.
Variable k_iprod : T_K -> list nat -> T_Mat -> T_Wt -> T_F.
Variable k_absdiff : T_F -> T_F -> T_F.
Variable k_arrange : T_K -> T_K.
Variable k_fixsigns : T_K -> T_K.
Notation gcp := (GenCpAls.cp_als_main T_F T_Mat T_UtU T_Wt T_K T_X c_leF c_zeroF k_init_factors k_restrict_dims k_zeros_mttkrp k_zeros_utu
  k_set_gram k_ktensor_init k_innerprod k_is_zero k_resid0 k_resid k_fit k_mttkrp k_hadamard_others k_all_zero_mat k_zeros_like k_solve
  k_norm2_cols k_normmax_cols k_all_zero_wt k_scale_cols k_ktensor k_iprod k_absdiff k_arrange k_fixsigns).
Notation REFIT := (refit T_F T_K T_X k_innerprod k_is_zero k_resid0 k_resid k_fit).
Notation WITH_PRINT := (with_print T_F T_K T_X k_innerprod k_is_zero k_resid0 k_resid k_fit).
Notation MODEL_PART := (model_part T_F T_K).

(* every run of the generated cp_als main part = the silent run, then - only when printitn > 0 - (normresidual, fit) replaced by the
   recomputation from innerprod on the returned model *)
Theorem C18_gen_print_cp_als_factor : forall X init normX N rank dimorder optdims maxiters stoptol (p : nat) fixsigns,
  gcp X init normX N rank dimorder optdims maxiters stoptol p fixsigns =
  option_map (WITH_PRINT X normX p) (gcp X init normX N rank dimorder optdims maxiters stoptol 0 fixsigns).
Proof. exact (gen_cp_als_print_factor T_F T_Mat T_UtU T_Wt T_K T_X c_leF c_zeroF k_init_factors k_restrict_dims k_zeros_mttkrp k_zeros_utu
  k_set_gram k_ktensor_init k_innerprod k_is_zero k_resid0 k_resid k_fit k_mttkrp k_hadamard_others k_all_zero_mat k_zeros_like k_solve
  k_norm2_cols k_normmax_cols k_all_zero_wt k_scale_cols k_ktensor k_iprod k_absdiff k_arrange k_fixsigns). Qed.

(* returned model, returned start, iteration count - or the exception - do not depend on printitn *)
Theorem C18_gen_print_cp_als_model : forall X init normX N rank dimorder optdims maxiters stoptol (p1 p2 : nat) fixsigns,
  option_map MODEL_PART (gcp X init normX N rank dimorder optdims maxiters stoptol p1 fixsigns) =
  option_map MODEL_PART (gcp X init normX N rank dimorder optdims maxiters stoptol p2 fixsigns).
Proof. exact (gen_cp_als_print_model T_F T_Mat T_UtU T_Wt T_K T_X c_leF c_zeroF k_init_factors k_restrict_dims k_zeros_mttkrp k_zeros_utu
  k_set_gram k_ktensor_init k_innerprod k_is_zero k_resid0 k_resid k_fit k_mttkrp k_hadamard_others k_all_zero_mat k_zeros_like k_solve
  k_norm2_cols k_normmax_cols k_all_zero_wt k_scale_cols k_ktensor k_iprod k_absdiff k_arrange k_fixsigns). Qed.

(* two printing intervals on the same side of 0: the whole result is the same *)
Theorem C18_gen_print_cp_als_interval : forall X init normX N rank dimorder optdims maxiters stoptol (p1 p2 : nat) fixsigns,
  (0 <? p1) = (0 <? p2) ->
  gcp X init normX N rank dimorder optdims maxiters stoptol p1 fixsigns =
  gcp X init normX N rank dimorder optdims maxiters stoptol p2 fixsigns.
Proof. exact (gen_cp_als_print_interval T_F T_Mat T_UtU T_Wt T_K T_X c_leF c_zeroF k_init_factors k_restrict_dims k_zeros_mttkrp k_zeros_utu
  k_set_gram k_ktensor_init k_innerprod k_is_zero k_resid0 k_resid k_fit k_mttkrp k_hadamard_others k_all_zero_mat k_zeros_like k_solve
  k_norm2_cols k_normmax_cols k_all_zero_wt k_scale_cols k_ktensor k_iprod k_absdiff k_arrange k_fixsigns). Qed.

(* silent vs printing: the whole result is the same when the recomputation on the returned model reproduces the loop's values *)
Theorem C18_gen_print_cp_als_fit : forall X init normX N rank dimorder optdims maxiters stoptol (p : nat) fixsigns M ini it nr fit,
  gcp X init normX N rank dimorder optdims maxiters stoptol 0 fixsigns = Some (M, ini, (it, nr, fit)) ->
  REFIT X normX M = (fit, nr) ->
  gcp X init normX N rank dimorder optdims maxiters stoptol p fixsigns = Some (M, ini, (it, nr, fit)).
Proof. exact (gen_cp_als_print_fit T_F T_Mat T_UtU T_Wt T_K T_X c_leF c_zeroF k_init_factors k_restrict_dims k_zeros_mttkrp k_zeros_utu
  k_set_gram k_ktensor_init k_innerprod k_is_zero k_resid0 k_resid k_fit k_mttkrp k_hadamard_others k_all_zero_mat k_zeros_like k_solve
  k_norm2_cols k_normmax_cols k_all_zero_wt k_scale_cols k_ktensor k_iprod k_absdiff k_arrange k_fixsigns). Qed.
End C18W5_cpals.

Print Assumptions C18_gen_print_cp_als_factor.
Print Assumptions C18_gen_print_cp_als_model.
Print Assumptions C18_gen_print_cp_als_interval.
Print Assumptions C18_gen_print_cp_als_fit.

(* ---------------------------------------------------------------------------------------------- hosvd *)
Section C18W5_hosvd.
Variables T_V T_Tensor T_Mat : Type.
Variable c_leV : T_V -> T_V -> bool.
Variable c_zeroV : T_V.
Variable c_addV : T_V -> T_V -> T_V.
Variable k_unfold : T_Tensor -> nat -> T_Mat.
Variable k_gram : T_Mat -> T_Mat.
Variable k_eigh : T_Mat -> list T_V * T_Mat.
Variable k_argsort_desc : list T_V -> list nat.
Variable k_take : list T_V -> list nat -> list T_V.
Variable k_select_cols : T_Mat -> list nat -> T_Mat.
Variable k_shrink : T_Tensor -> list T_Mat -> nat -> T_Tensor.
Notation gloop := (GenHosvd.hosvd_modes_loop1 T_V T_Tensor T_Mat c_leV c_zeroV c_addV k_unfold k_gram k_eigh k_argsort_desc k_take
  k_select_cols k_shrink).
Notation gmodes := (GenHosvd.hosvd_modes T_V T_Tensor T_Mat c_leV c_zeroV c_addV k_unfold k_gram k_eigh k_argsort_desc k_take
  k_select_cols k_shrink).
Notation HLOOP shrink1 ranks0 sq v t :=
  (hv_loop T_Tensor T_Mat (list T_Mat) T_V c_zeroV c_addV (lt_of c_leV)
           (g_eigs T_V T_Tensor T_Mat k_unfold k_gram k_eigh k_argsort_desc k_take)
           (g_lead T_V T_Tensor T_Mat k_unfold k_gram k_eigh k_argsort_desc k_take k_select_cols)
           (g_setf T_Mat) shrink1 (g_ranks ranks0) sq v t).

(* BRIDGE: for EVERY verbosity (any Python int) the hand print driver's mode loop (with the `verbosity > 5` print as an event)
   instantiated with the generated kernels returns the generated loop's (Y, factor_matrices) - or its IndexError *)
Theorem C18_gen_print_hosvd_bridge : forall (shrink1 : T_Tensor -> nat -> T_Mat -> T_Tensor),
  (forall Y fm k U, nth_error fm k = Some U -> k_shrink Y fm k = shrink1 Y k U) ->
  forall (v : Z) t sq dimorder Y fm ranks0,
  NoDup dimorder -> (forall k, In k dimorder -> k < length fm) -> (forall k, In k dimorder -> k < length ranks0) ->
  fst (HLOOP shrink1 ranks0 sq v t dimorder Y fm) = drop_ranks T_Tensor T_Mat (gloop t sq dimorder (Y, fm, ranks0)).
Proof. exact (hosvd_print_bridge T_V T_Tensor T_Mat c_leV c_zeroV c_addV k_unfold k_gram k_eigh k_argsort_desc k_take k_select_cols k_shrink). Qed.

(* the same for the generated region function hosvd_modes *)
Theorem C18_gen_print_hosvd_modes : forall (shrink1 : T_Tensor -> nat -> T_Mat -> T_Tensor),
  (forall Y fm k U, nth_error fm k = Some U -> k_shrink Y fm k = shrink1 Y k U) ->
  forall (v : Z) t sq dimorder Y fm ranks0,
  NoDup dimorder -> (forall k, In k dimorder -> k < length fm) -> (forall k, In k dimorder -> k < length ranks0) ->
  match gmodes dimorder ranks0 t Y fm sq with
  | Some (fm', _, Y') => fst (HLOOP shrink1 ranks0 sq v t dimorder Y fm) = Some (Y', fm')
  | None => fst (HLOOP shrink1 ranks0 sq v t dimorder Y fm) = None
  end.
Proof. exact (gen_hosvd_modes_print_bridge T_V T_Tensor T_Mat c_leV c_zeroV c_addV k_unfold k_gram k_eigh k_argsort_desc k_take k_select_cols k_shrink). Qed.
End C18W5_hosvd.

Print Assumptions C18_gen_print_hosvd_bridge.
Print Assumptions C18_gen_print_hosvd_modes.
