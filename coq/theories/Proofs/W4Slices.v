(* Proofs/W4Slices.v — facts about Python slices with explicit in-range bounds and about the slice store x[a:b] = v
   (np_set_slice of Np/NpZ4.v), used by the bridges for ktensor.tovec / ktensor.update. *)
From Coq Require Import List ZArith Arith Bool Lia.
From PV Require Import Np.NpZ Np.NpZ2 Np.NpZ3 Np.NpZ3c Np.NpZ3d Np.NpZ3e Np.NpZ4 Proofs.NpZProofs Proofs.W4Loops.
Import ListNotations.
Local Open Scope Z_scope.

Lemma slice_indices_in (a b n : Z) : 0 <= a <= b -> b <= n -> slice_indices (mkslice (Some a) (Some b) None) n = (a, b, 1).
Proof.
  intros H1 H2. unfold slice_indices. cbn.
  replace (a <? 0) with false by (symmetry; apply Z.ltb_ge; lia).
  replace (b <? 0) with false by (symmetry; apply Z.ltb_ge; lia).
  f_equal. f_equal.
  - destruct (Z.leb_spec n a); lia.
  - destruct (Z.leb_spec n b); lia.
Qed.

Lemma slice_len_1 (a b : Z) : a <= b -> slice_len a b 1 = b - a.
Proof.
  intros H. unfold slice_len. replace (1 <? 0) with false by reflexivity.
  destruct (Z.ltb_spec a b); [|lia]. rewrite Z.div_1_r. lia.
Qed.

Lemma map_seq_nth_eq {A} (d : A) (f : nat -> A) (l : list A) :
  (forall j, (j < length l)%nat -> f j = nth j l d) -> map f (seq 0 (length l)) = l.
Proof.
  intros H. transitivity (map (fun j => nth j l d) (seq 0 (length l))).
  - apply map_ext_in. intros j Hj. apply in_seq in Hj. apply H. lia.
  - clear H. induction l as [|x l IH]; cbn [length seq map nth]; [reflexivity|]. f_equal.
    rewrite <- seq_shift, map_map. exact IH.
Qed.

Lemma znth_nonneg' {A} (d : A) l x : 0 <= x -> znth d l x = nth (Z.to_nat x) l d.
Proof. intros H. rewrite <- (Z2Nat.id x) at 1 by lia. apply znth_nat. Qed.

(* x[a:b] = v where x = pre ++ old ++ rest, a = len(pre), b = a + len(v), len(old) = len(v) *)
Lemma set_slice_block (pre old rest v : vec) (a b : Z) : length old = length v -> a = zlen pre -> b = a + zlen v ->
  np_set_slice_ok (pre ++ old ++ rest) (mkslice (Some a) (Some b) None) v = true /\
  np_set_slice (pre ++ old ++ rest) (mkslice (Some a) (Some b) None) v = pre ++ v ++ rest.
Proof.
  intros Hl -> ->. unfold np_set_slice_ok, np_set_slice.
  assert (Hn : zlen pre + zlen v <= zlen (pre ++ old ++ rest)) by (unfold zlen; rewrite !app_length; lia).
  rewrite slice_indices_in by (unfold zlen in *; lia).
  rewrite slice_len_1 by (unfold zlen; lia).
  replace (zlen pre + zlen v - zlen pre) with (zlen v) by lia.
  split; [rewrite Z.eqb_refl; reflexivity|].
  replace (length (pre ++ old ++ rest)) with (length (pre ++ v ++ rest)) by (rewrite !app_length; lia).
  apply (map_seq_nth_eq 0). intros j Hj. rewrite !app_length in Hj.
  destruct (Nat.lt_ge_cases j (length pre)) as [C1|C1].
  - replace (zlen pre <=? Z.of_nat j) with false by (symmetry; apply Z.leb_gt; unfold zlen; lia). cbn [andb].
    rewrite !app_nth1 by lia. reflexivity.
  - replace (zlen pre <=? Z.of_nat j) with true by (symmetry; apply Z.leb_le; unfold zlen; lia). cbn [andb].
    destruct (Nat.lt_ge_cases j (length pre + length v)) as [C2|C2].
    + replace (Z.of_nat j <? zlen pre + zlen v) with true by (symmetry; apply Z.ltb_lt; unfold zlen; lia).
      rewrite (app_nth2 pre) by lia. rewrite app_nth1 by lia.
      destruct (Z.eqb_spec (zlen v) 1) as [E1|E1].
      * assert (length v = 1%nat) by (unfold zlen in E1; lia). replace (j - length pre)%nat with 0%nat by lia.
        change 0 with (Z.of_nat 0) at 2. apply znth_nat.
      * rewrite znth_nonneg' by (unfold zlen; lia). f_equal. unfold zlen. lia.
    + replace (Z.of_nat j <? zlen pre + zlen v) with false by (symmetry; apply Z.ltb_ge; unfold zlen; lia).
      rewrite !(app_nth2 pre) by lia. rewrite !app_nth2 by lia. f_equal. lia.
Qed.

Lemma nth_firstn_lt {A} (d : A) : forall n l j, (j < n)%nat -> nth j (firstn n l) d = nth j l d.
Proof. induction n as [|n IH]; intros [|x l] [|j] H; cbn; try lia; auto. apply IH. lia. Qed.

Lemma nth_skipn' {A} (d : A) : forall k l j, nth j (skipn k l) d = nth (k + j) l d.
Proof. induction k as [|k IH]; intros [|x l] j; cbn; auto. destruct j; reflexivity. Qed.

(* v[a:b] for 0 <= a <= b <= len(v) *)
Lemma py_slice_in (v : vec) (a b : Z) : 0 <= a <= b -> b <= zlen v ->
  py_slice 0 v (mkslice (Some a) (Some b) None) = firstn (Z.to_nat (b - a)) (skipn (Z.to_nat a) v).
Proof.
  intros H1 H2. unfold py_slice. rewrite slice_indices_in by lia. rewrite slice_len_1 by lia.
  set (n := Z.to_nat (b - a)). set (k := Z.to_nat a).
  assert (Hk : (k + n <= length v)%nat) by (unfold zlen in H2; lia).
  replace (seq 0 n) with (seq 0 (length (firstn n (skipn k v)))) by (rewrite firstn_length, skipn_length; f_equal; lia).
  apply (map_seq_nth_eq 0). intros j Hj. rewrite firstn_length, skipn_length in Hj.
  rewrite Z.mul_1_r. rewrite znth_nonneg' by lia. rewrite nth_firstn_lt by lia. rewrite nth_skipn'. f_equal. lia.
Qed.
