(* Proofs/C16Proofs.v — import (export obj) = obj for the token-level model of Model/C16IO.v. *)
From Coq Require Import String.
From Coq Require Import List Arith ZArith Lia Bool.
From PV Require Import Base.Index Np.Array Model.Sparse Model.Repr Model.C16IO.
Import ListNotations.

Section P.
Variables (D T : Type) (d0 : D) (print : D -> T) (parse : T -> D).
Hypothesis parse_print : forall v : D, parse (print v) = v.

Notation token := (token T).
Notation zn := (@zn T).
Notation num := (num D T print).
Notation rd_nat := (@rd_nat T).
Notation rd_nats := (@rd_nats T).
Notation rd_shape := (@rd_shape T).
Notation rd_nums := (rd_nums D T parse).
Notation rd_num := (rd_num D T parse).
Notation rd_subs := (@rd_subs T).
Notation rd_entries := (rd_entries D T parse).
Notation rd_factors := (rd_factors D T parse).
Notation export_lines := (export_lines D T d0 print).
Notation export := (export D T d0 print).
Notation import := (import D T d0 parse).

(* ---------------------------------------------------------------- readers on what export wrote *)
Lemma rd_nat_zn n (r : list token) : rd_nat (zn n :: r) = Some (n, r).
Proof.
  unfold rd_nat, C16IO.zn. destruct (Z.leb_spec 0 (Z.of_nat n)); [|lia]. now rewrite Nat2Z.id.
Qed.

Lemma rd_nats_zn l (r : list token) : rd_nats (length l) (map zn l ++ r) = Some (l, r).
Proof.
  induction l as [|x l IH]; cbn [length map app C16IO.rd_nats]; auto.
  rewrite rd_nat_zn. cbn [bindo fst snd]. rewrite IH. reflexivity.
Qed.

Lemma concat_size_lines s : concat (@size_lines T s) = zn (length s) :: map zn s.
Proof. unfold size_lines. cbn. now rewrite app_nil_r. Qed.

Lemma rd_shape_lines s (r : list token) : rd_shape (concat (size_lines T s) ++ r) = Some (s, r).
Proof.
  rewrite concat_size_lines. unfold C16IO.rd_shape. cbn [app]. rewrite rd_nat_zn. cbn [bindo fst snd].
  apply rd_nats_zn.
Qed.

Lemma rd_nums_num l (r : list token) : rd_nums (length l) (map num l ++ r) = Some (l, r).
Proof.
  induction l as [|x l IH]; cbn [length map app C16IO.rd_nums]; auto.
  unfold C16IO.rd_num at 1. unfold C16IO.num at 1. cbn [bindo fst snd]. rewrite IH. cbn [bindo fst snd].
  now rewrite parse_print.
Qed.

Lemma concat_one_per_line l : concat (one_per_line D T print l) = map num l.
Proof.
  unfold one_per_line. destruct l as [|x l]; [reflexivity|].
  generalize (x :: l). intros l'. induction l' as [|y l' IH]; cbn; auto. now rewrite IH.
Qed.

Lemma rd_subs_line b i (r : list token) :
  rd_subs b (length i) (map (fun x => Int (Z.of_nat x + b)) i ++ r) = Some (i, r).
Proof.
  induction i as [|x i IH]; cbn [length map app C16IO.rd_subs]; auto.
  unfold rd_sub at 1. replace (Z.of_nat x + b - b)%Z with (Z.of_nat x) by lia.
  destruct (Z.leb_spec 0 (Z.of_nat x)); [|lia]. cbn [bindo fst snd]. rewrite IH. cbn [bindo fst snd].
  now rewrite Nat2Z.id.
Qed.

Lemma rd_entries_lines b N (es : list (idx * D)) (r : list token) :
  Forall (fun e => length (fst e) = N) es ->
  rd_entries b N (length es) (concat (map (entry_line D T print b) es) ++ r) = Some (map fst es, map snd es, r).
Proof.
  induction es as [|[i v] es IH]; intros H; cbn [length map concat app C16IO.rd_entries]; auto.
  inversion H as [|? ? Hi Hes]; subst. cbn [fst] in *. unfold entry_line at 1. cbn [fst snd].
  rewrite <- !app_assoc. rewrite rd_subs_line. cbn [bindo fst snd app].
  unfold C16IO.rd_num at 1, C16IO.num at 1. cbn [bindo fst snd]. rewrite IH by auto. cbn [bindo fst snd].
  now rewrite parse_print.
Qed.

Lemma map_fst_combine {A B} (l : list A) (l' : list B) : length l = length l' -> map fst (combine l l') = l.
Proof. revert l'; induction l as [|a l IH]; intros [|b l'] H; cbn in *; try discriminate; auto. f_equal. apply IH. lia. Qed.

Lemma map_snd_combine {A B} (l : list A) (l' : list B) : length l = length l' -> map snd (combine l l') = l'.
Proof. revert l'; induction l as [|a l IH]; intros [|b l'] H; cbn in *; try discriminate; auto. f_equal. apply IH. lia. Qed.

(* ---------------------------------------------------------------- layout lemmas *)
Lemma size_rev s : size (rev s) = size s.
Proof.
  induction s as [|d s IH]; [reflexivity|]. cbn [rev]. rewrite size_app, IH. unfold size. cbn [fold_right]. lia.
Qed.

Lemma inb_rev s i : inb s i = true -> inb (rev s) (rev i) = true.
Proof.
  revert i; induction s as [|d s IH]; intros [|x i] H; cbn [inb] in H; try discriminate; auto.
  apply andb_true_iff in H as [Hx Hi]. cbn [rev].
  rewrite inb_app by (rewrite !rev_length; now apply inb_length).
  rewrite IH by auto. cbn [inb andb]. now rewrite Hx.
Qed.

Lemma map_nth_seq (l : list D) : map (fun k => nth k l d0) (seq 0 (length l)) = l.
Proof.
  apply (nth_ext _ _ d0 d0); [now rewrite map_length, seq_length|].
  intros k Hk. rewrite map_length, seq_length in Hk.
  rewrite (nth_indep _ d0 ((fun k => nth k l d0) 0)) by (now rewrite map_length, seq_length).
  rewrite (map_nth (fun k => nth k l d0)). now rewrite seq_nth.
Qed.

(* C-order listing of the fully transposed array = F-order listing of the array itself:
   "numpy always writes the array with 'C' ordering ... so we must transpose it first" *)
Lemma ravelC_transpose (X : dense D) : wf_dense X -> ravelC D d0 (transpose_all D d0 X) = ddata X.
Proof.
  intros W. unfold ravelC, transpose_all. rewrite dshape_tabulate, size_rev.
  etransitivity; [|apply (map_nth_seq (ddata X))]. rewrite W.
  apply map_ext_in. intros k Hk. apply in_seq in Hk. unfold ind2subC. rewrite rev_involutive.
  assert (Hin : inb (dshape X) (ind2sub (dshape X) k) = true) by (apply inb_ind2sub; lia).
  rewrite den_tabulate by (now apply inb_rev). rewrite rev_involutive.
  apply den_dense_ind2sub. lia.
Qed.

Lemma reshapeF_1d s (l : list D) : length l = size s ->
  np_reshapeF d0 (mkDense [size s] l) s = mkDense s l.
Proof.
  intros H. change (np_reshapeF d0 (mkDense [size s] l) s)
    with (mkDense s (ddata (np_reshapeF d0 (mkDense [size s] l) s))).
  f_equal. apply np_reshapeF_data.
  - unfold wf_dense. cbn. lia.
  - cbn. lia.
Qed.

(* order 0 included: the tensor without modes holds no entry *)
Lemma wf_tensor_dense (X : dense D) : dshape X <> [] -> wf_tensor D X -> wf_dense X.
Proof. unfold wf_tensor, wf_dense, tsize. destruct (dshape X); [congruence|auto]. Qed.
Lemma tensor_vals_data (X : dense D) : wf_tensor D X -> tensor_vals D d0 X = ddata X.
Proof.
  intros W. unfold tensor_vals. destruct (dshape X) as [|d s] eqn:E.
  - unfold wf_tensor in W. rewrite E in W. cbn in W. now destruct (ddata X).
  - apply ravelC_transpose. apply wf_tensor_dense; [rewrite E; discriminate|exact W].
Qed.
Lemma tensor_of_data s (l : list D) : length l = tsize s -> tensor_of D d0 s l = mkDense s l.
Proof. destruct s as [|d s]; [reflexivity|]. intros H. apply reshapeF_1d. exact H. Qed.

Lemma reshapeC2_concat (A : list (list D)) n : Forall (fun r => length r = n) A ->
  reshapeC2 D (length A) n (concat A) = A.
Proof.
  unfold reshapeC2. induction A as [|r A IH]; intros H; [reflexivity|].
  inversion H as [|? ? Hr HA]; subst. cbn [length seq map concat].
  cbn [Nat.mul skipn]. rewrite firstn_app, firstn_all, Nat.sub_diag. cbn [firstn]. rewrite app_nil_r.
  f_equal. rewrite <- seq_shift, map_map. rewrite <- (IH HA) at 2.
  apply map_ext. intros i. replace (S i * length r) with (length r + i * length r) by lia.
  rewrite skipn_app. rewrite skipn_all2 by lia. cbn [app]. do 2 f_equal. lia.
Qed.


Lemma concat_num_lines (A : list (list D)) : concat (map (num_line D T print) A) = map num (concat A).
Proof. induction A as [|r A IH]; cbn; auto. now rewrite IH, map_app. Qed.

Lemma length_concat_rows (A : list (list D)) n : Forall (fun r => length r = n) A ->
  length (concat A) = length A * n.
Proof.
  induction 1 as [|r A Hr HA IH]; [reflexivity|]. cbn [concat length]. rewrite app_length, IH. lia.
Qed.

Lemma rd_factors_lines R (Fs : list (list (list D))) (r : list token) :
  Forall (fun A => Forall (fun row => length row = R) A) Fs ->
  rd_factors (length Fs) (concat (flat_map (factor_lines D T print R) Fs) ++ r) = Some (Fs, r).
Proof.
  induction Fs as [|A Fs IH]; intros H; [reflexivity|].
  inversion H as [|? ? HA HFs]; subst.
  cbn [length flat_map C16IO.rd_factors]. rewrite concat_app, <- app_assoc.
  unfold factor_lines at 1. cbn [concat]. rewrite concat_app, <- !app_assoc. cbn [app].
  rewrite rd_shape_lines. cbn [bindo fst snd].
  rewrite concat_num_lines, <- (length_concat_rows A R HA), rd_nums_num. cbn [bindo fst snd].
  rewrite IH by auto. cbn [bindo fst snd]. now rewrite reshapeC2_concat.
Qed.

(* ---------------------------------------------------------------- the four round trips *)
Theorem roundtrip_tensor b (X : dense D) : wf_tensor D X -> import b (export b (OTensor X)) = Some (OTensor X).
Proof.
  intros W. unfold C16IO.export, C16IO.export_lines. cbn [concat app C16IO.import String.eqb Ascii.eqb Bool.eqb].
  unfold import_tensor. rewrite concat_app, rd_shape_lines. cbn [bindo fst snd].
  rewrite concat_one_per_line, tensor_vals_data by auto.
  rewrite <- (app_nil_r (map num (ddata X))). unfold wf_tensor in W. rewrite <- W, rd_nums_num. cbn [bindo fst snd].
  rewrite tensor_of_data by auto. now destruct X.
Qed.

Theorem roundtrip_sptensor b (S : sparse D) :
  length (ssubs S) = length (svals S) -> Forall (fun i => inb (sshape S) i = true) (ssubs S) ->
  import b (export b (OSptensor S)) = Some (OSptensor S).
Proof.
  intros HL Hb. unfold C16IO.export, C16IO.export_lines. cbn [concat app C16IO.import String.eqb Ascii.eqb Bool.eqb].
  unfold import_sptensor. rewrite concat_app, rd_shape_lines. cbn [bindo fst snd concat app].
  rewrite rd_nat_zn. cbn [bindo fst snd].
  assert (HE : length (ssubs S) = length (entries S)) by (unfold entries; rewrite combine_length; lia).
  rewrite HE. rewrite <- (app_nil_r (concat _)). rewrite rd_entries_lines.
  - cbn [bindo fst snd]. unfold entries. rewrite map_fst_combine, map_snd_combine by auto.
    replace (forallb (inb (sshape S)) (ssubs S)) with true; [now destruct S|].
    symmetry. apply forallb_forall. rewrite Forall_forall in Hb. auto.
  - rewrite Forall_forall. intros [i v] Hin. cbn [fst]. unfold entries in Hin. apply in_combine_l in Hin.
    rewrite Forall_forall in Hb. apply inb_length. auto.
Qed.

Theorem roundtrip_matrix b m n (A : list (list D)) : length A = m -> Forall (fun r => length r = n) A ->
  import b (export b (OMatrix m n A)) = Some (OMatrix m n A).
Proof.
  intros Hm Hn. unfold C16IO.export, C16IO.export_lines. cbn [concat app C16IO.import String.eqb Ascii.eqb Bool.eqb].
  unfold import_matrix. rewrite concat_app, rd_shape_lines. cbn [bindo fst snd].
  rewrite concat_one_per_line. rewrite <- (app_nil_r (map num (concat A))).
  subst m. rewrite <- (length_concat_rows A n Hn), rd_nums_num. cbn [bindo fst snd].
  now rewrite reshapeC2_concat.
Qed.

Theorem roundtrip_array b (s : shape) (c : list D) : length c = size s -> length s <> 2 ->
  import b (export b (OArray s c)) = Some (OArray s c).
Proof.
  intros Hc Hs. unfold C16IO.export, C16IO.export_lines. cbn [concat app C16IO.import String.eqb Ascii.eqb Bool.eqb].
  unfold import_matrix. rewrite concat_app, rd_shape_lines. cbn [bindo fst snd].
  rewrite concat_one_per_line. rewrite <- (app_nil_r (map num c)).
  destruct s as [|d1 [|d2 [|d3 s']]]; try (cbn in Hs; congruence);
    rewrite <- Hc, rd_nums_num; reflexivity.
Qed.

Lemma length_kshape (K : ktensor D) : length (kshape K) = length (kfactors K).
Proof. unfold kshape. now rewrite map_length. Qed.

Theorem roundtrip_ktensor b (K : ktensor D) :
  Forall (fun A => Forall (fun r => length r = krank K) A) (kfactors K) ->
  import b (export b (OKtensor K)) = Some (OKtensor K).
Proof.
  intros W. unfold C16IO.export, C16IO.export_lines. cbn [concat app C16IO.import String.eqb Ascii.eqb Bool.eqb].
  unfold import_ktensor. rewrite concat_app, rd_shape_lines. cbn [bindo fst snd concat app].
  rewrite rd_nat_zn. cbn [bindo fst snd]. unfold num_line at 1. unfold krank at 1. rewrite rd_nums_num.
  cbn [bindo fst snd]. rewrite length_kshape. rewrite <- (app_nil_r (concat _)), rd_factors_lines by auto.
  cbn [bindo fst snd]. now destruct K.
Qed.

(* all four at once, for every index base *)
Theorem roundtrip b (o : obj D) : wf_obj D o -> import b (export b o) = Some o.
Proof.
  destruct o as [X|S|K|m n A|s c]; cbn [wf_obj].
  - apply roundtrip_tensor.
  - intros [H1 H2]. now apply roundtrip_sptensor.
  - apply roundtrip_ktensor.
  - intros [H1 H2]. now apply roundtrip_matrix.
  - intros [H1 H2]. now apply roundtrip_array.
Qed.

(* hence the file determines the object: two admissible objects with the same token sequence are equal *)
Corollary export_injective b (o1 o2 : obj D) : wf_obj D o1 -> wf_obj D o2 -> export b o1 = export b o2 -> o1 = o2.
Proof.
  intros W1 W2 E. pose proof (roundtrip b o1 W1) as R1. rewrite E, (roundtrip b o2 W2) in R1. now inversion R1.
Qed.

(* the subscripts a sparse file carries: stored subscript + base, in stored order (base 1 for export_data) *)
Theorem sptensor_line b (S : sparse D) k : length (ssubs S) = length (svals S) -> k < length (ssubs S) ->
  nth (4 + k) (export_lines b (OSptensor S)) [] =
  map (fun x => Int (Z.of_nat x + b)) (nth k (ssubs S) []) ++ [Num (print (nth k (svals S) d0))].
Proof.
  intros HL Hk. unfold C16IO.export_lines. cbn [size_lines app]. cbn [plus nth].
  rewrite (nth_indep _ [] (entry_line D T print b ([], d0))) by (rewrite map_length; unfold entries; rewrite combine_length; lia).
  rewrite map_nth. unfold entries. rewrite combine_nth by auto. reflexivity.
Qed.

End P.
