(* Proofs/C19W5S.v — wave 5: sptensor.permute(order) as GENERATED from pyttb/sptensor.py (Gen/GenSptensor4.v; bridge
   sp_permute_bridge of Proofs/W4Sptensor.v, w5-translator): on a well-formed sparse tensor record the generated method raises
   exactly when guard_sorted_perm rejects, i.e. exactly when `order` is not a permutation of range(ndims); an order of boolean
   dtype (flag order_isbool, /repo 9c8fdd5) is always refused.  In particular nothing after the argument check can raise: the
   column selection and the constructor call succeed on every permutation. *)
From Coq Require Import List ZArith Arith Bool Lia Permutation.
From PV Require Import Np.NpZ Np.NpZ2 Np.NpZ3 Np.NpZ3c Np.NpZ3d Np.NpZ3e Np.NpZ4 Np.NpZ4b Gen.GenSptensor4 Model.W4Sptensor
  Proofs.NpZProofs Proofs.W4Loops Proofs.W4Slices Proofs.W4Sptensor
  Model.C19Guards Proofs.C19Proofs Proofs.C19Ttv Proofs.C19More Proofs.C19W3 Proofs.C19W4 Proofs.C19W4K.
Import ListNotations.
Local Open Scope Z_scope.

(* a sparse tensor as the constructor leaves it: the constructor's own test (value count, subscripts >= 0 and below the sizes, the
   first row as long as the shape) and every subscript row as long as the shape (a 2-d array) *)
Definition spt_wf (t : sptz) : Prop :=
  spt_make_ok (spt_subs t) (spt_vals t) (spt_shape t) = true /\
  (forall row, In row (spt_subs t) -> zlen row = zlen (spt_shape t)).

Lemma size2_rows (m : mat) n : (forall row, In row m -> zlen row = n) -> np_size2 m = n * zlen m.
Proof.
  induction m as [|r m IH]; intros H; unfold np_size2 in *; cbn [map fold_right]; [unfold zlen; cbn; lia|].
  rewrite IH by (intros row Hr; apply H; now right). rewrite (H r (or_introl eq_refl)). unfold zlen. cbn [length]. lia.
Qed.

Lemma zlen_take {A} (d : A) a (p : vec) : zlen (np_take d a p) = zlen p.
Proof. unfold np_take, zlen. now rewrite map_length. Qed.

Lemma ltb_pointwise : forall (row shape : vec) (n : nat), length row = length shape -> (n < length shape)%nat ->
  np_all (zmap2b Z.ltb row shape) = true -> (nth n row 0 <? nth n shape 0) = true.
Proof.
  induction row as [|x row IH]; intros [|y shape] n HL Hn H; cbn in *; try lia.
  apply andb_true_iff in H as [H1 H2]. destruct n as [|n]; [exact H1|]. apply IH; [lia|lia|exact H2].
Qed.

Lemma ltb_take (row shape order : vec) : zlen row = zlen shape -> (forall x, In x order -> 0 <= x < zlen shape) ->
  np_all (zmap2b Z.ltb row shape) = true -> np_all (zmap2b Z.ltb (np_take 0 row order) (np_take 0 shape order)) = true.
Proof.
  intros HL Ho H. induction order as [|x o IH]; [reflexivity|]. unfold np_take in *. cbn [map zmap2b np_all forallb].
  apply andb_true_iff. split.
  - assert (Hx : 0 <= x < zlen shape) by (apply Ho; now left).
    rewrite !znth_nonneg' by lia. apply ltb_pointwise; [unfold zlen in HL; lia|unfold zlen in Hx; lia|exact H].
  - apply IH. intros y Hy. apply Ho. now right.
Qed.

Lemma nonneg_take (row order : vec) : (forall x, In x order -> 0 <= x < zlen row) ->
  forallb (fun s => 0 <=? s) row = true -> forallb (fun s => 0 <=? s) (np_take 0 row order) = true.
Proof.
  intros Ho H. apply forallb_forall. intros s Hs. unfold np_take in Hs. apply in_map_iff in Hs as (x & <- & Hx).
  rewrite forallb_forall in H. apply H. apply znth_In. now apply Ho.
Qed.

Theorem sp_permute_gen_guard (t : sptz) (order : vec) : spt_wf t ->
  okres (sptensor_permute t order false) = guard_sorted_perm (spt_shape t) order /\
  okres (sptensor_permute t order false) = decide (pre_perm (spt_shape t) order) /\
  sptensor_permute t order true = Err.
Proof.
  intros [Hok Hrows]. rewrite <- sorted_perm_decides.
  assert (G : okres (sptensor_permute t order false) = guard_sorted_perm (spt_shape t) order);
    [|split; [exact G|split; [exact G|exact (gen_sp_permute_bool_rejected t order)]]].
  rewrite sp_permute_bridge_int. unfold H_sp_permute, guard_sorted_perm, ndim. cbv zeta.
  set (n := zlen (spt_shape t)). assert (Hn : 0 <= n) by (unfold n, zlen; lia).
  rewrite shape_zlist, (zlist_eqb_sym (np_arange 0 n) (np_sort order)).
  destruct (zlist_eqb (np_sort order) (np_arange 0 n)) eqn:E; [|now rewrite andb_false_r].
  apply zlist_eqb_eq in E. pose proof (sorted_is_range_in order _ E) as Hin. pose proof (sorted_range_len order _ Hn E) as Hlen.
  rewrite Hlen, Z.eqb_refl. cbn [andb chk].
  assert (Htake : np_take_ok (spt_shape t) order = true) by (apply take_ok_range; exact Hin).
  rewrite Htake. unfold spt_make_ok in Hok |- *.
  destruct (np_size2 (spt_subs t) =? 0) eqn:Ez.
  - cbn [andb]. rewrite Hok. reflexivity.
  - apply Z.eqb_neq in Ez.
    apply andb_true_iff in Hok as [Hok H4]. apply andb_true_iff in Hok as [Hok H3]. apply andb_true_iff in Hok as [H1 H2].
    assert (Hcols : np_cols_ok (spt_subs t) order = true).
    { unfold np_cols_ok. apply forallb_forall. intros row Hr. apply take_ok_range. intros x Hx. rewrite (Hrows row Hr). now apply Hin. }
    rewrite Hcols. cbn [andb].
    assert (Hrows' : forall row, In row (np_cols (spt_subs t) order) -> zlen row = n).
    { intros row Hr. unfold np_cols in Hr. apply in_map_iff in Hr as (r & <- & _). rewrite zlen_take. exact Hlen. }
    assert (Hnr : zlen (np_cols (spt_subs t) order) = zlen (spt_subs t)) by (unfold np_cols, zlen; now rewrite map_length).
    assert (Ez' : np_size2 (np_cols (spt_subs t) order) =? 0 = false).
    { apply Z.eqb_neq. rewrite (size2_rows _ n Hrows'), Hnr. rewrite (size2_rows _ n Hrows) in Ez. exact Ez. }
    rewrite Ez'.
    replace (zlen (spt_vals t) =? np_nrows (np_cols (spt_subs t) order)) with true by (unfold np_nrows; rewrite Hnr; symmetry; exact H1).
    replace (forallb (fun row : list Z => forallb (fun s : Z => 0 <=? s) row) (np_cols (spt_subs t) order)) with true.
    2:{ symmetry. apply forallb_forall. intros row Hr. unfold np_cols in Hr. apply in_map_iff in Hr as (r & <- & Hr).
        apply nonneg_take; [intros x Hx; rewrite (Hrows r Hr); now apply Hin|]. rewrite forallb_forall in H2. now apply H2. }
    replace (np_ncols (np_cols (spt_subs t) order) =? zlen (np_take 0 (spt_shape t) order)) with true.
    2:{ symmetry. apply Z.eqb_eq. rewrite zlen_take. destruct (spt_subs t) as [|r m] eqn:Es.
        - exfalso. apply Ez. reflexivity.
        - cbn [np_cols map np_ncols]. apply zlen_take. }
    replace (forallb (fun row : vec => np_all (zmap2b Z.ltb row (np_take 0 (spt_shape t) order))) (np_cols (spt_subs t) order)) with true.
    2:{ symmetry. apply forallb_forall. intros row Hr. unfold np_cols in Hr. apply in_map_iff in Hr as (r & <- & Hr).
        apply ltb_take; [now apply Hrows|exact Hin|]. rewrite forallb_forall in H4. now apply H4. }
    reflexivity.
Qed.
