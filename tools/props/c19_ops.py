"""C19 operation registry: descriptors -> pyttb calls, Gallina argument text, pure-Python preconditions, generators."""
import itertools
import math

from vcheck import gz, gzlist, gopt, gbool

OPS = {}
TRIGGERS = {}
WITNESSES = {}
CORRESPONDENCE_ONLY = []


class Op:
    def __init__(self, name, pre_c, guard_c, coq, pre, call, gen, mutating=False):
        self.name, self.pre_c, self.guard_c, self.coq, self.pre, self.call, self.gen = name, pre_c, guard_c, coq, pre, call, gen
        self.mutating = mutating


def reg(name, cname, coq, pre, call, gen, mutating=False, guard=True):
    """cname: 'x' -> pre_x / guard_x;  ('p', 'g') -> pre_p / guard_g;  guard=False -> only pre_x exists (no guard model)"""
    pre_c, guard_c = (cname, cname) if isinstance(cname, str) else cname
    OPS[name] = Op(name, pre_c, guard_c if guard else None, coq, pre, call, gen, mutating)


# ------------------------------------------------------------------------------------------------
# Gallina text
# ------------------------------------------------------------------------------------------------
def zl(l):
    return gzlist(list(l))


def zo(l):
    return gopt(None if l is None else list(l), gzlist)


def pl(pairs):
    if not pairs:
        return "(@nil (Z * Z))"
    return "[" + "; ".join(f"({gz(a)}, {gz(b)})" for a, b in pairs) + "]"


def zll(ll):
    if not ll:
        return "(@nil (list Z))"
    return "[" + "; ".join(zl(x) for x in ll) + "]"


# ------------------------------------------------------------------------------------------------
# operand builders (values are fixed small integers; only shapes matter)
# ------------------------------------------------------------------------------------------------
def _np():
    import numpy as np
    return np


def _ttb():
    import pyttb as ttb
    return ttb


def arr(shape, start=1):
    np = _np()
    n = math.prod(shape)
    return (np.arange(start, start + n, dtype=float) % 7 + 1).reshape(tuple(shape), order="F")


def T(shape):
    return _ttb().tensor(arr(shape), tuple(shape), copy=True)


def S(shape, empty=False):
    """sptensor with nonzeros on a 'diagonal-ish' pattern (at least one, at most prod/2+1)"""
    np, ttb = _np(), _ttb()
    if empty:
        return ttb.sptensor(shape=tuple(shape))
    n = math.prod(shape)
    subs = []
    for k in range(0, n, 2):
        row, kk = [], k
        for d in shape:
            row.append(kk % d)
            kk //= d
        subs.append(row)
    vals = [[float(i % 3 + 1)] for i in range(len(subs))]
    return ttb.sptensor(np.array(subs, dtype=int).reshape((len(subs), len(shape))), np.array(vals), tuple(shape), copy=True)


def K(shape, R=2, start=1):
    np, ttb = _np(), _ttb()
    return ttb.ktensor([arr((d, R), start + i) for i, d in enumerate(shape)], np.arange(1.0, R + 1), copy=True)


def TT(shape, core):
    ttb = _ttb()
    return ttb.ttensor(T(core), [arr((d, c), 2 + i) for i, (d, c) in enumerate(zip(shape, core))], copy=True)


def snap(objs):
    """byte-wise snapshot of every array reachable from the receivers"""
    np, ttb = _np(), _ttb()
    out = []

    def rec(o):
        if o is None:
            return
        if isinstance(o, np.ndarray):
            out.append((o.shape, str(o.dtype), o.tobytes()))
        elif isinstance(o, (list, tuple)):
            out.append(("seq", len(o)))
            for x in o:
                rec(x)
        elif isinstance(o, (int, float, str, bool)):
            out.append(o)
        elif isinstance(o, ttb.tensor):
            out.append(tuple(o.shape)); rec(o.data)
        elif isinstance(o, ttb.sptensor):
            out.append(tuple(o.shape)); rec(o.subs); rec(o.vals)
        elif isinstance(o, ttb.ktensor):
            rec(o.weights); rec(list(o.factor_matrices))
        elif isinstance(o, ttb.ttensor):
            rec(o.core); rec(list(o.factor_matrices))
        elif isinstance(o, ttb.tenmat):
            out.append(tuple(o.tshape)); rec(o.data); rec(o.rindices); rec(o.cindices)
        elif isinstance(o, ttb.sptenmat):
            out.append(tuple(o.tshape)); rec(o.subs); rec(o.vals); rec(o.rdims); rec(o.cdims)
        elif isinstance(o, ttb.sumtensor):
            rec(list(o.parts))
        else:
            out.append(repr(type(o)))
    rec(objs)
    return out


def run(name, args):
    op = OPS[name]
    try:
        recv, thunk = op.call(args)
        before = snap(recv)
    except Exception as ex:     # building the operands failed: harness problem, never a pass
        return {"harness": f"{type(ex).__name__}: {ex}"}
    exc = None
    try:
        r = thunk()
        rejected = False
    except Exception as ex:
        rejected = True
        exc = type(ex).__name__ + ": " + str(ex)[:120]
    after = snap(recv)
    return {"rejected": rejected, "exc": exc, "recv_same": before == after}


# ------------------------------------------------------------------------------------------------
# pure-Python vocabulary of the preconditions (independent of numpy and of pyttb)
# ------------------------------------------------------------------------------------------------
def in_range(N, x):
    return 0 <= x < N


def modes_ok(N, d):
    return all(in_range(N, x) for x in d) and len(set(d)) == len(d)


def is_perm(N, o):
    return len(o) == N and modes_ok(N, o)


def sel_modes(N, dims, excl):
    if dims is not None:
        return list(dims)
    if excl is not None:
        return [x for x in range(N) if x not in excl]
    return list(range(N))


def pre_sel(N, dims, excl):
    if dims is not None and excl is not None:
        return False
    if dims is not None:
        return modes_ok(N, dims)
    if excl is not None:
        return all(in_range(N, x) for x in excl)
    return True


def pre_mults(N, M, sel, ok_for):
    """one multiplicand per selected mode (positional, caller's order) or one per tensor mode (indexed by mode)"""
    P = len(sel)
    if M != P and M != N:
        return False
    for k, m in enumerate(sel):
        v = k if P == M else m
        if not (0 <= v < M) or not ok_for(v, m):
            return False
    return True


# ------------------------------------------------------------------------------------------------
# shape pools and mode-argument violations
# ------------------------------------------------------------------------------------------------
SH3 = [(2, 3, 4), (3, 3, 3), (3, 1, 2), (2, 2, 2), (1, 1, 1), (4, 2, 2)]
SH2 = [(2, 3), (3, 3), (1, 4), (1, 1), (4, 2)]
SH1 = [(4,), (1,)]
SH4 = [(2, 3, 2, 3), (2, 2, 2, 2)]


def pool(tier, mind=1, maxd=4):
    p = []
    if mind <= 1 <= maxd:
        p += SH1
    if mind <= 2 <= maxd:
        p += SH2
    if mind <= 3 <= maxd:
        p += SH3
    if mind <= 4 <= maxd:
        p += SH4 if tier == "thorough" else SH4[:1]
    return p


def bad_mode_lists(N, k=None):
    """lists of modes violating exactly one requirement: (tag, list)"""
    out = [("neg_mode", [-1]), ("oob_mode", [N]), ("oob_mode", [N + 1])]
    if N >= 1:
        out += [("rep_mode", [0, 0]), ("rep_mode", [N - 1, N - 1]), ("neg_mode", [-N])]
    if N >= 2:
        out += [("rep_mode", [0, 1, 0]), ("neg_mode", [0, -1]), ("oob_mode", [1, N]), ("rep_mode", [1, 1])]
    return out


def subsets(N, rng, tier):
    """well-formed mode selections in caller order (non-sorted ones included)"""
    out = []
    for r in range(1, N + 1):
        combs = list(itertools.permutations(range(N), r))
        if tier != "thorough" and len(combs) > 6:
            combs = rng.sample(combs, 6)
        out += [list(c) for c in combs]
    return out


# ================================================================================================
# tensor
# ================================================================================================
def _g_tensor_ctor(rng, tier):
    out = []
    for s in pool(tier):
        n = math.prod(s)
        out.append(({"dshape": list(s), "shape": None}, "control"))
        out.append(({"dshape": list(s), "shape": list(s)}, "control"))
        out.append(({"dshape": [n], "shape": list(s)}, "control"))
        out.append(({"dshape": list(s), "shape": list(s) + [2]}, "count"))
        out.append(({"dshape": list(s), "shape": list(s[:-1]) + [s[-1] + 1]}, "count"))
        out.append(({"dshape": list(s), "shape": [n + 1]}, "count"))
        out.append(({"dshape": list(s), "shape": []}, "count"))
        if len(s) > 1:
            out.append(({"dshape": list(s), "shape": list(s[:-1])}, "count" if s[-1] != 1 else "control"))
            out.append(({"dshape": list(s), "shape": list(s[::-1])}, "control"))
    return out


reg("tensor.ctor", "tensor_ctor",
    lambda a: f"{zl(a['dshape'])} {zo(a['shape'])}",
    lambda a: True if a["shape"] is None else (math.prod(a["dshape"]) == 0 if len(a["shape"]) == 0
                                               else math.prod(a["shape"]) == math.prod(a["dshape"])),
    lambda a: ((lambda d: ([d], lambda: _ttb().tensor(d, None if a["shape"] is None else tuple(a["shape"]))))(arr(a["dshape"]))),
    _g_tensor_ctor)


def _g_permute(rng, tier):
    out = []
    for s in pool(tier):
        N = len(s)
        perms = list(itertools.permutations(range(N)))
        if len(perms) > 6 and tier != "thorough":
            perms = rng.sample(perms, 6)
        for p in perms:
            out.append(({"s": list(s), "order": list(p)}, "control"))
        out.append(({"s": list(s), "order": list(range(N - 1))}, "short"))
        out.append(({"s": list(s), "order": list(range(N + 1))}, "long"))
        out.append(({"s": list(s), "order": [1] * N}, "all_ones"))
        out.append(({"s": list(s), "order": [0] * N}, "rep_mode" if N > 1 else "control"))
        out.append(({"s": list(s), "order": list(range(1, N + 1))}, "oob_mode"))
        out.append(({"s": list(s), "order": [-1] + list(range(N - 1))}, "neg_mode"))
        if N >= 2:
            out.append(({"s": list(s), "order": [0] + list(range(N - 1))}, "rep_mode"))
            out.append(({"s": list(s), "order": list(range(N - 1)) + [N]}, "oob_mode"))
            out.append(({"s": list(s), "order": [-x - 1 for x in range(N)]}, "neg_mode"))
    return out


reg("tensor.permute", "tensor_permute",
    lambda a: f"{zl(a['s'])} {zl(a['order'])}",
    lambda a: is_perm(len(a["s"]), a["order"]),
    lambda a: (lambda t: ([t], lambda: t.permute(_np().array(a["order"], dtype=int))))(T(a["s"])),
    _g_permute)


def _g_reshape(rng, tier):
    out = []
    for s in pool(tier):
        n = math.prod(s)
        out.append(({"s": list(s), "new": [n]}, "control"))
        out.append(({"s": list(s), "new": list(s[::-1])}, "control"))
        out.append(({"s": list(s), "new": [1, n]}, "control"))
        out.append(({"s": list(s), "new": [n + 1]}, "count"))
        out.append(({"s": list(s), "new": list(s) + [2]}, "count"))
        out.append(({"s": list(s), "new": [2 * n]}, "count"))
        if n > 1:
            out.append(({"s": list(s), "new": [n - 1]}, "count"))
        if len(s) > 1 and s[0] != 1:
            out.append(({"s": list(s), "new": list(s[1:])}, "count"))
    return out


reg("tensor.reshape", "tensor_reshape",
    lambda a: f"{zl(a['s'])} {zl(a['new'])}",
    lambda a: math.prod(a["s"]) == math.prod(a["new"]),
    lambda a: (lambda t: ([t], lambda: t.reshape(tuple(a["new"]))))(T(a["s"])),
    _g_reshape)


def shape_variants(s):
    """shapes differing from s in exactly one way (some broadcastable, some with equal element count)"""
    s = list(s)
    out = [("drop_mode", s[:-1]), ("extra_mode", s + [1]), ("extra_mode", [1] + s), ("extra_mode", s + [2])]
    for k in range(len(s)):
        out.append(("size", s[:k] + [s[k] + 1] + s[k + 1:]))
        if s[k] != 1:
            out.append(("size_one", s[:k] + [1] + s[k + 1:]))
    if s != s[::-1]:
        out.append(("swapped", s[::-1]))
    return [(t, v) for t, v in out if v != s and len(v) >= 1]


def _g_two_shapes(rng, tier):
    out = []
    for s in pool(tier):
        out.append(({"s": list(s), "u": list(s)}, "control"))
        for tag, v in shape_variants(s):
            out.append(({"s": list(s), "u": v}, tag))
    return out


reg("tensor.innerprod", "tensor_innerprod",
    lambda a: f"{zl(a['s'])} {zl(a['u'])}",
    lambda a: a["s"] == a["u"],
    lambda a: (lambda t, u: ([t, u], lambda: t.innerprod(u)))(T(a["s"]), T(a["u"])),
    _g_two_shapes)

for _nm, _f in (("add", lambda t, u: t + u), ("mul", lambda t, u: t * u), ("sub", lambda t, u: t - u),
                ("logical_and", lambda t, u: t.logical_and(u)), ("eq", lambda t, u: t == u), ("le", lambda t, u: t <= u)):
    reg("tensor." + _nm, "tensor_binop",
        lambda a: f"{zl(a['s'])} {zl(a['u'])}",
        lambda a: a["s"] == a["u"],
        (lambda f: lambda a: (lambda t, u: ([t, u], lambda: f(t, u)))(T(a["s"]), T(a["u"])))(_f),
        _g_two_shapes)


def _g_contract(rng, tier):
    out = []
    for s in pool(tier, 2):
        N = len(s)
        for i1 in range(-N - 1, N + 2):
            for i2 in range(-N - 1, N + 2):
                if in_range(N, i1) and in_range(N, i2):
                    tag = "same_mode" if i1 == i2 else ("control" if s[i1] == s[i2] else "size")
                elif i1 < 0 or i2 < 0:
                    tag = "neg_mode"
                else:
                    tag = "oob_mode"
                out.append(({"s": list(s), "i1": i1, "i2": i2}, tag))
    return out


reg("tensor.contract", "tensor_contract",
    lambda a: f"{zl(a['s'])} {gz(a['i1'])} {gz(a['i2'])}",
    lambda a: in_range(len(a["s"]), a["i1"]) and in_range(len(a["s"]), a["i2"]) and a["i1"] != a["i2"]
    and a["s"][a["i1"]] == a["s"][a["i2"]],
    lambda a: (lambda t: ([t], lambda: t.contract(a["i1"], a["i2"])))(T(a["s"])),
    _g_contract)


def mode_sel_cases(s, rng, tier, mult_for, bad_mult_for, allow_empty=False):
    """(dims, excl, mults, tag): well-formed selections (both conventions, both multiplicand-count conventions) and
    one violation each: mode list (neg/oob/rep), count (one short / one long), multiplicand size."""
    N = len(s)
    out = []
    for d in subsets(N, rng, tier):
        good = [mult_for(m) for m in d]
        out.append((d, None, good, "control"))
        full = [mult_for(m) for m in range(N)]
        if len(d) != N:
            out.append((d, None, full, "control"))
            ex = [m for m in range(N) if m not in d]
            out.append((None, ex, [mult_for(m) for m in sorted(d)], "control"))
            out.append((None, ex, full, "control"))
        # count violations
        if len(d) >= 2:
            out.append((d, None, good[:-1], "count_short" if len(d) - 1 != N else "control"))
        if len(d) + 1 != N:
            out.append((d, None, good + [mult_for(d[-1])], "count_long"))
        # size violations: exactly one multiplicand wrong
        for k in range(len(d)):
            for bad in bad_mult_for(d[k]):
                out.append((d, None, good[:k] + [bad] + good[k + 1:], "mult_size"))
        if len(d) >= 2 and s[d[0]] != s[d[1]]:
            sw = good[:]
            sw[0], sw[1] = sw[1], sw[0]
            out.append((d, None, sw, "mult_order"))
    out.append((None, None, [mult_for(m) for m in range(N)], "control"))
    out.append(([0], [0], [mult_for(0)], "both_given"))
    for tag, d in bad_mode_lists(N):
        mm = [mult_for(m if 0 <= m < N else 0) for m in d]
        out.append((d, None, mm, tag))
        if len(d) != N:
            out.append((d, None, [mult_for(m) for m in range(N)], tag))
        if tag != "rep_mode":
            out.append((None, d, [mult_for(m) for m in range(N)], tag))
    return out


def _g_ttv(rng, tier):
    out = []
    for s in pool(tier):
        def mult_for(m):
            return s[m]

        def bad(m):
            return [s[m] + 1, 1] if s[m] != 1 else [2]
        for d, e, mm, tag in mode_sel_cases(s, rng, tier, mult_for, bad):
            out.append(({"s": list(s), "vlens": mm, "dims": d, "excl": e}, tag))
    return out


def _pre_ttv(a):
    s, N, M = a["s"], len(a["s"]), len(a["vlens"])
    if not pre_sel(N, a["dims"], a["excl"]):
        return False
    return pre_mults(N, M, sel_modes(N, a["dims"], a["excl"]), lambda v, m: a["vlens"][v] == s[m])


def _dims(a):
    np = _np()
    return (None if a["dims"] is None else np.array(a["dims"], dtype=int),
            None if a["excl"] is None else np.array(a["excl"], dtype=int))


reg("tensor.ttv", "tensor_ttv",
    lambda a: f"{zl(a['s'])} {zl(a['vlens'])} {zo(a['dims'])} {zo(a['excl'])}",
    _pre_ttv,
    lambda a: (lambda t, vs: ([t, vs], lambda: t.ttv(vs, *_dims(a))))(T(a["s"]), [arr((n,), 2) for n in a["vlens"]]),
    _g_ttv)


def _g_ttm(rng, tier):
    out = []
    for s in pool(tier):
        for tr in (False, True):
            def mult_for(m):
                return (s[m], 2 + m % 2) if tr else (2 + m % 2, s[m])

            def bad(m):
                r = [(s[m] + 1, 2), (2, s[m] + 1)][0 if tr else 1]
                sw = (2, s[m]) if tr else (s[m], 2)
                res = [r]
                if s[m] != 2:
                    res.append(sw)         # swapped dims
                return res
            for d, e, mm, tag in mode_sel_cases(s, rng, tier, mult_for, bad):
                out.append(({"s": list(s), "ms": [list(x) for x in mm], "dims": d, "excl": e, "tr": tr}, tag))
    if tier != "thorough":
        out = [x for i, x in enumerate(out) if x[1] != "control" or i % 2 == 0]
    return out


def _pre_ttm(a):
    s, N, M = a["s"], len(a["s"]), len(a["ms"])
    if not pre_sel(N, a["dims"], a["excl"]):
        return False
    sel = sel_modes(N, a["dims"], a["excl"])
    if not sel:
        return False
    return pre_mults(N, M, sel, lambda v, m: a["ms"][v][0 if a["tr"] else 1] == s[m])


reg("tensor.ttm", "tensor_ttm",
    lambda a: f"{zl(a['s'])} {pl(a['ms'])} {zo(a['dims'])} {zo(a['excl'])} {gbool(a['tr'])}",
    _pre_ttm,
    lambda a: (lambda t, ms: ([t, ms], lambda: t.ttm(ms, *_dims(a), transpose=a["tr"])))(T(a["s"]), [arr(m, 3) for m in a["ms"]]),
    _g_ttm)


# ================================================================================================
# known findings: trigger predicates (as narrow as the defect) and witnesses
# ================================================================================================
FINDINGS = []      # source of findings.d/C19.jsonl (written by `python3 tools/props/c19_ops.py --findings`)


def finding(fid, trigger, pred, op, witness, what, call_site, proposed="fix"):
    TRIGGERS[trigger] = lambda c, _p=pred: bool(_p(c.op, c.args))

    def wit(_op=op, _w=witness):
        o = run(_op, _w)
        if "harness" in o:
            return "witness could not be built: " + o["harness"]
        return None if o["rejected"] else f"{_op}{_w} is answered, not rejected"
    WITNESSES[fid] = wit
    FINDINGS.append({"property": "C19", "finding_id": fid, "status": "open", "op": None, "trigger": trigger,
                     "call_site": call_site, "what": what, "witness": {"op": op, "args": witness},
                     "expected": "an exception (request rejected)", "observed": "a value is returned", "proposed": proposed})


def _wrapped_distinct(N, l):
    return all(-N <= x < N for x in l) and len({x % N for x in l}) == len(l) if N > 0 else False


def _bcast(a, b):
    return all(x == y or x == 1 or y == 1 for x, y in zip(a[::-1], b[::-1]))


DENSE_BINOPS = {"tensor.add", "tensor.sub", "tensor.mul", "tensor.logical_and", "tensor.eq", "tensor.le"}

finding("A-28", "permute_all_ones",
        lambda op, a: op == "tensor.permute" and len(a["order"]) == len(a["s"]) >= 1 and all(x == 1 for x in a["order"]),
        "tensor.permute", {"s": [4], "order": [1]},
        "tensor.permute: the '(order == 1).all()' shortcut returns a copy for any all-ones order ([1] on a 1-way tensor, "
        "[1,1] on a matrix) instead of rejecting the invalid permutation", "tensor.permute")
finding("C19-N01", "permute_negative_axes",
        lambda op, a: op == "tensor.permute" and len(a["order"]) == len(a["s"]) and any(x < 0 for x in a["order"])
        and _wrapped_distinct(len(a["s"]), a["order"]),
        "tensor.permute", {"s": [2, 3], "order": [-1, 0]},
        "tensor.permute: negative modes are passed to np.transpose, which wraps them around, so order [-1,0] is answered",
        "tensor.permute")
finding("C19-N02", "dense_binop_broadcast",
        lambda op, a: op in DENSE_BINOPS and a["s"] != a["u"] and _bcast(a["s"], a["u"]),
        "tensor.add", {"s": [2, 3], "u": [1, 3]},
        "dense element-wise binary operations (+ - * logical_* comparisons via tenfun) never compare shapes: operands of "
        "different shape are answered whenever numpy can broadcast them", "tensor.tenfun_binary")
finding("C19-N03", "contract_negative_2way",
        lambda op, a: op == "tensor.contract" and len(a["s"]) == 2 and (a["i1"] < 0 or a["i2"] < 0)
        and -2 <= a["i1"] < 2 and -2 <= a["i2"] < 2 and a["i1"] != a["i2"] and a["s"][a["i1"]] == a["s"][a["i2"]],
        "tensor.contract", {"s": [3, 3], "i1": -1, "i2": 0},
        "tensor.contract on a matrix: negative modes index self.shape with wrap-around and np.trace is returned "
        "(contract(-2, 0) even traces mode 0 against itself)", "tensor.contract")


def _rep_in_range(a):
    d = a.get("dims")
    return d is not None and a.get("excl") is None and len(set(d)) != len(d) and all(0 <= x < len(a["s"]) for x in d)


finding("A-42", "repeated_dims",
        lambda op, a: op in REPEATED_DIMS_OPS and _rep_in_range(a),
        "tensor.ttm", {"s": [2, 3], "ms": [[2, 2], [2, 2]], "dims": [0, 0], "excl": None, "tr": False},
        "tt_dimscheck accepts repeated dims; callers then answer when the sizes happen to chain (ttm applies both "
        "matrices to the same mode; ttv on a length-1 1-way tensor; collapse/scale ...)", "pyttb_utils.tt_dimscheck")
REPEATED_DIMS_OPS = {"tensor.ttv", "tensor.ttm"}


if __name__ == "__main__":
    import json
    import os
    import sys
    if "--findings" in sys.argv:
        p = os.path.join(os.path.dirname(os.path.abspath(__file__)), "..", "..", "findings.d", "C19.jsonl")
        with open(p, "w") as fh:
            for f in FINDINGS:
                fh.write(json.dumps(f) + "\n")
        print("wrote", len(FINDINGS), "findings")
