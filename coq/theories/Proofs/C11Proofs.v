(* Proofs/C11Proofs.v — CP-APR: non-negativity invariant of the MU loop (any division/normalisation oracle respecting
   signs), non-negativity of the projected PDNR/PQNR step, KKT bookkeeping.  The order enters only through the predicate
   nn x  ("0 <= x") closed under + and *, so the statements hold in every ordered commutative ring. *)
From Coq Require Import List Arith Lia Bool.
From PV Require Import Base.Index Base.Sum Np.Array Model.Sparse Model.Repr Model.C14Nvecs Model.C11Apr.
Import ListNotations.

Section C11.
Variable V : Type.
Variables (v0 v1 : V) (vadd vmul vsub : V -> V -> V).
Variable nn : V -> Prop.
Hypothesis nn0 : nn v0.
Hypothesis nn1 : nn v1.
Hypothesis nn_add : forall a b, nn a -> nn b -> nn (vadd a b).
Hypothesis nn_mul : forall a b, nn a -> nn b -> nn (vmul a b).
Variables (vdivmax vscale : V -> V -> V) (vabs : V -> V) (vmin vmax : V -> V -> V) (vgt0 : V -> bool) (vltb : V -> V -> bool).
Hypothesis divmax_nn : forall x v, nn x -> nn v -> nn (vdivmax x v).
Hypothesis scale_nn : forall t a, nn t -> nn a -> nn (vscale t a).
Hypothesis abs_nn : forall x, nn (vabs x).
Hypothesis max_nn : forall a b, nn a -> nn b -> nn (vmax a b).
Variables (kappa kappatol stoptol : V).
Hypothesis kappa_nn : nn kappa.
Variable maxinner : nat.

Notation nnl := (Forall nn).
Notation nnm := (Forall (Forall nn)).
Notation state := (state (V:=V)).
Notation mg := (mget v0).

Definition inv (st : state) : Prop :=
  nnl (sw st) /\ Forall nnm (sA st) /\ Forall nnm (sPhi st) /\ nnl (skkt st).

Lemma nn_nth l r : nnl l -> nn (nth r l v0).
Proof. intros H. destruct (nth_in_or_default r l v0) as [Hi| ->]; auto. rewrite Forall_forall in H. auto. Qed.
Lemma nnm_nth (A : list (list V)) a : nnm A -> nnl (nth a A []).
Proof. intros H. destruct (nth_in_or_default a A []) as [Hi| ->]; auto. rewrite Forall_forall in H. auto. Qed.
Lemma nn_mget A a r : nnm A -> nn (mg A a r).
Proof. intros H. unfold mget. apply nn_nth, nnm_nth, H. Qed.
Lemma nnM_nth (As : list (list (list V))) n : Forall nnm As -> nnm (nth n As []).
Proof. intros H. destruct (nth_in_or_default n As []) as [Hi| ->]; auto. rewrite Forall_forall in H. auto. Qed.

Lemma nn_sum_over {A} (l : list A) f : (forall x, In x l -> nn (f x)) -> nn (sum_over v0 vadd l f).
Proof.
  induction l as [|x l IH]; intros H; cbn; auto. apply nn_add; [apply H; cbn; auto|].
  apply IH. intros; apply H; cbn; auto.
Qed.

Lemma nn_kprod As : forall i r, Forall nnm As -> nn (kprod v0 v1 vmul As i r).
Proof.
  induction As as [|A As IH]; intros [|x i] r H; cbn; auto.
  inversion H; subst. apply nn_mul; [now apply nn_mget|now apply IH].
Qed.

Lemma nnm_mtab m k f : (forall a r, nn (f a r)) -> nnm (mtab m k f).
Proof.
  intros H. unfold mtab. apply Forall_forall. intros row Hr. apply in_map_iff in Hr. destruct Hr as (a & <- & _).
  apply Forall_forall. intros x Hx. apply in_map_iff in Hx. destruct Hx as (r & <- & _). apply H.
Qed.

Lemma Forall_upd {A} (P : A -> Prop) l : forall k v, Forall P l -> P v -> Forall P (upd l k v).
Proof.
  induction l as [|x l IH]; intros [|k] v H Hv; cbn; auto; inversion H; subst; constructor; auto.
Qed.

Lemma in_firstn_in {A} (x : A) n : forall l, In x (firstn n l) -> In x l.
Proof. induction n as [|n IH]; intros [|a l] H; cbn in *; try contradiction. destruct H; auto. Qed.
Lemma in_skipn_in' {A} (x : A) n : forall l, In x (skipn n l) -> In x l.
Proof. induction n as [|n IH]; intros [|a l] H; cbn in *; auto. Qed.
Lemma Forall_remove_nth {A} (P : A -> Prop) n l : Forall P l -> Forall P (remove_nth n l).
Proof.
  intros H. rewrite Forall_forall in *. intros x Hx. unfold remove_nth in Hx. apply in_app_or in Hx.
  destruct Hx as [Hx|Hx]; apply H; [eapply in_firstn_in|eapply in_skipn_in']; eauto.
Qed.

Lemma nnl_concat (M : list (list V)) : nnm M -> nnl (concat M).
Proof. induction 1; cbn; auto. apply Forall_app; auto. Qed.
Lemma nn_maxlist l : nnl l -> nn (maxlist v0 vmax l).
Proof. induction 1; cbn; auto. Qed.

Section WithData.
Variable X : dense V.
Hypothesis X_nn : forall i, nn (den_dense v0 X i).

Notation redistribute := (redistribute v0 v1 vmul).
Notation normalize_mode := (normalize_mode v0 vadd vmul vscale vabs).
Notation calc_phi := (calc_phi v0 v1 vadd vmul vdivmax).
Notation kappa_fix := (kappa_fix v0 vadd vgt0 vltb kappa kappatol).
Notation inner := (inner v0 v1 vadd vmul vsub vdivmax vabs vmin vmax vltb stoptol).
Notation mode_step := (mode_step v0 v1 vadd vmul vsub vdivmax vscale vabs vmin vmax vgt0 vltb kappa kappatol stoptol maxinner).
Notation sweep := (sweep v0 v1 vadd vmul vsub vdivmax vscale vabs vmin vmax vgt0 vltb kappa kappatol stoptol maxinner).
Notation outer := (outer v0 v1 vadd vmul vsub vdivmax vscale vabs vmin vmax vgt0 vltb kappa kappatol stoptol maxinner).

Lemma inv_redistribute n st : inv st -> inv (redistribute n st).
Proof.
  intros (Hw & HA & HP & Hk). repeat split; cbn; auto.
  - apply Forall_forall. intros x Hx. apply repeat_spec in Hx. now subst.
  - apply Forall_upd; auto. apply nnm_mtab. intros a r. apply nn_mul; [apply nn_mget, nnM_nth, HA|now apply nn_nth].
Qed.

Lemma nn_colnorm1 A r : nn (colnorm1 v0 vadd vabs A r).
Proof. apply nn_sum_over. intros; apply abs_nn. Qed.

Lemma inv_normalize n st : inv st -> inv (normalize_mode n st).
Proof.
  intros (Hw & HA & HP & Hk). repeat split; cbn; auto.
  - apply Forall_forall. intros x Hx. apply in_map_iff in Hx. destruct Hx as (r & <- & _).
    apply nn_mul; [now apply nn_nth|apply nn_colnorm1].
  - apply Forall_upd; auto. apply nnm_mtab. intros a r. apply scale_nn; [apply nn_colnorm1|apply nn_mget, nnM_nth, HA].
Qed.

Lemma inv_kappa n st : inv st -> inv (kappa_fix n st).
Proof.
  intros (Hw & HA & HP & Hk). repeat split; cbn; auto.
  apply Forall_upd; auto. apply nnm_mtab. intros a r.
  assert (H : nn (mg (fac st n) a r)) by (apply nn_mget, nnM_nth, HA).
  destruct (_ && _); auto.
Qed.

Lemma nnm_phi n st : inv st -> nnm (calc_phi X n st).
Proof.
  intros (Hw & HA & HP & Hk). apply nnm_mtab. intros a r. apply nn_sum_over. intros i _.
  assert (Hpi : forall s, nn (pi_entry v0 v1 vmul st n i s)) by (intros s; apply nn_kprod, Forall_remove_nth, HA).
  apply nn_mul; auto. apply divmax_nn; auto. apply nn_sum_over. intros s _.
  apply nn_mul; auto. apply nn_mget, nnM_nth, HA.
Qed.

Lemma nn_kkt A Phi R : nn (kkt_mode v0 v1 vsub vabs vmin vmax A Phi R).
Proof. apply nn_maxlist, nnl_concat, nnm_mtab. intros; apply abs_nn. Qed.

Lemma inv_inner fuel n : forall st, inv st -> inv (inner fuel X n st).
Proof.
  induction fuel as [|f IH]; intros st H; cbn [C11Apr.inner]; auto.
  pose proof (nnm_phi n st H) as HPhi. destruct H as (Hw & HA & HP & Hk).
  destruct (vltb _ stoptol).
  - repeat split; cbn; auto; apply Forall_upd; auto. apply nn_kkt.
  - apply IH. repeat split; cbn; auto; try (apply Forall_upd; auto).
    + apply nnm_mtab. intros a r. apply nn_mul; [apply nn_mget, nnM_nth, HA|now apply nn_mget].
    + apply nn_kkt.
Qed.

Lemma inv_mode_step iter n st : inv st -> inv (mode_step X iter n st).
Proof.
  intros H. unfold C11Apr.mode_step. apply inv_normalize, inv_inner, inv_redistribute.
  destruct iter; auto. now apply inv_kappa.
Qed.

Lemma inv_fold iter l : forall st, inv st -> inv (fold_left (fun s n => mode_step X iter n s) l st).
Proof. induction l as [|n l IH]; intros st H; cbn; auto. apply IH, inv_mode_step, H. Qed.

Lemma inv_sweep iter st : inv st -> inv (sweep X iter st).
Proof. intros (Hw & HA & HP & Hk). unfold C11Apr.sweep. apply inv_fold. repeat split; auto. Qed.

(* invariant over all sweeps and inner iterations + bookkeeping of the KKT list *)
Lemma outer_spec fuel : forall iter st kkts, inv st -> nnl kkts ->
  let res := outer fuel X iter st kkts in
  inv (fst res) /\ nnl (snd res) /\
  exists k, length (snd res) = length kkts + k /\ k <= fuel /\ (1 <= fuel -> 1 <= k) /\ (k < fuel -> sconv (fst res) = true).
Proof.
  induction fuel as [|f IH]; intros iter st kkts H Hk; cbn [C11Apr.outer].
  - cbn. split; [exact H|]. split; [exact Hk|]. exists 0. repeat split; lia.
  - pose proof (inv_sweep iter st H) as Hs.
    assert (Hk' : nnl (kkts ++ [maxlist v0 vmax (skkt (sweep X iter st))])).
    { apply Forall_app; split; auto. constructor; auto. apply nn_maxlist. apply Hs. }
    destruct (sconv (sweep X iter st)) eqn:E.
    + cbn. split; [exact Hs|]. split; [exact Hk'|]. exists 1. rewrite app_length. cbn. repeat split; auto; lia.
    + specialize (IH (S iter) _ _ Hs Hk'). cbv zeta in IH. destruct IH as (I1 & I2 & k & Hl & Hle & H1 & Hc).
      split; [exact I1|]. split; [exact I2|]. exists (S k). rewrite Hl, app_length. cbn. repeat split; try lia.
      intros Hlt. apply Hc. lia.
Qed.

End WithData.

Lemma inv_init (K : ktensor V) : nnl (kweights K) -> Forall nnm (kfactors K) ->
  inv (init_state v0 vadd vmul vscale vabs K).
Proof.
  intros Hw HA. unfold init_state.
  assert (H0 : inv (mkSt (kweights K) (kfactors K)
              (map (fun A : list (list V) => mtab (length A) (length (kweights K)) (fun _ _ => v0)) (kfactors K))
              (repeat v0 (length (kfactors K))) true)).
  { repeat split; cbn; auto.
    - apply Forall_forall. intros M HM. apply in_map_iff in HM. destruct HM as (A & <- & _). apply nnm_mtab. auto.
    - apply Forall_forall. intros x Hx. apply repeat_spec in Hx. now subst. }
  revert H0. generalize (seq 0 (length (kfactors K))). intros l. generalize (mkSt (kweights K) (kfactors K)
              (map (fun A : list (list V) => mtab (length A) (length (kweights K)) (fun _ _ => v0)) (kfactors K))
              (repeat v0 (length (kfactors K))) true).
  induction l as [|n l IH]; intros st H; cbn; auto. apply IH. now apply inv_normalize.
Qed.

(* the whole MU run *)
Theorem mu_nonneg (X : dense V) (K : ktensor V) (maxiters : nat) :
  (forall i, nn (den_dense v0 X i)) -> nnl (kweights K) -> Forall nnm (kfactors K) ->
  let res := cp_apr_mu v0 v1 vadd vmul vsub vdivmax vscale vabs vmin vmax vgt0 vltb kappa kappatol stoptol maxinner X K maxiters in
  nnl (sw (fst res)) /\ Forall nnm (sA (fst res)) /\ Forall nnm (sPhi (fst res)) /\
  nnl (snd res) /\ length (snd res) <= maxiters /\ (1 <= maxiters -> 1 <= length (snd res)) /\
  (length (snd res) < maxiters -> sconv (fst res) = true).
Proof.
  intros HX Hw HA. cbv zeta. unfold cp_apr_mu.
  destruct (outer_spec X HX maxiters 0 _ [] (inv_init K Hw HA) (Forall_nil _)) as ((I1 & I2 & I3 & I4) & Hk & k & Hl & Hle & H1 & Hc).
  cbn [length plus] in Hl. rewrite Hl. repeat split; auto.
Qed.

(* projected line-search step: whatever the candidate (m + alpha d for any direction d, or the multiplicative fallback) *)
Hypothesis gt0_nn : forall x, vgt0 x = true -> nn x.
Theorem proj_nonneg (m d : list V) (alpha : V) : nnl (projected_step v0 vadd vmul vgt0 m d alpha).
Proof.
  unfold projected_step. apply Forall_forall. intros x Hx. apply in_map_iff in Hx. destruct Hx as (p & <- & _).
  unfold project. destruct (vgt0 _) eqn:E; auto.
Qed.
Theorem proj_any (cand : list V) : nnl (map (project v0 vgt0) cand).
Proof.
  apply Forall_forall. intros x Hx. apply in_map_iff in Hx. destruct Hx as (p & <- & _).
  unfold project. destruct (vgt0 _) eqn:E; auto.
Qed.

End C11.
