(* Proofs/C02KruskalProofs.v — Kruskal tensors: innerprod(ktensor), norm()^2 and mttkrp via the Gram / Hadamard formulas equal the
   defining sums over the array the Kruskal tensor denotes, for every rank, shape and commutative ring. *)
From Coq Require Import List Arith Lia Bool Permutation Ring.
From PV Require Import Base.Index Base.Perm Base.Sum Np.Array Model.Sparse Model.Repr Model.C02Spec Model.C02Dense Model.C02Sparse
                       Model.C02Kruskal Proofs.C02DenseProofs Proofs.C02SparseProofs Proofs.C02MttkrpProofs.
Import ListNotations.

Section P.
Variable V : Type.
Variables (v0 v1 : V) (vadd vmul vsub : V -> V -> V) (vopp : V -> V).
Hypothesis Vring : ring_theory v0 v1 vadd vmul vsub vopp (@eq V).
Add Ring Vr6 : Vring.

Local Notation "x + y" := (vadd x y).
Local Notation "x * y" := (vmul x y).
Local Notation Sn := (sum_n v0 vadd).
Local Notation So := (sum_over v0 vadd).
Local Notation kp := (kprod v0 v1 vmul).
Local Notation gr := (gram v0 vadd vmul).
Local Notation denk := (den_k v0 v1 vadd vmul).

(* Π_n (A_n^T B_n)[r, q] *)
Fixpoint gprod (As Bs : list (@matrix V)) (r q : nat) : V :=
  match As, Bs with
  | A :: As', B :: Bs' => gr A B r q * gprod As' Bs' r q
  | _, _ => v1
  end.

Lemma hadamard_loop_spec : forall (As Bs : list (@matrix V)) M r q,
  hadamard_loop v0 vadd vmul M As Bs r q = M r q * gprod As Bs r q.
Proof.
  induction As as [|A As IH]; intros [|B Bs] M r q; cbn [hadamard_loop gprod]; try ring.
  rewrite IH. ring.
Qed.

Lemma sum_allsubs_cons d s (g : idx -> V) :
  So (allsubs (d :: s)) g = Sn d (fun x => So (allsubs s) (fun i => g (x :: i))).
Proof.
  change (d :: s) with ([d] ++ s). rewrite (sum_allsubs_app V v0 v1 vadd vmul vsub vopp Vring).
  unfold sum_n at 1. unfold sum_n at 1. rewrite (sum_over_swap _ _ _ _ _ _ _ Vring).
  replace (size [d]) with d by (cbn; lia).
  apply sum_over_ext. intros x Hx. apply in_seq in Hx.
  unfold allsubs. rewrite sum_over_map. apply sum_over_ext. intros c _.
  cbn [ind2sub app]. rewrite Nat.mod_small by lia. reflexivity.
Qed.

(* Σ_i Π_n A_n[i_n, r] B_n[i_n, q]  =  Π_n (A_n^T B_n)[r, q] *)
Lemma sum_kprod_gram : forall (As Bs : list (@matrix V)) r q,
  map (@length _) As = map (@length _) Bs ->
  So (allsubs (map (@length _) As)) (fun i => kp As i r * kp Bs i q) = gprod As Bs r q.
Proof.
  induction As as [|A As IH]; intros [|B Bs] r q HS; cbn [map] in HS; try discriminate.
  - cbn. ring.
  - inversion HS as [[HA HS']]. cbn [map gprod]. rewrite sum_allsubs_cons.
    transitivity (Sn (length A) (fun x => (mget v0 A x r * mget v0 B x q) * gprod As Bs r q)).
    + apply sum_n_ext. intros x Hx. rewrite <- (IH Bs r q HS').
      rewrite <- (sum_over_scale_l _ _ _ _ _ _ _ Vring). apply sum_over_ext. intros i _. cbn [kprod]. ring.
    + unfold sum_n. rewrite (sum_over_scale_r _ _ _ _ _ _ _ Vring). reflexivity.
Qed.

(* ---------------------------------------------------------------- innerprod of two Kruskal tensors *)
Theorem impl_innerprod_kk_correct (K L : ktensor V) : kshape K = kshape L ->
  impl_innerprod_kk v0 vadd vmul K L = spec_innerprod v0 vadd vmul (denk K) (denk L) (kshape K).
Proof.
  intros HS. unfold impl_innerprod_kk, spec_innerprod.
  transitivity (Sn (krank K) (fun r => Sn (krank L) (fun q =>
                  So (allsubs (kshape K)) (fun i => (nth r (kweights K) v0 * kp (kfactors K) i r) *
                                                     (nth q (kweights L) v0 * kp (kfactors L) i q))))).
  - apply sum_n_ext. intros r _. apply sum_n_ext. intros q _.
    rewrite hadamard_loop_spec. unfold kshape, nrows. rewrite <- sum_kprod_gram by exact HS.
    rewrite <- (sum_over_scale_l _ _ _ _ _ _ _ Vring). apply sum_over_ext. intros i _. ring.
  - unfold sum_n.
    rewrite (sum_over_ext _ _ _ _ _ _ (fun r _ => sum_over_swap _ _ _ _ _ _ _ Vring _ _ _)).
    rewrite (sum_over_swap _ _ _ _ _ _ _ Vring).
    apply sum_over_ext. intros i Hi. apply in_allsubs in Hi.
    unfold den_k. rewrite <- HS, Hi. unfold sum_n.
    rewrite <- (sum_over_scale_r _ _ _ _ _ _ _ Vring). apply sum_over_ext. intros r _.
    rewrite <- (sum_over_scale_l _ _ _ _ _ _ _ Vring). reflexivity.
Qed.

Theorem impl_normsq_k_correct (K : ktensor V) :
  impl_normsq_k v0 vadd vmul K = spec_normsq v0 vadd vmul (denk K) (kshape K).
Proof. unfold impl_normsq_k, spec_normsq. now apply impl_innerprod_kk_correct. Qed.

(* ---------------------------------------------------------------- Kruskal mttkrp (factor list) *)
Theorem impl_mttkrp_k_correct (K : ktensor V) (Us : list (@matrix V)) n R x c :
  n < length (kfactors K) -> x < nth n (kshape K) 0 -> c < R ->
  map (@length _) (remove_at n Us) = remove_at n (kshape K) ->
  impl_mttkrp_k v0 vadd vmul K Us n x c =
  spec_mttkrp v0 v1 vadd vmul (denk K) (kshape K) n (repeat v1 R) Us x c.
Proof.
  intros Hn Hx Hc HS. unfold impl_mttkrp_k, spec_mttkrp.
  assert (HS' : map (@length _) (remove_at n (kfactors K)) = map (@length _) (remove_at n Us)).
  { rewrite HS. unfold kshape, nrows. now rewrite map_remove_at. }
  transitivity (Sn (krank K) (fun r => So (allsubs (remove_at n (kshape K))) (fun j =>
                  (nth r (kweights K) v0 * (mget v0 (nth n (kfactors K) []) x r * kp (remove_at n (kfactors K)) j r)) *
                  kp (remove_at n Us) j c))).
  - apply sum_n_ext. intros r _. rewrite hadamard_loop_spec.
    rewrite <- sum_kprod_gram by exact HS'.
    replace (map (@length _) (remove_at n (kfactors K))) with (remove_at n (kshape K))
      by (unfold kshape, nrows; now rewrite map_remove_at).
    rewrite <- !(sum_over_scale_l _ _ _ _ _ _ _ Vring). apply sum_over_ext. intros j _. ring.
  - unfold sum_n. rewrite (sum_over_swap _ _ _ _ _ _ _ Vring).
    apply sum_over_ext. intros j Hj. apply in_allsubs in Hj.
    unfold den_k. rewrite inb_insert by (unfold kshape; now rewrite map_length).
    rewrite Hj. apply Nat.ltb_lt in Hx. rewrite Hx. cbn [andb].
    rewrite nth_indep with (d' := v1) by (now rewrite repeat_length). rewrite nth_repeat.
    unfold sum_n. rewrite <- (sum_over_scale_r _ _ _ _ _ _ _ Vring). apply sum_over_ext. intros r _.
    rewrite (kprod_insert V v0 v1 vadd vmul vsub vopp Vring); [ring|exact Hn|].
    apply inb_length in Hj. rewrite Hj. unfold kshape. rewrite <- map_remove_at. now rewrite map_length.
Qed.

End P.
