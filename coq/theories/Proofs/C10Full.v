(* Proofs/C10Full.v — ttensor.full over ALL modes (wave 3b).
   The reconstruction the correspondence recomputes (Model/C10Tucker.v tfull_ttm: core x_0 U_0 x_1 U_1 ... with the model's
   defining-sum ttm) is
     * the array pyttb's own kernel produces (Model/C01Ttm.v ttensor_full_impl: tensor.ttm = permute / F-reshape / matmul /
       F-reshape / inverse permute, mode by mode; C02's impl_ttm_dense, theorem C01_tucker_impl), and
     * the tabulated Tucker denotation den_t (tfull),
   for every commutative ring, every shape, every number of modes. *)
From Coq Require Import List Arith Lia Bool Ring ZArith.
From PV Require Import Base.Index Base.Sum Np.Array Model.Sparse Model.Repr Model.C10Tucker Model.C01Conv Model.C01Ttm
                       Proofs.C01Tucker Proofs.C01Ttm.
Import ListNotations.

(* the two transliterations of "subscript i with entry n replaced by x" agree inside the list *)
Lemma set_nth_c10_c01 : forall (n x : nat) (i : list nat), n < length i ->
  C10Tucker.set_nth n x i = C01Conv.set_nth i n x.
Proof.
  induction n as [|n IH]; intros x [|y i] H; cbn in H; try lia.
  - reflexivity.
  - change (C10Tucker.set_nth (S n) x (y :: i)) with (y :: C10Tucker.set_nth n x i).
    cbn [C01Conv.set_nth]. now rewrite IH by lia.
Qed.

Section Full.
Variable V : Type.
Variables (v0 v1 : V) (vadd vmul vsub : V -> V -> V) (vopp : V -> V).
Hypothesis Vring : ring_theory v0 v1 vadd vmul vsub vopp (@eq V).

(* one mode: C10's ttm is C01's ttm_mode *)
Lemma ttm_is_ttm_mode (X : dense V) (n : nat) (M : matrix (V:=V)) : n < length (dshape X) ->
  ttm v0 vadd vmul X n M = ttm_mode v0 vadd vmul X M n.
Proof.
  intros Hn. unfold ttm, ttm_mode. rewrite (set_nth_c10_c01 n (nrows M) (dshape X) Hn).
  apply tabulate_ext. intros i Hi. apply inb_length in Hi.
  assert (Hl : length i = length (dshape X)).
  { rewrite Hi. rewrite <- (set_nth_c10_c01 n (nrows M) (dshape X) Hn).
    unfold C10Tucker.set_nth. rewrite app_length. cbn [length]. rewrite firstn_length, skipn_length. lia. }
  unfold ttm_den. apply (sum_n_ext V v0 vadd). intros a _.
  rewrite (set_nth_c10_c01 n a i) by lia. reflexivity.
Qed.

Lemma ttm_mode_ndims (X : dense V) (n : nat) (M : matrix (V:=V)) :
  length (dshape (ttm_mode v0 vadd vmul X M n)) = length (dshape X).
Proof. unfold ttm_mode. rewrite dshape_tabulate. apply set_nth_length. Qed.

Lemma ttm_from_is_ttm_all (Ms : list (matrix (V:=V))) : forall (X : dense V) (n : nat),
  n + length Ms <= length (dshape X) ->
  ttm_from v0 vadd vmul X n Ms = C01Conv.ttm_all v0 vadd vmul X Ms n.
Proof.
  induction Ms as [|M Ms IH]; intros X n H; cbn [ttm_from C01Conv.ttm_all]; [reflexivity|].
  cbn [length] in H. rewrite ttm_is_ttm_mode by lia. apply IH. rewrite ttm_mode_ndims. lia.
Qed.

(* ttensor.full over all modes *)
Theorem tfull_ttm_correct (T : ttensor V) : wf_dense (tcore T) -> length (dshape (tcore T)) = length (tfactors T) ->
  tfull_ttm v0 vadd vmul T = ttensor_full_impl v0 vadd vmul T /\
  tfull_ttm v0 vadd vmul T = tfull v0 v1 vadd vmul T /\
  wf_dense (tfull_ttm v0 vadd vmul T) /\ dshape (tfull_ttm v0 vadd vmul T) = tshape T /\
  forall i, den_dense v0 (tfull_ttm v0 vadd vmul T) i = den_t v0 v1 vadd vmul T i.
Proof.
  intros W HN.
  destruct (ttensor_full_impl_correct V v0 v1 vadd vmul vsub vopp Vring T W HN) as (E & WI & HS & HD).
  assert (E2 : tfull_ttm v0 vadd vmul T = ttensor_full_impl v0 vadd vmul T).
  { rewrite E. unfold tfull_ttm, C10Tucker.ttm_all, ttensor_full. apply ttm_from_is_ttm_all. lia. }
  split; [exact E2|]. rewrite E2. split; [|auto].
  unfold tfull. apply (dense_ext v0); [exact WI|apply wf_tabulate|now rewrite dshape_tabulate|].
  intros i Hi. rewrite HS in Hi. rewrite den_tabulate by exact Hi. apply HD.
Qed.

End Full.

(* non-vacuity: a 3x1x4 reconstruction from a 2x1x2 core with non-symmetric factors; all three routes give the same array *)
Definition ex_full_T : ttensor Z :=
  mkT (mkDense [2; 1; 2] [2; 3; 1; 4]%Z) [[[1; 2]; [3; 4]; [0; 5]]; [[5]; [7]]; [[1; 0]; [2; 1]; [0; 3]; [1; 1]]]%Z.
Example tfull_ttm_example :
  tfull_ttm 0%Z Z.add Z.mul ex_full_T = ttensor_full_impl 0%Z Z.add Z.mul ex_full_T /\
  tfull_ttm 0%Z Z.add Z.mul ex_full_T = tfull 0%Z 1%Z Z.add Z.mul ex_full_T /\
  dshape (tfull_ttm 0%Z Z.add Z.mul ex_full_T) = [3; 2; 4] /\
  den_dense 0%Z (tfull_ttm 0%Z Z.add Z.mul ex_full_T) [2; 1; 3] = 245%Z.
Proof. repeat split; reflexivity. Qed.
