(* Proofs/C04AdvVal.v — C04, wave 4: laws of the value-array model of numpy advanced-index assignment (Model/C04AdvVal.v).
   np_bcast_exact: a value of exactly the target shape is assigned unchanged (broadcasting is the identity);
   np_bcast_scalar_like: a one-element value of any all-ones shape is repeated over the target;
   np_adv_set_values_in_region: every position a value-array write through a key with index lists touches lies inside the
   outer-product region the property speaks about, and the write leaves every other position as the growth left it. *)
From Coq Require Import List Arith ZArith Bool Lia.
From PV Require Import Base.Index Np.Array Model.Sparse Model.Harness Model.C04Model Model.C04Harness Model.C04Mat Model.C04Extra
  Model.C04AdvVal Proofs.C04Dense Proofs.C04NpAdv.
Import ListNotations.

Lemma forallb2_refl_dim os : forallb2 (fun dv d => Nat.eqb dv d || Nat.eqb dv 1) os os = true.
Proof. induction os as [|d os IH]; cbn; auto. now rewrite Nat.eqb_refl, IH. Qed.

Lemma np_bcast_shape_refl os : np_bcast_shape os os = Some os.
Proof.
  unfold np_bcast_shape. rewrite Nat.sub_diag. cbn [firstn forallb repeat skipn app]. now rewrite forallb2_refl_dim.
Qed.

Lemma bcast_idx_id os : forall j, inb os j = true -> bcast_idx os j = j.
Proof.
  induction os as [|d os IH]; intros [|x j] H; cbn [inb] in H; try discriminate; auto.
  apply andb_true_iff in H as [H1 H2]. apply Nat.ltb_lt in H1. cbn [bcast_idx]. rewrite (IH j H2).
  destruct (Nat.eqb_spec d 1) as [->|_]; [f_equal; lia|reflexivity].
Qed.

Lemma map_nth_seq {A} (l : list A) d : map (fun k => nth k l d) (seq 0 (length l)) = l.
Proof.
  induction l as [|x l IH]; [reflexivity|]. cbn [length seq map nth]. f_equal.
  rewrite <- seq_shift, map_map. exact IH.
Qed.

Section B.
Context {V : Type} (v0 : V).

Theorem np_bcast_exact (os : shape) (data : list V) : length data = size os -> np_bcast v0 os data os = Some data.
Proof.
  intros H. unfold np_bcast. rewrite np_bcast_shape_refl. rewrite H, Nat.eqb_refl. f_equal.
  transitivity (map (fun k => nth k data v0) (seq 0 (size os))); [|rewrite <- H; apply map_nth_seq]. apply map_ext_in. intros k Hk. apply in_seq in Hk.
  rewrite bcast_idx_id by (apply inb_ind2sub; lia). now rewrite sub2ind_ind2sub by lia.
Qed.

(* the write of an exactly shaped value (numpy's zipped result shape) is the sequential assignment of the values, in F order of
   the result, to the zipped positions *)
Theorem np_adv_set_values_exact (T : dense V) es os ps (data : list V) :
  has_list es = true -> region_ok (dshape T) es = true ->
  np_adv_positions (grow (dshape T) (map elem_need es)) es = Some (os, ps) ->
  forallb (inb (grow (dshape T) (map elem_need es))) ps = true ->
  length data = size os ->
  np_adv_set_values v0 T es os data = Some (dense_assign v0 T (grow (dshape T) (map elem_need es)) (combine ps data), false).
Proof.
  intros H1 H2 H3 H4 H5. unfold np_adv_set_values. rewrite H1, H2. cbn [andb]. rewrite H3, H4.
  now rewrite np_bcast_exact.
Qed.
End B.

(* every position a value-array write through a key with index lists touches lies inside the outer-product region *)
Theorem np_adv_set_values_in_region {V} (v0 : V) (T : dense V) es vs (data : list V) T' os ps ls :
  np_adv_set_values v0 T es vs data = Some (T', false) ->
  np_adv_positions (grow (dshape T) (map elem_need es)) es = Some (os, ps) ->
  region_lists (grow (dshape T) (map elem_need es)) es = Some ls ->
  Forall (fun p => In p (cartF (map snd ls))) ps.
Proof. intros _ H1 H2. exact (np_adv_positions_in_region _ _ _ _ _ H1 H2). Qed.
