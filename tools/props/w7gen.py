"""W7GEN — differential stream for the seventh translator batch (option "m7": Gen/GenTenmat7.v, Np/NpZ7.v): the argument checks and
stored fields of tenmat.__init__, generated from /repo/pyttb/tenmat.py on every run, are run against pyttb.tenmat on the same
explicit inputs (same shape as w4gen.py).

Op: tenmat_init (data: None / 0-d / 1-d / 2-d / 3-d array, empty arrays, numeric and boolean dtypes, C- and F-ordered buffers;
rdims / cdims: None, empty, valid splits, repeated / out-of-range / negative modes; tshape: None, tuple, list, int, ndarray, wrong
products; copy True / False)."""
import itertools
from vcheck import Case, gz, gzlist, gzmat, gopt, gbool

PROP = "W7GEN"
LEVEL = "proof"
GEN_UNITS = ["GenTenmat7", "GenSptenmat7", "GenUtils", "GenUtils2", "GenUtils3b"]
COQ_TARGETS = ["Props/W7C01.vo", "Props/W7C01b.vo", "Props/W7C01c.vo", "Props/W7C01d.vo", "Model/W7Harness.vo", "Model/Harness.vo"]
THEOREM_FILES = ["Props/W7C01.v", "Props/W7C01b.v", "Props/W7C01c.v", "Props/W7C01d.v"]
COQ_IMPORTS = ("From Coq Require Import List ZArith Bool.\n"
               "From PV Require Import Np.NpZ Np.NpZ2 Np.NpZ3 Np.NpZ3b Np.NpZ7 Np.NpZ7b Gen.GenTenmat7 Gen.GenSptenmat7 Model.W7Harness.\n")
RULE = ("tenmat(data, rdims, cdims, tshape, copy): data None / empty / 0-d .. 3-d arrays with 1-12 entries (float64, int64, int8, "
        "float32, bool; C- and F-ordered), tshape None / tuple / list / int / ndarray (every ordered factorisation of the entry "
        "count, plus wrong products), rdims / cdims None / empty / every split of a mode permutation / malformed (repeated, negative, "
        "out of range, overlapping, incomplete); a case is non-trivial when data has at least one entry; distinct = distinct arguments")
EXPLANATION = ("Theorems (Props/W7C01.v) are stated over Gen/GenTenmat7.v, regenerated from pyttb/tenmat.py on this run; the "
               "correspondence stream runs the same generated constructor against pyttb.tenmat.")
SHARD = 300
ASSUMPTIONS = ["sptenmat: subs is a list of rows, vals the list of its entries (given as an (n, 1) column; 1-d / column shapes are not "
               "distinguished); a stored empty 1-d array where a matrix is expected is compared as the matrix without rows",
               "an array is modelled as shape + Fortran-order entries: memory layout / aliasing (copy=False) are not modelled; "
               "tenmat._matches_order is a parameter of the generated function (instantiated with the layout of the input)",
               "`tshape == ()` with an ndarray tshape (only reachable when data is None or empty) is outside the model: not generated",
               "dtype: the model sees only issubclass(data.dtype.type, np.number) (flag data_isnum); entries are integer-valued"]
CORRESPONDENCE_ONLY = []
DTYPES = ["float64", "int64", "int8", "float32", "bool"]


# ------------------------------------------------------------------------------------------------- literals
def gnd(d):
    return f"(mk_ndz {gzlist(d['shape'])} {gzlist(d['vals'])})"


def gshp(t):
    k, v = t
    if k == "int":
        return f"(SInt {gz(v)})"
    if k == "arr":
        return f"(SArr (mknd {gzlist([len(v)])} DInt " + ("(@nil npnum)" if not v else "[" + "; ".join(f"NFin {gz(x)}" for x in v) + "]") + "))"
    el = "(@nil pyelem)" if not v else "[" + "; ".join(f"EInt {gz(x)}" for x in v) + "]"
    return f"({'STuple' if k == 'tuple' else 'SList'} {el})"


def gtm(o):
    return f"(mk_tmz {gzlist(o['tshape'])} {gzlist(o['r'])} {gzlist(o['c'])} (mk_ndz {gzlist(o['dshape'])} {gzlist(o['dvals'])}))"


# ------------------------------------------------------------------------------------------------- python values
def py_data(np, d):
    if d is None:
        return None
    a = np.array(d["vals"], dtype=float).reshape(tuple(d["shape"]), order="F")
    if d["dtype"] == "bool":
        a = a != 0
    else:
        a = a.astype(d["dtype"])
    if a.ndim == 0:              # np.ascontiguousarray / asfortranarray return at least 1-d
        return a
    return np.ascontiguousarray(a) if d["layout"] == "C" else np.asfortranarray(a)


def py_shape(np, t):
    if t is None:
        return None
    k, v = t
    return {"int": lambda: int(v), "tuple": lambda: tuple(v), "list": lambda: list(v), "arr": lambda: np.array(v, dtype=int)}[k]()


def py_dims(np, r):
    return None if r is None else np.array(r, dtype=int)


def factorisations(n):
    """ordered factorisations of n into factors >= 1 with at most 3 factors"""
    out = [[n]]
    for a in range(1, n + 1):
        if n % a == 0:
            out.append([a, n // a])
            for b in range(1, n // a + 1):
                if (n // a) % b == 0:
                    out.append([a, b, n // a // b])
    return out


def splits(rng, n):
    """(rdims, cdims) requests for n modes: valid splits of a permutation with either side possibly left to pyttb, and malformed ones"""
    p = rng.sample(range(n), n)
    k = rng.randint(0, n)
    r, c = p[:k], p[k:]
    good = [(r, c), (r, None), (None, c), (None, None), (sorted(r), sorted(c))]
    bad = [(r + r[:1], c), (r, c[1:]) if c else (r[1:], c), ([x - n for x in r], c), (r, [x + n for x in c]),
           ([rng.randint(-n - 1, n + 1) for _ in range(rng.randint(0, n + 1))], [rng.randint(-n - 1, n + 1) for _ in range(rng.randint(0, n + 1))]),
           (r, r), ([], []), (c, None)]
    return good, bad


def gen_cases(rng, tier):
    big = tier == "thorough"
    n = 900 if big else 260
    cases = []

    def add(data, r, c, t, copy):
        nt = data is not None and all(x > 0 for x in data["shape"])
        cases.append(Case("tenmat_init", {"data": data, "rdims": r, "cdims": c, "tshape": t, "copy": copy}, nt))

    # --- empty constructor: data None or without entries
    for data in [None, {"shape": [0], "vals": [], "dtype": "float64", "layout": "C"},
                 {"shape": [0, 3], "vals": [], "dtype": "float64", "layout": "F"},
                 {"shape": [2, 0], "vals": [], "dtype": "bool", "layout": "C"}]:
        for r in [None, [], [0]]:
            for c in [None, [], [1]]:
                for t in [None, ("tuple", []), ("tuple", [2]), ("list", []), ("int", 0), ("tuple", [0])]:
                    add(data, r, c, t, rng.random() < 0.5)
    # --- data with entries
    for _ in range(n):
        size = rng.choice([1, 2, 3, 4, 6, 6, 8, 12])
        nd = rng.choice([0, 1, 1, 2, 2, 2, 2, 3]) if size == 1 else rng.choice([1, 1, 2, 2, 2, 2, 3])
        shp = {0: [[]], 1: [[size]], 2: [f for f in factorisations(size) if len(f) == 2], 3: [f for f in factorisations(size) if len(f) == 3]}[nd]
        data = {"shape": rng.choice(shp), "vals": [rng.randint(-9, 9) for _ in range(size)],
                "dtype": rng.choice(DTYPES + ["float64", "float64"]), "layout": rng.choice(["C", "F"])}
        if data["dtype"] == "bool":
            data["vals"] = [rng.randint(0, 1) for _ in range(size)]
        ts = rng.choice(factorisations(size))
        kind = rng.choice(["tuple", "tuple", "list", "arr", "none", "int"])
        wrong = rng.random() < 0.15
        if wrong and ts:
            ts = list(ts)
            ts[rng.randrange(len(ts))] += rng.choice([1, -1, 1])
        if kind == "none":
            t, nm = None, len(data["shape"])
        elif kind == "int":
            t, nm = ("int", size + (1 if wrong else 0)), 1
        else:
            t, nm = (kind, ts), len(ts)
        good, bad = splits(rng, nm)
        for (r, c) in rng.sample(good, 2) + rng.sample(bad, 1):
            add(data, r, c, t, rng.random() < 0.5)
    # --- sptenmat.__init__
    def adds(subs, vals, r, c, t, copy):
        cases.append(Case("sptenmat_init", {"subs": subs, "vals": vals, "rdims": r, "cdims": c, "tshape": t, "copy": copy}, bool(subs) and bool(vals)))

    for subs in [None, [], [[0, 0]]]:
        for vals in [None, [], [4]]:
            for (r, c) in [(None, None), ([0], None), (None, []), ([], [])]:
                for t in [[], [2]]:
                    adds(subs, vals, r, c, t, rng.random() < 0.5)
    for _ in range(n):
        nm = rng.choice([1, 2, 2, 3, 3])
        t = [rng.randint(1, 3) for _ in range(nm)]
        good, bad = splits(rng, nm)
        for (r, c) in rng.sample(good, 2) + rng.sample(bad, 1):
            rr = r if r is not None else [x for x in range(nm) if x not in (c or [])]
            cc = c if c is not None else [x for x in range(nm) if x not in rr]
            R = C = 1
            for x in rr:
                R *= t[x % nm] if -nm <= x < nm else 1
            for x in cc:
                C *= t[x % nm] if -nm <= x < nm else 1
            k = rng.choice([0, 1, 2, 3, 4, 5])
            pool = [[rng.randrange(R), rng.randrange(C)] for _ in range(max(1, k // 2 + 1))]
            subs = [list(rng.choice(pool)) for _ in range(k)]
            vals = [rng.choice([-2, -1, 0, 1, 2, 3]) for _ in range(k)]
            if k >= 2 and rng.random() < 0.3:
                subs[1], vals[1] = list(subs[0]), -vals[0]          # a pair that cancels
            u = rng.random()
            if k and u < 0.08:
                subs[rng.randrange(k)][0] = R + rng.randint(0, 1)    # row index out of range
            elif k and u < 0.16:
                subs[rng.randrange(k)][1] = C                        # column index out of range
            elif k and u < 0.2:
                subs[rng.randrange(k)][rng.randrange(2)] = -1        # negative index (not tested by pyttb)
            elif u < 0.25:
                vals = vals[:-1] if vals else [1]                    # lengths differ
            elif u < 0.28:
                vals = None
            elif u < 0.31:
                subs = None
            adds(subs, vals, r, c, t, rng.random() < 0.6)
    return cases


# ------------------------------------------------------------------------------------------------- implementation under test
def run_impl(c):
    import warnings
    import logging
    import numpy as np
    logging.disable(logging.WARNING)
    import pyttb as ttb
    a = c.args
    warnings.simplefilter("ignore")
    if c.op == "sptenmat_init":
        subs = None if a["subs"] is None else np.array(a["subs"], dtype=int).reshape((len(a["subs"]), 2))
        vals = None if a["vals"] is None else np.array(a["vals"], dtype=float).reshape((len(a["vals"]), 1))
        try:
            M = ttb.sptenmat(subs, vals, py_dims(np, a["rdims"]), py_dims(np, a["cdims"]), tuple(a["tshape"]), copy=a["copy"])
        except Exception as ex:      # noqa: BLE001
            return {"exc": type(ex).__name__}
        try:
            sb = np.asarray(M.subs)
            rows = [[int(x) for x in row] for row in sb] if sb.ndim == 2 else ([] if sb.size == 0 else None)
            vv = [float(x) for x in np.asarray(M.vals).flatten()]
            if rows is None or any(x != int(x) for x in vv):
                return {"bad": "stored subs / vals unreadable"}
            return {"ok": {"subs": rows, "vals": [int(x) for x in vv], "r": [int(x) for x in M.rdims], "c": [int(x) for x in M.cdims],
                           "tshape": [int(x) for x in M.tshape]}}
        except Exception as ex:      # noqa: BLE001
            return {"bad": f"fields of the accepted object unreadable: {type(ex).__name__}"}
    data = py_data(np, a["data"])
    keep = None if data is None else data.copy()
    try:
        M = ttb.tenmat(data, py_dims(np, a["rdims"]), py_dims(np, a["cdims"]), py_shape(np, a["tshape"]), copy=a["copy"])
    except Exception as ex:      # noqa: BLE001
        return {"exc": type(ex).__name__}
    if keep is not None and not (np.array_equal(keep, data) and keep.shape == data.shape):
        return {"bad": "the constructor changed its data argument"}
    try:
        dv = [float(x) for x in np.asarray(M.data).flatten(order="F")]
        if any(x != int(x) for x in dv):
            return {"bad": "non-integer entries"}
        return {"ok": {"tshape": [int(x) for x in M.tshape], "r": [int(x) for x in M.rindices], "c": [int(x) for x in M.cindices],
                       "dshape": [int(x) for x in M.data.shape], "dvals": [int(x) for x in dv]}}
    except Exception as ex:      # noqa: BLE001
        return {"bad": f"fields of the accepted object unreadable: {type(ex).__name__}"}


def _matches(d):
    """tenmat._matches_order(data) for the arrays py_data builds (F-contiguous?)"""
    if d is None:
        return True
    s = [x for x in d["shape"]]
    if d["layout"] == "F" or len(s) <= 1:
        return True
    return sum(1 for x in s if x != 1) <= 1 or 0 in s


def coq_check(c, o):
    a = c.args
    if "bad" in o:
        return "false"
    if c.op == "sptenmat_init":
        call = (f"sptenmat_init {gopt(a['subs'], gzmat)} {gopt(a['vals'], gzlist)} {gopt(a['rdims'], gzlist)} {gopt(a['cdims'], gzlist)} "
                f"{gzlist(a['tshape'])} {gbool(a['copy'])}")
        if "exc" in o:
            return f"w7_res_eqb w7_stm_eqb ({call}) Err"
        w = o["ok"]
        return (f"w7_res_eqb w7_stm_eqb ({call}) (Ok (mk_stmz {gzmat(w['subs'])} {gzlist(w['vals'])} {gzlist(w['r'])} {gzlist(w['c'])} "
                f"{gzlist(w['tshape'])}))")
    d = a["data"]
    isnum = "true" if d is None or d["dtype"] != "bool" else "false"
    call = (f"tenmat_init (fun _ => {gbool(_matches(d))}) {gopt(d, gnd)} {isnum} {gopt(a['rdims'], gzlist)} "
            f"{gopt(a['cdims'], gzlist)} {gopt(a['tshape'], gshp)} {gbool(a['copy'])}")
    exp = "Err" if "exc" in o else f"(Ok {gtm(o['ok'])})"
    return f"w7_res_eqb w7_tm_eqb ({call}) {exp}"


# ------------------------------------------------------------------------------------------------- independent reading
def oracle(c, o):
    """pure-Python reading of what the constructor contract demands of pyttb's own answer (no numpy)"""
    a = c.args
    if c.op == "sptenmat_init":
        return oracle_stm(a, o)
    d, r, cc, t = a["data"], a["rdims"], a["cdims"], a["tshape"]
    size = None if d is None else len(d["vals"])
    if d is None or size == 0:
        empty = (not r) and (not cc) and (t is None or t == ("tuple", []) or list(t) == ["tuple", []])
        if empty:
            if "ok" not in o:
                return f"the empty constructor was rejected ({o})"
            w = o["ok"]
            return None if (w["tshape"], w["r"], w["c"], w["dvals"]) == ([], [], [], []) else f"empty constructor returned {w}"
        return None if "exc" in o else "data without entries was accepted together with non-empty rdims / cdims / tshape"
    if "ok" in o:
        w = o["ok"]
        if d["dtype"] == "bool":
            return "boolean data was accepted"
        if w["dvals"] != d["vals"]:
            return f"stored entries {w['dvals']} differ from the data {d['vals']} (Fortran order)"
        if len(w["dshape"]) != 2:
            return f"stored data is not a matrix: {w['dshape']}"
        p = 1
        for x in w["tshape"]:
            p *= x
        if p != size:
            return f"tshape {w['tshape']} does not have {size} cells"
        if sorted(w["r"] + w["c"]) != list(range(len(w["tshape"]))):
            return f"rindices {w['r']} + cindices {w['c']} is not a permutation of the modes of {w['tshape']}"
        return None
    # rejected: complain only on inputs that are plainly valid
    if d["dtype"] != "bool" and len(d["shape"]) == 2 and t is not None and t[0] in ("tuple", "list") and r is not None and cc is not None:
        p = 1
        for x in t[1]:
            p *= x
        if p == size and all(x >= 0 for x in t[1]) and sorted(r + cc) == list(range(len(t[1]))):
            return f"a valid request was rejected ({o})"
    return None


def oracle_stm(a, o):
    subs, vals, r, cc, t, copy = a["subs"], a["vals"], a["rdims"], a["cdims"], a["tshape"], a["copy"]
    if r is None and cc is None:
        if subs is None and vals is None:
            return None if "ok" in o and (o["ok"]["vals"], o["ok"]["r"], o["ok"]["c"], o["ok"]["tshape"]) == ([], [], [], []) \
                else f"the empty constructor answered {o}"
        return None if "exc" in o else "subs / vals without rdims and cdims were accepted"
    nm = len(t)
    if "ok" in o:
        w = o["ok"]
        if w["tshape"] != t:
            return f"stored tshape {w['tshape']} differs from the argument {t}"
        if sorted(w["r"] + w["c"]) != list(range(nm)):
            return f"rdims {w['r']} + cdims {w['c']} is not a permutation of the modes of {t}"
        if copy and vals:
            if 0 in w["vals"]:
                return f"a zero value is stored: {w['vals']}"
            if any(not (w["subs"][i] < w["subs"][i + 1]) for i in range(len(w["subs"]) - 1)):
                return f"stored subscripts are not strictly increasing: {w['subs']}"
            if subs is not None and len(subs) == len(vals):
                acc = {}
                for s_, v_ in zip(subs, vals):
                    acc[tuple(s_)] = acc.get(tuple(s_), 0) + v_
                acc = {k_: v_ for k_, v_ in acc.items() if v_ != 0}
                got = {tuple(s_): v_ for s_, v_ in zip(w["subs"], w["vals"])}
                if acc != got:
                    return f"stored entries {got} differ from the summed input {acc}"
        if subs and vals:
            R = C = 1
            for x in w["r"]:
                R *= t[x]
            for x in w["c"]:
                C *= t[x]
            if any(s_[0] >= R or s_[1] >= C for s_ in subs):
                return f"an index outside the {R} x {C} matrix was accepted"
        return None
    if subs is not None and vals is not None and len(subs) == len(vals) and r is not None and cc is not None \
            and sorted(r + cc) == list(range(nm)):
        R = C = 1
        for x in r:
            R *= t[x]
        for x in cc:
            C *= t[x]
        if all(0 <= s_[0] < R and 0 <= s_[1] < C for s_ in subs):
            return f"a valid request was rejected ({o})"
    return None
