(* Proofs/C12Reshape.v — the BYTE-LEVEL form of pyttb/tensor.py::tensor.mttkrps (with helpers mttv_left, mttv_mid):
   the data array as its flat F-order value list, every numpy reshape(order="F") as the index arithmetic it performs on that
   list, every `.dot` as a sum over the contracted linear index, the Khatri-Rao products as the row lists khatrirao builds
   (Model/C02Dense.v kr_rev = ttb.khatrirao( *Us, reverse=True)).  Proved equal to the partial-contraction model of
   Proofs/C12Mttkrps.v (functions of subscripts) and hence to the per-mode MTTKRPs, for every shape, rank, split index.
   (DESIGN §C12, T2; closes the "byte-level reshapes are not modelled" gap of wave 2.)

   Source anchors (pyttb/tensor.py):
     mttkrps    K = khatrirao( *U[split_idx+1:], reverse=True); W = reshape(data, (-1, K.shape[0]), order).dot(K)
                for k in range(split_idx): V[k] = mttv_mid(W, U[k+1:split_idx+1]); W = mttv_left(W, U[k])
                V[split_idx] = W
                K = khatrirao( *U[0:split_idx+1], reverse=True); W = reshape(data, (K.shape[0], -1), order).transpose().dot(K)
                for k in range(split_idx+1, ndims-1): V[k] = mttv_mid(W, U[k+1:]); W = mttv_left(W, U[k])
                V[-1] = W
     mttv_left  r = U1.shape[1]; W_in = reshape(W_in, (U1.shape[0], -1, r), "F"); W_out[:, j] = W_in[:, :, j].T.dot(U1[:, j])
     mttv_mid   if len(U_mid) == 0: return W_in
                K = khatrirao( *U_mid, reverse=True); r = K.shape[1]; W_in = reshape(W_in, (-1, K.shape[0], r), "F")
                V[:, j] = W_in[:, :, j].dot(K[:, j])
   A (P x R) numpy matrix is a list of P rows; reshape(W, (d, -1, r), "F")[x, q, j] = W[x + d*q, j] when r is W's column count,
   reshape(W, (-1, q, r), "F")[j, c, r'] = W[j + m*c, r'] with m = P / q; reshape(data, (-1, q), "F")[p, c] = data[p + P*c];
   reshape(data, (q, -1), "F")[c, p] = data[c + q*p].  The `-1` extents are the integer quotients numpy infers. *)
From Coq Require Import List Arith Lia Bool Ring ZArith.
From PV Require Import Base.Index Base.Sum Np.Array Model.Sparse Model.Repr Model.C12Gcp Proofs.C12Tensor Proofs.C12Mttkrps
                       Model.C02Dense Proofs.C02DenseProofs.
Import ListNotations.
Local Open Scope nat_scope.

Section Bytes.
Variable V : Type.
Variables (v0 v1 : V) (vadd vmul vsub : V -> V -> V) (vopp : V -> V).
Hypothesis Vring : ring_theory v0 v1 vadd vmul vsub vopp (@eq V).
Add Ring Vr4 : Vring.

Notation mat := (list (list V)).
Notation msum := (sum_over v0 vadd).
Notation mg := (mget v0).
Notation kp := (kprod v0 v1 vmul).
Notation KR := (kr_rev vmul).
Notation SO_ext := (sum_over_ext V v0 vadd).

(* ------------------------------------------------------------------------------------------ *)
(* 1. the byte-level algorithm                                                                 *)
(* ------------------------------------------------------------------------------------------ *)
(* reshape(data, (-1, K.shape[0]), order="F").dot(K) *)
Definition init_left (data : list V) (K : mat) : mat :=
  let q := length K in let P := length data / q in
  tab V P (ncols K) (fun p r => msum (seq 0 q) (fun c => vmul (nth (p + P * c) data v0) (mg K c r))).
(* reshape(data, (K.shape[0], -1), order="F").transpose().dot(K) *)
Definition init_right (data : list V) (K : mat) : mat :=
  let q := length K in let P := length data / q in
  tab V P (ncols K) (fun p r => msum (seq 0 q) (fun c => vmul (nth (c + q * p) data v0) (mg K c r))).

Definition mttv_left_b (W U1 : mat) : mat :=
  let d := length U1 in let r := ncols U1 in let m := length W / d in
  tab V m r (fun q j => msum (seq 0 d) (fun x => vmul (mg W (x + d * q) j) (mg U1 x j))).

Definition mttv_mid_b (W : mat) (U_mid : list mat) : mat :=
  match U_mid with
  | [] => W
  | _ :: _ =>
      let K := KR U_mid in let q := length K in let r := ncols K in let m := length W / q in
      tab V m r (fun j r' => msum (seq 0 q) (fun c => vmul (mg W (j + m * c) r') (mg K c r')))
  end.

(* one sweep over the factor matrices Bs of the remaining modes *)
Fixpoint sweep_b (Bs : list mat) (W : mat) : list mat :=
  match Bs with
  | [] => []
  | B :: Bs' =>
      match Bs' with
      | [] => [W]
      | _ :: _ => mttv_mid_b W Bs' :: sweep_b Bs' (mttv_left_b W B)
      end
  end.

Definition mttkrps_b (data : list V) (As : list mat) (sp : nat) : list mat :=
  sweep_b (firstn (S sp) As) (init_left data (KR (skipn (S sp) As))) ++
  sweep_b (skipn (S sp) As) (init_right data (KR (firstn (S sp) As))).

(* ------------------------------------------------------------------------------------------ *)
(* 2. a matrix REPRESENTS a partial MTTKRP (function of the remaining subscripts) over shape t  *)
(* ------------------------------------------------------------------------------------------ *)
Definition rep (t : shape) (R : nat) (Wm : mat) (Wf : idx -> nat -> V) : Prop :=
  Wm = tab V (size t) R (fun p r => Wf (ind2sub t p) r).

Definition fdims (R : nat) (Bs : list mat) (t : shape) : Prop :=
  map (@length _) Bs = t /\ Forall (wf_cols V R) Bs.

Lemma ind2sub_cons_lin d t x q : x < d -> ind2sub (d :: t) (x + d * q) = x :: ind2sub t q.
Proof.
  intros Hx. cbn [ind2sub]. replace (x + d * q) with (x + q * d) by lia.
  rewrite Nat.mod_add, Nat.div_add by lia. rewrite Nat.mod_small, Nat.div_small by lia. reflexivity.
Qed.

Lemma size_pos t : Forall (fun d => 1 <= d) t -> 1 <= size t.
Proof. induction 1 as [|d t Hd _ IH]; [cbn; lia|]. rewrite size_cons. nia. Qed.

Lemma ncols_wf R (A : mat) : 1 <= length A -> wf_cols V R A -> ncols A = R.
Proof.
  intros HL HW. destruct A as [|row A]; [cbn in HL; lia|]. cbn [ncols].
  unfold wf_cols in HW. now inversion HW.
Qed.

Lemma tab_length d R f : length (tab V d R f) = d.
Proof. apply tab_dims. Qed.

Lemma mttv_left_rep d t R W Wf (B : mat) :
  1 <= d -> rep (d :: t) R W Wf -> length B = d -> wf_cols V R B ->
  rep t R (mttv_left_b W B) (mttv_left_f V v0 vadd vmul d B Wf).
Proof.
  intros Hd HW HB HBc. unfold rep in *. unfold mttv_left_b.
  rewrite (ncols_wf R B) by (auto; lia). rewrite HB.
  assert (HL : length W / d = size t).
  { rewrite HW, tab_length, size_cons, Nat.mul_comm. apply Nat.div_mul. lia. }
  rewrite HL. apply tab_ext. intros q j Hq Hj. unfold mttv_left_f.
  apply SO_ext. intros x Hx. apply in_seq in Hx.
  rewrite HW. rewrite mget_tab by (auto; rewrite size_cons; nia).
  rewrite ind2sub_cons_lin by lia. reflexivity.
Qed.

Lemma mttv_mid_rep d t R W Wf (Bs : list mat) :
  Bs <> [] -> Forall (fun d => 1 <= d) t -> rep (d :: t) R W Wf -> fdims R Bs t ->
  mttv_mid_b W Bs = tab V d R (mttv_mid_f V v0 v1 vadd vmul t Bs Wf).
Proof.
  intros Hne Hp HW [Hl Hc]. unfold rep in HW. pose proof (size_pos t Hp) as Hs.
  destruct (kr_rev_wf V vmul R Bs Hne Hc) as [HKc HKl]. rewrite Hl in HKl.
  unfold mttv_mid_b. destruct Bs as [|B0 Bs0]; [congruence|].
  set (Bs := B0 :: Bs0) in *.
  rewrite (ncols_wf R (KR Bs)) by (auto; lia). rewrite HKl.
  assert (HL : length W / size t = d).
  { rewrite HW, tab_length, size_cons. apply Nat.div_mul. lia. }
  rewrite HL. apply tab_ext. intros j r Hj Hr. unfold mttv_mid_f.
  rewrite (msum_allsubs V v0 vadd t). apply SO_ext. intros c Hc'. apply in_seq in Hc'.
  rewrite HW. rewrite mget_tab by (auto; rewrite size_cons; nia).
  rewrite ind2sub_cons_lin by lia. f_equal.
  assert (E : mg (KR Bs) (sub2ind (map (@length _) Bs) (ind2sub t c)) r = kp Bs (ind2sub t c) r).
  { apply (mget_kr_rev V v0 v1 vadd vmul vsub vopp Vring R); auto.
    rewrite Hl. apply inb_ind2sub. lia. }
  rewrite Hl, sub2ind_ind2sub in E by lia. exact E.
Qed.

Lemma fdims_cons_inv R (Bs : list mat) d t : fdims R Bs (d :: t) ->
  exists B Bs', Bs = B :: Bs' /\ length B = d /\ wf_cols V R B /\ fdims R Bs' t.
Proof.
  intros [Hl Hc]. destruct Bs as [|B Bs']; [discriminate|]. cbn [map] in Hl. inversion Hl; subst.
  inversion Hc; subst. exists B, Bs'. repeat split; auto.
Qed.

Lemma sweep_b_eq R : forall t (Bs : list mat) W Wf,
  Forall (fun d => 1 <= d) t -> fdims R Bs t -> rep t R W Wf ->
  sweep_b Bs W = sweep V v0 v1 vadd vmul R t Bs Wf.
Proof.
  induction t as [|d t IH]; intros Bs W Wf Hp Hd HW.
  - destruct Hd as [Hl _]. destruct Bs; [reflexivity|discriminate].
  - destruct (fdims_cons_inv R Bs d t Hd) as (B & Bs' & -> & HB & HBc & Hd').
    inversion Hp as [|? ? Hd1 Hp']; subst. cbn [sweep_b sweep].
    destruct t as [|d' t'].
    + destruct Hd' as [Hl' _]. destruct Bs'; [|discriminate]. f_equal.
      unfold rep in HW. rewrite HW. replace (size [length B]) with (length B) by (cbn; lia).
      apply tab_ext. intros j r Hj _. cbn [ind2sub]. now rewrite Nat.mod_small by lia.
    + destruct (fdims_cons_inv R Bs' d' t' Hd') as (B' & Bs'' & -> & _ & _ & _).
      f_equal.
      * apply (mttv_mid_rep (length B) (d' :: t') R W Wf); auto. discriminate.
      * apply IH; auto. apply (mttv_left_rep (length B)); auto.
Qed.

(* ------------------------------------------------------------------------------------------ *)
(* 3. the two initial contractions                                                             *)
(* ------------------------------------------------------------------------------------------ *)
Section Init.
Variables (s1 s2 : shape) (data : list V) (R : nat).
Hypothesis Hdata : length data = size (s1 ++ s2).
Hypothesis Hp1 : Forall (fun d => 1 <= d) s1.
Hypothesis Hp2 : Forall (fun d => 1 <= d) s2.
Let Y (i : idx) : V := nth (sub2ind (s1 ++ s2) i) data v0.

Lemma Y_app p c : p < size s1 -> c < size s2 ->
  Y (ind2sub s1 p ++ ind2sub s2 c) = nth (p + size s1 * c) data v0.
Proof.
  intros Hp Hc. unfold Y. rewrite sub2ind_app by apply ind2sub_length.
  now rewrite !sub2ind_ind2sub by auto.
Qed.

Lemma init_left_rep (As2 : list mat) : As2 <> [] -> fdims R As2 s2 ->
  rep s1 R (init_left data (KR As2)) (ctail V v0 v1 vadd vmul s2 As2 Y).
Proof.
  intros Hne [Hl Hc]. pose proof (size_pos s1 Hp1) as H1. pose proof (size_pos s2 Hp2) as H2.
  destruct (kr_rev_wf V vmul R As2 Hne Hc) as [HKc HKl]. rewrite Hl in HKl.
  unfold rep, init_left. rewrite (ncols_wf R (KR As2)) by (auto; lia). rewrite HKl, Hdata, size_app.
  rewrite Nat.div_mul by lia. apply tab_ext. intros p r Hp Hr. unfold ctail.
  rewrite (msum_allsubs V v0 vadd s2). apply SO_ext. intros c Hc'. apply in_seq in Hc'.
  rewrite Y_app by lia. f_equal.
  assert (E : mg (KR As2) (sub2ind (map (@length _) As2) (ind2sub s2 c)) r = kp As2 (ind2sub s2 c) r).
  { apply (mget_kr_rev V v0 v1 vadd vmul vsub vopp Vring R); auto. rewrite Hl. apply inb_ind2sub. lia. }
  rewrite Hl, sub2ind_ind2sub in E by lia. exact E.
Qed.

Lemma init_right_rep (As1 : list mat) : As1 <> [] -> fdims R As1 s1 ->
  rep s2 R (init_right data (KR As1)) (chead V v0 v1 vadd vmul s1 As1 Y).
Proof.
  intros Hne [Hl Hc]. pose proof (size_pos s1 Hp1) as H1. pose proof (size_pos s2 Hp2) as H2.
  destruct (kr_rev_wf V vmul R As1 Hne Hc) as [HKc HKl]. rewrite Hl in HKl.
  unfold rep, init_right. rewrite (ncols_wf R (KR As1)) by (auto; lia). rewrite HKl, Hdata, size_app.
  rewrite (Nat.mul_comm (size s1)), Nat.div_mul by lia. apply tab_ext. intros p r Hp Hr. unfold chead.
  rewrite (msum_allsubs V v0 vadd s1). apply SO_ext. intros c Hc'. apply in_seq in Hc'.
  rewrite Y_app by lia. f_equal.
  assert (E : mg (KR As1) (sub2ind (map (@length _) As1) (ind2sub s1 c)) r = kp As1 (ind2sub s1 c) r).
  { apply (mget_kr_rev V v0 v1 vadd vmul vsub vopp Vring R); auto. rewrite Hl. apply inb_ind2sub. lia. }
  rewrite Hl, sub2ind_ind2sub in E by lia. exact E.
Qed.
End Init.

(* ------------------------------------------------------------------------------------------ *)
(* 4. main theorems                                                                            *)
(* ------------------------------------------------------------------------------------------ *)
Lemma Forall_firstn {A} (P : A -> Prop) n l : Forall P l -> Forall P (firstn n l).
Proof. revert n. induction l as [|a l IH]; intros [|n] H; cbn; auto. inversion H; subst. constructor; auto. Qed.
Lemma Forall_skipn {A} (P : A -> Prop) n l : Forall P l -> Forall P (skipn n l).
Proof. revert n. induction l as [|a l IH]; intros [|n] H; cbn; auto. inversion H; subst. auto. Qed.

Lemma fdims_split R As s n : fdims R As s -> fdims R (firstn n As) (firstn n s) /\ fdims R (skipn n As) (skipn n s).
Proof.
  intros [Hl Hc]. split; split.
  - now rewrite <- Hl, firstn_map.
  - now apply Forall_firstn.
  - now rewrite <- Hl, skipn_map.
  - now apply Forall_skipn.
Qed.

(* the byte-level algorithm IS the partial-contraction algorithm on the array the flat list denotes *)
Theorem mttkrps_b_alg : forall s (data : list V) (As : list mat) R sp,
  length data = size s -> Forall (fun d => 1 <= d) s -> fdims R As s -> S sp < length s ->
  mttkrps_b data As sp = mttkrps_alg V v0 v1 vadd vmul s (fun i => nth (sub2ind s i) data v0) As R sp.
Proof.
  intros s data As R sp Hdata Hp Hd Hsp.
  destruct (fdims_split R As s (S sp) Hd) as [Hd1 Hd2].
  assert (HlA : length As = length s) by (destruct Hd as [Hl _]; now rewrite <- Hl, map_length).
  set (s1 := firstn (S sp) s) in *. set (s2 := skipn (S sp) s) in *.
  assert (Es : s = s1 ++ s2) by (symmetry; apply firstn_skipn).
  assert (Hp1 : Forall (fun d => 1 <= d) s1) by now apply Forall_firstn.
  assert (Hp2 : Forall (fun d => 1 <= d) s2) by now apply Forall_skipn.
  assert (N1 : firstn (S sp) As <> []).
  { destruct As; [cbn in HlA; lia|cbn; discriminate]. }
  assert (N2 : skipn (S sp) As <> []).
  { intros E. apply (f_equal (@length _)) in E. rewrite skipn_length in E. cbn in E. lia. }
  unfold mttkrps_b, mttkrps_alg, contract_tail, contract_head. fold s1 s2.
  assert (Hdata' : length data = size (s1 ++ s2)) by now rewrite <- Es.
  replace (fun i : idx => nth (sub2ind s i) data v0) with (fun i : idx => nth (sub2ind (s1 ++ s2) i) data v0)
    by (now rewrite <- Es).
  f_equal.
  - apply (sweep_b_eq R s1); auto. apply init_left_rep; auto.
  - apply (sweep_b_eq R s2); auto. apply init_right_rep; auto.
Qed.

Lemma mttkrp_den_ext s (Y Y' : idx -> V) (As : list mat) R k :
  (forall i, inb s i = true -> Y i = Y' i) ->
  mttkrp_den v0 v1 vadd vmul s Y As R k = mttkrp_den v0 v1 vadd vmul s Y' As R k.
Proof.
  intros H. unfold mttkrp_den. apply map_ext. intros j. apply map_ext. intros r.
  apply SO_ext. intros i Hi. apply filter_In in Hi as [Hi _]. apply in_allsubs in Hi. now rewrite H.
Qed.

(* byte-level tensor.mttkrps of a well-formed dense array = the per-mode MTTKRPs of the array it denotes,
   for EVERY admissible split index (all shapes with positive sizes, all ranks) *)
Theorem C12_mttkrps_bytes : forall (T : dense V) (As : list mat) R sp,
  wf_dense T -> Forall (fun d => 1 <= d) (dshape T) -> fdims R As (dshape T) -> S sp < length (dshape T) ->
  mttkrps_b (ddata T) As sp =
  map (mttkrp_den v0 v1 vadd vmul (dshape T) (den_dense v0 T) As R) (seq 0 (length (dshape T))).
Proof.
  intros T As R sp HT Hp Hd Hsp.
  rewrite (mttkrps_b_alg (dshape T) (ddata T) As R sp) by auto.
  rewrite (C12_mttkrps_eq V v0 v1 vadd vmul vsub vopp Vring).
  - apply map_ext. intros k. apply mttkrp_den_ext. intros i Hi. unfold den_dense. now rewrite Hi.
  - destruct Hd as [Hl _]. now rewrite <- Hl, map_length.
Qed.

(* as called: split_idx = min_split(self.shape) *)
Corollary C12_mttkrps_bytes_py : forall (T : dense V) (As : list mat) R,
  wf_dense T -> Forall (fun d => 1 <= d) (dshape T) -> fdims R As (dshape T) -> 2 <= length (dshape T) ->
  mttkrps_b (ddata T) As (min_split (dshape T)) =
  map (mttkrp_den v0 v1 vadd vmul (dshape T) (den_dense v0 T) As R) (seq 0 (length (dshape T))).
Proof.
  intros T As R HT Hp Hd HN. apply C12_mttkrps_bytes; auto. now apply min_split_lt.
Qed.

End Bytes.

(* ------------------------------------------------------------------------------------------ *)
(* 5. non-vacuity: concrete skewed 4-way instance over Z, all three split indices              *)
(* ------------------------------------------------------------------------------------------ *)
Section Example.
Local Open Scope Z_scope.
Let s : shape := [3; 2; 2; 2]%nat.
Let T : dense Z := tabulate s (fun i => Z.of_nat (sub2ind s i) * Z.of_nat (sub2ind s i) - 7 * Z.of_nat (nth 0 i 0%nat) + 1).
Let As : list (list (list Z)) :=
  [ [[1; 2]; [-3; 4]; [5; -6]];
    [[2; 0]; [1; 3]];
    [[-1; 1]; [4; 2]];
    [[3; -2]; [0; 5]] ].
Let spec := map (mttkrp_den 0 1 Z.add Z.mul s (den_dense 0 T) As 2) (seq 0 4).

Example mttkrps_b_ex0 : mttkrps_b Z 0 Z.add Z.mul (ddata T) As 0 = spec.
Proof. timeout 60 (vm_compute; reflexivity). Qed.
Example mttkrps_b_ex1 : mttkrps_b Z 0 Z.add Z.mul (ddata T) As 1 = spec.
Proof. timeout 60 (vm_compute; reflexivity). Qed.
Example mttkrps_b_ex2 : mttkrps_b Z 0 Z.add Z.mul (ddata T) As 2 = spec.
Proof. timeout 60 (vm_compute; reflexivity). Qed.
Example mttkrps_b_ex_nontrivial : nth 0 spec [] <> nth 1 spec [] /\ nth 2 spec [] <> nth 3 spec [].
Proof. timeout 60 (vm_compute; split; discriminate). Qed.
End Example.

Print Assumptions mttkrps_b_alg.
Print Assumptions C12_mttkrps_bytes.
Print Assumptions C12_mttkrps_bytes_py.
