"""C13 — GCP solvers keep the best model, respect bounds, sample validly and are reusable (DESIGN §C13)."""
import math
from fractions import Fraction

from vcheck import Case, gz, gzlist, gzmat, gnlist, gnat, gopt, gq
import tgen
from props import c13_util as U

PROP = "C13"
LEVEL = "proof"
GEN_UNITS = []
COQ_TARGETS = ["Props/C13.vo", "Alg/C13Harness.vo", "Alg/C13Config.vo", "Alg/C13Vec.vo", "Model/Harness.vo"]
THEOREM_FILES = ["Props/C13.v"]
COQ_IMPORTS = ("From Coq Require Import List ZArith Bool QArith Qcanon.\n"
               "From PV Require Import Base.Index Np.Array Model.Sparse Model.Harness Alg.C13Samplers Alg.C13Solver Alg.C13Config Alg.C13Harness.\n")
RULE = ("samplers: dense / sparse integer tensors with 2..12 cells (empty, one nonzero, some, nearly full, full), every sampler "
        "kind, counts 0..6, numpy's draws captured (and in a separate stream forced to 0.0 / 1-2^-53) and replayed through the "
        "model; solves: SGD/Adam/Adagrad on 2x2..3x3x2 problems with rates from 1e-3 to 30 (failing epochs), max_fails 0..2, "
        "max_iters 0..5, finite and infinite lower bounds, estimates captured at every epoch boundary; reuse: 2-3 solves on one "
        "object vs fresh objects under the same seeds; the fixed regression inputs of the repaired findings A-35/A-36/A-37/A-48/C13-S2; "
        "config: every row of the GCPSampler (kind x request) table on dense / sparse tensors with sizes on both sides of the "
        "1e3 / 1e5 / 1e6 thresholds, counts read back from the sampler object; lbfgsb: what is handed to / returned by "
        "scipy.optimize.fmin_l_bfgs_b captured; non-trivial = more than one cell and at least one sample / epoch")
EXPLANATION = ("Theorems (Alg/C13Samplers.v, C13Solver.v, C13Steps.v) are about state machines whose random draws, objective "
               "estimates and update steps are inputs; the correspondence captures exactly those inputs from a real pyttb run "
               "(numpy.random and pyttb.gcp.optimizers.estimate are wrapped inside the harness process only) and replays them. "
               "Each sampler / solve is checked twice: '<op>' = pyttb agrees with the model, '<op>_prop' = pyttb's own "
               "output satisfies what C13 states.  A single behaviour is accepted everywhere except inside the trigger region of "
               "the open finding C13-S1 (short zero supply), where the faithful and the repaired stratified sampler are both accepted.")
CORRESPONDENCE_ONLY = ["Adam / Adagrad update arithmetic (only the final max(lower_bound, .) and reset_state are theorems; the numerics are exercised by the solve runs)",
                       "scipy.optimize.fmin_l_bfgs_b itself (oracle; its contract 'never worse than the start, result inside the bounds' is checked on sampled runs)",
                       "GCPSampler default counts / LBFGSB wrapper: theorems are about hand models (Alg/C13Config.v) tied by read-back / capture correspondence, not by translation"]
ASSUMPTIONS = ["numpy draws are multiples of 2^-53 in [0,1); the float product u*d is taken exactly (its rounding is not modelled)",
               "objective estimates are compared by their exact float values; NaN estimates are outside the model (total order)",
               "scipy.optimize.fmin_l_bfgs_b never returns a point with a higher objective than the start (oracle contract)"]

D53 = 2 ** 53


# ----------------------------------------------------------------------------------------- generators
def _rand_sparse(rng, shape, kind):
    n = math.prod(shape)
    allsubs = tgen.all_subs(shape)
    if kind == "empty":
        k = 0
    elif kind == "one":
        k = 1
    elif kind == "nearly_full":
        k = max(n - 1, 0)
    elif kind == "full":
        k = n
    else:
        k = rng.randint(1, max(1, n - 1))
    pick = rng.sample(allsubs, k)
    return pick, [rng.choice([1, 2, 3, 5]) for _ in pick]


def gen_cases(rng, tier):
    big = tier == "thorough"
    cases = []
    shapes = [(2, 2), (2, 3), (3, 2), (1, 3), (2, 1, 2), (2, 2, 3), (4,), (3, 1), (2, 2, 2)]
    reps = 4 if big else 1
    for rep in range(reps):
        for shp in shapes:
            n = math.prod(shp)
            data = tgen.rand_dense(rng, shp, rng.choice([0.5, 1.0]), 1, 9)
            for ns in ([1, 2, 3, 5] if not big else [1, 2, 3, 4, 6]):
                for force in (None, "zero") if ns == 2 else (None,):
                    a = {"shape": list(shp), "data": data, "n": ns, "seed": rng.randrange(10 ** 6), "force": force}
                    cases.append(Case("uniform", a, n > 1))
                    cases.append(Case("uniform_prop", dict(a), n > 1))
            for kind in ("one", "some", "nearly_full", "full", "some") + (("empty",) if rep == 0 else ()):
                subs, vals = _rand_sparse(rng, shp, kind)
                for (cn, cz) in ([(1, 1), (2, 3), (len(subs), 2), (0, 1), (1, 0), (3, 6)] if not big else
                                 [(1, 1), (2, 3), (len(subs), 2), (0, 1), (1, 0), (3, 6), (2, 2), (5, 1)]):
                    force = "zero" if (cn, cz) == (2, 3) and rng.random() < 0.3 else None
                    a = {"shape": list(shp), "subs": subs, "vals": vals, "cn": cn, "cz": cz,
                         "seed": rng.randrange(10 ** 6), "force": force, "kind": kind}
                    for op in ("stratified", "stratified_prop", "semistrat", "semistrat_prop"):
                        cases.append(Case(op, dict(a), n > 1 and cn + cz > 0))
    # ---- solves
    nsolve = 120 if big else 36
    for k in range(nsolve):
        shp = rng.choice([(2, 2), (2, 3), (3, 2, 2), (3, 3)])
        a = U.rand_problem(rng, shp)
        a.update({"opt": rng.choice(["sgd", "adam", "adagrad"]),
                  "rate": rng.choice([0.001, 0.01, 0.125, 0.5, 2.0, 30.0]), "decay": rng.choice([0.1, 0.5]),
                  "max_fails": rng.randint(0, 2), "epoch_iters": rng.randint(1, 3), "max_iters": rng.choice([0, 1, 2, 3, 5]),
                  "tol": rng.choice([None, None, None, 0.5, 1e6])})
        cases.append(Case("solve", a, a["max_iters"] > 0))
        cases.append(Case("solve_trace", dict(a), a["max_iters"] > 0))
    # ---- L-BFGS-B wrapper (scipy is an oracle): objective never above the start, bounds, callback slot, reuse
    for k in range(40 if big else 10):
        shp = rng.choice([(2, 2), (2, 3), (3, 2, 2)])
        a = U.rand_problem(rng, shp)
        n = math.prod(shp)
        a.update({"maxiter": rng.choice([1, 3, 20]), "callback": rng.random() < 0.5,
                  "mask": None if rng.random() < 0.6 else [rng.randint(0, 1) for _ in range(n)]})
        cases.append(Case("lbfgsb", a, True))
    # ---- reuse of one solver object
    for k in range(30 if big else 9):
        opt = ["sgd", "adam", "adagrad"][k % 3]
        same = rng.random() < 0.5
        shp0 = rng.choice([(2, 2), (2, 3)])
        probs = []
        for j in range(rng.randint(2, 3)):
            shp = shp0 if same else rng.choice([(2, 2), (2, 3), (3, 2, 2)])
            probs.append(U.rand_problem(rng, shp))
        a = {"opt": opt, "probs": probs, "rate": rng.choice([0.01, 0.125, 2.0]), "decay": 0.5, "max_fails": 1,
             "epoch_iters": 2, "max_iters": rng.randint(1, 3), "tol": None}
        cases.append(Case("reuse", a, True))
    # ---- fixed regression inputs: the witnesses of the repaired findings (a returning defect is a VIOLATION)
    wp = U.rand_witness_problem()
    a35 = dict(wp); a35.update({"opt": "sgd", "rate": 0.01, "decay": 0.1, "max_fails": 1, "epoch_iters": 2, "max_iters": 3, "tol": None})
    cases.append(Case("solve", a35, True)); cases.append(Case("solve_trace", dict(a35), True))
    for kind in ("adam", "adagrad", "sgd"):
        cases.append(Case("reuse", {"opt": kind, "probs": [dict(wp), dict(wp)], "rate": 0.125, "decay": 0.5, "max_fails": 1,
                                    "epoch_iters": 2, "max_iters": 2, "tol": None}, True))
        big_p = U.rand_problem(rng, (3, 2, 2))
        cases.append(Case("reuse", {"opt": kind, "probs": [dict(wp), big_p, dict(wp)], "rate": 0.125, "decay": 0.5, "max_fails": 1,
                                    "epoch_iters": 2, "max_iters": 2, "tol": None}, True))
    for force in (None, "zero"):
        for n in (1, 2):
            a = {"shape": [2, 3], "data": [1, 2, 3, 4, 5, 6], "n": n, "seed": 0, "force": force}
            cases.append(Case("uniform", a, True)); cases.append(Case("uniform_prop", dict(a), True))
    a = {"shape": [2, 2], "subs": [[0, 0]], "vals": [1], "cn": 0, "cz": 2, "seed": 3, "force": None, "kind": "one"}
    for op in ("semistrat", "semistrat_prop"):
        cases.append(Case(op, dict(a), True))
    # ---- GCPSampler configuration table (counts read back from the object)
    cases += U.config_cases(rng, big)
    return cases


# ----------------------------------------------------------------------------------------- pyttb runner
def run_impl(c):
    a = c.args
    try:
        if c.op in ("uniform", "uniform_prop"):
            o = U.run_uniform(a)
        elif c.op in ("stratified", "stratified_prop"):
            o = U.run_stratified(a, semi=False)
        elif c.op in ("semistrat", "semistrat_prop"):
            o = U.run_stratified(a, semi=True)
        elif c.op in ("solve", "solve_trace"):
            o = U.run_solve(a)
        elif c.op == "reuse":
            o = U.run_reuse(a)
        elif c.op == "lbfgsb":
            o = U.run_lbfgsb(a)
        elif c.op == "config":
            o = U.run_config(a)
        else:
            raise ValueError(c.op)
    except Exception as ex:
        o = {"exc": type(ex).__name__, "msg": str(ex)[:200]}
        if c.op.startswith("solve") and a.get("sparse") and "broadcast" in str(ex):
            # the stratified function/gradient sampler came back with fewer subscripts than values (finding C13-S1)
            o["meta"] = {"short": True}
    c.meta.update(o.pop("meta", {}) if isinstance(o, dict) else {})
    return o


def _gqlist(l):
    return "(@nil Qc)" if not l else "[" + "; ".join(gq(Fraction(x)) for x in l) + "]"


def _ints(l):
    return all(isinstance(x, int) for x in l)


def coq_check(c, o):
    a = c.args
    if o.get("skip"):
        return None
    if "exc" in o:
        if c.op.startswith(("strat", "semi")) and a["cn"] > 0 and not a["subs"]:
            return "true"          # nonzero samples requested from a tensor without nonzeros: rejection is the right answer
        if c.op.startswith("solve") and "Infinite gradient" in o.get("msg", ""):
            return None            # the solver's own overflow guard fired: no result to check
        return "false"
    if c.op == "config":
        return U.config_check(a, o)
    if c.op in ("uniform", "uniform_prop"):
        shp, n = a["shape"], a["n"]
        size = math.prod(shp)
        X = tgen.gdense(shp, a["data"])
        if not _ints(o["vals"]):
            return "false"
        ws = _gqlist(o["weights"])
        shape_ok = "true" if o["vals_shape"] == [n] and o["weights_shape"] == [n] and o["subs_shape"] == [n, len(shp)] else "false"
        if c.op == "uniform":
            return (f"zmat_eqb (zuniform_subs {gnlist(shp)} {gzmat(o['draws'])}) {gzmat(o['subs'])} && "
                    f"vec_eqb (zuniform_vals {X} {gzmat(o['draws'])}) {gzlist(o['vals'])} && "
                    f"weights_close {ws} (zq {gz(size)}) {gnat(n)} && {shape_ok}")
        return (f"sample_ok_dense {X} {gzmat(o['subs'])} {gzlist(o['vals'])} {gnat(len(o['weights']))} && {shape_ok} && "
                f"total_close {ws} (zq {gz(size)})")
    if c.op in ("stratified", "stratified_prop", "semistrat", "semistrat_prop"):
        shp, cn, cz = a["shape"], a["cn"], a["cz"]
        size, nnz = math.prod(shp), len(a["subs"])
        S = tgen.gsparse(shp, a["subs"], a["vals"])
        if not _ints(o["vals"]):
            return "false"
        semi = c.op.startswith("semi")
        wn, wz = o["weights"][:cn], o["weights"][cn:]
        zero_total = size if semi else size - nnz
        short = bool(c.meta.get("short"))          # trigger region of the open finding C13-S1
        if c.op in ("stratified", "semistrat"):
            nidx, draws = gnlist(o["nidx"]), gzmat(o["draws"])
            got = len(o["subs"]) - cn          # zero subscripts actually returned
            wchk = "true"
            if cn > 0:
                wchk += f" && weights_close {_gqlist(wn)} (zq {gz(nnz)}) {gnat(cn)}"
            if semi:
                subs = f"zsemi_subs {S} {nidx} {draws}"
                vals = f"zsemi_vals {S} {nidx} {draws}"
                wchk += " && " + ("true" if len(wz) == cz else "false")
                if cz > 0:
                    wchk += f" && weights_close {_gqlist(wz)} (zq {gz(zero_total)}) {gnat(cz)}"
                return f"zmat_eqb ({subs}) {gzmat(o['subs'])} && vec_eqb ({vals}) {gzlist(o['vals'])} && {wchk}"
            subs = f"zstrat_subs {S} (znzidx {S}) {nidx} {draws} {gnat(cz)}"
            vals = f"zstrat_vals {S} {nidx} {gnat(cz)}"
            if len(wz) == cz:
                if cz > 0:
                    wchk += f" && weights_close {_gqlist(wz)} (zq {gz(zero_total)}) {gnat(cz)}"
                faithful = f"(vec_eqb ({vals}) {gzlist(o['vals'])} && {wchk})"
            else:
                faithful = "false"
            both = f"zmat_eqb ({subs}) {gzmat(o['subs'])} && "
            if not short:
                return both + faithful
            # short zero supply (C13-S1, open): the repaired sampler sizes values and weights by what was obtained
            rchk = "true" if len(wz) == got else "false"
            if cn > 0:
                rchk += f" && weights_close {_gqlist(wn)} (zq {gz(nnz)}) {gnat(cn)}"
            if got > 0 and len(wz) == got:
                rchk += f" && weights_close {_gqlist(wz)} (zq {gz(zero_total)}) {gnat(got)}"
            fvals = f"zstrat_vals_fixed {S} (znzidx {S}) {nidx} {draws} {gnat(cz)}"
            return both + f"({faithful} || (vec_eqb ({fvals}) {gzlist(o['vals'])} && {rchk}))"
        nw = len(o["weights"])
        ntot = len(o["subs"])
        shape_ok = "true" if o["vals_shape"] == [ntot] and o["weights_shape"] == [ntot] else "false"
        if not short:          # the requested counts are delivered
            shape_ok += " && " + ("true" if ntot == cn + cz else "false")
        tot = "true"
        if cn > 0:
            tot += f" && total_close {_gqlist(wn)} (zq {gz(nnz)})"
        if cz > 0 and wz:
            tot += f" && total_close {_gqlist(wz)} (zq {gz(zero_total)})"
        zeros_part = gzmat(o["subs"][cn:])
        ztrue = "true" if semi else f"zeros_ok_sp {S} {zeros_part}"
        return (f"sample_ok_sp {S} {gzmat(o['subs'])} {gzlist(o['vals'])} {gnat(nw)} && {shape_ok} && {ztrue} && {tot}")
    if c.op in ("solve", "solve_trace"):
        ests, trace, tol = U.scale(o["ests"], o["trace"], a["tol"])
        s = f"(zsolve {gzlist(ests)} {gnat(a['max_fails'])} {gopt(tol, gz)} {gnat(a['max_iters'])})"
        if c.op == "solve_trace":
            return f"vec_eqb (zfull_trace {gzlist(ests)} {s}) {gzlist(trace)}"
        bounds = "true" if (o["lb_ok"] or 0 in o["ret_cands"]) else "false"
        return (f"zsolve_ok {gzlist(ests)} {gnat(a['max_fails'])} {gopt(tol, gz)} {gnat(a['max_iters'])} {gnlist(o['ret_cands'])} "
                f"{gnat(len(o['ests']) - 1)} {gnat(o['nfails'])} {gnat(o['n_epoch'])} && "
                f"vec_eqb (zreported_trace {gzlist(ests)} {gnat(a['max_iters'])} {s}) {gzlist(trace)} && "
                f"{'true' if o['step_trace_len'] == len(trace) and o['init_unchanged'] else 'false'} && "
                f"{bounds} && {'true' if o['boundary_lb_ok'] else 'false'}")
    if c.op == "lbfgsb":
        vals = [o["f0"]] + [r[k] for r in o["outs"] for k in ("final_f", "f_end")]
        (zs, _) = U.scale_many([vals], [])
        f0, rest = zs[0][0], zs[0][1:]
        ok = all(r["init_unchanged"] and r["shapes_ok"] and (o["lb"] is None or r["min_entry"] >= o["lb"]) for r in o["outs"])
        same = o["outs"][0]["flat"] == o["outs"][1]["flat"]
        return (f"forallb (fun v => Z.leb v {gz(f0)}) {gzlist(rest)} && {'true' if ok else 'false'} && "
                f"{'true' if same else 'false'} && {'true' if o['callback_restored'] else 'false'} && "
                f"{'false' if o['callback_called'] is False else 'true'} && {'true' if o['wrap_ok'] else 'false'}")
    if c.op == "reuse":
        if any("exc" in r for r in o["reused"] + o["fresh"]):
            return "false"
        re_, fr_ = U.scale_many([r["flat"] for r in o["reused"]], [r["flat"] for r in o["fresh"]])
        return f"list_eqb vec_eqb {gzmat(re_)} {gzmat(fr_)}"
    raise ValueError(c.op)


# ----------------------------------------------------------------------------------------- oracle
def oracle(c, o):
    """brute force on pyttb's own output: does it satisfy what C13 states? (pure Python)"""
    a = c.args
    if o.get("skip"):
        return None
    if "exc" in o:
        return f"admissible request raised {o['exc']}: {o.get('msg')}"
    return U.oracle(c.op, a, o)


# ----------------------------------------------------------------------------------------- findings
TRIGGERS = {      # only the OPEN findings (A-47, C13-S1, C13-S3); the repaired ones are regression cases in gen_cases
    "sptensor_without_nonzeros": lambda c: c.op.split("_")[0] in ("stratified", "semistrat") and not c.args["subs"] and c.args["cn"] == 0,
    "semistrat_zero_hits_nonzero": lambda c: c.op == "semistrat_prop" and bool(c.meta.get("semi_hit")),
    "zero_supply_short": lambda c: c.op in ("stratified", "stratified_prop", "solve", "solve_trace") and bool(c.meta.get("short")),
}
WITNESSES = U.WITNESSES
