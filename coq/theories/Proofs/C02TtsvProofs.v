(* Proofs/C02TtsvProofs.v — tensor.ttsv (version 2 loop, Model/C02Ttsv.v) on a cubical tensor equals the defining sum of
   tensor-times-vector with the SAME vector in every mode dnew .. N-1 (spec_ttv of Model/C02Spec.v), for every order N, every
   mode size, every number dnew <= N of leading modes kept, all values of a commutative ring. *)
From Coq Require Import List Arith Lia Bool Permutation Ring.
From PV Require Import Base.Index Base.Perm Base.Sum Np.Array Model.Sparse Model.Repr Model.C02Spec Model.C02Dense Model.C02Ttsv
                       Proofs.C02DenseProofs.
Import ListNotations.

Lemma filter_all {A} (p : A -> bool) (l : list A) : (forall x, In x l -> p x = true) -> filter p l = l.
Proof. induction l as [|x l IH]; intros H; cbn; [reflexivity|]. rewrite (H x (or_introl eq_refl)). f_equal. apply IH. intros y Hy. apply H. now right. Qed.
Lemma filter_none {A} (p : A -> bool) (l : list A) : (forall x, In x l -> p x = false) -> filter p l = [].
Proof. induction l as [|x l IH]; intros H; cbn; [reflexivity|]. rewrite (H x (or_introl eq_refl)). apply IH. intros y Hy. apply H. now right. Qed.

Lemma existsb_eqb_seq m a n : existsb (Nat.eqb m) (seq a n) = (a <=? m) && (m <? a + n).
Proof.
  destruct (existsb (Nat.eqb m) (seq a n)) eqn:E.
  - apply existsb_exists in E. destruct E as (x & Hx & Ex). apply Nat.eqb_eq in Ex. subst x. apply in_seq in Hx.
    symmetry. apply andb_true_intro. split; [apply Nat.leb_le|apply Nat.ltb_lt]; lia.
  - symmetry. apply andb_false_iff. destruct (Nat.leb_spec a m) as [H1|H1]; [|now left]. right. apply Nat.ltb_ge.
    destruct (Nat.lt_ge_cases m (a + n)) as [H2|H2]; [|exact H2]. exfalso.
    assert (In m (seq a n)) by (apply in_seq; lia).
    assert (existsb (Nat.eqb m) (seq a n) = true) by (apply existsb_exists; exists m; split; [assumption|apply Nat.eqb_refl]). congruence.
Qed.

(* trailing modes: the remaining modes are the leading ones and the mode order (remaining ++ selected) is the identity *)
Lemma compl_trailing N a : a <= N -> compl N (seq a (N - a)) = seq 0 a.
Proof.
  intros H. unfold compl.
  assert (E : seq 0 N = seq 0 a ++ seq a (N - a)) by (replace N with (a + (N - a)) at 1 by lia; apply seq_app).
  rewrite E, filter_app.
  rewrite filter_all, filter_none; [apply app_nil_r| |].
  - intros m Hm. apply in_seq in Hm. rewrite existsb_eqb_seq. replace (a <=? m) with true by (symmetry; apply Nat.leb_le; lia).
    replace (m <? a + (N - a)) with true by (symmetry; apply Nat.ltb_lt; lia). reflexivity.
  - intros m Hm. apply in_seq in Hm. rewrite existsb_eqb_seq. replace (a <=? m) with false by (symmetry; apply Nat.leb_gt; lia). reflexivity.
Qed.

Lemma invperm_seq n : invperm (seq 0 n) = seq 0 n.
Proof.
  unfold invperm. rewrite seq_length. transitivity (map (fun k : nat => k) (seq 0 n)); [|apply map_id].
  apply map_ext_in. intros k Hk. apply in_seq in Hk.
  assert (E : nth k (seq 0 n) 0 = k) by (rewrite seq_nth by lia; reflexivity).
  rewrite <- E at 1. apply index_of_nth; [apply seq_NoDup|rewrite seq_length; lia].
Qed.

Lemma unpick_id (x : idx) : unpick (seq 0 (length x)) x = x.
Proof. unfold unpick. rewrite invperm_seq. apply pick_seq. Qed.

Lemma size_repeat sz n : size (repeat sz n) = sz ^ n.
Proof. induction n as [|n IH]; cbn [repeat]; [reflexivity|]. rewrite size_cons, IH. reflexivity. Qed.

Lemma repeat_snoc {A} (a : A) n : repeat a (S n) = repeat a n ++ [a].
Proof. induction n as [|n IH]; [reflexivity|]. cbn [repeat app] in *. now rewrite <- IH. Qed.

Lemma nth_repeat_lt {A} (a d : A) n : forall k, k < n -> nth k (repeat a n) d = a.
Proof. induction n as [|n IH]; intros [|k] H; cbn; try lia; auto. apply IH. lia. Qed.

Lemma pick_repeat_seq sz N a : a <= N -> pick 0 (seq a (N - a)) (repeat sz N) = repeat sz (N - a).
Proof.
  intros H. unfold pick. apply (nth_ext _ _ 0 0).
  - now rewrite map_length, seq_length, repeat_length.
  - intros j Hj. rewrite map_length, seq_length in Hj.
    rewrite (nth_indep _ 0 (nth 0 (repeat sz N) 0)) by (now rewrite map_length, seq_length).
    rewrite (map_nth (fun k => nth k (repeat sz N) 0)). rewrite seq_nth by lia.
    rewrite !nth_repeat_lt by lia. reflexivity.
Qed.

Section P.
Variable V : Type.
Variables (v0 v1 : V) (vadd vmul vsub : V -> V -> V) (vopp : V -> V).
Hypothesis Vring : ring_theory v0 v1 vadd vmul vsub vopp (@eq V).
Add Ring Vr42 : Vring.

Local Notation den := (den_dense v0).
Local Notation Sn := (sum_n v0 vadd).
Local Notation smodes := (sum_modes v0 vadd vmul).

(* the flat list y, read as an F-ordered array with j modes of size sz, holds h *)
Definition holds (sz j : nat) (y : list V) (h : idx -> V) : Prop :=
  length y = sz ^ j /\ forall i, inb (repeat sz j) i = true -> nth (sub2ind (repeat sz j) i) y v0 = h i.

Lemma ttsv_step_holds sz j v y h : holds sz (S j) y h ->
  holds sz j (ttsv_step v0 vadd vmul (sz ^ j) sz v y) (fun i => Sn sz (fun k => vmul (h (i ++ [k])) (nth k v v0))).
Proof.
  intros [HL HV]. unfold ttsv_step. split.
  - rewrite (matvec_len V v0 vadd vmul). reflexivity.
  - intros i Hi. assert (Ha := sub2ind_lt _ _ Hi). rewrite size_repeat in Ha.
    rewrite (matvec_nth V v0 vadd vmul) by exact Ha. apply sum_n_ext. intros k Hk. f_equal.
    rewrite <- (HV (i ++ [k])).
    + rewrite repeat_snoc. rewrite sub2ind_app by (apply inb_length in Hi; exact Hi). rewrite size_repeat. cbn [sub2ind]. f_equal. lia.
    + rewrite repeat_snoc. rewrite inb_app by (apply inb_length in Hi; exact Hi). rewrite Hi. cbn [inb andb].
      apply Nat.ltb_lt in Hk. now rewrite Hk.
Qed.

Lemma ttsv_loop_holds sz dnew v : forall i y h, holds sz (dnew + i) y h ->
  holds sz dnew (ttsv_loop v0 vadd vmul i sz dnew v y)
        (fun i0 => smodes (repeat sz i) (repeat v i) (fun ks => h (i0 ++ ks))).
Proof.
  induction i as [|i IH]; intros y h H.
  - rewrite Nat.add_0_r in H. destruct H as [HL HV]. split; [exact HL|]. intros i0 Hi0. cbn [ttsv_loop repeat sum_modes].
    rewrite app_nil_r. now apply HV.
  - cbn [ttsv_loop]. replace (dnew + S i) with (S (dnew + i)) in H by lia.
    destruct (IH _ _ (ttsv_step_holds sz (dnew + i) v y h H)) as [HL HV]. split; [exact HL|].
    intros i0 Hi0. rewrite (HV i0 Hi0). rewrite !repeat_snoc.
    rewrite (sum_modes_snoc V v0 vadd vmul) by (now rewrite !repeat_length).
    apply (sum_modes_ext V v0 vadd vmul); [now rewrite !repeat_length|]. intros ks _.
    apply sum_n_ext. intros k _. now rewrite app_assoc.
Qed.

Theorem impl_ttsv_correct (X : dense V) (v : list V) (sz d dnew : nat) :
  wf_dense X -> dshape X = repeat sz d -> 1 <= d -> dnew <= d ->
  let Y := impl_ttsv v0 vadd vmul X v dnew in
  dshape Y = repeat sz dnew /\ wf_dense Y /\
  forall i', inb (repeat sz dnew) i' = true ->
    den Y i' = spec_ttv v0 vadd vmul (den X) (repeat sz d) (seq dnew (d - dnew)) (repeat v (d - dnew)) i'.
Proof.
  intros W HS Hd Hn. unfold impl_ttsv. rewrite HS, repeat_length.
  assert (E0 : nth 0 (repeat sz d) 0 = sz) by (destruct d; [lia|reflexivity]). rewrite E0.
  assert (H0 : holds sz (dnew + (d - dnew)) (ddata X) (den X)).
  { replace (dnew + (d - dnew)) with d by lia. split.
    - unfold wf_dense in W. rewrite W, HS. apply size_repeat.
    - intros i Hi. unfold den_dense. rewrite HS, Hi. reflexivity. }
  destruct (ttsv_loop_holds sz dnew v (d - dnew) (ddata X) (den X) H0) as [HL HV].
  cbn zeta. split; [reflexivity|]. split; [unfold wf_dense; cbn [dshape ddata]; now rewrite HL, size_repeat|].
  intros i' Hi'. unfold den_dense at 1. cbn [dshape ddata]. rewrite Hi', (HV i' Hi').
  unfold spec_ttv. rewrite repeat_length, (compl_trailing d dnew Hn), (pick_repeat_seq sz d dnew Hn).
  apply (sum_modes_ext V v0 vadd vmul); [now rewrite !repeat_length|]. intros ks Hks. f_equal.
  replace (seq 0 dnew ++ seq dnew (d - dnew)) with (seq 0 (length (i' ++ ks))).
  - symmetry. apply unpick_id.
  - rewrite app_length, (inb_length _ _ Hi'), (inb_length _ _ Hks), !repeat_length.
    replace (dnew + (d - dnew)) with (dnew + (d - dnew)) by lia. now rewrite seq_app.
Qed.
End P.
