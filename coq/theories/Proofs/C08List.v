(* Proofs/C08List.v — wave 5: tolist(), the exact clauses.  (1) all weights one: the returned list IS the stored factor list, and the
   Kruskal tensor rebuilt from it with unit weights is the object itself (the list round trip is exact); (2) otherwise the list has the
   same number of factors with the same numbers of rows (only column scalings happen). Any value type, no ring law needed. *)
From Coq Require Import List Arith Lia Bool.
From PV Require Import Base.Index Model.Repr Model.C08Kruskal.
Import ListNotations.
Local Open Scope nat_scope.

Section L8.
Variable V : Type.
Variables (v1 : V) (vmul : V -> V -> V) (root vsgn vabs : V -> V) (is_one : V -> bool).
Notation mat := (list (list V)).
Notation tolist := (k_tolist vmul root vsgn vabs is_one).

Theorem tolist_unit_exact (K : ktensor V) : (forall x, is_one x = true -> x = v1) ->
  forallb is_one (kweights K) = true ->
  tolist K = kfactors K /\ mkK (map (fun _ => v1) (kweights K)) (tolist K) = K.
Proof.
  intros H1 HA. unfold k_tolist. rewrite HA. split; [reflexivity|].
  destruct K as [w f]. cbn [kweights kfactors] in *. f_equal.
  induction w as [|x w IH]; [reflexivity|]. cbn [forallb map] in *. apply andb_true_iff in HA as [Hx Hw].
  rewrite (H1 x Hx). f_equal. exact (IH Hw).
Qed.

Lemma nrows_scale_cols (cs : list V) (A : mat) : nrows (scale_cols vmul cs A) = nrows A.
Proof. unfold nrows, scale_cols. apply map_length. Qed.

Lemma map_nrows_upd_scale (cs : list V) : forall (fs : list mat) j,
  map (@nrows V) (upd_nth j (scale_cols vmul cs) fs) = map (@nrows V) fs.
Proof.
  induction fs as [|f fs IH]; intros [|j]; cbn [upd_nth map]; try reflexivity.
  - now rewrite nrows_scale_cols.
  - f_equal. apply IH.
Qed.

Theorem tolist_shape (K : ktensor V) : map (@nrows V) (tolist K) = kshape K.
Proof.
  unfold k_tolist, kshape. destruct (forallb is_one (kweights K)); [reflexivity|].
  rewrite map_map. rewrite (map_ext _ (@nrows V) (fun A => nrows_scale_cols _ A)). apply map_nrows_upd_scale.
Qed.

End L8.

(* non-vacuity: unit weights (exact), and a 2-way tensor with a negative weight (same shapes) *)
From Coq Require Import ZArith.
Local Open Scope Z_scope.
Example ex_tolist_unit :
  let K := mkK [1; 1] [[[1; 2]; [3; 4]; [5; 6]]; [[7; 8]; [9; 10]]] in
  k_tolist Z.mul (fun x => x) Z.sgn Z.abs (Z.eqb 1) K = kfactors K /\ mkK [1; 1] (k_tolist Z.mul (fun x => x) Z.sgn Z.abs (Z.eqb 1) K) = K.
Proof. split; reflexivity. Qed.
