"""Shared helpers of the C03 / C06 property modules (sparse element-wise operators).

Pure-Python element-wise semantics (the oracle's meaning of every operator), the pyttb runner for one
(operator, right-hand-side kind) request, Gallina literal writers for the xval value type, and the
input-class predicates the known-finding triggers are built from."""
import itertools
import math
from fractions import Fraction

import tgen
from vcheck import gz, gzlist, gnlist, gnmat, gq

# ---------------------------------------------------------------------------------------------
# operator tables
# ---------------------------------------------------------------------------------------------
ARITH = ("add", "sub", "mul")
LOGIC = ("and", "or", "xor")
CMP = ("eq", "ne", "lt", "le", "gt", "ge")
BINOPS = ARITH + ("div",) + LOGIC + CMP
# name of the Z -> Z -> Z function in Model/C03Ops.v
COQ_F = {"add": "Z.add", "sub": "Z.sub", "mul": "Z.mul", "and": "zand", "or": "zor", "xor": "zxor",
         "eq": "zeq", "ne": "zne", "lt": "zlt", "le": "zle", "gt": "zgt", "ge": "zge", "rmul": "Z.mul"}
ELEMFUNS = {"dbl": (lambda v: v * 2, "(fun v => v * 2)%Z"),
            "negate": (lambda v: -v, "Z.opp"),
            "minus2": (lambda v: v - 2, "(fun v => v - 2)%Z"),
            "square": (lambda v: v * v, "(fun v => v * v)%Z")}


def pydiv(x, y):
    """IEEE element-wise division on exact numbers: 0/0 = nan, x/0 = +-inf by the sign of x"""
    if y == 0:
        if x == 0:
            return "nan"
        return "inf" if x > 0 else "-inf"
    q = Fraction(x, y)
    return int(q) if q.denominator == 1 else q


def pyop(op):
    return {
        "add": lambda x, y: x + y, "sub": lambda x, y: x - y, "mul": lambda x, y: x * y, "rmul": lambda x, y: x * y,
        "div": pydiv, "rdiv": lambda x, y: pydiv(y, x),
        "and": lambda x, y: int(x != 0 and y != 0), "or": lambda x, y: int(x != 0 or y != 0),
        "xor": lambda x, y: int((x != 0) != (y != 0)),
        "eq": lambda x, y: int(x == y), "ne": lambda x, y: int(x != y), "lt": lambda x, y: int(x < y),
        "le": lambda x, y: int(x <= y), "gt": lambda x, y: int(x > y), "ge": lambda x, y: int(x >= y),
    }[op]


def dense_of(shape, subs, vals):
    """F-order value list denoted by a well-formed coordinate list (pure python)"""
    d = {tuple(s): v for s, v in zip(subs, vals)}
    return [d.get(tuple(s), 0) for s in tgen.all_subs(shape)]


def rhs_dense(a):
    """F-order list of the right-hand side of a binary case"""
    n = math.prod(a["shape"])
    if a["rk"] == "scalar":
        return [a["c"]] * n
    if a["rk"] == "dense":
        return list(a["bd"])
    if a["rk"] == "kruskal":
        return kdense(a)
    return dense_of(a["shape"], a["bsubs"], a["bvals"])


def expected_dense(op, a):
    """the element-wise meaning of the request on the fully expanded arrays (F order)"""
    A = dense_of(a["shape"], a["subs"], a["vals"])
    if op in ("neg",):
        return [-x for x in A]
    if op == "pos":
        return list(A)
    if op == "not":
        return [int(x == 0) for x in A]
    if op == "ones":
        return [int(x != 0) for x in A]
    if op.startswith("elemfun:"):
        f = ELEMFUNS[op.split(":")[1]][0]
        return [f(x) if x != 0 else 0 for x in A]
    B = rhs_dense(a)
    f = pyop(op)
    return [f(x, y) for x, y in zip(A, B)]


# ---------------------------------------------------------------------------------------------
# running pyttb
# ---------------------------------------------------------------------------------------------
def mk_rhs(ttb, np, a):
    if a["rk"] == "scalar":
        return a["c"]
    if a["rk"] == "dense":
        return tgen.mk_tensor(ttb, np, a["shape"], a["bd"])
    return tgen.mk_sptensor(ttb, np, a["shape"], a["bsubs"], a["bvals"])


def apply_op(ttb, np, op, S, R):
    import operator as O
    if op == "add":
        return S + R
    if op == "sub":
        return S - R
    if op == "mul":
        return S * R
    if op == "rmul":
        return R * S
    if op == "div":
        return S / R
    if op == "rdiv":
        return R / S
    if op == "and":
        return S.logical_and(R)
    if op == "or":
        return S.logical_or(R)
    if op == "xor":
        return S.logical_xor(R)
    if op in CMP:
        return getattr(O, op)(S, R)
    if op == "neg":
        return -S
    if op == "pos":
        return +S
    if op == "not":
        return S.logical_not()
    if op == "ones":
        return S.ones()
    if op.startswith("elemfun:"):
        return S.elemfun(ELEMFUNS[op.split(":")[1]][0])
    raise ValueError(op)


def observe(ttb, np, r):
    if isinstance(r, ttb.sptensor):
        o = tgen.obs_sparse(np, r)
        o["kind"] = "sparse"
        o["subs_shape"] = [int(d) for d in np.asarray(r.subs).shape]
        o["subs_integral"] = bool(np.asarray(r.subs).size == 0 or np.all(np.asarray(r.subs) == np.asarray(r.subs).astype(int)))
        # strict: a result that stores at least one row must hold it in an INTEGER array (float64 subscripts with integral
        # values make full() / indexing raise); and expanding the result must not raise (follow-up step on every sparse result)
        o["subs_dtype"] = str(np.asarray(r.subs).dtype)
        o["subs_dtype_int"] = bool(np.asarray(r.subs).size == 0 or np.issubdtype(np.asarray(r.subs).dtype, np.integer))
        try:
            with np.errstate(all="ignore"):
                f = r.full()
            o["full_ok"] = bool(tuple(f.shape) == tuple(r.shape))
        except Exception as ex:
            o["full_ok"] = False
            o["full_exc"] = f"{type(ex).__name__}: {str(ex)[:120]}"
        return o
    if isinstance(r, ttb.tensor):
        o = tgen.obs_dense(np, r)
        o["kind"] = "dense"
        return o
    return {"kind": "other", "type": type(r).__name__}


def run_elementwise(op, a):
    """run one request on pyttb; inputs are built fresh (so nothing the caller holds can be mutated)"""
    import numpy as np
    import pyttb as ttb
    try:
        S = tgen.mk_sptensor(ttb, np, a["shape"], a["subs"], a["vals"])
        R = mk_rhs(ttb, np, a) if "rk" in a else None
        with np.errstate(all="ignore"):
            r = apply_op(ttb, np, op, S, R)
        return observe(ttb, np, r)
    except Exception as ex:
        return {"exc": type(ex).__name__, "msg": str(ex)[:160]}


# ---------------------------------------------------------------------------------------------
# brute-force judgement of an observation against the element-wise meaning
# ---------------------------------------------------------------------------------------------
def same_val(got, want, tol=1e-9):
    if isinstance(want, str) or isinstance(got, str):
        return got == want
    return abs(Fraction(got) - Fraction(want)) <= tol * max(1, abs(Fraction(want)))


def wf_problems(o, shape, zeros_ok=False):
    """the well-formedness clauses of C06 on a raw sparse observation (pure python); zeros_ok drops the
    'no explicit zero' clause (C03 only needs one value per in-bounds subscript)"""
    subs, vals = o["subs"], o["vals"]
    if o["shape"] != list(shape):
        return f"shape {o['shape']} != {list(shape)}"
    if len(subs) != len(vals):
        return f"{len(subs)} subscript rows but {len(vals)} values"
    if o["nnz"] != len(subs):
        return f"nnz reports {o['nnz']} but {len(subs)} rows are stored"
    if not o.get("subs_integral", True):
        return "non-integer subscripts"
    seen = set()
    for s in subs:
        if len(s) != len(shape) or any(not (0 <= x < d) for x, d in zip(s, shape)):
            return f"subscript {s} outside shape {list(shape)}"
        if tuple(s) in seen:
            return f"subscript {s} stored twice"
        seen.add(tuple(s))
    for v in vals:
        if v == 0 and not zeros_ok:
            return "explicit zero stored"
    return None


def judge(o, shape, want, zeros_ok=False):
    """None when the observation (sparse or dense) is well-formed and denotes the F-order list `want`"""
    if "exc" in o:
        return f"admissible request raised {o['exc']}: {o.get('msg')}"
    if o["kind"] == "dense":
        if o["shape"] != list(shape) or len(o["data"]) != len(want):
            return f"dense result of shape {o['shape']}"
        for k, (g, w) in enumerate(zip(o["data"], want)):
            if not same_val(g, w):
                return f"entry {tgen.all_subs(shape)[k]} is {g}, element-wise meaning is {w}"
        return None
    if o["kind"] != "sparse":
        return f"result of type {o.get('type')}"
    p = wf_problems(o, shape, zeros_ok)
    if p:
        return "ill-formed sparse result: " + p
    if not o.get("subs_dtype_int", True):
        return f"sparse result stores its subscripts in an array of dtype {o.get('subs_dtype')} (not an integer type)"
    if not o.get("full_ok", True):
        return f"expanding the sparse result with full() fails: {o.get('full_exc')}"
    d = {tuple(s): v for s, v in zip(o["subs"], o["vals"])}
    for s, w in zip(tgen.all_subs(shape), want):
        g = d.get(tuple(s), 0)
        if not same_val(g, w):
            return f"entry {s} is {g}, element-wise meaning is {w}"
    return None


# ---------------------------------------------------------------------------------------------
# input classes (building blocks of triggers)
# ---------------------------------------------------------------------------------------------
def nnz_a(a):
    return len(a["subs"])


def nnz_b(a):
    return len(a.get("bsubs", []))


def is_sorted(subs):
    """ascending in numpy.unique(axis=0) order (lexicographic by columns)"""
    return all(tuple(subs[k]) < tuple(subs[k + 1]) for k in range(len(subs) - 1))


def common_aligned(a):
    """do the common subscripts of the two sparse operands appear in the same relative order in both?"""
    sa = [tuple(s) for s in a["subs"]]
    sb = [tuple(s) for s in a["bsubs"]]
    ca = [s for s in sa if s in sb]
    cb = [s for s in sb if s in sa]
    return ca == cb


# ---------------------------------------------------------------------------------------------
# Gallina literals
# ---------------------------------------------------------------------------------------------
def gxval(v):
    if v == "nan":
        return "XNaN"
    if v == "inf":
        return "XPInf"
    if v == "-inf":
        return "XNInf"
    return f"(XFin {gq(Fraction(v))})"


def gxlist(l):
    return "(@nil xval)" if not l else "[" + "; ".join(gxval(v) for v in l) + "]"


def gsp(a, key="subs", vkey="vals"):
    return tgen.gsparse(a["shape"], a[key], a[vkey])


def grhs(a):
    if a["rk"] == "scalar":
        return f"(RScalar {gz(a['c'])})"
    if a["rk"] == "dense":
        return f"(RDense {tgen.gdense(a['shape'], a['bd'])})"
    return f"(RSparse {tgen.gsparse(a['shape'], a['bsubs'], a['bvals'])})"


def permutations_of(n, rng, limit_all=4, nrand=3):
    """all n! orders for n <= limit_all, else `nrand` random ones (never the identity twice)"""
    ident = list(range(n))
    if n <= limit_all:
        return [list(p) for p in itertools.permutations(ident)]
    out = [ident, ident[::-1]]
    for _ in range(nrand):
        p = ident[:]
        rng.shuffle(p)
        out.append(p)
    return out


# ---------------------------------------------------------------------------------------------
# wave 3: memory layouts of the operands, two-step histories, operands observed after the call
# ---------------------------------------------------------------------------------------------
UNARY = ("neg", "not", "ones", "pos")


def lay2d(np, arr, how):
    """the same 2-d array in another memory layout: F-contiguous, C-contiguous or a non-contiguous strided view"""
    if how == "F":
        return np.asfortranarray(arr)
    if how == "C":
        return np.ascontiguousarray(arr)
    if how == "view":
        big = np.zeros((2 * arr.shape[0] + 1, 2 * arr.shape[1] + 1), dtype=arr.dtype)
        big[1::2, 1::2] = arr
        return big[1::2, 1::2]
    return arr


def mk_sp_layout(ttb, np, shape, subs, vals, lay, dtype=None):
    s = np.array(subs, dtype=int).reshape((len(subs), len(shape)))
    v = np.array(vals, dtype=dtype or float).reshape((len(vals), 1))
    if lay == "assigned":
        # the operand is BUILT BY A HISTORY of element assignments: an empty (1, ..., 1) tensor grown entry by entry in the given
        # stored order (the shape grows with the assignments; a last corner is set and cleared again when no entry reaches it)
        S = ttb.sptensor(shape=tuple(1 for _ in shape))
        for sub, val in zip(subs, vals):
            S[tuple(sub)] = float(val)
        if tuple(int(d) for d in S.shape) != tuple(shape):
            last = tuple(d - 1 for d in shape)
            S[last] = 7.0
            S[last] = 0.0
        return S
    if not lay:
        return ttb.sptensor(s, v, tuple(shape), copy=True)
    return ttb.sptensor(lay2d(np, s, lay.get("sub")), lay2d(np, v, lay.get("val")), tuple(shape), copy=False)


def mk_dense_layout(ttb, np, shape, data, how, dtype=None):
    if len(shape) == 0:
        return ttb.tensor()          # pyttb's order-0 tensor is the empty tensor (no data)
    if how == "grown" and len(shape) >= 2:
        # a dense tensor GROWN by out-of-bounds assignment (pyttb installs a C-ordered np.zeros(newshape)): start from the
        # (1, ..., 1) corner, assign past the bounds, then fill in element by element
        full = tgen.np_dense(np, shape, data)
        one = tuple(1 for _ in shape)
        T = ttb.tensor(np.array(full[tuple(0 for _ in shape)], dtype=float).reshape(one), one, copy=True)
        last = tuple(d - 1 for d in shape)
        T[last] = full[last]
        for sub in np.ndindex(*shape):
            T[sub] = full[sub]
        return T
    T = tgen.mk_tensor(ttb, np, shape, data)
    if dtype:
        T = ttb.tensor(np.asfortranarray(T.data.astype(dtype)), tuple(shape), copy=True)
    if how == "C":
        T.data = np.ascontiguousarray(T.data)
    elif how == "view":
        big = np.zeros(tuple(2 * d + 1 for d in T.data.shape), dtype=T.data.dtype)
        sl = tuple(slice(1, None, 2) for _ in T.data.shape)
        big[sl] = T.data
        T.data = big[sl]
    return T


def raw_sparse(np, S, nshape):
    subs = np.asarray(S.subs)
    rows = [] if subs.size == 0 else [[int(x) for x in r] for r in subs.reshape((-1, nshape))]
    return rows, [tgen.exact(x) for x in np.asarray(S.vals).ravel()]


def run_history(op, a):
    """one request, possibly two chained public operations `(A op1 R1) op2 R2` on the SAME Python objects
    (R2 may be A or R1 again); records the raw result of every step and whether the operands still hold
    the lists they were built from."""
    import logging
    import numpy as np
    import pyttb as ttb
    logging.disable(logging.WARNING)   # pyttb logs a warning for every dense operand that is not F-ordered
    try:
        lay = a.get("layout") or {}
        shape = a["shape"]
        dt = a.get("dtype")      # wave 4: value dtype of the operands (default float64): int64 / int32 / int8 / float32
        S = mk_sp_layout(ttb, np, shape, a["subs"], a["vals"], lay.get("A"), dt)
        R = None
        if "rk" in a:
            if a["rk"] == "scalar":
                R = a["c"]
            elif a["rk"] == "dense":
                R = mk_dense_layout(ttb, np, shape, a["bd"], lay.get("dense"), dt)
            elif a["rk"] == "kruskal":
                R = mk_kruskal(ttb, np, a, lay.get("K"))
            else:
                R = mk_sp_layout(ttb, np, shape, a["bsubs"], a["bvals"], lay.get("B"), dt)
        ops = op.split(":")[1:] if op.startswith("then:") else [op]
        out = {"kind": "steps", "steps": []}
        with np.errstate(all="ignore"):
            r = apply_op(ttb, np, ops[0], S, R)
            out["steps"].append(observe(ttb, np, r))
            if len(ops) == 2:
                r2 = a["r2"]
                if r2["k"] == "un":
                    R2 = None
                elif r2["k"] == "scalar":
                    R2 = r2["c"]
                elif r2["k"] == "A":
                    R2 = S
                else:
                    R2 = R
                q = apply_op(ttb, np, ops[1], r, R2)
                out["steps"].append(observe(ttb, np, q))
        sa, va = raw_sparse(np, S, len(shape))
        intact = sa == [list(x) for x in a["subs"]] and va == list(a["vals"]) and tuple(S.shape) == tuple(shape)
        if a.get("rk") == "sparse":
            sb, vb = raw_sparse(np, R, len(shape))
            intact = intact and sb == [list(x) for x in a["bsubs"]] and vb == list(a["bvals"])
        elif a.get("rk") == "dense":
            intact = intact and [tgen.exact(x) for x in np.ravel(R.data, order="F")] == list(a["bd"])
        elif a.get("rk") == "kruskal":
            intact = (intact and [tgen.exact(x) for x in np.asarray(R.weights).ravel()] == list(a["kw"])
                      and [[[tgen.exact(x) for x in row] for row in np.asarray(f)] for f in R.factor_matrices]
                      == [[list(r) for r in f] for f in a["kf"]])
        out["intact"] = bool(intact)
        return out
    except Exception as ex:
        return {"exc": type(ex).__name__, "msg": str(ex)[:160]}
    finally:
        logging.disable(logging.NOTSET)


def r2_dense(a, first):
    """F-order list of the second step's right-hand side (`first` = F-order list of the first step's meaning)"""
    r2 = a["r2"]
    n = math.prod(a["shape"])
    if r2["k"] == "scalar":
        return [r2["c"]] * n
    if r2["k"] == "A":
        return dense_of(a["shape"], a["subs"], a["vals"])
    return rhs_dense(a)


def apply_dense(op, X, Y=None):
    """element-wise meaning of one operator on F-order lists (pure python)"""
    if op == "neg":
        return [-x for x in X]
    if op == "pos":
        return list(X)
    if op == "not":
        return [int(x == 0) for x in X]
    if op == "ones":
        return [int(x != 0) for x in X]
    f = pyop(op)
    return [f(x, y) for x, y in zip(X, Y)]


def expected_steps(op, a):
    """the element-wise meaning after every step of the request (list of F-order lists)"""
    ops = op.split(":")[1:] if op.startswith("then:") else [op]
    first = expected_dense(ops[0], a)
    if len(ops) == 1:
        return [first]
    if ops[1] in UNARY:
        return [first, apply_dense(ops[1], first)]
    return [first, apply_dense(ops[1], first, r2_dense(a, first))]


def judge_steps(o, op, a, zeros_ok=False):
    if "exc" in o:
        return f"admissible request raised {o['exc']}: {o.get('msg')}"
    ops = op.split(":")[1:] if op.startswith("then:") else [op]
    for k, (st, want) in enumerate(zip(o["steps"], expected_steps(op, a))):
        p = judge(st, a["shape"], want, zeros_ok)
        if p:
            return f"step {k + 1} ({ops[k]}): " + p
    if not o.get("intact", True):
        return "an operand no longer holds the subscripts / values it was built from after the call"
    return None


# ---------------------------------------------------------------------------------------------
# wave 3b: sparse / sparse as the repaired code (e2beb21) computes it — brute-force expectation used by the
# oracle of the list-for-list tie `divmodel` (open finding C03-N7: NaN for x/0, a stored 0 for 0/x)
# ---------------------------------------------------------------------------------------------
def judge_div_asis(o, a):
    if "exc" in o:
        return f"admissible request raised {o['exc']}: {o.get('msg')}"
    st = o["steps"][0]
    if st.get("kind") != "sparse":
        return f"result of kind {st.get('kind')}"
    p = wf_problems(st, a["shape"], zeros_ok=True)
    if p:
        return "ill-formed sparse result: " + p
    A = {tuple(s): v for s, v in zip(a["subs"], a["vals"])}
    B = {tuple(s): v for s, v in zip(a["bsubs"], a["bvals"])}
    got = {tuple(s): v for s, v in zip(st["subs"], st["vals"])}
    for s in tgen.all_subs(a["shape"]):
        s = tuple(s)
        if s not in got:
            return f"position {list(s)} is not stored (the code stores every position of the shape)"
        want = pydiv(A[s], B[s]) if s in A and s in B else (0 if s in B else "nan")
        if not same_val(got[s], want):
            return f"entry {list(s)} is {got[s]}, the division code is expected to store {want}"
    return None


# ---------------------------------------------------------------------------------------------
# wave 4: Kruskal right-hand side (sptensor.__mul__ / __truediv__ with a ktensor operand)
# ---------------------------------------------------------------------------------------------
KEPS = Fraction(1, 2 ** 52)   # np.finfo(float).eps


def kvalue(a, s):
    """value of the Kruskal tensor (weights a['kw'], factor matrices a['kf'] as row lists) at subscript s (pure python)"""
    tot = 0
    for r, w in enumerate(a["kw"]):
        p = w
        for n, x in enumerate(s):
            p *= a["kf"][n][x][r]
        tot += p
    return tot


def kdense(a):
    return [kvalue(a, s) for s in tgen.all_subs(a["shape"])]


def mk_kruskal(ttb, np, a, how=None):
    """the ktensor operand; factor matrices F-contiguous (pyttb's own layout), C-contiguous or strided views (how)"""
    if len(a["shape"]) == 0:
        return ttb.ktensor()         # order 0: the empty Kruskal tensor
    R = len(a["kw"])
    fms = []
    for n, f in enumerate(a["kf"]):
        m = np.array(f, dtype=float).reshape((a["shape"][n], R))
        fms.append(lay2d(np, m, how) if how else np.asfortranarray(m))
    w = np.array(a["kw"], dtype=float)
    if how:
        return ttb.ktensor(fms, w, copy=False)
    return ttb.ktensor(fms, w)


def gkt(a):
    return tgen.gktensor(a["kw"], a["kf"])


def judge_k_asis(o, op, a, filtered=False):
    """brute-force expectation of the Kruskal branches AS THE CODE IS (oracle of the list-for-list ties mulmodel / divmodel):
    the stored rows of the sparse operand in their order, each with x * K[s] resp. x / max(eps, K[s])"""
    if "exc" in o:
        return f"admissible request raised {o['exc']}: {o.get('msg')}"
    st = o["steps"][0]
    if st.get("kind") != "sparse":
        return f"result of kind {st.get('kind')}"
    p = wf_problems(st, a["shape"], zeros_ok=True)
    if p:
        return "ill-formed sparse result: " + p
    rows = [(list(s), x) for s, x in zip(a["subs"], a["vals"])]
    if filtered and op == "mul":
        rows = [(s, x) for s, x in rows if x * kvalue(a, s) != 0]
    if st["subs"] != [s for s, _ in rows]:
        return f"stored rows {st['subs']} are not the rows of the sparse operand in their stored order"
    for (s, x), g in zip(rows, st["vals"]):
        k = kvalue(a, s)
        want = x * k if op == "mul" else Fraction(x) / max(KEPS, Fraction(k))
        if not same_val(g, want):
            return f"entry {s} is {g}, the Kruskal branch is expected to store {want} (x = {x}, K[s] = {k})"
    if not o.get("intact", True):
        return "an operand no longer holds the values it was built from after the call"
    return None


# ---------------------------------------------------------------------------------------------
# wave 4: order-0 operands.  pyttb's shape () is the EMPTY tensor (sptensor(shape=()) stores no row, tensor() has no data,
# allsubs() lists nothing): there is no position, every operator must hand back an empty container
# ---------------------------------------------------------------------------------------------
def judge_ord0(o):
    if "exc" in o:
        return f"admissible request on order-0 operands raised {o['exc']}: {o.get('msg')}"
    for k, st in enumerate(o["steps"]):
        if st.get("kind") == "sparse":
            if st["shape"] != [] or st["subs"] or st["vals"] or st["nnz"] != 0 or not st.get("full_ok", True):
                return f"step {k + 1}: order-0 operands (no cell) give a sparse result of shape {st['shape']} storing {st['subs']} / {st['vals']}"
        elif st.get("kind") == "dense":
            if st["shape"] not in ([], [0]) or st["data"]:
                return f"step {k + 1}: order-0 operands (no cell) give a dense result of shape {st['shape']} with data {st['data']}"
        else:
            return f"step {k + 1}: result of type {st.get('type')}"
    if not o.get("intact", True):
        return "an operand no longer holds what it was built from after the call"
    return None


# ---------------------------------------------------------------------------------------------
# wave 5: histories on ONE sparse object — operator, in-place element assignments (which may grow the shape, add, overwrite or
# delete entries), operator again on the SAME object — compared with the same request on a tensor rebuilt by the constructor.
# Whatever an operator left behind on the object (anything derived from the shape / the stored rows at the time of the first
# call) must not survive the mutation.
# ---------------------------------------------------------------------------------------------
def sim_assign(shape, subs, vals, assigns):
    """pure-python effect of the single-element assignments S[sub] = val in order: an existing entry is overwritten in place, a
    zero deletes it (order of the others kept), a new nonzero is appended, the shape grows to contain every assigned subscript
    (also when a zero is assigned past the bounds)"""
    shape, subs, vals = list(shape), [list(s) for s in subs], list(vals)
    for sub, val in assigns:
        sub = list(sub)
        if sub in subs:
            k = subs.index(sub)
            if val != 0:
                vals[k] = val
            else:
                del subs[k], vals[k]
        elif val != 0:
            subs.append(sub)
            vals.append(val)
        shape = [max(d, x + 1) for d, x in zip(shape, sub)]
    return shape, subs, vals


def sim_assign_dense(shape, data, assigns):
    """pure-python effect of T[sub] = val (single elements, in order) on a dense tensor given by its F-order list: the shape grows
    to contain the subscript (new cells are 0), then the cell is overwritten"""
    shape = list(shape)
    cells = dict(zip(map(tuple, tgen.all_subs(shape)), data)) if shape else {}
    for sub, val in assigns:
        shape = [max(d, x + 1) for d, x in zip(shape, sub)]
        cells[tuple(sub)] = val
    return shape, [cells.get(tuple(s), 0) for s in tgen.all_subs(shape)]


def _mk_rhs_of(ttb, np, a):
    if "rk" not in a:
        return None
    if a["rk"] == "scalar":
        return a["c"]
    if a["rk"] == "dense":
        return mk_dense_layout(ttb, np, a["shape"], a["bd"], None)
    return mk_sp_layout(ttb, np, a["shape"], a["bsubs"], a["bvals"], None)


def _rebuilt(ttb, np, X):
    """the tensor X holds now, built in one go by the constructor from copies of its lists"""
    if X.nnz == 0:
        return ttb.sptensor(shape=tuple(int(d) for d in X.shape))
    return ttb.sptensor(np.array(X.subs, dtype=int, copy=True), np.array(X.vals, copy=True), tuple(int(d) for d in X.shape), copy=True)


def _same_obs(p, q):
    keys = ("kind", "shape", "subs", "vals", "data", "nnz")
    return all(p.get(k) == q.get(k) for k in keys)


def run_hist(op, a):
    """hist:<op0>,<op1>.  X = the object with a history (who = "A": the left operand of the second request, "B": its sparse
    right operand).  step 1: X op0 R0 on the initial tensor; then the assignments on X; step 2: the second request with X;
    step 3: the second request with the tensor rebuilt by the constructor.  All three raw results are observed."""
    import logging
    import numpy as np
    import pyttb as ttb
    logging.disable(logging.WARNING)
    try:
        op0, op1 = op[5:].split(",")
        h = a["hist"]
        a0 = h["a0"]
        nd = len(a["shape"])
        if h["who"] == "T":
            return _run_hist_dense(ttb, np, op0, op1, a)
        X = mk_sp_layout(ttb, np, a0["shape"], a0["subs"], a0["vals"], None)
        R0 = _mk_rhs_of(ttb, np, a0)
        out = {"kind": "steps", "steps": []}
        with np.errstate(all="ignore"):
            out["steps"].append(observe(ttb, np, apply_op(ttb, np, op0, X, R0)))
            keys = h.get("keys") or []
            for j, (sub, val) in enumerate(h["assign"]):
                if j < len(keys) and keys[j] == "array":
                    # S[M] = v with a 1 x N subscript array: sptensor._set_subscripts
                    X[np.array([[int(x) for x in sub]], dtype=int)] = float(val)
                else:
                    # S[i1, ..., iN] = v: sptensor._set_subtensor, scalar right-hand side
                    X[tuple(int(x) for x in sub)] = float(val)
            xs, xv = raw_sparse(np, X, nd)
            out["state"] = {"shape": [int(d) for d in X.shape], "subs": xs, "vals": xv}   # the object after its history, raw
            if h["who"] == "A":
                S, R = X, _mk_rhs_of(ttb, np, a)
                Sf, Rf = _rebuilt(ttb, np, X), _mk_rhs_of(ttb, np, a)
            else:
                S, R = mk_sp_layout(ttb, np, a["shape"], a["subs"], a["vals"], None), X
                Sf, Rf = mk_sp_layout(ttb, np, a["shape"], a["subs"], a["vals"], None), _rebuilt(ttb, np, X)
            out["steps"].append(observe(ttb, np, apply_op(ttb, np, op1, S, R)))
            out["steps"].append(observe(ttb, np, apply_op(ttb, np, op1, Sf, Rf)))
        out["same_as_rebuilt"] = bool(_same_obs(out["steps"][1], out["steps"][2]))
        sa, va = raw_sparse(np, S, nd)
        intact = sa == [list(x) for x in a["subs"]] and va == list(a["vals"]) and tuple(int(d) for d in S.shape) == tuple(a["shape"])
        if a.get("rk") == "sparse":
            sb, vb = raw_sparse(np, R, nd)
            intact = (intact and sb == [list(x) for x in a["bsubs"]] and vb == list(a["bvals"])
                      and tuple(int(d) for d in R.shape) == tuple(a["shape"]))
        elif a.get("rk") == "dense":
            intact = intact and [tgen.exact(x) for x in np.ravel(R.data, order="F")] == list(a["bd"])
        out["intact"] = bool(intact)
        return out
    except Exception as ex:
        return {"exc": type(ex).__name__, "msg": str(ex)[:160]}
    finally:
        logging.disable(logging.NOTSET)


def _run_hist_dense(ttb, np, op0, op1, a):
    """who = "T": the object with a history is the DENSE right operand: S0 op0 T on the initial tensors, element assignments on T
    (growing it: pyttb installs a new zero array), then A op1 T with the same object and with a tensor rebuilt from a copy of its data"""
    h = a["hist"]
    a0 = h["a0"]
    nd = len(a["shape"])
    S0 = mk_sp_layout(ttb, np, a0["shape"], a0["subs"], a0["vals"], None)
    T = mk_dense_layout(ttb, np, a0["shape"], a0["bd"], None)
    out = {"kind": "steps", "steps": []}
    with np.errstate(all="ignore"):
        out["steps"].append(observe(ttb, np, apply_op(ttb, np, op0, S0, T)))
        for sub, val in h["assign"]:
            T[tuple(int(x) for x in sub)] = float(val)
        out["state"] = {"shape": [int(d) for d in T.shape], "data": [tgen.exact(x) for x in np.ravel(T.data, order="F")]}
        S = mk_sp_layout(ttb, np, a["shape"], a["subs"], a["vals"], None)
        Sf = mk_sp_layout(ttb, np, a["shape"], a["subs"], a["vals"], None)
        Tf = ttb.tensor(np.array(T.data, copy=True, order="F"), tuple(int(d) for d in T.shape), copy=True)
        out["steps"].append(observe(ttb, np, apply_op(ttb, np, op1, S, T)))
        out["steps"].append(observe(ttb, np, apply_op(ttb, np, op1, Sf, Tf)))
    out["same_as_rebuilt"] = bool(_same_obs(out["steps"][1], out["steps"][2]))
    sa, va = raw_sparse(np, S, nd)
    out["intact"] = bool(sa == [list(x) for x in a["subs"]] and va == list(a["vals"]) and [int(d) for d in T.shape] == list(a["shape"])
                         and [tgen.exact(x) for x in np.ravel(T.data, order="F")] == list(a["bd"])
                         and out["state"]["shape"] == list(a["shape"]) and out["state"]["data"] == list(a["bd"]))
    return out


def judge_hist(o, op, a):
    if "exc" in o:
        return f"admissible history raised {o['exc']}: {o.get('msg')}"
    op0, op1 = op[5:].split(",")
    a0 = a["hist"]["a0"]
    p = judge(o["steps"][0], a0["shape"], expected_dense(op0, a0))
    if p:
        return f"first request ({op0}) on the initial tensor: " + p
    if not o.get("intact", True):
        return ("after the in-place assignments the operands do not hold the expected lists (assigned object) / the lists they were built "
                "from (other operand)")
    want = expected_dense(op1, a)
    for k, what in ((1, "on the object that was used by an operator and then changed in place"), (2, "on the same tensor rebuilt by the constructor")):
        p = judge(o["steps"][k], a["shape"], want)
        if p:
            return f"second request ({op1}) {what}: " + p
    if not o.get("same_as_rebuilt", True):
        return f"second request ({op1}): the object with a history and the rebuilt tensor give different raw results"
    return None


# ---------------------------------------------------------------------------------------------
# wave 5: sparse / dense as the code is (csubs = self.subs; cvals = self.vals / other[csubs]) — brute-force expectation used by the
# oracle of the list-for-list tie `divmodel` with a dense operand (open finding C03-N5: nothing stored where both operands are 0)
# ---------------------------------------------------------------------------------------------
def judge_div_dense_asis(o, a):
    if "exc" in o:
        return f"admissible request raised {o['exc']}: {o.get('msg')}"
    st = o["steps"][0]
    if st.get("kind") != "sparse":
        return f"result of kind {st.get('kind')}"
    p = wf_problems(st, a["shape"], zeros_ok=True)
    if p:
        return "ill-formed sparse result: " + p
    if st["subs"] != [list(s) for s in a["subs"]]:
        return f"stored rows {st['subs']} are not the rows of the sparse operand in their stored order"
    T = dict(zip(map(tuple, tgen.all_subs(a["shape"])), a["bd"]))
    for s, x, g in zip(a["subs"], a["vals"], st["vals"]):
        want = pydiv(x, T[tuple(s)])
        if not same_val(g, want):
            return f"entry {s} is {g}, the dense-operand branch of the division is expected to store {want}"
    if not o.get("intact", True):
        return "an operand no longer holds the values it was built from after the call"
    return None
