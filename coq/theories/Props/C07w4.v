(* Props/C07w4.v — C07, fourth wave: the REQUEST level.  Orders and target shapes as the caller writes them (int, list, tuple,
   arrays with singleton axes) are read through the GENERATED parse_one_d / parse_shape (Gen/GenUtils3b.v, regenerated from
   pyttb/pyttb_utils.py on every run), then handed to the operation models of Model/C07Ops.v.  Proofs: Proofs/C07Req.v. *)
From Coq Require Import List ZArith Arith Bool.
From PV Require Import Base.Index Base.Perm Np.NpZ Np.NpZ2 Np.NpZ3 Np.NpZ3b Gen.GenUtils3b Np.Array Model.Sparse
  Model.Repr Model.C07Ops Model.C07Ops2 Model.C07Req Model.C07Impl Proofs.W3ShapeArgs Proofs.C07Req Proofs.C07History Proofs.C07Impl Proofs.C07PermList.
Import ListNotations.

Section C07w4.
Context {V : Type} (v0 : V).

(* a list, a tuple and every integer array with exactly one non-singleton axis denote the same order *)
Theorem C07_order_forms : forall pz : list Z, pz <> [] ->
  order_of (SList (ints pz)) = Some pz /\ order_of (STuple (ints pz)) = Some pz /\
  (forall shp, filter (fun d => negb (d =? 1)%Z) shp = [zlen pz] -> order_of (SArr (mknd shp DInt (map NFin pz))) = Some pz).
Proof. exact order_of_forms. Qed.

(* a bare int and an integer array with a single entry denote the one-entry order *)
Theorem C07_order_scalar_forms : forall k : Z,
  order_of (SInt k) = Some [k] /\
  (forall shp, filter (fun d => negb (d =? 1)%Z) shp = [] -> order_of (SArr (mknd shp DInt [NFin k])) = Some [k]).
Proof. exact order_of_scalar_forms. Qed.

(* float / boolean arrays and arrays with two non-singleton axes are not orders *)
Theorem C07_order_rejects :
  (forall shp d, order_of (SArr (mknd shp DFloat d)) = None) /\
  (forall shp d, order_of (SArr (mknd shp DBool d)) = None) /\
  (forall shp k d x y r, filter (fun d => negb (d =? 1)%Z) shp = x :: y :: r -> order_of (SArr (mknd shp k d)) = None).
Proof. exact order_of_rejects. Qed.

(* an operation behind the order parser: succeeds only on a written order without negative entry, and then is the operation
   on that order; a request that denotes p IS the operation on p; any negative entry is a rejection *)
Theorem C07_request_order : forall (X : Type) (f : list nat -> option X) x,
  (forall R, with_order f x = Some R -> exists p, order_of x = Some (map Z.of_nat p) /\ f p = Some R) /\
  (forall p, order_of x = Some (map Z.of_nat p) -> with_order f x = f p) /\
  (forall pz z, order_of x = Some pz -> In z pz -> (z < 0)%Z -> with_order f x = None).
Proof. exact (fun X f x => conj (with_order_sound f x) (conj (with_order_complete f x) (with_order_negative f x))). Qed.

(* target shapes: tuple, list, integer array with one non-singleton axis, bare int; float arrays and negative sizes refused *)
Theorem C07_request_shape : forall (X : Type) (f : list nat -> option X) (s : list nat), s <> [] ->
  with_shape f (STuple (ints (map Z.of_nat s))) = f s /\ with_shape f (SList (ints (map Z.of_nat s))) = f s /\
  (forall shp, filter (fun d => negb (d =? 1)%Z) shp = [zlen (map Z.of_nat s)] ->
     with_shape f (SArr (mknd shp DInt (map NFin (map Z.of_nat s)))) = f s) /\
  (forall n, with_shape f (SInt (Z.of_nat n)) = f [n]) /\
  (forall shp d, with_shape f (SArr (mknd shp DFloat d)) = None) /\
  (forall z l, In z l -> (z < 0)%Z -> with_shape f (STuple (ints l)) = None /\ with_shape f (SList (ints l)) = None).
Proof. exact (@with_shape_forms). Qed.

(* tensor.permute as a request: a result means the order was a permutation of the modes and the result is the transposed
   array; the single exception is order [1] on a one-mode tensor, which returns the tensor itself (shortcut kept by /repo
   072fe0a for ndims == 1; residue of A-28, reported under C19) *)
Theorem C07_permute_request_dense_sound : forall (T : dense V) x R, wf_dense T -> permute_d_req v0 T x = Some R ->
  exists p, order_of x = Some (map Z.of_nat p) /\
    ((is_perm p (length (dshape T)) /\ R = np_transpose v0 T p) \/ (length (dshape T) = 1 /\ p = [1] /\ R = T)).
Proof. exact (permute_d_req_sound v0). Qed.

(* the index law for requests: every written form that denotes the permutation p *)
Theorem C07_permute_request_dense : forall (T : dense V) x p, wf_dense T -> is_perm p (length (dshape T)) ->
  order_of x = Some (map Z.of_nat p) ->
  exists R, permute_d_req v0 T x = Some R /\ wf_dense R /\ dshape R = pick 0 p (dshape T) /\
    (forall i, length i = length (dshape T) -> den_dense v0 R i = den_dense v0 T (pick 0 (invperm p) i)).
Proof. exact (permute_d_req_correct v0). Qed.

Theorem C07_reshape_request_dense : forall (T : dense V) x s', wf_dense T -> size s' = size (dshape T) -> s' <> [] ->
  parse_shape x = Ok (map Z.of_nat s') ->
  exists R, reshape_d_req v0 T x = Some R /\ dshape R = s' /\ ddata R = ddata T /\
    (forall i, inb s' i = true -> den_dense v0 R i = den_dense v0 T (ind2sub (dshape T) (sub2ind s' i))).
Proof. exact (reshape_d_req_correct v0). Qed.

(* sparse, Kruskal, Tucker (dense and sparse core): a permute request that returns a holder was a permutation of the modes *)
Theorem C07_permute_request_holders_sound : forall (S : sparse V) (K : ktensor V) (T : ttensor V) (Ts : sttensor V) x,
  (forall R, permute_sp_req S x = Some R ->
     exists p, order_of x = Some (map Z.of_nat p) /\ is_perm p (length (sshape S)) /\ permute_sp S p = Some R) /\
  (forall R, permute_k_req K x = Some R ->
     exists p, order_of x = Some (map Z.of_nat p) /\ is_perm p (length (kfactors K)) /\ permute_k K p = Some R) /\
  (forall R, permute_t_req v0 T x = Some R ->
     exists p, order_of x = Some (map Z.of_nat p) /\ is_perm p (length (tfactors T)) /\ permute_t v0 T p = Some R) /\
  (forall R, permute_st_req Ts x = Some R ->
     exists p, order_of x = Some (map Z.of_nat p) /\ is_perm p (length (stfactors Ts)) /\ permute_st Ts p = Some R).
Proof. exact (permute_req_holders_sound v0). Qed.

(* sptensor.reshape(new_shape, old_modes) as specified: a result means every listed mode number is a mode 0..N-1 of the tensor
   (pyttb itself accepts negative mode numbers and then returns a tensor with MORE modes: open finding N-C07-3) *)
Theorem C07_reshape_request_sparse_modes : forall (S : sparse V) x oldz R,
  reshape_sp_req S x oldz = Some R ->
  exists old s', oldz = map Z.of_nat old /\ Forall (fun k => k < length (sshape S)) old /\
    parse_shape x = Ok (map Z.of_nat s') /\ reshape_sp S s' old = Some R.
Proof. exact (@reshape_sp_req_modes V). Qed.

(* HISTORIES: any list of admissible steps (permute by a permutation of the current modes, reshape to positive sizes of the same
   element count, squeeze) run on ONE sparse holder and on the dense holder of the same data: after every step the sparse
   result expands (full()) to the dense result; a history that reaches an all-singleton squeeze ends in the same scalar on both *)
Theorem C07_history_agree : forall (l : list step) (S : sparse V), ok_sp S -> steps_okb (sshape S) l = true ->
  match run_sp v0 S l with
  | Some (SqT S') => run_d v0 (full v0 S) l = Some (SqT (full v0 S')) /\ ok_sp S'
  | Some (SqScalar v) => run_d v0 (full v0 S) l = Some (SqScalar v)
  | None => False
  end.
Proof. exact (history_agree_full v0). Qed.

(* ANY number of permutes on one holder is the single permute by the composed order, on all five holders *)
Theorem C07_permute_list : forall N p l, is_perm p N -> Forall (fun q => is_perm q N) l ->
  is_perm (compose_all p l) N /\
  (forall T : dense V, ok_d N T -> run_perm (permute_d v0) T (p :: l) = permute_d v0 T (compose_all p l)) /\
  (forall S : sparse V, ok_s N S -> run_perm permute_sp S (p :: l) = permute_sp S (compose_all p l)) /\
  (forall K : ktensor V, ok_k N K -> run_perm permute_k K (p :: l) = permute_k K (compose_all p l)) /\
  (forall T : ttensor V, ok_t N T -> run_perm (permute_t v0) T (p :: l) = permute_t v0 T (compose_all p l)) /\
  (forall T : sttensor V, ok_st N T -> run_perm permute_st T (p :: l) = permute_st T (compose_all p l)).
Proof. exact (permute_list_holders v0). Qed.

(* the return statements of sptensor.permute as written (branch on subs.size == 0) are the model, for every coordinate list *)
Theorem C07_permute_sparse_code : forall (S : sparse V) p, permute_sp_impl S p = permute_sp S p.
Proof. exact (@permute_sp_impl_eq V). Qed.

(* sptensor.squeeze as written (vals.item() / 0.0 when every mode is a singleton; the vals.size == 0 return; subs[:, idx]) is the
   model and does not raise, on every coordinate list with matching lengths, distinct subscripts, subscripts in range *)
Theorem C07_squeeze_sparse_code : forall S : sparse V,
  length (ssubs S) = length (svals S) -> NoDup (ssubs S) -> Forall (fun j => inb (sshape S) j = true) (ssubs S) ->
  squeeze_sp_impl v0 S = Some (squeeze_sp v0 S).
Proof. exact (squeeze_sp_impl_eq v0). Qed.

End C07w4.

Print Assumptions C07_order_forms.
Print Assumptions C07_order_scalar_forms.
Print Assumptions C07_order_rejects.
Print Assumptions C07_request_order.
Print Assumptions C07_request_shape.
Print Assumptions C07_permute_request_dense_sound.
Print Assumptions C07_permute_request_dense.
Print Assumptions C07_reshape_request_dense.
Print Assumptions C07_permute_request_holders_sound.
Print Assumptions C07_reshape_request_sparse_modes.
Print Assumptions C07_history_agree.
Print Assumptions C07_permute_list.
Print Assumptions C07_permute_sparse_code.
Print Assumptions C07_squeeze_sparse_code.

(* non-vacuity: order [2;0;1] written as a column array of int, as a tuple and as a list, on a 2x3x4 tensor; all-ones, a negative
   entry, a float array and order [1;1] are refused; order [1] on one mode is the kept shortcut *)
Example C07_example_requests :
  let T := mkDense [2; 3; 4] (map Z.of_nat (seq 0 24)) in
  let col := SArr (mknd [3; 1]%Z DInt [NFin 2; NFin 0; NFin 1]%Z) in
  permute_d_req 0%Z T col = permute_d 0%Z T [2; 0; 1] /\
  permute_d_req 0%Z T (STuple [EInt 2; EInt 0; EInt 1]%Z) = permute_d 0%Z T [2; 0; 1] /\
  option_map (@dshape Z) (permute_d_req 0%Z T (SList [EInt 2; EInt 0; EInt 1]%Z)) = Some [4; 2; 3] /\
  option_map (fun R => den_dense 0%Z R [3; 1; 2]) (permute_d_req 0%Z T col) = Some 23%Z /\
  permute_d_req 0%Z T (SList [EInt 1; EInt 1; EInt 1]%Z) = None /\
  permute_d_req 0%Z T (SList [EInt (-1); EInt 0; EInt 1]%Z) = None /\
  permute_d_req 0%Z T (SArr (mknd [3]%Z DFloat [NFin 2; NFin 0; NFin 1]%Z)) = None /\
  permute_d_req 0%Z (mkDense [2; 3] (map Z.of_nat (seq 0 6))) (SList [EInt 1; EInt 1]%Z) = None /\
  permute_d_req 0%Z (mkDense [3] [5; 6; 7]%Z) (SInt 1) = Some (mkDense [3] [5; 6; 7]%Z) /\
  permute_sp_req (mkSp [3] [[1]] [5%Z]) (SInt 1) = None /\
  option_map (@dshape Z) (reshape_d_req 0%Z T (SArr (mknd [1; 2]%Z DInt [NFin 6; NFin 4]%Z))) = Some [6; 4] /\
  reshape_d_req 0%Z T (STuple [EInt (-6); EInt (-4)]%Z) = None /\
  reshape_sp_req (mkSp [2; 3] [[1; 2]] [5%Z]) (STuple [EInt 3]%Z) [(-1)%Z] = None /\
  option_map (@sshape Z) (reshape_sp_req (mkSp [2; 3] [[1; 2]] [5%Z]) (STuple [EInt 3; EInt 1]%Z) [1%Z]) = Some [2; 3; 1].
Proof. repeat split; reflexivity. Qed.

(* non-vacuity: a five-step history on a 2x3x4 coordinate list (reshape with a singleton, permute, squeeze, permute, reshape)
   is admissible, returns a tensor, and its expansion is the dense history on the expanded argument; 23 stays the entry it was *)
Example C07_example_history :
  let S := mkSp [2; 3; 4] [[1; 2; 3]; [0; 1; 0]; [1; 0; 2]] [23; 5; 7]%Z in
  let l := [StReshape [6; 1; 4]; StPermute [2; 0; 1]; StSqueeze; StPermute [1; 0]; StReshape [3; 8]] in
  steps_okb [2; 3; 4] l = true /\
  match run_sp 0%Z S l, run_d 0%Z (full 0%Z S) l with
  | Some (SqT R), Some (SqT D) => sshape R = [3; 8] /\ full 0%Z R = D /\ den_sp 0%Z R [2; 7] = 23%Z /\ den_dense 0%Z D [2; 7] = 23%Z
  | _, _ => False
  end /\
  run_sp 0%Z (mkSp [1; 1] [[0; 0]] [9%Z]) [StPermute [1; 0]; StSqueeze; StReshape [1]] = Some (SqScalar 9%Z).
Proof. repeat split; reflexivity. Qed.

Example C07_example_code_paths :
  squeeze_sp_impl 0%Z (mkSp [1; 1] [[0; 0]] [9%Z]) = Some (SqScalar 9%Z) /\
  squeeze_sp_impl 0%Z (mkSp [1; 1] (@nil (list nat)) (@nil Z)) = Some (SqScalar 0%Z) /\
  squeeze_sp_impl 0%Z (mkSp [1; 1] [[0; 0]; [0; 0]] [9; 4]%Z) = None /\
  squeeze_sp_impl 0%Z (mkSp [2; 1; 3] [[1; 0; 2]] [7%Z]) = Some (SqT (mkSp [2; 3] [[1; 2]] [7%Z])) /\
  permute_sp_impl (mkSp [2; 3] (@nil (list nat)) (@nil Z)) [1; 0] = Some (mkSp [3; 2] (@nil (list nat)) (@nil Z)).
Proof. repeat split; reflexivity. Qed.

Example C07_example_permute_list :
  let T := mkDense [2; 3; 4] (map Z.of_nat (seq 0 24)) in
  compose_all [2; 0; 1] [[1; 0; 2]; [2; 1; 0]] = [1; 2; 0] /\
  run_perm (permute_d 0%Z) T [[2; 0; 1]; [1; 0; 2]; [2; 1; 0]] = permute_d 0%Z T [1; 2; 0] /\
  option_map (@dshape Z) (permute_d 0%Z T [1; 2; 0]) = Some [3; 4; 2].
Proof. repeat split; reflexivity. Qed.
