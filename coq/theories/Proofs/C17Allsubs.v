(* Proofs/C17Allsubs.v — wave 5: sptensor.allsubs for ALL shapes, over the GENERATED method (Gen/GenMethods2.v, regenerated
   from pyttb/sptensor.py on every run) and the GENERATED khatrirao (Gen/GenKernels.v) it calls.

   allsubs_enumerates      every shape with all sizes >= 1: the result is subs_C shape (this is exactly
                           allsubs_enumerates_stmt of Proofs/W3Methods2.v, which was left unproved there)
   subs_C_spec             subs_C shape lists exactly the subscripts of the shape, each once, rows of full length, in
                           lexicographic order = last subscript fastest (position = C-order linear index: subs_C_nth)

   Proof: column n of the code's array is the Khatri-Rao product of all-ones columns with 0..d_n-1 in position n.  On
   one-column matrices the generated khatrirao is a left fold of `kstep` (kr_step on columns); kstep is associative, so the
   left fold equals the right-nested product vkr, whose recursion is the recursion of subs_C.  The second loop then fills the
   zero array column by column: after j columns every row is (first j subscripts) ++ zeros.
   Shapes with a size-0 mode are outside the statement: a 0 x 1 array is not representable as a row list (Np/NpZ3d.v). *)
From Coq Require Import List ZArith Arith Bool Lia.
From PV Require Import Base.Index Model.Repr Np.NpZ Np.NpZ2 Np.NpZ3 Np.NpZ3c Np.NpZ3d Proofs.NpZProofs Proofs.KhatriRao
  Gen.GenKernels Gen.GenMethods2 Proofs.GenKhatriRao Proofs.W3Bridge Proofs.W3Laws Proofs.W3Methods2.
Import ListNotations.
Local Open Scope Z_scope.

(* ---- list algebra ---- *)
Lemma fm_fm {A B C} (f : B -> list C) (g : A -> list B) l :
  flat_map f (flat_map g l) = flat_map (fun x => flat_map f (g x)) l.
Proof. induction l as [|a l IH]; cbn [flat_map]; [reflexivity|]. now rewrite flat_map_app, IH. Qed.

Lemma fm_map {A B C} (f : B -> list C) (g : A -> B) l : flat_map f (map g l) = flat_map (fun x => f (g x)) l.
Proof. induction l as [|a l IH]; cbn [flat_map map]; [reflexivity|]. now rewrite IH. Qed.

Lemma map_fm {A B C} (g : B -> C) (f : A -> list B) l : map g (flat_map f l) = flat_map (fun x => map g (f x)) l.
Proof. induction l as [|a l IH]; cbn [flat_map map]; [reflexivity|]. now rewrite map_app, IH. Qed.

(* one Khatri-Rao step on one-column matrices, as vectors: entry a + |m| * b = m[a] * p[b] *)
Definition kstep (p m : vec) : vec := flat_map (fun x => map (fun y => y * x) m) p.
(* the right-nested product of a list of vectors (first vector slowest) *)
Fixpoint vkr (ms : list vec) : vec := match ms with [] => [1] | m :: ms' => kstep m (vkr ms') end.

Lemma kstep_assoc p m v : kstep (kstep p m) v = kstep p (kstep m v).
Proof.
  unfold kstep. rewrite fm_fm. apply flat_map_ext. intros x. rewrite fm_map, map_fm. apply flat_map_ext. intros y.
  rewrite map_map. apply map_ext. intros z. lia.
Qed.

Lemma kstep_one p : kstep p [1] = p.
Proof. unfold kstep. induction p as [|x p IH]; cbn [flat_map map app]; [reflexivity|]. f_equal; [lia|exact IH]. Qed.

Lemma fold_kstep ms : forall P, fold_left kstep ms P = kstep P (vkr ms).
Proof.
  induction ms as [|m ms IH]; intros P; cbn [fold_left vkr]; [symmetry; apply kstep_one|].
  rewrite IH. apply kstep_assoc.
Qed.

(* ---- the generated khatrirao on one-column matrices ---- *)
Lemma kr_step_col p m : kr_step Z Z.mul (np_col_mat p) (np_col_mat m) = np_col_mat (kstep p m).
Proof.
  unfold kr_step, np_col_mat, kstep. rewrite fm_map, map_fm. apply flat_map_ext. intros x. rewrite !map_map. reflexivity.
Qed.

Lemma fold_kr_col ms : forall P,
  fold_left (kr_step Z Z.mul) (map np_col_mat ms) (np_col_mat P) = np_col_mat (fold_left kstep ms P).
Proof. induction ms as [|m ms IH]; intros P; cbn [map fold_left]; [reflexivity|]. rewrite kr_step_col. apply IH. Qed.

Lemma col_rows1 (v : vec) : forallb (fun r : list Z => Nat.eqb (length r) 1) (np_col_mat v) = true.
Proof. unfold np_col_mat. apply forallb_forall. intros r Hr. apply in_map_iff in Hr as (x & <- & _). reflexivity. Qed.

Theorem gen_kr_cols (v : vec) (rest : list vec) : (forall w, In w (v :: rest) -> w <> []) ->
  gen_kr (map np_col_mat (v :: rest)) false = Ok (np_col_mat (vkr (v :: rest))).
Proof.
  intros Hne. rewrite khatrirao_bridge.
  - cbn [map]. destruct v as [|x v]; [exfalso; apply (Hne []); [now left|reflexivity]|].
    change (np_ncols (np_col_mat (x :: v)) =? 0) with false. cbv iota.
    unfold KhatriRao.khatrirao.
    assert (Hok : ncols_ok Z (np_col_mat (x :: v) :: map np_col_mat rest) = true).
    { unfold ncols_ok. change (ncols (np_col_mat (x :: v))) with 1%nat.
      change (np_col_mat (x :: v) :: map np_col_mat rest) with (map np_col_mat ((x :: v) :: rest)).
      apply forallb_forall. intros M HM. apply in_map_iff in HM as (w & <- & _). apply col_rows1. }
    rewrite Hok. rewrite fold_kr_col, fold_kstep. reflexivity.
  - intros M HM. apply in_map_iff in HM as (w & <- & Hw). specialize (Hne w Hw).
    destruct w; [congruence|discriminate].
Qed.

(* ---- the multiplicand list of column n ---- *)
Definition onesv (d : Z) : vec := map (fun _ => 1) (np_arange 0 d).

Lemma repeat_map_seq {A} (c : A) n : forall a, repeat c n = map (fun _ => c) (seq a n).
Proof. induction n as [|n IH]; intros a; cbn; [reflexivity|]. f_equal. apply IH. Qed.

Lemma ones_col_eq d : np_ones_col d = np_col_mat (onesv d).
Proof.
  unfold np_ones_col, np_full, np_col_mat, onesv, np_arange. rewrite !map_map, Z.sub_0_r. apply repeat_map_seq.
Qed.

Fixpoint mvecs (n : nat) (shp : vec) : list vec :=
  match shp with
  | [] => []
  | d :: shp' => match n with
                 | O => np_arange 0 d :: map onesv shp'
                 | S n' => onesv d :: mvecs n' shp'
                 end
  end.

Lemma set_cols shp : forall n, (n < length shp)%nat ->
  np_set (map np_ones_col shp) (Z.of_nat n) (np_col_mat (np_arange 0 (nth n shp 0))) = map np_col_mat (mvecs n shp).
Proof.
  intros n Hn. rewrite np_set_nonneg by lia. rewrite Nat2Z.id. revert n Hn.
  induction shp as [|d shp IH]; intros n Hn; [cbn in Hn; lia|].
  destruct n as [|n]; cbn [map upd nth mvecs].
  - f_equal. rewrite map_map. apply map_ext. intros a. apply ones_col_eq.
  - f_equal; [apply ones_col_eq|]. apply IH. cbn in Hn. lia.
Qed.

Lemma arange_nonempty d : 1 <= d -> np_arange 0 d <> [].
Proof. intros Hd. unfold np_arange. replace (Z.to_nat (d - 0)) with (S (Z.to_nat (d - 1))) by lia. cbn. discriminate. Qed.

Lemma onesv_nonempty d : 1 <= d -> onesv d <> [].
Proof. intros Hd H. unfold onesv in H. apply map_eq_nil in H. now apply (arange_nonempty d). Qed.

Lemma mvecs_nonempty shp : (forall d, In d shp -> 1 <= d) -> forall n w, In w (mvecs n shp) -> w <> [].
Proof.
  induction shp as [|d shp IH]; intros Hd n w Hw; [destruct n; contradiction|].
  destruct n as [|n]; cbn [mvecs] in Hw; destruct Hw as [<-|Hw].
  - apply arange_nonempty, Hd. now left.
  - apply in_map_iff in Hw as (a & <- & Ha). apply onesv_nonempty, Hd. now right.
  - apply onesv_nonempty, Hd. now left.
  - apply (IH (fun a Ha => Hd a (or_intror Ha)) n w Hw).
Qed.

(* ---- the right-nested product of the multiplicands is column n of subs_C ---- *)
Lemma vkr_ones shp : vkr (map onesv shp) = map (fun _ => 1) (subs_C shp).
Proof.
  induction shp as [|d shp IH]; [reflexivity|]. cbn [map vkr subs_C]. rewrite IH. unfold kstep, onesv.
  rewrite fm_map, map_fm. apply flat_map_ext. intros x. rewrite !map_map. apply map_ext. intros s. reflexivity.
Qed.

Lemma vkr_mvecs shp : forall n, (n < length shp)%nat -> vkr (mvecs n shp) = map (fun s => nth n s 0) (subs_C shp).
Proof.
  induction shp as [|d shp IH]; intros n Hn; [cbn in Hn; lia|].
  destruct n as [|n]; cbn [mvecs vkr subs_C].
  - rewrite vkr_ones. unfold kstep. rewrite map_fm. apply flat_map_ext. intros x. rewrite !map_map. apply map_ext.
    intros s. cbn [nth]. lia.
  - rewrite IH by (cbn in Hn; lia). unfold kstep, onesv. rewrite fm_map, map_fm. apply flat_map_ext. intros x.
    rewrite !map_map. apply map_ext. intros s. cbn [nth]. lia.
Qed.

Lemma squeeze_col_mat v : np_squeeze_col_ok (np_col_mat v) = true /\ np_squeeze_col (np_col_mat v) = v.
Proof.
  split.
  - unfold np_squeeze_col_ok, np_col_mat. apply forallb_forall. intros r Hr. apply in_map_iff in Hr as (x & <- & _). reflexivity.
  - unfold np_squeeze_col, np_col_mat. rewrite map_map. apply map_id.
Qed.

Lemma allsubs_col_eq shp n : (forall d, In d shp -> 1 <= d) -> (n < length shp)%nat ->
  allsubs_col shp (Z.of_nat n) = Ok (map (fun s => nth n s 0) (subs_C shp)).
Proof.
  intros Hd Hn. unfold allsubs_col. rewrite znth_nat, (set_cols shp n Hn).
  destruct (mvecs n shp) as [|v rest] eqn:Em.
  { destruct shp as [|d shp]; [cbn in Hn; lia|]. destruct n; discriminate. }
  rewrite gen_kr_cols by (rewrite <- Em; apply mvecs_nonempty; exact Hd).
  cbn [bind]. destruct (squeeze_col_mat (vkr (v :: rest))) as [E1 E2]. rewrite E1, E2, <- Em. f_equal. now apply vkr_mvecs.
Qed.

(* ---- subs_C: lengths ---- *)
Lemma subs_C_row_length shp : forall s, In s (subs_C shp) -> length s = length shp.
Proof.
  induction shp as [|d shp IH]; intros s Hs; cbn [subs_C] in Hs.
  - destruct Hs as [<-|[]]. reflexivity.
  - apply in_flat_map in Hs as (x & _ & Hs). apply in_map_iff in Hs as (s' & <- & Hs'). cbn [length]. f_equal. now apply IH.
Qed.

Lemma arange_length d : length (np_arange 0 d) = Z.to_nat d.
Proof. unfold np_arange. now rewrite map_length, seq_length, Z.sub_0_r. Qed.

Lemma subs_C_length shp : (forall d, In d shp -> 0 <= d) -> length (subs_C shp) = Z.to_nat (zprod shp).
Proof.
  induction shp as [|d shp IH]; intros Hd; [reflexivity|]. cbn [subs_C].
  rewrite (flat_map_length_const _ _ (length (subs_C shp))) by (intros; apply map_length).
  rewrite arange_length, IH by (intros a Ha; apply Hd; now right).
  change (zprod (d :: shp)) with (d * zprod shp).
  assert (0 <= zprod shp).
  { clear -Hd. induction shp as [|a shp IH]; [cbn; lia|]. change (zprod (a :: shp)) with (a * zprod shp).
    apply Z.mul_nonneg_nonneg; [apply Hd; right; now left|]. apply IH. intros b [<-|Hb]; apply Hd; [now left|right; now right]. }
  rewrite Z2Nat.inj_mul by (try assumption; apply Hd; now left). lia.
Qed.

(* ---- the second loop: the zero array is filled column by column ---- *)
Definition partial_rows (N j : nat) (S : mat) : mat := map (fun s => firstn j s ++ repeat 0 (N - j)) S.

Lemma setcol_rows_map {X} (f : X -> vec) (g : X -> Z) j l :
  setcol_rows (map f l) j (map g l) = map (fun s => np_set (f s) j (g s)) l.
Proof. induction l as [|x l IH]; cbn [map setcol_rows]; [reflexivity|]. now rewrite IH. Qed.

Lemma upd_app_r {A} (a b : list A) x : forall k, upd (a ++ b) (length a + k) x = a ++ upd b k x.
Proof. induction a as [|y a IH]; intros k; cbn [app length upd plus]; [reflexivity|]. now rewrite IH. Qed.

Lemma firstn_S_nth (s : vec) : forall j, (j < length s)%nat -> firstn (S j) s = firstn j s ++ [nth j s 0].
Proof.
  induction s as [|x s IH]; intros j Hj; [cbn in Hj; lia|]. destruct j as [|j]; [reflexivity|].
  cbn [firstn nth app]. f_equal. apply IH. cbn in Hj. lia.
Qed.

Lemma partial_row_step (N j : nat) (s : vec) : length s = N -> (j < N)%nat ->
  np_set (firstn j s ++ repeat 0 (N - j)) (Z.of_nat j) (nth j s 0) = firstn (S j) s ++ repeat 0 (N - S j).
Proof.
  intros Hl Hj. rewrite np_set_nonneg by lia. rewrite Nat2Z.id.
  assert (Ef : length (firstn j s) = j) by (apply firstn_length_le; lia).
  pose proof (upd_app_r (firstn j s) (repeat 0 (N - j)) (nth j s 0) 0) as U. rewrite Ef, Nat.add_0_r in U. rewrite U.
  replace (N - j)%nat with (S (N - S j)) by lia. cbn [repeat upd].
  rewrite firstn_S_nth by lia. rewrite <- app_assoc. reflexivity.
Qed.

Lemma allsubs_loop shp : (forall d, In d shp -> 1 <= d) ->
  forall c j, (j + c = length shp)%nat ->
  foldM (allsubs_step shp) (map Z.of_nat (seq j c)) (partial_rows (length shp) j (subs_C shp)) = Ok (subs_C shp).
Proof.
  intros Hd. set (N := length shp). induction c as [|c IH]; intros j Hjc.
  - cbn [seq map foldM]. f_equal. unfold partial_rows. rewrite <- (map_id (subs_C shp)) at 2. apply map_ext_in.
    intros s Hs. apply subs_C_row_length in Hs. fold N in Hs.
    replace j with (length s) by lia. rewrite firstn_all. replace (N - length s)%nat with 0%nat by lia. apply app_nil_r.
  - cbn [seq map foldM]. unfold allsubs_step at 1. rewrite (allsubs_col_eq shp j Hd) by (fold N; lia). cbn [bind].
    set (st := partial_rows N j (subs_C shp)). set (col := map (fun s => nth j s 0) (subs_C shp)).
    assert (Hlen : length col = length st) by (unfold col, st, partial_rows; now rewrite !map_length).
    assert (Eok : np_setcol_ok st (Z.of_nat j) col = true).
    { unfold np_setcol_ok. apply andb_true_intro. split.
      - unfold np_col_ok. apply forallb_forall. intros r Hr. unfold st, partial_rows in Hr.
        apply in_map_iff in Hr as (s & <- & Hs). apply subs_C_row_length in Hs. fold N in Hs.
        rewrite idx_ok_nat. apply Nat.ltb_lt. rewrite app_length, repeat_length, firstn_length_le by lia. lia.
      - apply orb_true_intro. left. apply Z.eqb_eq. unfold zlen. now rewrite Hlen. }
    rewrite Eok. rewrite np_setcol_eq by exact Hlen.
    assert (Est : setcol_rows st (Z.of_nat j) col = partial_rows N (S j) (subs_C shp)).
    { unfold st, col, partial_rows. rewrite setcol_rows_map. apply map_ext_in. intros s Hs.
      apply subs_C_row_length in Hs. fold N in Hs. apply partial_row_step; lia. }
    rewrite Est. apply IH. lia.
Qed.

Lemma zeros2_partial shp : (forall d, In d shp -> 1 <= d) ->
  np_zeros2 (zprod shp) (zlen shp) = partial_rows (length shp) 0 (subs_C shp).
Proof.
  intros Hd. unfold np_zeros2, np_full, partial_rows, zlen. rewrite Nat2Z.id, Nat.sub_0_r. cbn [firstn app].
  rewrite <- subs_C_length by (intros d Hin; specialize (Hd d Hin); lia).
  generalize (subs_C shp). intros l. induction l as [|s l IH]; cbn [length repeat map]; [reflexivity|]. now rewrite IH.
Qed.

(* ---- the theorem: allsubs_enumerates_stmt of Proofs/W3Methods2.v ---- *)
Theorem allsubs_enumerates : allsubs_enumerates_stmt.
Proof.
  intros subs vals shp Hpos. rewrite sptensor_allsubs_bridge. unfold H_allsubs. cbn [spt_shape].
  assert (Hd : forall d, In d shp -> 1 <= d) by (intros d Hin; rewrite forallb_forall in Hpos; apply Z.leb_le, Hpos, Hin).
  destruct shp as [|d0 shp0]; [reflexivity|]. set (shp := d0 :: shp0) in *.
  assert (E0 : (zlen shp =? 0) = false) by (apply Z.eqb_neq; unfold zlen, shp; cbn [length]; lia). rewrite E0.
  assert (Enn : forallb (fun d => 0 <=? d) shp = true).
  { apply forallb_forall. intros d Hin. apply Z.leb_le. specialize (Hd d Hin). lia. }
  rewrite Enn. change (zlen shp) with (Z.of_nat (length shp)) at 1. rewrite np_arange_0.
  rewrite (zeros2_partial shp Hd). apply (allsubs_loop shp Hd (length shp) 0%nat). lia.
Qed.

(* ---- what subs_C is: every subscript of the shape, once, last subscript fastest ---- *)
Definition in_range (shp s : vec) : Prop := length s = length shp /\ forall k, (k < length shp)%nat -> 0 <= nth k s 0 < nth k shp 0.

Lemma in_arange x d : In x (np_arange 0 d) <-> 0 <= x < d.
Proof.
  unfold np_arange. rewrite in_map_iff, Z.sub_0_r. split.
  - intros (k & <- & Hk). apply in_seq in Hk. lia.
  - intros Hx. exists (Z.to_nat x). split; [lia|]. apply in_seq. lia.
Qed.

Lemma subs_C_in shp s : In s (subs_C shp) <-> in_range shp s.
Proof.
  revert s; induction shp as [|d shp IH]; intros s; cbn [subs_C].
  - split.
    + intros [<-|[]]. split; [reflexivity|]. intros k Hk. cbn in Hk. lia.
    + intros [Hl _]. destruct s; [now left|discriminate].
  - rewrite in_flat_map. split.
    + intros (x & Hx & Hs). apply in_map_iff in Hs as (s' & <- & Hs'). apply IH in Hs' as [Hl Hr]. apply in_arange in Hx.
      split; [cbn [length]; now f_equal|]. intros [|k] Hk; cbn [nth]; [exact Hx|]. apply Hr. cbn in Hk. lia.
    + intros [Hl Hr]. destruct s as [|x s']; [discriminate|]. exists x. split.
      * apply in_arange. exact (Hr 0%nat ltac:(cbn; lia)).
      * apply in_map. apply IH. split; [cbn in Hl; lia|]. intros k Hk. exact (Hr (S k) ltac:(cbn; lia)).
Qed.

Lemma arange_nodup d : NoDup (np_arange 0 d).
Proof.
  unfold np_arange. apply FinFun.Injective_map_NoDup; [|apply seq_NoDup]. intros a b H. lia.
Qed.

Lemma nodup_app_disj {X} (a b : list X) : NoDup a -> NoDup b -> (forall x, In x a -> ~ In x b) -> NoDup (a ++ b).
Proof.
  induction a as [|x a IH]; intros Ha Hb Hd; [exact Hb|]. cbn. apply NoDup_cons_iff in Ha as [Hx Ha]. constructor.
  - rewrite in_app_iff. intros [H|H]; [contradiction|]. apply (Hd x); cbn; auto.
  - apply IH; auto. intros y Hy. apply Hd. cbn; auto.
Qed.

Lemma nodup_flat_map_cons (l : vec) (S : mat) : NoDup l -> NoDup S -> NoDup (flat_map (fun x => map (cons x) S) l).
Proof.
  intros Hl HS. induction l as [|x l IH]; cbn [flat_map]; [constructor|].
  apply NoDup_cons_iff in Hl as [Hx Hl]. apply nodup_app_disj.
  - apply FinFun.Injective_map_NoDup; [intros a b E; now inversion E|exact HS].
  - apply IH, Hl.
  - intros r Hr Hr'. apply in_map_iff in Hr as (s & <- & _).
    apply in_flat_map in Hr' as (y & Hy & Hr'). apply in_map_iff in Hr' as (s' & E & _). inversion E; subst. contradiction.
Qed.

Lemma subs_C_nodup shp : NoDup (subs_C shp).
Proof.
  induction shp as [|d shp IH]; cbn [subs_C]; [repeat constructor; intros []|].
  apply nodup_flat_map_cons; [apply arange_nodup|exact IH].
Qed.

(* position: the subscript s sits at its C-order linear index (last subscript fastest) *)
Fixpoint cindex (shp s : vec) : Z :=
  match shp, s with
  | _ :: shp', x :: s' => x * zprod shp' + cindex shp' s'
  | _, _ => 0
  end.

Lemma cindex_range shp : forall s, in_range shp s -> 0 <= cindex shp s < zprod shp.
Proof.
  induction shp as [|d shp IH]; intros s [Hl Hr]; [destruct s; cbn; lia|].
  destruct s as [|x s]; [discriminate|]. cbn [cindex]. change (zprod (d :: shp)) with (d * zprod shp).
  assert (Hs : in_range shp s) by (split; [cbn in Hl; lia|intros k Hk; exact (Hr (S k) ltac:(cbn; lia))]).
  specialize (IH s Hs). pose proof (Hr 0%nat ltac:(cbn; lia)) as H0. cbn [nth] in H0. nia.
Qed.

Lemma arange_nth d k : (k < Z.to_nat d)%nat -> nth k (np_arange 0 d) 0 = Z.of_nat k.
Proof.
  intros Hk. unfold np_arange. rewrite Z.sub_0_r. rewrite (nth_map_lt _ _ 0 0%nat) by (now rewrite seq_length).
  rewrite seq_nth by exact Hk. lia.
Qed.

Theorem subs_C_nth shp : forall s, in_range shp s -> nth (Z.to_nat (cindex shp s)) (subs_C shp) [] = s.
Proof.
  induction shp as [|d shp IH]; intros s Hs.
  - destruct Hs as [Hl _]. destruct s; [reflexivity|discriminate].
  - pose proof Hs as [Hl Hr]. destruct s as [|x s]; [discriminate|].
    assert (Hs' : in_range shp s) by (split; [cbn in Hl; lia|intros k Hk; exact (Hr (S k) ltac:(cbn; lia))]).
    pose proof (Hr 0%nat ltac:(cbn; lia)) as H0. cbn [nth] in H0.
    pose proof (cindex_range shp s Hs') as Hc.
    assert (Hnn : forall a, In a shp -> 0 <= a).
    { intros a Ha. apply (In_nth _ _ 0) in Ha as (k & Hk & <-). destruct Hs' as [_ Hr']. specialize (Hr' k Hk). lia. }
    cbn [cindex subs_C]. set (m := length (subs_C shp)).
    assert (Em : m = Z.to_nat (zprod shp)) by (apply subs_C_length; exact Hnn).
    replace (Z.to_nat (x * zprod shp + cindex shp s)) with (Z.to_nat (cindex shp s) + m * Z.to_nat x)%nat by nia.
    rewrite (nth_flat_map_const _ _ m _ _ 0 []).
    + rewrite arange_nth by lia. rewrite Z2Nat.id by lia.
      rewrite (nth_map_lt _ _ [] []) by (fold m; lia). f_equal. apply IH, Hs'.
    + intros y _. apply map_length.
    + lia.
    + rewrite arange_length. lia.
Qed.

Theorem subs_C_spec shp : (forall d, In d shp -> 0 <= d) ->
  (forall s, In s (subs_C shp) <-> in_range shp s) /\ NoDup (subs_C shp) /\ length (subs_C shp) = Z.to_nat (zprod shp) /\
  (forall s, in_range shp s -> nth (Z.to_nat (cindex shp s)) (subs_C shp) [] = s).
Proof.
  intros Hd. split; [apply subs_C_in|]. split; [apply subs_C_nodup|]. split; [now apply subs_C_length|apply subs_C_nth].
Qed.

(* the request-level reading for the generated method *)
Theorem allsubs_all_shapes subs vals shp : (forall d, In d shp -> 1 <= d) ->
  exists S, sptensor_allsubs (mkspt subs vals shp) = Ok S /\
    (forall s, In s S <-> in_range shp s) /\ NoDup S /\ length S = Z.to_nat (zprod shp) /\
    (forall s, in_range shp s -> nth (Z.to_nat (cindex shp s)) S [] = s).
Proof.
  intros Hd. exists (subs_C shp). split.
  - apply allsubs_enumerates. apply forallb_forall. intros d Hin. apply Z.leb_le. now apply Hd.
  - apply subs_C_spec. intros d Hin. specialize (Hd d Hin). lia.
Qed.

Example allsubs_all_shapes_example :
  sptensor_allsubs (mkspt [] [] [2; 1; 3]) = Ok [[0; 0; 0]; [0; 0; 1]; [0; 0; 2]; [1; 0; 0]; [1; 0; 1]; [1; 0; 2]] /\
  cindex [2; 1; 3] [1; 0; 1] = 4.
Proof. split; reflexivity. Qed.
