SOURCE_COMMITS = []
NOTES = ("Technique family: machine-checked proof in Coq 8.16.1. Every check = regenerate Gen/*.v from /repo (translator), "
         "rebuild the theorems, Print Assumptions audit, then correspondence of the executable model against pyttb. See DESIGN.md.")
PROOF_NOTE = ("Trusted: Coq kernel + vm_compute; translator tools/pyx2v.py and its numpy->Np whitelist; Np primitives as numpy semantics; "
              "correspondence harness. Axioms per theorem from Print Assumptions (evidence coverage.axioms). Floating point, LAPACK, "
              "numpy.random are oracles (DESIGN §6).")
CLAIMED = {}
NOT_APPLICABLE = {}
