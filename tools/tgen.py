"""tgen — shared generators, observation extractors and Gallina literal writers for tensor-valued cases.

All values are small integers (exact in float64) unless a property module asks for rationals.
Everything random derives from the rng passed in (one PRNG per run)."""
import itertools
import math
from fractions import Fraction

from vcheck import gz, gzlist, gnlist, gnmat, gq


# ---------------------------------------------------------------- shapes
def shapes_upto(cells, maxn=4, minn=1):
    out = []

    def rec(prefix, prod):
        if len(prefix) >= minn:
            out.append(tuple(prefix))
        if len(prefix) == maxn:
            return
        for d in range(1, cells + 1):
            if prod * d <= cells:
                rec(prefix + [d], prod * d)
    rec([], 1)
    return out


def rand_shape(rng, maxn=4, maxcells=72, maxdim=5, minn=1, distinct=False):
    for _ in range(100):
        n = rng.randint(minn, maxn)
        shp = [rng.randint(1, maxdim) for _ in range(n)]
        if math.prod(shp) <= maxcells and (not distinct or len(set(shp)) == len(shp)):
            return shp
    return [2, 3][:max(minn, 1)] if minn <= 2 else [2] * minn


def all_subs(shape):
    """F order (first index fastest)"""
    return [list(x)[::-1] for x in itertools.product(*[range(d) for d in shape[::-1]])]


# ---------------------------------------------------------------- dense / sparse data (pure python)
def rand_dense(rng, shape, fill=None, lo=-3, hi=4):
    """F-order value list; fill = probability of a nonzero (None: random in {0, .3, .6, 1})"""
    n = math.prod(shape)
    if fill is None:
        fill = rng.choice([0.0, 0.3, 0.6, 1.0])
    vals = []
    for _ in range(n):
        if rng.random() < fill:
            v = 0
            while v == 0:
                v = rng.randint(lo, hi)
            vals.append(v)
        else:
            vals.append(0)
    return vals


def dense_to_sparse(shape, data, rng=None, order="sorted"):
    """(subs, vals) of the nonzeros of an F-order list in stored order sorted|reversed|random"""
    subs = all_subs(shape)
    ent = [(s, v) for s, v in zip(subs, data) if v != 0]
    if order == "reversed":
        ent.reverse()
    elif order == "random" and rng is not None:
        rng.shuffle(ent)
    return [e[0] for e in ent], [e[1] for e in ent]


def np_dense(np, shape, data):
    return np.array(data, dtype=float).reshape(tuple(shape), order="F")


def mk_tensor(ttb, np, shape, data):
    return ttb.tensor(np_dense(np, shape, data), tuple(shape), copy=True)


def mk_sptensor(ttb, np, shape, subs, vals):
    s = np.array(subs, dtype=int).reshape((len(subs), len(shape)))
    v = np.array(vals, dtype=float).reshape((len(vals), 1))
    return ttb.sptensor(s, v, tuple(shape), copy=True)


# ---------------------------------------------------------------- exact numbers
def exact(x):
    """float -> int when integral else Fraction; non-finite -> 'nan' | 'inf' | '-inf'"""
    x = float(x)
    if x != x:
        return "nan"
    if x in (float("inf"), float("-inf")):
        return "inf" if x > 0 else "-inf"
    if x == int(x) and abs(x) < 2 ** 53:
        return int(x)
    return Fraction(x)


def all_int(vals):
    return all(isinstance(v, int) for v in vals)


# ---------------------------------------------------------------- observations
def obs_dense(np, t):
    """pyttb.tensor or ndarray -> {'shape': [...], 'data': F-order exact values}"""
    a = t.data if hasattr(t, "data") and not isinstance(t, np.ndarray) else np.asarray(t)
    return {"shape": [int(d) for d in a.shape], "data": [exact(x) for x in np.ravel(a, order="F")]}


def obs_sparse(np, s):
    """pyttb.sptensor -> raw stored lists (no canonicalisation on the Python side)"""
    subs = np.asarray(s.subs)
    vals = np.asarray(s.vals)
    nshape = len(s.shape)
    rows = [] if subs.size == 0 else [[int(x) for x in r] for r in subs.reshape((-1, nshape))]
    return {"shape": [int(d) for d in s.shape], "subs": rows, "vals": [exact(x) for x in vals.ravel()],
            "vals_shape": [int(d) for d in vals.shape], "nnz": int(s.nnz)}


def obs_matrix(np, m):
    a = np.asarray(m)
    return [[exact(x) for x in row] for row in a.reshape((a.shape[0], -1))] if a.ndim >= 1 else [[exact(a)]]


def obs_ktensor(np, k):
    return {"weights": [exact(x) for x in np.asarray(k.weights).ravel()],
            "factors": [obs_matrix(np, f) for f in k.factor_matrices]}


# ---------------------------------------------------------------- Gallina literals (Z instance)
def gdense(shape, data):
    return f"(mkDense {gnlist(shape)} {gzlist(data)})"


def gsparse(shape, subs, vals):
    return f"(mkSp {gnlist(shape)} {gnmat(subs)} {gzlist(vals)})"


def gmatrix(m):
    if not m:
        return "(@nil (list Z))"
    return "[" + "; ".join(gzlist(r) for r in m) + "]"


def gktensor(weights, factors):
    return f"(mkK {gzlist(weights)} [" + "; ".join(gmatrix(f) for f in factors) + "])"


def gttensor(core_shape, core_data, factors):
    return f"(mkT {gdense(core_shape, core_data)} [" + "; ".join(gmatrix(f) for f in factors) + "])"


def gqdense(shape, data):
    return f"(mkDense {gnlist(shape)} " + ("(@nil Qc)" if not data else "[" + "; ".join(gq(x) for x in data) + "]") + ")"
