"""C06 — sparse results are well-formed and independent of the stored order of nonzeros (DESIGN §C06).

Every case runs one request several times: once per stored order of the operands (all n! orders for n <= 4 stored
nonzeros of each operand, random orders beyond).  Coq then checks, on pyttb's raw outputs, the well-formedness bits of
every returned sparse tensor (lengths, in-bounds, pairwise distinct, no explicit zero, nnz) and that all runs have the
same canonical form (Model/C06Ops.v: canon = F-order scan of the dense expansion)."""
import itertools
import math

from vcheck import Case, gz, gzlist, gnlist, gnmat
import tgen
from props import c03_util as U
from props import c03

PROP = "C06"
LEVEL = "proof"
GEN_UNITS = ["GenUtils"]
COQ_TARGETS = ["Props/C06.vo", "Model/Harness.vo"]
THEOREM_FILES = ["Props/C06.v"]
COQ_IMPORTS = ("From Coq Require Import List ZArith Bool QArith Qcanon.\n"
               "From PV Require Import Base.Index Np.Array Model.Sparse Model.Repr Model.Harness Model.C03Ops Model.C06Ops.\n"
               'Set Warnings "-abstract-large-number".\n')
RULE = ("every C03 request (operator x right-hand-side kind) on all zero-pattern pairs of the shapes (2,2) [operators rotated] and (3,) "
        "[all operators], each re-run for ALL n! stored orders (n <= 4) of each sparse operand (random orders beyond 4 nonzeros); plus "
        "squash and from_aggregator with permuted input rows; non-trivial = at least two distinct stored orders were run; distinct = "
        "distinct (op, args)")
EXPLANATION = ("Theorems: uniqueness of the representation up to stored order (canon_unique), canonical form, and order independence of "
               "every operation that is denotationally correct (instantiated for all operators proved in C03). Correspondence: raw "
               "well-formedness bits of pyttb's outputs and equality of canonical forms across stored orders, evaluated in Coq.")
CORRESPONDENCE_ONLY = [
    "__truediv__, __eq__, __ne__ own code paths, logical ops with dense/scalar operands: well-formedness and order independence observed on pyttb's raw outputs only",
    "squash (executable model, no proof)", "from_aggregator with duplicate input rows (proved in C03_from_aggregator; order independence of the INPUT rows observed only for sum)",
    "permute/reshape/squeeze/ttv/ttm/collapse/scale/__getitem__/__setitem__/sptenmat results: covered by the modules of C01/C02/C04/C07, not here",
]


# ---------------------------------------------------------------------------------------------
# generation
# ---------------------------------------------------------------------------------------------
def variants_for(a, rng):
    """list of (perm of A's entries, perm of B's entries or None): identity first"""
    na = len(a["subs"])
    pa = U.permutations_of(na, rng)
    out = [(list(range(na)), None)]
    if a.get("rk") == "sparse":
        nb = len(a["bsubs"])
        pb = U.permutations_of(nb, rng)
        idb = list(range(nb))
        out = [(list(range(na)), idb)]
        out += [(p, idb) for p in pa[1:]]
        out += [(list(range(na)), q) for q in pb[1:]]
        if na > 1 and nb > 1:
            out.append((pa[-1], pb[-1]))
            out.append((rng.choice(pa), rng.choice(pb)))
    else:
        out += [(p, None) for p in pa[1:]]
    return out


def mk_case(op, a, rng):
    a = dict(a)
    a["variants"] = variants_for(a, rng)
    return Case(op, a, len(a["variants"]) > 1)


def permuted(a, pa, pb):
    b = {k: v for k, v in a.items() if k != "variants"}
    b["subs"] = [a["subs"][k] for k in pa]
    b["vals"] = [a["vals"][k] for k in pa]
    if pb is not None:
        b["bsubs"] = [a["bsubs"][k] for k in pb]
        b["bvals"] = [a["bvals"][k] for k in pb]
    return b


def gen_cases(rng, tier):
    big = tier == "thorough"
    cases = []
    unary = ("neg", "not", "ones") + tuple("elemfun:" + k for k in U.ELEMFUNS)
    k = 0
    for shape, per in (((2, 2), 13 if big else 3), ((3,), 13)):
        n = math.prod(shape)
        for pa in itertools.product((0, 1), repeat=n):
            for pb in itertools.product((0, 1), repeat=n):
                for _ in range(per):
                    op = U.BINOPS[k % len(U.BINOPS)]
                    k += 1
                    cases.append(mk_case(op, c03.binary_args(shape, pa, pb, "sparse", rng, "sorted", "sorted"), rng))
            for _ in range(4 if big else 2):
                for op in U.BINOPS:
                    pb = [rng.randint(0, 1) for _ in range(n)]
                    cases.append(mk_case(op, c03.binary_args(shape, pa, pb, "dense", rng, "sorted"), rng))
            for c in c03.SCALARS:
                for op in c03.ops_for("scalar"):
                    cases.append(mk_case(op, c03.binary_args(shape, pa, pa, "scalar", rng, "sorted", c=c), rng))
            for op in unary:
                subs, vals = c03.sparse_from_pattern(shape, pa, rng, "sorted")
                cases.append(mk_case(op, {"shape": list(shape), "subs": subs, "vals": vals}, rng))
    # larger shapes: random orders
    for _ in range(60 if big else 14):
        shape = tuple(tgen.rand_shape(rng, maxn=4, maxcells=24))
        n = math.prod(shape)

        def rpat():
            f = rng.choice((0.2, 0.5, 0.8, 1.0))
            return [int(rng.random() < f) for _ in range(n)]
        for rk in ("sparse", "dense", "scalar"):
            for op in c03.ops_for(rk):
                cases.append(mk_case(op, c03.binary_args(shape, rpat(), rpat(), rk, rng, "sorted", "sorted", c=rng.choice(c03.SCALARS)), rng))
        for op in unary:
            subs, vals = c03.sparse_from_pattern(shape, rpat(), rng, "sorted")
            cases.append(mk_case(op, {"shape": list(shape), "subs": subs, "vals": vals}, rng))
    # squash and from_aggregator
    for _ in range(400 if big else 120):
        shape = tuple(tgen.rand_shape(rng, maxn=3, maxcells=60, maxdim=6))
        n = math.prod(shape)
        f = rng.choice((0.1, 0.3, 0.6))
        subs, vals = c03.sparse_from_pattern(shape, [int(rng.random() < f) for _ in range(n)], rng, "sorted")
        cases.append(mk_case("squash", {"shape": list(shape), "subs": subs, "vals": vals}, rng))
        m = rng.randint(0, 6)
        rows = [[rng.randrange(d) for d in shape] for _ in range(m)]
        rv = [rng.choice((-2, -1, 1, 2, 0)) for _ in range(m)]
        if m >= 2 and rng.random() < 0.5:      # force a duplicate row whose values cancel
            rows[1] = list(rows[0])
            rv[1] = -rv[0]
        cases.append(mk_case("from_agg", {"shape": list(shape), "subs": rows, "vals": rv}, rng))
    return cases


# ---------------------------------------------------------------------------------------------
# pyttb side
# ---------------------------------------------------------------------------------------------
def run_one(op, a):
    import numpy as np
    import pyttb as ttb
    if op == "squash":
        try:
            S = tgen.mk_sptensor(ttb, np, a["shape"], a["subs"], a["vals"])
            return U.observe(ttb, np, S.squash())
        except Exception as ex:
            return {"exc": type(ex).__name__, "msg": str(ex)[:160]}
    if op == "from_agg":
        try:
            s = np.array(a["subs"], dtype=int).reshape((len(a["subs"]), len(a["shape"])))
            v = np.array(a["vals"], dtype=float).reshape((len(a["vals"]), 1))
            return U.observe(ttb, np, ttb.sptensor.from_aggregator(s.copy(), v.copy(), tuple(a["shape"])))
        except Exception as ex:
            return {"exc": type(ex).__name__, "msg": str(ex)[:160]}
    return U.run_elementwise(op, a)


def run_impl(c):
    a = c.args
    return {"runs": [run_one(c.op, permuted(a, pa, pb)) for pa, pb in a["variants"]]}


# ---------------------------------------------------------------------------------------------
# Coq side
# ---------------------------------------------------------------------------------------------
def glist(items):
    return "[" + "; ".join(items) + "]"


def coq_check(c, o):
    runs = o["runs"]
    if all("exc" in r for r in runs):
        # the request is refused for every stored order: nothing is returned, so C06 has nothing to say
        # (whether refusing is right is C03's question); different exception types still count as different results
        return "true" if len({r["exc"] for r in runs}) == 1 else "false"
    if any("exc" in r for r in runs):
        return "false"
    kinds = {r.get("kind") for r in runs}
    if len(kinds) != 1 or kinds - {"sparse", "dense"}:
        return "false"
    if not all(c03.raw_ok(r) for r in runs):
        return "false"
    isdiv = c.op in ("div", "rdiv")
    kind = kinds.pop()
    extra = ""
    if c.op == "squash":
        a = c.args
        extra = f" && sp_raw_eqb {c03.gobs_sparse_z(runs[0])} (squash {U.gsp(a)})"
    if c.op == "from_agg":
        a = c.args
        extra = (f" && sp_denotes {c03.gobs_sparse_z(runs[0])} (full 0%Z (from_aggregator zisz (vsum 0%Z Z.add) "
                 f"{gnlist(a['shape'])} {gnmat(a['subs'])} {gzlist(a['vals'])}))")
    if kind == "sparse":
        if isdiv:
            return f"all_same_xsparse {glist([c03.gobs_sparse_x(r) for r in runs])}"
        if not all(tgen.all_int(r["vals"]) for r in runs):
            return "false"
        fn = "all_same_sparse_e" if c.op == "squash" else "all_same_sparse"     # squash shapes can be large
        return f"{fn} {glist([c03.gobs_sparse_z(r) for r in runs])}" + extra
    if isdiv:
        return "all_same_xdense " + glist([f"(mkDense {gnlist(r['shape'])} {U.gxlist(r['data'])})" for r in runs])
    if not all(tgen.all_int(r["data"]) for r in runs):
        return "false"
    return "all_same_dense " + glist([tgen.gdense(r["shape"], r["data"]) for r in runs])


# ---------------------------------------------------------------------------------------------
# brute-force oracle
# ---------------------------------------------------------------------------------------------
def canon_py(r):
    if r["kind"] == "dense":
        return ("dense", tuple(r["shape"]), tuple(map(str, r["data"])))
    return ("sparse", tuple(r["shape"]), tuple(sorted((tuple(s), str(v)) for s, v in zip(r["subs"], r["vals"]))))


def oracle(c, o):
    runs = o["runs"]
    if all("exc" in r for r in runs):
        return None
    for r, (pa, pb) in zip(runs, c.args["variants"]):
        if "exc" in r:
            return f"stored order {pa}/{pb}: raises {r['exc']} while another stored order of the same operands returns a result"
        if r["kind"] == "sparse":
            shape = r["shape"] if c.op == "squash" else c.args["shape"]
            p = U.wf_problems(r, shape)
            if p:
                return f"stored order {pa}/{pb}: ill-formed sparse result: {p}"
    if c.op == "squash":
        a = c.args
        want = [len({s[n] for s in a["subs"]}) for n in range(len(a["shape"]))]
        if runs[0]["shape"] != want:
            return f"squash: shape {runs[0]['shape']} but the numbers of distinct indices per mode are {want}"
    c0 = canon_py(runs[0])
    for r, (pa, pb) in zip(runs[1:], c.args["variants"][1:]):
        if canon_py(r) != c0:
            return f"stored order {pa}/{pb} of the same operands gives a different result: {r} vs {runs[0]}"
    return None


# ---------------------------------------------------------------------------------------------
# known findings
# ---------------------------------------------------------------------------------------------
def _any_variant(pred):
    def trig(c):
        a = c.args
        return any(pred(Case(c.op, permuted(a, pa, pb))) for pa, pb in a["variants"])
    return trig


def _explicit_zero_mul(c):
    a = c.args
    if c.op not in ("mul", "rmul") or U.nnz_a(a) == 0:
        return False
    if a["rk"] == "scalar":
        return a["c"] == 0
    if a["rk"] == "dense":
        A = U.dense_of(a["shape"], a["subs"], a["vals"])
        return U.nnz_a(a) >= 2 and any(x != 0 and y == 0 for x, y in zip(A, a["bd"]))
    return False


def _squash_shape(c):
    a = c.args
    return c.op == "squash" and any(len({s[n] for s in a["subs"]}) != len(a["subs"]) for n in range(len(a["shape"])))


TRIGGERS = {
    "pairing_by_position_differs_some_order": _any_variant(c03._pair_wrong),
    "div_sparse_supports_differ_or_misaligned_some_order": _any_variant(c03._div_sparse_bad),
    "eq_scalar_selected_ne_stored": c03._eq_scalar_len,
    "ne_scalar_value_count": c03._ne_scalar_len,
    "mul_by_zero_at_stored_position": _explicit_zero_mul,
    "squash_repeated_index_in_some_mode": _squash_shape,
}


def _witness(op, args):
    def run():
        import random
        c = mk_case(op, args, random.Random(0))
        return oracle(c, run_impl(c))
    return run


W22 = {"shape": [2, 2]}
WITNESS_INPUTS = {
    "A-06": ("mul", dict(W22, subs=[[0, 0], [1, 1]], vals=[2, 3], rk="sparse", bsubs=[[0, 0], [1, 1]], bvals=[5, 7])),
    "A-07": ("div", dict(W22, subs=[[1, 0]], vals=[4], rk="sparse", bsubs=[[0, 0], [1, 1]], bvals=[2, 3])),
    "A-10": ("eq", dict(W22, subs=[[0, 0], [1, 1]], vals=[2, 3], rk="scalar", c=2)),
    "A-11": ("ne", dict(W22, subs=[[0, 0], [1, 1]], vals=[2, 3], rk="scalar", c=2)),
    "C06-Z1": ("mul", dict(W22, subs=[[0, 0], [1, 1]], vals=[2, 3], rk="scalar", c=0)),
    "A-27": ("squash", {"shape": [3, 4], "subs": [[0, 1], [2, 1]], "vals": [2, 1]}),
}
WITNESSES = {k: _witness(*v) for k, v in WITNESS_INPUTS.items()}
