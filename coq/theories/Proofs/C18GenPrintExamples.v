(* Proofs/C18GenPrintExamples.v — non-vacuity of the wave-5 theorems over the generated loops (Props/C18W5.v): concrete kernels over nat
   (arbitrary arithmetic, no symmetry), runs that RETURN (Some ...) through several iterations, evaluated by vm_compute. *)
From Coq Require Import String List Arith Bool ZArith.
From PV Require Import Model.W4SPrelude Gen.GenCpAls Gen.GenTuckerAls Gen.GenHosvd Model.C10Tucker Proofs.W4SHosvd Proofs.C18Print
  Proofs.C18GenPrint Proofs.C18GenPrintHosvd Proofs.C18GenPrintTucker Gen.GenCpAprMu Proofs.C18GenPrintMu Proofs.C18GenPrintMuModes.
Import ListNotations.
Local Open Scope nat_scope.

Module C18GenTuckerExample.
(* scalars, matrices, tensors, ttensors are numbers; "fit" keeps changing for three sweeps, then the change drops below stoptol *)
Definition leF (a b : nat) := a <=? b.
Definition ttm_excl (X : nat) (U : list nat) (n : nat) (_ : bool) := X + 3 * fold_right Nat.add 0 U + n.
Definition nvecs (Ut n r : nat) := (Ut + 2 * n + r) mod 7.
Definition ttm_core (Ut : nat) (U : list nat) (n : nat) (_ : bool) := Ut + nth n U 0.
Definition resid (normX core : nat) := (3 * core) mod 11.
Definition fitf (nr normX : nat) := normX - nr.
Definition absdiff (a b : nat) := (a - b) + (b - a).
Definition ttensor (core : nat) (U : list nat) (_ : bool) := (core, U).
Definition X := 11. Definition normX := 20. Definition rank := [2; 1; 3]. Definition dimorder := [2; 0; 1]. Definition stoptol := 1.
Definition U0 := [5; 1; 4].
Notation gmain := (GenTuckerAls.tucker_als_main nat nat nat (nat * list nat) leF 0 ttm_excl nvecs ttm_core resid fitf absdiff ttensor).
Notation hrun p := (tk_run (list nat) nat nat (g_sweep nat nat ttm_excl nvecs ttm_core X rank dimorder) (resid normX) (fun nr => fitf nr normX)
  absdiff (g_ltb nat leF) 0 stoptol p).

Example gen_run_returns : exists sol it nr fit, gmain X U0 normX rank dimorder 6 stoptol 0 = Some (sol, U0, (it, nr, fit)) /\ 1 <= it.
Proof. vm_compute. do 4 eexists. split; [reflexivity|]. auto with arith. Qed.

Example bridge_silent_vs_generated :
  option_map (h_fin nat nat nat (nat * list nat) ttensor) (fst (hrun 0%Z 6 U0)) =
  option_map (fun '(sol, _, out) => (sol, out)) (gmain X U0 normX rank dimorder 6 stoptol 3).
Proof. vm_compute. reflexivity. Qed.

Example bridge_printing_vs_generated :
  option_map (h_fin nat nat nat (nat * list nat) ttensor) (fst (hrun 2%Z 6 U0)) =
  option_map (fun '(sol, _, out) => (sol, out)) (gmain X U0 normX rank dimorder 6 stoptol 0)
  /\ snd (hrun 2%Z 6 U0) <> [] /\ snd (hrun 0%Z 6 U0) = [].
Proof. vm_compute. repeat split. discriminate. Qed.
End C18GenTuckerExample.

Module C18GenHosvdExample.
Definition leV (a b : nat) := a <=? b.
Definition unfold (Y k : nat) := Y + 2 * k.
Definition gram (M : nat) := (M * M + 1) mod 13.
Definition eigh (Z : nat) : list nat * nat := ([Z mod 5 + 1; Z mod 3 + 4; Z mod 2 + 2], Z).
Definition argsort_desc (D : list nat) : list nat := [1; 2; 0].          (* eigenvalue 1 is the largest, then 2, then 0 *)
Definition take (D : list nat) (p : list nat) := map (fun i => nth i D 0) p.
Definition select_cols (V : nat) (cols : list nat) := V + 10 * length cols + fold_right Nat.add 0 cols.
Definition shrink (Y : nat) (fm : list nat) (k : nat) := Y + nth k fm 0 + k.
Definition shrink1 (Y k U : nat) := Y + U + k.
Lemma shrink_reads_k : forall Y fm k U, nth_error fm k = Some U -> shrink Y fm k = shrink1 Y k U.
Proof. intros Y fm k U H. unfold shrink, shrink1. now rewrite (nth_error_nth fm k 0 H). Qed.
Notation gloop := (GenHosvd.hosvd_modes_loop1 nat nat nat leV 0 Nat.add unfold gram eigh argsort_desc take select_cols shrink).
Notation hloop ranks0 sq v t := (hv_loop nat nat (list nat) nat 0 Nat.add (lt_of leV) (g_eigs nat nat nat unfold gram eigh argsort_desc take)
  (g_lead nat nat nat unfold gram eigh argsort_desc take select_cols) (g_setf nat) shrink1 (g_ranks ranks0) sq v t).

(* automatic rank in modes 2 and 0, user rank 2 in mode 1; sequential; verbosity 0 vs 10 (10 prints the eigenvalue sums) *)
Example hosvd_bridge_example :
  gloop 5 true [2; 0; 1] (7, [0; 0; 0], [0; 2; 0]) <> None /\
  fst (hloop [0; 2; 0] true 0%Z 5 [2; 0; 1] 7 [0; 0; 0]) = drop_ranks nat nat (gloop 5 true [2; 0; 1] (7, [0; 0; 0], [0; 2; 0])) /\
  fst (hloop [0; 2; 0] true 10%Z 5 [2; 0; 1] 7 [0; 0; 0]) = drop_ranks nat nat (gloop 5 true [2; 0; 1] (7, [0; 0; 0], [0; 2; 0])) /\
  snd (hloop [0; 2; 0] true 10%Z 5 [2; 0; 1] 7 [0; 0; 0]) <> [] /\ snd (hloop [0; 2; 0] true 0%Z 5 [2; 0; 1] 7 [0; 0; 0]) = [].
Proof. vm_compute. repeat split; discriminate. Qed.
End C18GenHosvdExample.

Module C18GenCpAlsExample.
(* the recomputation under `if printitn > 0:` really changes (normresidual, fit) when innerprod disagrees with the cached-MTTKRP
   inner product: silent and printing runs return the same model and iteration count, different fit - and the same fit when it agrees *)
Definition leF (a b : nat) := a <=? b.
Definition gcp (innerprod : nat -> nat -> nat) :=
  GenCpAls.cp_als_main nat nat nat nat nat nat leF 0
    (fun K => [K; K + 1; K + 2]) (fun d o => d) (fun X d r => 0) (fun r n => 0) (fun UtU n U => UtU + nth n U 0)
    (fun U K => K) innerprod (fun f => f =? 0) (fun M ip => M + ip) (fun nX M ip => (nX + M + ip) mod 9) (fun nr nX => nX - nr)
    (fun X U n => X + nth n U 0 + n) (fun UtU n N => UtU + n + 1) (fun Y => false) (fun M => 0) (fun Y B => (Y + 2 * B) mod 11)
    (fun M => M mod 4 + 1) (fun M => M mod 3 + 1) (fun w => false) (fun M w => M + w) (fun U w => fold_right Nat.add w U)
    (fun M d Um w => (M + Um + w) mod 9) (fun a b => (a - b) + (b - a)) (fun M => M + 1) (fun M => 2 * M).
Definition run ip p := gcp ip 3 4 20 3 2 [2; 0; 1] [0; 1; 2] 5 0 p true.

Example model_same_fit_differs :
  option_map (model_part nat nat) (run (fun X M => X + M) 0) = option_map (model_part nat nat) (run (fun X M => X + M) 1) /\
  run (fun X M => X + M) 0 <> run (fun X M => X + M) 1 /\ run (fun X M => X + M) 0 <> None /\
  run (fun X M => X + M) 1 = run (fun X M => X + M) 7.
Proof. vm_compute. repeat split; discriminate. Qed.
End C18GenCpAlsExample.

Module C18GenMuInnerExample.
(* numbers for everything; three inner iterations (KKT value 6, 3, 0 against stoptol 3), counter nInnerIters[1] 0 -> 3, the other
   entries untouched; printinneritn 1 prints two status lines, 0 none; same result as the generated loop *)
Definition leF (a b : nat) := a <=? b.
Definition calc_phi (w X M rank n Pi eps : nat) : nat * nat := (w + 1, (M + Pi + n) mod 7 + 1).
Definition kkt_mode (M n : nat) (Phi : list nat) := (M + nth n Phi 0) mod 10.
Definition mult_update (M n : nat) (Phi : list nat) := M + 2 * nth n Phi 0 + 1.
Notation gloop4 := (GenCpAprMu.cp_apr_mu_loop4 nat nat nat nat nat nat leF calc_phi kkt_mode mult_update).
Notation hinner q := (mu_inner_loop (mu_st nat nat nat nat) nat nat (m_calc_phi nat nat nat nat nat nat calc_phi kkt_mode 5 1 2)
  (m_mulupd nat nat nat nat mult_update) (m_ltb nat leF) 3 q).

Example inner_bridge_example :
  gloop4 4 1 5 1 2 2 3 6 0 (3, [0; 0; 0], true, [0; 0; 0], [4; 0; 0], 100) = Some (17, [0; 0; 3], false, [0; 0; 0], [4; 3; 0], 103) /\
  fst (hinner 1%Z 6 0 2 4 (3, [0; 0; 0], [0; 0; 0], 100) true 0) = (17, [0; 0; 3], [0; 0; 0], 103, false, 3) /\
  fst (hinner 0%Z 6 0 2 4 (3, [0; 0; 0], [0; 0; 0], 100) true 0) = (17, [0; 0; 3], [0; 0; 0], 103, false, 3) /\
  length (snd (hinner 1%Z 6 0 2 4 (3, [0; 0; 0], [0; 0; 0], 100) true 0)) = 2 /\ snd (hinner 0%Z 6 0 2 4 (3, [0; 0; 0], [0; 0; 0], 100) true 0) = [].
Proof. vm_compute. repeat split; reflexivity. Qed.
End C18GenMuInnerExample.

Module C18GenMuModesExample.
(* three modes in outer iteration 1 (the inadmissible-zero repair is active and fires in every mode): 12 inner iterations, 3 repairs;
   printinneritn 1 prints ten status lines, 0 none; state and counters as in the generated loop *)
Definition leF (a b : nat) := a <=? b.
Definition calc_phi (w X M rank n Pi eps : nat) : nat * nat := (w + 1, (M + Pi + n) mod 7 + 1).
Definition kkt_mode (M n : nat) (Phi : list nat) := (M + nth n Phi 0) mod 10.
Definition mult_update (M n : nat) (Phi : list nat) := (M + 2 * nth n Phi 0 + 1) mod 50.
Definition vmask (Phi : list nat) (n M kt : nat) := (nth n Phi 0 + M + kt) mod 3.
Definition anyb (V : nat) := 0 <? V.
Definition add_kappa (M n V k : nat) := M + V + k.
Definition redistribute (M n : nat) := (M + n) mod 40.
Definition calc_pi (X M rank n N : nat) := (X + M + n) mod 9.
Definition normalize_mode (M n t : nat) := (M + 3 * n + t) mod 30.
Notation gloop3 := (GenCpAprMu.cp_apr_mu_loop3 nat nat nat nat nat nat nat leF vmask anyb add_kappa redistribute calc_pi calc_phi kkt_mode
  mult_update normalize_mode).
Notation hmodes q := (mu_modes (mu_st nat nat nat nat) nat nat (m_fixslack nat nat nat nat nat vmask anyb add_kappa 2 1)
  (m_redist nat nat nat nat redistribute) (m_calc_pi nat nat nat nat nat nat calc_pi 5 2 3)
  (m_calc_phi nat nat nat nat nat nat calc_phi kkt_mode 5 1 2) (m_mulupd nat nat nat nat mult_update)
  (m_renorm nat nat nat nat normalize_mode) (m_ltb nat leF) 3 4 q).

Example modes_bridge_example :
  gloop3 3 1 5 1 2 1 4 2 3 3 0 (3, [0; 0; 0], true, [0; 0; 0], @None nat, [4; 0; 0], [0; 0; 0], 100)
    = Some (14, [4; 4; 3], false, [3; 0; 0], Some 2, [4; 12; 0], [0; 3; 0], 112) /\
  fst (hmodes 1%Z 1 (seq 0 3) (3, [0; 0; 0], [0; 0; 0], 100) true 0 0) = (14, [4; 4; 3], [3; 0; 0], 112, false, 12, 3) /\
  fst (hmodes 0%Z 1 (seq 0 3) (3, [0; 0; 0], [0; 0; 0], 100) true 0 0) = (14, [4; 4; 3], [3; 0; 0], 112, false, 12, 3) /\
  length (snd (hmodes 1%Z 1 (seq 0 3) (3, [0; 0; 0], [0; 0; 0], 100) true 0 0)) = 10 /\
  snd (hmodes 0%Z 1 (seq 0 3) (3, [0; 0; 0], [0; 0; 0], 100) true 0 0) = [].
Proof. vm_compute. repeat split; reflexivity. Qed.
End C18GenMuModesExample.
