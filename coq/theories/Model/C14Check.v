(* Model/C14Check.v — Z / Qc instances and certificate checks for nvecs evaluated by the generated cases. *)
From Coq Require Import List Arith Bool ZArith QArith Qabs Qcanon.
From PV Require Import Base.Index Base.Sum Np.Array Model.Sparse Model.Repr Model.Harness Model.C10Tucker Model.C10Check Model.C14Nvecs Model.C14Gram Model.C01Ttm Model.C14Unfold Model.C01Coo Model.C14SpPath Model.C14SpChain Model.C14SpPost.
Import ListNotations.
Local Open Scope Qc_scope.

Definition z2q (z : Z) : Qc := Q2Qc (inject_Z z).
Definition zgram (s : shape) (X : idx -> Z) (n : nat) : list (list Z) := gram_matrix 0%Z Z.add Z.mul s X n.
Definition zq (M : list (list Z)) : qmatrix := map (map z2q) M.

(* the four denotations (integer inputs) *)
Inductive zrepr :=
| RDense (T : dense Z) | RSparse (Sp : sparse Z) | RKruskal (K : ktensor Z) | RTucker (T : ttensor Z).
Definition rshape (R : zrepr) : shape :=
  match R with RDense T => dshape T | RSparse Sp => sshape Sp | RKruskal K => kshape K | RTucker T => tshape T end.
Definition rden (R : zrepr) : idx -> Z :=
  match R with RDense T => zden T | RSparse Sp => zden_sp Sp | RKruskal K => zden_k K | RTucker T => zden_t T end.
Definition rgram (R : zrepr) (n : nat) : list (list Z) := zgram (rshape R) (rden R) n.
(* same tensor *)
Definition rsame (A B : zrepr) : bool :=
  nvec_eqb (rshape A) (rshape B) &&
  forallb (fun i => (rden A i =? rden B i)%Z) (allsubs (rshape A)).

(* recorded solver input = Gram matrix of the denotation (exact, integer data) *)
Definition gram_recorded_ok (R : zrepr) (n : nat) (Y : list (list Z)) : bool := mat_eqb Y (rgram R n).
(* the Gram matrix as the dense / Kruskal code computes it = recorded input *)
Definition gram_dense_code (T : dense Z) (n : nat) := gram_dense_impl 0%Z Z.add Z.mul T n.
Definition gram_k_code (K : ktensor Z) (n : nat) := gram_k_impl 0%Z Z.add Z.mul K n.
Definition gram_sp_code (Sp : sparse Z) (n : nat) := gram_sp_impl 0%Z Z.add Z.mul Sp n.
Definition gram_t_code (T : ttensor Z) (n : nat) := gram_t_impl 0%Z 1%Z Z.add Z.mul T n.

(* ... and as built from the generated gather_wrap_dims + C01's to_tenmat + tensor.ttm (C14_gram_dense_code / C14_gram_tucker_code) *)
Definition omat_eqb (o : option (list (list Z))) (Y : list (list Z)) : bool :=
  match o with Some M => mat_eqb M Y | None => false end.
Definition gram_dense_tm_code (T : dense Z) (n : nat) := gram_dense_tm 0%Z Z.add Z.mul T n.
Definition gram_t_tm_code (T : ttensor Z) (n : nat) := gram_t_tm 0%Z Z.add Z.mul T n.

(* sparse-core branch (C14_gram_tucker_sparse_core): the core as STORED, H = core x_m V_m held sparse and held dense *)
Definition gram_tsp_code (GS : sparse Z) (Us : list (list (list Z))) (n : nat) (Y : list (list Z)) : bool :=
  let Hd := ttensor_full_impl 0%Z Z.add Z.mul (mkT (full 0%Z GS) (tucker_vs 0%Z Z.add Z.mul Us n)) in
  omat_eqb (gram_tsp_tm 0%Z Z.add Z.mul (Z.eqb 0) (HSparse (to_sptensor 0%Z (Z.eqb 0) Hd)) GS (nth n Us []) n) Y &&
  omat_eqb (gram_tsp_tm 0%Z Z.add Z.mul (Z.eqb 0) (HDense Hd) GS (nth n Us []) n) Y.

(* wave 3b / 4 — sptensor.nvecs' code path (C14_gram_sparse_code): reshape over the generated tt_sub2ind / tt_ind2sub, second reshape
   (/repo f3d6beb), spmatrix, transpose; the Gram matrix formed on it, and the COO matrix spmatrix() returned inside nvecs as RECORDED (shape, rows, columns, data
   in stored order) against the model's tnt (its transpose) *)
Definition gram_sp_path_code (Sp : sparse Z) (n : nat) := gram_sp_code_path 0%Z Z.add Z.mul Sp n.
Definition sp_tnt_recorded_ok (Sp : sparse Z) (n : nat) (shp rows cols : list nat) (data : list Z) : bool :=
  match sp_nvecs_tnt Sp n with
  | Some C => nvec_eqb (coo_shape C) (rev shp) &&
              nmat_eqb (coo_subs C) (map (fun rc => [snd rc; fst rc]) (combine rows cols)) &&
              vec_eqb (coo_data C) data
  | None => false
  end.
Definition sp_path_refused (Sp : sparse Z) (n : nat) : bool :=
  match sp_nvecs_tnt Sp n with None => true | Some _ => false end.
(* wave 5 — the request with the mode as Python passes it (an integer; /repo 453f75b: range test first) *)
Definition sp_path_refused_z (Sp : sparse Z) (n : Z) : bool :=
  match sp_nvecs_tnt_z Sp n with None => true | Some _ => false end.

(* sparse-core branch with the H the code computes (C14_gram_tucker_sparse_core_code): the sptensor.ttm chain; H as RECORDED
   (core.ttm(V) is a dense tensor: shape and F-order data) against the chain model *)
Definition sp_chain_code (GS : sparse Z) (Us : list (list (list Z))) (n : nat) : dense Z :=
  sp_ttm_chain 0%Z Z.add Z.mul (Z.eqb 0) GS (tucker_vs 0%Z Z.add Z.mul Us n).
Definition gram_tsp_chain_code (GS : sparse Z) (Us : list (list (list Z))) (n : nat) (Y : list (list Z)) : bool :=
  omat_eqb (gram_tsp_tm 0%Z Z.add Z.mul (Z.eqb 0) (HDense (sp_chain_code GS Us n)) GS (nth n Us []) n) Y.
Definition sp_chain_recorded_ok (GS : sparse Z) (Us : list (list (list Z))) (n : nat) (H : dense Z) : bool :=
  dense_eqb (sp_chain_code GS Us n) H.

Definition qcol (V : qmatrix) (j : nat) : list Qc := map (fun row => nth j row q0) V.
Definition qdot (a b : list Qc) : Qc := sum_over q0 Qcplus (combine a b) (fun p => fst p * snd p).
Definition qmaxabs (c : list Qc) : Qc := fold_right (fun x m => qmax (qabs x) m) q0 c.
(* some entry within eps of the largest magnitude is positive *)
Definition sign_ok (eps : Qc) (c : list Qc) : bool :=
  let m := qmaxabs c in existsb (fun x => qleb (m - eps) x && qltb q0 x) c || qleb m eps.

(* V (n x r): orthonormal columns, eigenvectors of Y for the r largest eigenvalues (those of the certificate (W, mu)) in
   decreasing order, sign rule *)
Definition nvecs_ok (eps : Qc) (Y W : qmatrix) (mu : list Qc) (V : qmatrix) (r : nat) (flip : bool) : bool :=
  let n := length Y in
  let sc := qmax q1 (qtrace Y) in
  eig_cert eps Y W mu && orthob eps V n r && Nat.leb r n &&
  let YV := mmul q0 Qcplus Qcmult Y V n r in
  let lam := map (fun j => qdot (qcol V j) (qcol YV j)) (seq 0 r) in
  qmat_close (eps * sc) YV (map (fun row => map (fun p => fst p * snd p) (combine row lam)) V) &&
  list_eqb (qabs_close (eps * sc)) lam (firstn r mu) &&
  (if flip then forallb (fun j => sign_ok eps (qcol V j)) (seq 0 r) else true).

(* wave 4 — facets of the property that sptensor.nvecs keeps in spite of finding A-38 (checked UNATTRIBUTED outside the exact trigger
   classes of A-38, see tools/props/c14.py):
   cols_ok: n x r matrix, orthonormal columns, sign rule;
   eigset_ok: every column is an eigenvector of Y and the Rayleigh quotients, sorted, are the r largest eigenvalues of the certificate
   (the iterative path returns the r dominant eigenpairs, possibly out of order) *)
Definition cols_ok (eps : Qc) (V : qmatrix) (n r : nat) (flip : bool) : bool :=
  Nat.eqb (length V) n && forallb (fun row => Nat.eqb (length row) r) V && orthob eps V n r &&
  (if flip then forallb (fun j => sign_ok eps (qcol V j)) (seq 0 r) else true).
Fixpoint qins (x : Qc) (l : list Qc) : list Qc :=
  match l with [] => [x] | y :: t => if qleb y x then x :: l else y :: qins x t end.
Definition qsort_desc (l : list Qc) : list Qc := fold_right qins [] l.
Definition eigset_ok (eps : Qc) (Y W : qmatrix) (mu : list Qc) (V : qmatrix) (r : nat) : bool :=
  let n := length Y in
  let sc := qmax q1 (qtrace Y) in
  eig_cert eps Y W mu && Nat.eqb (length V) n && forallb (fun row => Nat.eqb (length row) r) V && Nat.leb r n &&
  let YV := mmul q0 Qcplus Qcmult Y V n r in
  let lam := map (fun j => qdot (qcol V j) (qcol YV j)) (seq 0 r) in
  qmat_close (eps * sc) YV (map (fun row => map (fun p => fst p * snd p) (combine row lam)) V) &&
  list_eqb (qabs_close (eps * sc)) (qsort_desc lam) (firstn r mu).
(* wave 4 — large modes (iterative path at sizes where ARPACK really iterates): certificate WITHOUT a full decomposition.  Y is the Gram
   matrix of the denotation, symmetric positive semi-definite: the eigenvalues not captured by the r orthonormal eigenvectors V are
   >= 0 and sum to trace Y - sum lam, so each of them is <= that remainder; when the remainder is <= the smallest Rayleigh quotient the
   columns belong to the r LARGEST eigenvalues (the generator builds spectra whose tail is that small).  inorder = false: any order
   (sparse path, finding A-38) *)
Fixpoint qnonincr (tol : Qc) (l : list Qc) : bool :=
  match l with x :: ((y :: _) as t) => qleb y (x + tol) && qnonincr tol t | _ => true end.
Definition nvecs_trace_ok (eps : Qc) (Y V : qmatrix) (r : nat) (flip inorder : bool) : bool :=
  let n := length Y in
  let sc := qmax q1 (qtrace Y) in
  Nat.eqb (length V) n && forallb (fun row => Nat.eqb (length row) r) V && Nat.leb 1 r && Nat.leb r n && orthob eps V n r &&
  let YV := mmul q0 Qcplus Qcmult Y V n r in
  let lam := map (fun j => qdot (qcol V j) (qcol YV j)) (seq 0 r) in
  let lam' := if inorder then lam else qsort_desc lam in
  qmat_close (eps * sc) YV (map (fun row => map (fun p => fst p * snd p) (combine row lam)) V) &&
  qnonincr (eps * sc) lam' &&
  qleb (qtrace Y - sum_over q0 Qcplus lam (fun x => x)) (last lam' q0 + eps * sc) &&
  (if flip then forallb (fun j => sign_ok eps (qcol V j)) (seq 0 r) else true).

(* the result has the requested shape / max |imaginary part| as recorded is zero *)
Definition shape_is (vshape : list nat) (n r : nat) : bool := nvec_eqb vshape [n; r].

(* projector V V^T *)
Definition qproj (V : qmatrix) : qmatrix := map (fun ra => map (fun rb => qdot ra rb) V) V.
Definition same_subspace (eps : Qc) (V1 V2 : qmatrix) : bool := qmat_close eps (qproj V1) (qproj V2).
Fixpoint all_same_subspace (eps : Qc) (Vs : list qmatrix) : bool :=
  match Vs with V1 :: ((V2 :: _) as r) => same_subspace eps V1 V2 && all_same_subspace eps r | _ => true end.

(* list-level post-processing model on the recorded solver output *)
Definition qpost := postprocess q0 qabs Qcopp qltb.
Definition qcols_eqb (A B : list (list Qc)) : bool := list_eqb (list_eqb Qc_eq_bool) A B.
(* wave 4 — sptensor.nvecs' own post-processing (Model/C14SpPost.v; finding A-38) on the recorded solver output: the code-path tie of the
   sparse representation (theorems C14_sparse_post_dense_sorted / _iter_sorted say where it coincides with qpost) *)
Definition qsp_post_dense := sp_post_dense q0 qabs Qcopp qltb.
Definition qsp_post_iter := sp_post_iter q0 qabs Qcopp qltb.
(* exactly equal |w| (numpy's default argsort is not stable, the order among ties is unspecified): the k-th returned column is the
   (flipped) recorded column of SOME index whose |w| is the k-th largest *)
Definition qpost_tie_ok (w : list Qc) (cols : list (list Qc)) (r : nat) (flip : bool) (got : list (list Qc)) : bool :=
  let sa := map (fun k => qabs (nth k w q0)) (argsort_desc_abs qabs qltb w) in
  Nat.eqb (length got) (Nat.min r (length w)) &&
  forallb (fun k => existsb (fun i => Qc_eq_bool (qabs (nth i w q0)) (nth k sa q0) &&
                                      list_eqb Qc_eq_bool (nth k got [])
                                               (let c := nth i cols [] in if flip then flip_col q0 qabs Qcopp qltb c else c))
                            (seq 0 (length w)))
          (seq 0 (length got)).
Definition eps6 : Qc := Q2Qc (1 # 1000000).

(* recorded solver input close to the Gram matrix of the denotation (inputs whose products are rounded: factors on the 2^-30 grid,
   a Kruskal tensor after normalize): within 1e-12 of the trace, entrywise *)
Definition eps12 : Qc := Q2Qc (1 # 1000000000000).
Definition gram_recorded_close (R : zrepr) (n : nat) (Y : qmatrix) : bool :=
  let G := zq (rgram R n) in
  Nat.eqb (length Y) (length G) && qmat_close (eps12 * qmax q1 (qtrace G)) G Y.
