(* Model/C03More.v — remaining code paths of pyttb.sptensor's element-wise operators, transliterated:
   logical_and with a dense tensor; __eq__ with a scalar / dense tensor; __ne__ with a sparse / dense tensor;
   __truediv__ with a scalar (incl. 0; the implicit-zero positions through the GENERATED tt_setdiff_rows) and with a
   dense tensor.  Division results live in an arbitrary result type X (instantiated with xval = Qc + {inf,-inf,NaN}).
   Definitions only; proofs in Proofs/C03More.v. *)
From Coq Require Import List ZArith Bool.
From PV Require Import Base.Index Np.NpZ Np.Array Gen.GenUtils Model.Sparse Model.C03Ops Model.C03Gen.
Import ListNotations.

Section More.
Context {V : Type} (v0 : V) (isz : V -> bool).
Variables (one : V) (veqb : V -> V -> bool).

(* logical_and(dense): self.logical_and(other.to_sptensor()) *)
Definition impl_and_dense (A : sparse V) (T : dense V) : sparse V := impl_and v0 isz one A (to_sptensor v0 isz T).

(* __eq__ (scalar): c == 0 -> logical_not; else the stored entries equal to c *)
Definition impl_eq_scalar (A : sparse V) (c : V) : sparse V :=
  if isz c then impl_not one A
  else sp_const (sshape A) (map fst (filter (fun e => veqb (snd e) c) (entries A))) one.

(* __eq__ (dense): zeros of T where self is zero too, then the stored entries equal to T there *)
Definition impl_eq_dense (A : sparse V) (T : dense V) : sparse V :=
  let otherzerosubs := filter (fun i => isz (den_dense v0 T i)) (allsubs (sshape A)) in
  let zzerosubs := filter (fun i => isz (den_sp v0 A i)) otherzerosubs in
  let znzsubs := map fst (filter (fun e => veqb (den_dense v0 T (fst e)) (snd e)) (entries A)) in
  sp_const (sshape A) (zzerosubs ++ znzsubs) one.

(* __ne__ (sparse): stored in exactly one operand, then stored in both with different values (mask over self.subs) *)
Definition impl_ne_sparse (A B : sparse V) : sparse V :=
  let subs1 := rows_diff (ssubs A) (ssubs B) ++ rows_diff (ssubs B) (ssubs A) in
  let subs2 := filter (fun i => mem i (ssubs B) && negb (veqb (den_sp v0 A i) (den_sp v0 B i))) (ssubs A) in
  sp_const (sshape A) (subs1 ++ subs2) one.

(* __ne__ (dense): positions outside subs(self) U zeros(T), then stored entries different from T there *)
Definition impl_ne_dense (A : sparse V) (T : dense V) : sparse V :=
  let subs1 := filter (fun i => negb (mem i (ssubs A)) && negb (isz (den_dense v0 T i))) (allsubs (sshape A)) in
  let subs2 := map fst (filter (fun e => negb (veqb (snd e) (den_dense v0 T (fst e)))) (entries A)) in
  sp_const (sshape A) (subs1 ++ subs2) one.

Section Div.
Context {X : Type}.
Variables (dv : V -> V -> X) (xnan : X).
(* __truediv__ (scalar): vals / c; for c == 0 additionally NaN at allsubs[tt_setdiff_rows(allsubs, subs)] *)
Definition impl_div_scalar_gen (A : sparse V) (c : V) : res (sparse X) :=
  let newvals := map (fun v => dv v c) (svals A) in
  if isz c then
    bind (gen_diff (allsubs (sshape A)) (ssubs A)) (fun nansubs =>
    Ok (mkSp (sshape A) (ssubs A ++ nansubs) (newvals ++ map (fun _ => xnan) nansubs)))
  else Ok (mkSp (sshape A) (ssubs A) newvals).
(* __truediv__ (dense): the stored entries divided by the dense values at their subscripts, nothing else *)
Definition impl_div_dense (A : sparse V) (T : dense V) : sparse X :=
  mkSp (sshape A) (ssubs A) (map (fun e => dv (snd e) (den_dense v0 T (fst e))) (entries A)).
End Div.
End More.
