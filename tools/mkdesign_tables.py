#!/usr/bin/env python3
"""Regenerates the machine-written appendices of DESIGN.md (between AUTO markers) from findings.d/, seeded/*/meta.json,
evidence/*.json and tools/manifest.d/*.json."""
import glob, json, os, re
ROOT = os.path.dirname(os.path.dirname(os.path.abspath(__file__)))

def region(text, name, body):
    b, e = f"<!-- BEGIN AUTO:{name} -->", f"<!-- END AUTO:{name} -->"
    if b not in text:
        return text + f"\n{b}\n{body}\n{e}\n"
    return re.sub(re.escape(b) + r".*?" + re.escape(e), lambda m: b + "\n" + body + "\n" + e, text, flags=re.S)

findings = []
for fn in sorted(glob.glob(ROOT + "/findings.d/*.jsonl")):
    for l in open(fn):
        if l.strip():
            findings.append(json.loads(l))
rows_fixed, rows_open = [], []
seen = set()
for j in findings:
    what = " ".join(str(j.get("what", "")).split())
    if j.get("status") == "fixed":
        rows_fixed.append(f"| {j['property']} | {j['finding_id']} | `{j.get('call_site','')}` | {what[:160]} | {j.get('fixed_commit','')} |")
    else:
        rows_open.append(f"| {j['property']} | {j['finding_id']} | `{j.get('call_site','')}` | {what[:200]} | {j.get('why_not_fixed', j.get('proposed',''))} |")
fx = ("Repaired in /repo by one `fix:` commit each (each keeps the 208 pinned doctests AND the functional tests under tests/ green; "
      "a `fixed:` line per entry is in known_findings.jsonl; these entries suppress nothing):\n\n"
      "| prop | finding | call site | what failed | commit |\n|---|---|---|---|---|\n" + "\n".join(rows_fixed) +
      "\n\nOpen known findings (printed as `KNOWN-FINDING:` on every run while the witness still fails; mismatches are attributed only inside the named trigger):\n\n"
      "| prop | finding | call site | what fails | why recorded, not repaired |\n|---|---|---|---|---|\n" + "\n".join(rows_open))

seeds = []
for fn in sorted(glob.glob(ROOT + "/seeded/*/meta.json")):
    m = json.load(open(fn))
    det = ", ".join(f"{k}: {v}" for k, v in m.get("detection", {}).items())
    rc_p = os.path.join(os.path.dirname(fn), "reconfirm.json")
    if os.path.exists(rc_p):
        rc = json.load(open(rc_p))
        if rc.get("applies") == "none":
            det += f" — patch does not apply to /repo {rc.get('repo_head')}"
        elif rc.get("demo_rc_mutated") == 0:
            det += f" — STALE on /repo {rc.get('repo_head')}: a later fix: commit made the change behaviour-preserving (its demo passes with the patch applied), so a miss is not a miss"
        if os.path.exists(os.path.join(os.path.dirname(fn), "patch-orig-pre900f6ae.diff")):
            det += " — patch re-based by the lead on /repo 900f6ae (original kept as patch-orig-pre900f6ae.diff)"
        if os.path.exists(os.path.join(os.path.dirname(fn), "patch-orig-pre2956bb2.diff")):
            det += " — patch re-based by the lead on /repo 2956bb2 (original kept as patch-orig-pre2956bb2.diff)"
    need = m.get("needs_to_manifest", "")[:260]
    seeds.append(f"| {m['id']} | {need} | {det} |")
sd = ("Independent sub-agents (given only the property text and a scratch worktree, nothing from /verif) wrote property-breaking changes that keep the 208 doctests green, "
      "in five rounds: A/B and C/D (sessions 2-3), E/F (session 3), G/H and I/J (session 4, written against the repaired tree of their time) - two per property and round, 198 in all; "
      "each was confirmed by the lead in a fresh worktree (tools/confirm_seed.sh: doctests green with the patch, demonstration fails with / passes without it), re-confirmed against the "
      "final /repo HEAD (tools/reconfirm_seed.sh; patches that no longer applied were re-based by hand, changes that a later fix: commit made behaviour-preserving are marked STALE) and is kept "
      "under seeded/<id>/. The table is the FINAL sweep (tools/seedsweep.py via tools/sweepq.sh: quick tier, isolated scratch copies of /verif and of /repo HEAD with the patch applied, run with "
      "free memory): the property's own check, plus the checks named in seeded/<id>/also.txt. Every non-stale change is reported by its own property's check; the remaining 'missed' entries are "
      "cross-property runs (a change written against one property that another property's check does not see) and the stale change C06-E. Per-round baseline misses and what closed them: Appendix D.\n\n"
      "| seeded change | what it is / needs (from its description) | checks run -> result |\n|---|---|---|\n" + "\n".join(seeds))

ev = []
for fn in sorted(glob.glob(ROOT + "/evidence/C*.json")):
    e = json.load(open(fn))
    c = e["coverage"]
    man = json.load(open(ROOT + f"/tools/manifest.d/{e['property_id']}.json")) if os.path.exists(ROOT + f"/tools/manifest.d/{e['property_id']}.json") else {}
    ev.append(f"| {e['property_id']} | {e['level']} | {c.get('discharged')}/{c.get('obligations')} | {c.get('evaluations')} | {c.get('distinct_nontrivial')} | {', '.join(c.get('axioms') or []) or 'none'} | {len(c.get('correspondence_only_ops') or [])} |")
es = ("Last committed evidence (tier as committed):\n\n| prop | level | theorems discharged | correspondence cases | distinct non-trivial | axioms (Print Assumptions) | correspondence-only ops |\n|---|---|---|---|---|---|---|\n" + "\n".join(ev))

oc = []
for fn in sorted(glob.glob(ROOT + "/tools/manifest.d/C*.json")):
    pid = os.path.basename(fn)[:-5]
    m = json.load(open(fn))
    evp = ROOT + f"/evidence/{pid}.json"
    c = json.load(open(evp))["coverage"] if os.path.exists(evp) else {}
    ths = c.get("theorems") or []
    co = c.get("correspondence_only_ops") or []
    oc.append(f"### {pid} — level `{m['category']}`; technique: {m['technique']}\n\n{m['text']}\n\n*Trusted / assumed:* {m['note']}\n\n"
              f"*Theorems checked on the last run ({len(ths)}):* " + ", ".join(f"`{x}`" for x in ths) + "\n\n"
              f"*Correspondence-only (not counted as proved) ({len(co)}):* " + ("; ".join(str(x) for x in co) if co else "none") + "\n")
os_ = ("What each check establishes after the build (generated from tools/manifest.d/*.json and the last evidence; the per-property plan in §7 was "
       "written before the build and is kept for reference — where it differs, this section is the current state).\n\n" + "\n".join(oc))

p = ROOT + "/DESIGN.md"
t = open(p).read()
t = region(t, "outcome", os_)
t = region(t, "findings", fx)
t = region(t, "seeded", sd)
t = region(t, "evidence", es)
open(p, "w").write(t)
print("DESIGN.md tables regenerated:", len(rows_fixed), "fixed,", len(rows_open), "open,", len(seeds), "seeded,", len(ev), "evidence rows")
