"""C15 — symmetrisation averages over mode permutations and the symmetry test is exact (DESIGN §C15).

Correspondence: pyttb.tensor.symmetrize / issymmetric (new and old version, with/without details) and ktensor.symmetrize
against the executable spec of Model/C15Sym.v on NON-symmetric integer data; the averages are exact rationals (Qc), pyttb's
floats must be within 1e-9; the symmetry test is compared exactly over Z."""
import itertools
import math
from fractions import Fraction

from vcheck import Case, gnlist, gnmat, gq, gzlist
import tgen

PROP = "C15"
LEVEL = "proof"
GEN_UNITS = []
COQ_TARGETS = ["Props/C15.vo", "Model/C15Inst.vo", "Model/C08Inst.vo", "Model/Harness.vo"]
THEOREM_FILES = ["Props/C15.v"]
COQ_IMPORTS = ("From Coq Require Import List ZArith QArith Qcanon Bool.\n"
               "From PV Require Import Base.Index Np.Array Model.Repr Model.Harness Model.C15Sym Model.C15Impl Model.C15Inst Model.C08Inst.\n")
RULE = ("shapes (2,3,3), (3,2,3,2), (2,3,3,2), (3,2,2,3), (2,2,2,2), (3,3,3), (2,2), (3,3), (2,2,3) ...; EVERY choice of one group "
        "(>= 2 modes of equal size) or two disjoint groups of equal length (mode sizes may differ BETWEEN groups), proper subsets "
        "included, group members also listed out of order; non-symmetric integer data, exactly symmetric data, almost-symmetric "
        "data (one entry changed by 1) and NEARLY symmetric float data (symmetric integers >= 1 with single entries moved by "
        "2^-20, i.e. inside numpy's allclose tolerance); both versions; with/without details; every symmetrised result must pass "
        "both versions of the symmetry test; non-trivial = data not symmetric in the groups or the group is a proper subset")
CORRESPONDENCE_ONLY = ["tensor.symmetrize OLD version (explicit average over all combinations of mode rearrangements + max-fix): the transliteration "
                       "impl_sym_old is compared EXACTLY with spec_sym on every generated input (statement kept as C15_sym_old_stmt)",
                       "ktensor.symmetrize: identical factors and symmetry of the denoted array evaluated on pyttb's result (then symmetric by "
                       "theorem C15_kruskal_sym); a symmetric input (identical factors, weights of either sign) keeps its value: evaluated per case",
                       "the tabulate/den round trip between groups in the executable instances (q_sym_new_d) is Np.Array.den_tabulate, not restated"]
ASSUMPTIONS = ["the average is taken in exact rational arithmetic; pyttb's float result must lie within 1e-9 relative",
               "old-version symmetrize's max-fix is modelled with an exact max; on an exactly symmetric average it is the identity"]
EXPLANATION = ("Theorems (all shapes, groups, values of a commutative ring; characteristic 0 where an average is inverted): rearranging a list "
               "permutes its rearrangements (orbit argument) => the average is symmetric in every group and symmetrising is idempotent; "
               "the boolean test (adjacent exchanges, in-bounds) <=> invariance under every within-group rearrangement; pyttb's NEW "
               "symmetrize (class average incl. the short-cut) = spec at every in-bounds subscript (orbit counting); NEW and OLD "
               "issymmetric = the spec test; Kruskal tensors with identical factors are symmetric. All four transliterations are "
               "additionally executed and compared exactly with the spec on every generated input, and pyttb's results with the spec.")


# ----------------------------------------------------------------------------------------------------------------
def group_choices(shape):
    """every single group (>=2 modes, equal sizes) and every pair of disjoint groups of equal length"""
    N = len(shape)
    singles = []
    for k in range(2, N + 1):
        for g in itertools.combinations(range(N), k):
            if len({shape[m] for m in g}) == 1:
                singles.append(list(g))
    out = [[g] for g in singles]
    for a, b in itertools.combinations(singles, 2):
        if len(a) == len(b) and not set(a) & set(b):
            out.append([a, b])
    return out


def sym_int(shape, data, groups):
    """integer-valued symmetric data: SUM over all within-group rearrangements (pure python)"""
    subs = tgen.all_subs(shape)
    pos = {tuple(s): k for k, s in enumerate(subs)}
    cur = list(data)
    for g in groups:
        new = []
        for s in subs:
            tot = 0
            for p in itertools.permutations([s[m] for m in g]):
                t = list(s)
                for m, v in zip(g, p):
                    t[m] = v
                tot += cur[pos[tuple(t)]]
            new.append(tot)
        cur = new
    return cur


def is_sym(shape, data, groups):
    subs = tgen.all_subs(shape)
    pos = {tuple(s): k for k, s in enumerate(subs)}
    for g in groups:
        if len({shape[m] for m in g}) != 1:
            return False
        for s in subs:
            for a, b in zip(g, g[1:]):
                t = list(s)
                t[a], t[b] = s[b], s[a]
                if data[pos[tuple(t)]] != data[pos[tuple(s)]]:
                    return False
    return True


BUMP = Fraction(1, 2 ** 20)     # well inside np.allclose's default tolerance for entries >= 1, exactly representable


def full_data(a):
    """the exact input values: integers, plus 2^-20 on the entries listed in a['bump'] (nearly symmetric float data)"""
    d = [Fraction(x) for x in a["data"]]
    for k in a.get("bump") or []:
        d[k] += BUMP
    return d


def gen_cases(rng, tier):
    big = tier == "thorough"
    shapes = [(2, 3, 3), (3, 2, 3, 2), (2, 3, 3, 2), (2, 2, 2, 2), (3, 3, 3), (2, 2), (3, 3), (2, 2, 3), (3, 3, 2), (2, 2, 2),
              (2, 3, 2), (3, 2, 2, 3)]
    if big:
        shapes += [(4, 4), (2, 4, 4), (3, 3, 3, 2), (2, 2, 2, 2, 2), (2, 3, 2, 3), (3, 2, 2)]
    cases = []
    for shape in shapes:
        n = math.prod(shape)
        for groups0 in group_choices(shape):
            proper = sum(len(g) for g in groups0) < len(shape) or len(groups0) > 1
            for rep in range(3 if big else 1):
                groups = groups0
                if rng.random() < 0.3:          # members of a group in arbitrary order, groups in arbitrary order
                    groups = [rng.sample(g, len(g)) for g in groups0]
                    rng.shuffle(groups)
                data = [rng.randint(-4, 5) for _ in range(n)]
                for version in (None, 1):
                    cases.append(Case("symmetrize", {"shape": list(shape), "data": data, "grps": groups, "version": version}, True))
                # symmetry test: non-symmetric, symmetric, almost symmetric
                sdata = sym_int(shape, [rng.randint(-2, 3) for _ in range(n)], groups)
                adata = list(sdata)
                adata[rng.randrange(n)] += 1
                # nearly symmetric float data: positive symmetric integers, one or two entries moved by 2^-20
                ndata = sym_int(shape, [rng.randint(1, 3) for _ in range(n)], groups)
                bump = sorted(rng.sample(range(n), rng.choice([1, 1, 2])))
                for version in (None, 1):
                    cases.append(Case("symmetrize", {"shape": list(shape), "data": ndata, "bump": bump, "grps": groups,
                                                     "version": version}, True))
                    if rep == 0 and rng.random() < 0.35:        # exactly symmetric input keeps its value
                        cases.append(Case("symmetrize", {"shape": list(shape), "data": sdata, "grps": groups,
                                                         "version": version}, proper))
                for d, b in ((data, None), (sdata, None), (adata, None), (ndata, bump)):
                    for version, details in ((None, False), (1, False), (None, True), (1, True)):
                        if not big and details and version == 1 and rng.random() < 0.5:
                            continue
                        arg = {"shape": list(shape), "data": d, "grps": groups, "version": version, "details": details}
                        if b is not None:
                            arg["bump"] = b
                        cases.append(Case("issymmetric", arg, proper or b is not None or not is_sym(shape, d, groups)))
        # default grps (all modes) on cubical shapes
        if len(set(shape)) == 1:
            data = [rng.randint(-4, 5) for _ in range(n)]
            for version in (None, 1):
                cases.append(Case("symmetrize", {"shape": list(shape), "data": data, "grps": None, "version": version}, True))
                cases.append(Case("issymmetric", {"shape": list(shape), "data": data, "grps": None, "version": version, "details": False}, True))
    # groups whose mode sizes differ inside the group: the test answers False (both versions), symmetrize refuses
    for shape, groups in (((2, 3, 3), [[0, 1]]), ((2, 3, 2, 3), [[0, 1], [2, 3]]), ((2, 2, 3), [[0, 1, 2]]),
                          ((3, 3, 2, 3), [[0, 1], [2, 3]])):
        n = math.prod(shape)
        data = [rng.randint(-2, 2) for _ in range(n)]
        for version, details in ((None, False), (1, False), (1, True)):
            cases.append(Case("issymmetric", {"shape": list(shape), "data": data, "grps": groups, "version": version,
                                              "details": details}, True))
    # Kruskal symmetrize: cubical shapes, ranks 1-3; symmetric inputs (identical factors, weights of either sign) and arbitrary ones
    for m, N in ((2, 2), (3, 2), (2, 3), (3, 3), (2, 4)):
        for R in (1, 2, 3):
            for kind in ("symmetric", "symmetric", "random"):
                A = [[rng.randint(-3, 3) for _ in range(R)] for _ in range(m)]
                if kind == "symmetric":
                    f = [A for _ in range(N)]
                    w = [rng.choice([-3, -2, -1, 1, 2, 3]) for _ in range(R)]
                else:
                    f = [[[rng.randint(-3, 3) for _ in range(R)] for _ in range(m)] for _ in range(N)]
                    w = [rng.choice([-2, -1, 1, 2, 3]) for _ in range(R)]
                cases.append(Case("ksymmetrize", {"w": w, "f": f, "kind": kind}, True))
    return cases


# ----------------------------------------------------------------------------------------------------------------
def run_impl(c):
    import numpy as np
    import pyttb as ttb
    a = c.args
    try:
        if c.op == "ksymmetrize":
            R = len(a["w"])
            K = ttb.ktensor([np.array(A, dtype=float).reshape((len(A), R)) for A in a["f"]], np.array(a["w"], dtype=float), copy=True)
            S = K.symmetrize()
            return {"ok": tgen.obs_ktensor(np, S), "issym": bool(S.issymmetric())}
        T = tgen.mk_tensor(ttb, np, a["shape"], [float(x) for x in full_data(a)])
        grps = None if a["grps"] is None else (np.array(a["grps"][0]) if len(a["grps"]) == 1 else np.array(a["grps"]))
        if c.op == "symmetrize":
            S = T.symmetrize(grps, a["version"]) if grps is not None else T.symmetrize(version=a["version"])
            S2 = S.copy().symmetrize(grps, a["version"]) if grps is not None else S.copy().symmetrize(version=a["version"])
            # "the result passes the symmetry test": both versions of the test, on a copy of the result
            t_new = bool(S.copy().issymmetric(grps)) if grps is not None else bool(S.copy().issymmetric())
            t_old = bool(S.copy().issymmetric(grps, 1)) if grps is not None else bool(S.copy().issymmetric(version=1))
            return {"ok": tgen.obs_dense(np, S), "again": tgen.obs_dense(np, S2), "test_new": t_new, "test_old": t_old}
        if c.op == "issymmetric":
            r = T.issymmetric(grps, a["version"], a["details"])
            if a["details"] and isinstance(r, tuple):
                return {"ok": bool(r[0]), "ndiffs": int(np.asarray(r[1]).size), "perms_shape": [int(x) for x in np.asarray(r[2]).shape],
                        "maxdiff_zero": bool((np.asarray(r[1]) == 0).all())}
            return {"ok": bool(r)}
    except Exception as ex:
        return {"exc": type(ex).__name__, "msg": str(ex)[:200]}
    raise ValueError(c.op)


def groups_of(a):
    return a["grps"] if a["grps"] is not None else [list(range(len(a["shape"])))]


def finite(vals):
    return all(not isinstance(x, str) for x in vals)


def gb(x):
    return "true" if x else "false"


def coq_check(c, o):
    a = c.args
    if "exc" in o:
        return "false"
    if c.op == "ksymmetrize":
        ob = o["ok"]
        if not (finite(ob["weights"]) and all(finite(r) for A in ob["factors"] for r in A)):
            return "false"
        import props.c08 as c08
        O = c08.gqk(ob["weights"], ob["factors"])
        shp = gnlist([len(A) for A in a["f"]])
        keep = f" && qk_den_close {shp} {c08.gqk(a['w'], a['f'])} O" if a["kind"] == "symmetric" else ""
        return (f"let O := {O} in q_mats_identical (kfactors O) && Nat.eqb (length (kfactors O)) {len(a['f'])} && "
                f"nvec_eqb (kshape O) {shp} && q_k_symmetric {shp} O && {gb(o['issym'])}{keep}")
    G = gnmat(groups_of(a))
    if c.op == "symmetrize":
        if not (finite(o["ok"]["data"]) and finite(o["again"]["data"])):
            return "false"
        T = tgen.gqdense(a["shape"], full_data(a))
        O = tgen.gqdense(o["ok"]["shape"], o["ok"]["data"])
        O2 = tgen.gqdense(o["again"]["shape"], o["again"]["data"])
        # pyttb's result = the spec average (exact rationals, 1e-9); both implementation models = the spec on this input;
        # symmetrising again changes nothing; pyttb's result is EXACTLY symmetric (spec test) and passed both pyttb tests
        return (f"let T := {T} in let O := {O} in q_sym_matches T {G} O && q_impls_agree T {G} && q_same O {O2} && "
                f"q_sym_result_symmetric T {G} && q_issym O {G} && {gb(o['test_new'])} && {gb(o['test_old'])}")
    if c.op == "issymmetric":
        extra = ""
        if a["details"] and "ndiffs" in o:
            cnt = sum(math.factorial(len(g)) for g in groups_of(a))
            extra = (f" && Nat.eqb {o['ndiffs']} {cnt} && nvec_eqb {gnlist(o['perms_shape'])} {gnlist([cnt, len(a['shape'])])}"
                     f" && Bool.eqb {gb(o['maxdiff_zero'])} {gb(o['ok'])}")
        if a.get("bump"):
            T = tgen.gqdense(a["shape"], full_data(a))
            return f"let T := {T} in Bool.eqb (q_issym T {G}) {gb(o['ok'])} && q_issym_impls_agree T {G}{extra}"
        T = tgen.gdense(a["shape"], a["data"])
        return f"let T := {T} in Bool.eqb (z_issym T {G}) {gb(o['ok'])} && z_issym_impls_agree T {G}{extra}"
    raise ValueError(c.op)


# ----------------------------------------------------------------------------------------------------------------
# independent brute force (pure python)
def sym_avg(shape, data, groups):
    """exact average over all within-group rearrangements, group after group (Fractions)"""
    subs = tgen.all_subs(shape)
    pos = {tuple(s_): k for k, s_ in enumerate(subs)}
    cur = [Fraction(x) for x in data]
    for g in groups:
        new = []
        for s_ in subs:
            tot = Fraction(0)
            cnt = 0
            for p_ in itertools.permutations([s_[m] for m in g]):
                t = list(s_)
                for m, v in zip(g, p_):
                    t[m] = v
                tot += cur[pos[tuple(t)]]
                cnt += 1
            new.append(tot / cnt)
        cur = new
    return cur


def oracle(c, o):
    a = c.args
    if "exc" in o:
        return f"admissible request raised {o['exc']}: {o.get('msg')}"
    if c.op == "ksymmetrize":
        fs = o["ok"]["factors"]
        if any(A != fs[0] for A in fs):
            return "factors of the symmetrised Kruskal tensor are not identical"
        if not o["issym"]:
            return "result does not pass ktensor.issymmetric"
        if a["kind"] == "symmetric":        # a symmetric input keeps its value
            def kden(w, f, i):
                t = Fraction(0)
                for r in range(len(w)):
                    p_ = Fraction(w[r])
                    for n_, A in enumerate(f):
                        p_ *= Fraction(A[i[n_]][r])
                    t += p_
                return t
            for i in tgen.all_subs([len(A) for A in a["f"]]):
                x, y = kden(o["ok"]["weights"], fs, i), kden(a["w"], a["f"], i)
                if abs(x - y) > Fraction(1, 10 ** 9) * max(1, abs(y)):
                    return f"symmetric Kruskal tensor changed value at {i}: {float(x)} instead of {float(y)}"
        return None
    groups = groups_of(a)
    shape = a["shape"]
    data = full_data(a)
    if c.op == "issymmetric":
        want = is_sym(shape, data, groups)
        return None if want == o["ok"] else f"issymmetric answered {o['ok']}, the tensor is {'symmetric' if want else 'not symmetric'} in {groups}"
    avg = sym_avg(shape, data, groups)
    for k, (want, got) in enumerate(zip(avg, o["ok"]["data"])):
        if abs(Fraction(got) - want) > Fraction(1, 10 ** 9) * max(1, abs(want)):
            return f"entry {tgen.all_subs(shape)[k]} is {float(Fraction(got))}, the average over the group permutations is {float(want)}"
    if any(abs(Fraction(x) - Fraction(y)) > Fraction(1, 10 ** 9) * max(1, abs(Fraction(y))) for x, y in zip(o["again"]["data"], o["ok"]["data"])):
        return "symmetrising twice differs from symmetrising once"
    if not is_sym(shape, [Fraction(x) for x in o["ok"]["data"]], groups):
        return "the symmetrised tensor is not exactly symmetric in the groups"
    if not (o["test_new"] and o["test_old"]):
        return f"the symmetrised tensor does not pass issymmetric (new version: {o['test_new']}, old version: {o['test_old']})"
    return None
