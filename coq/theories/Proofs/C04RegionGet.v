(* Proofs/C04RegionGet.v — sptensor.__getitem__ with a region (subdims + tt_renumber, model sp_region_get):
   the returned sptensor holds, at the renumbered subscript of every region position, the value the tensor holds there. *)
From Coq Require Import List Arith ZArith Lia Bool.
From PV Require Import Base.Index Np.Array Model.Sparse Model.C04Model Proofs.C04Dense Proofs.C04Sparse.
Import ListNotations.

Section G.
Context {V : Type} (v0 : V).

Lemma index_of_nth x l k : index_of x l = Some k -> nth k l 0 = x.
Proof.
  revert k; induction l as [|y r IH]; intros k H; cbn in H; [discriminate|].
  destruct (Nat.eqb_spec x y) as [->|Hne].
  - inversion H. reflexivity.
  - destruct (index_of x r) as [k'|]; [|discriminate]. inversion H. cbn. now apply IH.
Qed.

Lemma index_of_in x l : In x l -> exists k, index_of x l = Some k.
Proof.
  induction l as [|y r IH]; intros H; [contradiction|]. cbn.
  destruct (Nat.eqb_spec x y) as [->|Hne]; eauto.
  destruct H as [->|H]; [contradiction|]. destruct (IH H) as (k & ->). cbn. eauto.
Qed.

Lemma index_of_some_in x l k : index_of x l = Some k -> In x l.
Proof.
  revert k; induction l as [|y r IH]; intros k H; cbn in H; [discriminate|].
  destruct (Nat.eqb_spec x y) as [->|Hne]; cbn; auto.
  destruct (index_of x r) as [k'|]; [|discriminate]. right. eapply IH; eauto.
Qed.

(* a mode that is dropped from the result selects exactly one index *)
Definition drop_single (ls : list (bool * list nat)) : Prop :=
  Forall (fun x : bool * list nat => fst x = false -> exists z, snd x = [z]) ls.

Lemma elem_indices_single d e x : elem_indices d e = Some x -> fst x = false -> exists z, snd x = [z].
Proof.
  destruct e as [z|a b c|l]; cbn.
  - destruct (norm_index d z); [|discriminate]. intros H _. inversion H. cbn. eauto.
  - destruct (py_slice d a b c); [discriminate|]. intros H. inversion H. cbn. discriminate.
  - destruct l; [discriminate|]. destruct (forallb _ _); [|discriminate]. intros H. inversion H. cbn. discriminate.
Qed.

Lemma region_lists_single s es ls : region_lists s es = Some ls -> drop_single ls.
Proof.
  revert es ls; induction s as [|d s IH]; intros [|e es] ls H; cbn in H; try discriminate.
  - inversion H. constructor.
  - destruct (elem_indices d e) as [x|] eqn:E; [|discriminate].
    destruct (region_lists s es) as [r|] eqn:R; [|discriminate]. inversion H; subst.
    constructor; [now apply (elem_indices_single d e)|]. eapply IH; eauto.
Qed.

Lemma renumber_inj ls : drop_single ls -> forall p q j, renumber ls p = Some j -> renumber ls q = Some j -> p = q.
Proof.
  induction 1 as [|[kept l] ls Hx Hls IH]; intros [|x p] [|y q] j Hp Hq; cbn in Hp, Hq; try discriminate; auto.
  destruct (index_of x l) as [kx|] eqn:Ex; [|discriminate]. destruct (renumber ls p) as [rp|] eqn:Rp; [|discriminate].
  destruct (index_of y l) as [ky|] eqn:Ey; [|discriminate]. destruct (renumber ls q) as [rq|] eqn:Rq; [|discriminate].
  destruct kept.
  - inversion Hp; subst. inversion Hq; subst. f_equal; [|eapply IH; eauto].
    apply index_of_nth in Ex. apply index_of_nth in Ey. congruence.
  - inversion Hp; subst. inversion Hq; subst. f_equal; [|eapply IH; eauto].
    destruct (Hx eq_refl) as (z & Hz). cbn in Hz. subst l.
    apply index_of_some_in in Ex. apply index_of_some_in in Ey.
    destruct Ex as [<-|[]]. destruct Ey as [<-|[]]. reflexivity.
Qed.

Lemma renumber_total ls p : Forall2 (fun x l => In x l) p (map snd ls) -> exists j, renumber ls p = Some j.
Proof.
  revert p; induction ls as [|[kept l] ls IH]; intros p H; inversion H as [|x l' t r Hx Ht]; subst; cbn; eauto.
  destruct (index_of_in x l Hx) as (k & ->). destruct (IH t Ht) as (j & ->). eauto.
Qed.

Definition region_sel (ls : list (bool * list nat)) (es : list (idx * V)) : list (idx * V) :=
  flat_map (fun e : idx * V => match renumber ls (fst e) with Some j => [(j, snd e)] | None => [] end) es.

Lemma last_match_region_sel ls es p j d : drop_single ls -> renumber ls p = Some j ->
  last_match j (region_sel ls es) d = last_match p es d.
Proof.
  intros Hs Hp. revert d; induction es as [|[q v] r IH]; intros d; cbn [region_sel flat_map fst snd last_match]; auto.
  fold (region_sel ls r). destruct (renumber ls q) as [j'|] eqn:Rq; cbn [app last_match].
  - rewrite IH. f_equal.
    destruct (idx_eqb j j') eqn:E.
    + apply idx_eqb_spec in E. subst j'. rewrite (renumber_inj ls Hs p q j Hp Rq). now rewrite idx_eqb_refl.
    + destruct (idx_eqb p q) eqn:E'; auto. apply idx_eqb_spec in E'. subst q.
      rewrite Hp in Rq. inversion Rq. subst. rewrite idx_eqb_refl in E. discriminate.
  - rewrite IH. f_equal. destruct (idx_eqb p q) eqn:E'; auto. apply idx_eqb_spec in E'. subst q. congruence.
Qed.

(* every position p of the region is present in the result under its renumbered subscript j and reads the same value *)
Theorem sp_region_get_den (S R : sparse V) es ls :
  region_lists (sshape S) es = Some ls -> sp_region_get S es = Some R ->
  sshape R = kept_shape ls /\
  (forall p, In p (cartF (map snd ls)) -> exists j, renumber ls p = Some j) /\
  (forall p j, renumber ls p = Some j -> den_sp v0 R j = den_sp v0 S p).
Proof.
  intros Hl Hg. unfold sp_region_get in Hg. rewrite Hl in Hg. inversion Hg; subst. clear Hg.
  split; [reflexivity|]. split.
  - intros p Hp. apply renumber_total. now apply in_cartF.
  - intros p j Hp. rewrite den_of_entries. unfold den_sp.
    apply (last_match_region_sel ls (entries S) p j v0); auto. eapply region_lists_single; eauto.
Qed.
End G.
