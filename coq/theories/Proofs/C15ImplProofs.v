(* Proofs/C15ImplProofs.v — pyttb's (repaired) dense algorithms, transliterated in Model/C15Impl.v, meet the spec:
     * glue: the boolean spec test (adjacent exchanges, in-bounds subscripts) <-> invariance under EVERY rearrangement
       inside the groups at every in-bounds subscript,
     * new issymmetric (class-exemplar comparison) = spec_issym,
     * new symmetrize (class average, with the "already symmetric" short-cut) = spec_sym at every in-bounds subscript
       (orbit counting: every rearrangement of the group positions permutes the class). *)
From Coq Require Import List Arith Lia Bool Permutation Ring.
From PV Require Import Base.Index Base.Perm Base.Sum Np.Array Model.Sparse Model.Repr Model.C15Sym Model.C15Impl
  Proofs.C15Proofs Proofs.C15Orbit Proofs.C07Index.
Import ListNotations.

(* ------------------------------------------------------------------------------------------------ *)
(* np.sort on subscript rows                                                                         *)
(* ------------------------------------------------------------------------------------------------ *)
Lemma ins_nat_perm x l : Permutation (ins_nat x l) (x :: l).
Proof.
  induction l as [|y l IH]; cbn; auto. destruct (x <=? y); auto.
  eapply perm_trans; [apply perm_skip, IH|apply perm_swap].
Qed.

Lemma sort_nat_perm l : Permutation (sort_nat l) l.
Proof. induction l as [|x l IH]; cbn; auto. eapply perm_trans; [apply ins_nat_perm|now apply perm_skip]. Qed.

Lemma ins_nat_comm x y l : ins_nat x (ins_nat y l) = ins_nat y (ins_nat x l).
Proof.
  induction l as [|z l IH]; cbn.
  - destruct (Nat.leb_spec x y), (Nat.leb_spec y x); auto; try lia. assert (x = y) by lia. now subst.
  - destruct (Nat.leb_spec y z), (Nat.leb_spec x z); cbn;
      repeat (match goal with |- context [?a <=? ?b] => destruct (Nat.leb_spec a b) end; cbn); auto; try lia.
    + assert (x = y) by lia. now subst.
    + now rewrite IH.
Qed.

Lemma sort_nat_unique l l' : Permutation l l' -> sort_nat l = sort_nat l'.
Proof.
  unfold sort_nat. induction 1 as [|x l l' _ IH|x y l|l l' l'' _ IH1 _ IH2]; cbn [fold_right]; auto.
  - now rewrite IH.
  - apply ins_nat_comm.
  - congruence.
Qed.

Lemma length_sort_nat l : length (sort_nat l) = length l.
Proof. apply Permutation_length, sort_nat_perm. Qed.

(* ------------------------------------------------------------------------------------------------ *)
(* adjacent exchanges                                                                                *)
(* ------------------------------------------------------------------------------------------------ *)
Lemma swap_adj_app pre a b post : swap_adj (length pre) (pre ++ a :: b :: post) = pre ++ b :: a :: post.
Proof. induction pre as [|x pre IH]; cbn; auto. now rewrite IH. Qed.

Lemma swap_adj_perm j l : Permutation (swap_adj j l) l.
Proof.
  revert l; induction j as [|j IH]; intros [|a l]; cbn; auto.
  - destruct l as [|b l]; auto. apply perm_swap.
Qed.

Lemma adj_perm_P {A} (f : list nat -> A) (P : list nat -> Prop) :
  (forall l l', Permutation l l' -> P l -> P l') ->
  (forall pre a b post, P (pre ++ a :: b :: post) -> f (pre ++ a :: b :: post) = f (pre ++ b :: a :: post)) ->
  forall l l', Permutation l l' -> forall pre, P (pre ++ l) -> f (pre ++ l) = f (pre ++ l').
Proof.
  intros HP H l l' Pm. induction Pm as [|x l l' _ IH|x y l|l l' l'' Pm1 IH1 _ IH2]; intros pre Hp; auto.
  - replace (pre ++ x :: l) with ((pre ++ [x]) ++ l) in * by (now rewrite <- app_assoc).
    replace (pre ++ x :: l') with ((pre ++ [x]) ++ l') by (now rewrite <- app_assoc). now apply IH.
  - rewrite IH1 by exact Hp. apply IH2. apply (HP (pre ++ l)); auto. now apply Permutation_app_head.
Qed.

Section G15.
Variable V : Type.
Variables (v0 v1 : V) (vadd vmul vsub : V -> V -> V) (vopp vinv : V -> V) (veqb : V -> V -> bool).
Hypothesis Vring : ring_theory v0 v1 vadd vmul vsub vopp (@eq V).
Add Ring Vr15i : Vring.
Hypothesis veqb_spec : forall a b, veqb a b = true <-> a = b.
Notation "x + y" := (vadd x y).
Notation "x * y" := (vmul x y).
Notation ofn := (of_nat v0 v1 vadd).
Notation symg := (sym_group v0 v1 vadd vmul vinv).

(* invariance under every rearrangement inside g, at every in-bounds subscript of shape s *)
Definition sym_on (s : shape) (X : idx -> V) (g : list nat) : Prop :=
  forall i vals, inb s i = true -> Permutation (pick 0 g i) vals -> X (put g vals i) = X i.
Definition adj_on (s : shape) (X : idx -> V) (g : list nat) : Prop :=
  forall i, inb s i = true -> forall j, j < length g - 1 -> X (put g (swap_adj j (pick 0 g i)) i) = X i.

(* GLUE: on a cubical group, the adjacent exchanges at in-bounds subscripts give every rearrangement *)
Lemma adj_on_sym_on s X g : okg (length s) g -> group_cubical s g = true -> adj_on s X g -> sym_on s X g.
Proof.
  intros Hok Hc Ha i vals Hi Pm. pose proof (cubical_sizes s g Hc) as Hd. set (d := nth (hd 0 g) s 0) in *.
  pose proof (inb_length s i Hi) as HL. assert (Hok' : okg (length i) g) by (now rewrite HL).
  set (P := fun v : list nat => length v = length g /\ Forall (fun x => x < d) v).
  assert (HP : forall l l', Permutation l l' -> P l -> P l').
  { intros l l' Pl [H1 H2]. split; [now rewrite <- (Permutation_length Pl)|]. eapply Permutation_Forall; eauto. }
  assert (Hstep : forall pre a b post, P (pre ++ a :: b :: post) ->
            X (put g (pre ++ a :: b :: post) i) = X (put g (pre ++ b :: a :: post) i)).
  { intros pre a b post [H1 H2]. set (w := pre ++ a :: b :: post) in *.
    assert (Hj : inb s (put g w i) = true) by (apply (inb_put s g w i d); auto).
    assert (Hlt : length pre < length g - 1) by (rewrite <- H1; unfold w; rewrite app_length; cbn; lia).
    specialize (Ha _ Hj (length pre) Hlt). rewrite (pick_put g w i Hok' H1) in Ha. unfold w in Ha at 1.
    rewrite swap_adj_app in Ha. rewrite put_put in Ha; auto.
    rewrite <- H1. unfold w. rewrite !app_length. cbn. lia. }
  assert (P0 : P ([] ++ pick 0 g i)).
  { split; [apply pick_length|]. now apply (pick_inb_lt s g i d). }
  pose proof (adj_perm_P (fun v => X (put g v i)) P HP Hstep _ _ Pm [] P0) as E. cbn [app] in E.
  rewrite <- E. now rewrite put_pick_id.
Qed.

Lemma sym_on_adj_on s X g : sym_on s X g -> adj_on s X g.
Proof. intros H i Hi j _. apply H; auto. symmetry. apply swap_adj_perm. Qed.

(* the boolean spec test answers true exactly when the groups are cubical and the tensor is invariant under EVERY
   rearrangement of the subscripts inside every group, at every in-bounds subscript *)
Theorem spec_issym_all_rearrangements s X G : (forall g, In g G -> okg (length s) g) ->
  (spec_issym veqb s X G = true <-> (forall g, In g G -> group_cubical s g = true /\ sym_on s X g)).
Proof.
  intros Hok. rewrite (spec_issym_correct V veqb veqb_spec). split.
  - intros [Hc Ha] g Hg. split; auto. apply adj_on_sym_on; auto. intros i Hi j Hj. now apply Ha.
  - intros H. split; [intros g Hg; now apply H|]. intros i Hi g Hg j Hj.
    destruct (H g Hg) as [_ Hs]. now apply (sym_on_adj_on s X g Hs).
Qed.

(* ------------------------------------------------------------------------------------------------ *)
(* class exemplars                                                                                   *)
(* ------------------------------------------------------------------------------------------------ *)
Lemma exemplar_ok_spec s X g : exemplar_ok veqb s X g = true <-> (forall j, inb s j = true -> X j = X (sort_in g j)).
Proof.
  unfold exemplar_ok. rewrite forallb_forall. split.
  - intros H j Hj. apply veqb_spec, H. now apply in_allsubs.
  - intros H j Hj. apply veqb_spec, H. now apply in_allsubs.
Qed.

Lemma sort_in_put g vals i : okg (length i) g -> Permutation (pick 0 g i) vals -> sort_in g (put g vals i) = sort_in g i.
Proof.
  intros Hok Pm. assert (Hv : length vals = length g) by (rewrite <- (Permutation_length Pm); apply pick_length).
  unfold sort_in. rewrite (pick_put g vals i Hok Hv). rewrite <- (sort_nat_unique _ _ Pm).
  apply put_put; auto. rewrite length_sort_nat. apply pick_length.
Qed.

Lemma exemplar_sym_on s X g : okg (length s) g -> group_cubical s g = true ->
  (exemplar_ok veqb s X g = true <-> sym_on s X g).
Proof.
  intros Hok Hc. pose proof (cubical_sizes s g Hc) as Hd. rewrite exemplar_ok_spec. split.
  - intros H i vals Hi Pm. pose proof (inb_length s i Hi) as HL.
    assert (Hok' : okg (length i) g) by (now rewrite HL).
    assert (Hj : inb s (put g vals i) = true).
    { apply (inb_put s g vals i (nth (hd 0 g) s 0)); auto.
      - rewrite <- (Permutation_length Pm). apply pick_length.
      - eapply Permutation_Forall; [exact Pm|]. now apply (pick_inb_lt s g i). }
    rewrite (H _ Hj), (H _ Hi). now rewrite sort_in_put.
  - intros H j Hj. symmetry. apply H; auto. symmetry. apply sort_nat_perm.
Qed.

(* NEW issymmetric = the spec test *)
Theorem impl_issym_new_correct s X G : (forall g, In g G -> okg (length s) g) ->
  impl_issym_new veqb s X G = spec_issym veqb s X G.
Proof.
  intros Hok. apply eq_true_iff_eq. rewrite (spec_issym_all_rearrangements s X G Hok).
  unfold impl_issym_new. rewrite forallb_forall. split.
  - intros H g Hg. specialize (H g Hg). apply andb_true_iff in H as [Hc He]. split; auto.
    now apply (exemplar_sym_on s X g (Hok g Hg) Hc).
  - intros H g Hg. destruct (H g Hg) as [Hc Hs]. apply andb_true_iff. split; auto.
    now apply (exemplar_sym_on s X g (Hok g Hg) Hc).
Qed.

End G15.

(* ------------------------------------------------------------------------------------------------ *)
(* rearrangements of values = position permutations applied to the values                            *)
(* ------------------------------------------------------------------------------------------------ *)
Lemma insert_all_map (f : nat -> nat) x l : insert_all (f x) (map f l) = map (map f) (insert_all x l).
Proof.
  induction l as [|a l IH]; cbn; auto. rewrite IH, !map_map. reflexivity.
Qed.

Lemma perms_map (f : nat -> nat) l : perms (map f l) = map (map f) (perms l).
Proof.
  induction l as [|a l IH]; cbn; auto. rewrite IH, flat_map_map, map_flat_map.
  apply flat_map_ext. intros p. apply insert_all_map.
Qed.

Lemma perms_as_picks l : perms l = map (fun sg => pick 0 sg l) (perms (seq 0 (length l))).
Proof. rewrite <- (pick_seq 0 l) at 1. unfold pick at 1. now rewrite perms_map. Qed.

Lemma perms_seq_is_perm k sg : In sg (perms (seq 0 k)) -> is_perm sg k.
Proof. intros H. unfold is_perm. symmetry. now apply perms_sound. Qed.

Lemma pick_inj_perm sg k (a b : list nat) : is_perm sg k -> length a = k -> length b = k ->
  pick 0 sg a = pick 0 sg b -> a = b.
Proof.
  intros Hp Ha Hb E. apply (nth_ext _ _ 0 0); [lia|]. intros t Ht.
  assert (Hin : In t sg) by (apply (is_perm_In sg k t Hp); lia).
  destruct (In_nth sg t 0 Hin) as (q & Hq & <-).
  rewrite <- !(nth_pick 0 sg) by exact Hq. now rewrite E.
Qed.

Lemma NoDup_map_inj_in {A B} (f : A -> B) l : NoDup l ->
  (forall x y, In x l -> In y l -> f x = f y -> x = y) -> NoDup (map f l).
Proof.
  induction 1 as [|a l Ha Hn IH]; intros Hinj; cbn; constructor.
  - intros Hin. apply in_map_iff in Hin as (y & E & Hy). apply Ha.
    rewrite (Hinj a y); auto; [now left|now right].
  - apply IH. intros x y Hx Hy. apply Hinj; now right.
Qed.

Section N15.
Variable V : Type.
Variables (v0 v1 : V) (vadd vmul vsub : V -> V -> V) (vopp vinv : V -> V) (veqb : V -> V -> bool).
Hypothesis Vring : ring_theory v0 v1 vadd vmul vsub vopp (@eq V).
Add Ring Vr15n : Vring.
Hypothesis veqb_spec : forall a b, veqb a b = true <-> a = b.
Notation "x + y" := (vadd x y).
Notation "x * y" := (vmul x y).
Notation ofn := (of_nat v0 v1 vadd).
Notation symg := (sym_group v0 v1 vadd vmul vinv).
Notation sumo := (sum_over v0 vadd).
Hypothesis char0 : forall n, n <> 0 -> ofn n <> v0.
Hypothesis vinv_l : forall x, x <> v0 -> vinv x * x = v1.

Lemma cls_in s g i j : In j (cls s g i) <-> inb s j = true /\ sort_in g j = sort_in g i.
Proof. unfold cls, same_class. now rewrite filter_In, in_allsubs, idx_eqb_spec. Qed.

Lemma same_class_shape g i j : okg (length i) g -> length j = length i -> sort_in g j = sort_in g i ->
  Permutation (pick 0 g i) (pick 0 g j) /\ j = put g (pick 0 g j) i.
Proof.
  intros Hok HL E. assert (Hokj : okg (length j) g) by (now rewrite HL).
  assert (E2 : sort_nat (pick 0 g j) = sort_nat (pick 0 g i)).
  { rewrite <- (pick_put g (sort_nat (pick 0 g j)) j Hokj) by (rewrite length_sort_nat; apply pick_length).
    rewrite <- (pick_put g (sort_nat (pick 0 g i)) i Hok) by (rewrite length_sort_nat; apply pick_length).
    unfold sort_in in E. now rewrite E. }
  split.
  - eapply perm_trans; [symmetry; apply sort_nat_perm|]. rewrite <- E2. apply sort_nat_perm.
  - apply idx_ext; [now rewrite length_put|]. intros m.
    destruct (in_dec Nat.eq_dec m g) as [Hin|Hout].
    + destruct (In_nth g m 0 Hin) as (t & Ht & <-).
      rewrite nth_put_in; auto; [|apply pick_length]. now rewrite nth_pick.
    + rewrite nth_put_out by exact Hout.
      rewrite <- (nth_put_out g (sort_nat (pick 0 g j)) j m Hout), <- (nth_put_out g (sort_nat (pick 0 g i)) i m Hout).
      unfold sort_in in E. now rewrite E.
Qed.

(* ORBIT COUNTING: the class average equals the average over all rearrangements *)
Lemma class_average s X g i : okg (length s) g -> group_cubical s g = true -> inb s i = true ->
  let c := cls s g i in sumo c X * vinv (ofn (length c)) = symg X g i.
Proof.
  intros Hok Hc Hi c. pose proof (cubical_sizes s g Hc) as Hd. set (d := nth (hd 0 g) s 0) in *.
  pose proof (inb_length s i Hi) as HL. assert (Hoki : okg (length i) g) by (now rewrite HL).
  set (k := length g). set (S := perms (seq 0 k)).
  set (phi := fun (sg : list nat) (j : idx) => put g (pick 0 sg (pick 0 g j)) j).
  (* members of the class *)
  assert (F1 : forall j, In j c -> inb s j = true /\ length j = length i /\
                Permutation (pick 0 g i) (pick 0 g j) /\ j = put g (pick 0 g j) i).
  { intros j Hj. apply cls_in in Hj as [Hjb Hjs]. pose proof (inb_length s j Hjb) as HLj.
    assert (HLji : length j = length i) by lia.
    destruct (same_class_shape g i j Hoki HLji Hjs) as [P1 P2]. auto. }
  assert (F2 : In i c) by (apply cls_in; auto).
  assert (F3 : forall j, In j c -> symg X g j = symg X g i).
  { intros j Hj. destruct (F1 j Hj) as (_ & _ & P1 & P2). rewrite P2.
    apply (sym_group_symmetric V v0 v1 vadd vmul vsub vopp vinv Vring (length i) X g Hoki); auto. }
  assert (F4 : forall j, In j c -> symg X g j = vinv (ofn (length S)) * sumo S (fun sg => X (phi sg j))).
  { intros j Hj. unfold sym_group. rewrite (perms_as_picks (pick 0 g j)), pick_length. fold k. fold S.
    rewrite map_length. f_equal. now rewrite (sum_over_map V v0 vadd). }
  assert (F5 : forall sg, In sg S -> Permutation (map (phi sg) c) c).
  { intros sg Hsg. pose proof (perms_seq_is_perm k sg Hsg) as Hp. pose proof (is_perm_length sg k Hp) as Hsl.
    apply NoDup_Permutation_bis.
    - apply NoDup_map_inj_in; [apply NoDup_filter, allsubs_NoDup|].
      intros x y Hx Hy E. destruct (F1 x Hx) as (_ & Lx & _ & _). destruct (F1 y Hy) as (_ & Ly & _ & _).
      assert (Hokx : okg (length x) g) by (now rewrite Lx). assert (Hoky : okg (length y) g) by (now rewrite Ly).
      assert (Ep : pick 0 g x = pick 0 g y).
      { apply (pick_inj_perm sg k); auto; try apply pick_length.
        rewrite <- (pick_put g (pick 0 sg (pick 0 g x)) x Hokx) by (rewrite pick_length; exact Hsl).
        rewrite <- (pick_put g (pick 0 sg (pick 0 g y)) y Hoky) by (rewrite pick_length; exact Hsl).
        unfold phi in E. now rewrite E. }
      apply idx_ext; [lia|]. intros m. destruct (in_dec Nat.eq_dec m g) as [Hin|Hout].
      + destruct (In_nth g m 0 Hin) as (t & Ht & <-). rewrite <- !(nth_pick 0 g) by exact Ht. now rewrite Ep.
      + rewrite <- (nth_put_out g (pick 0 sg (pick 0 g x)) x m Hout), <- (nth_put_out g (pick 0 sg (pick 0 g y)) y m Hout).
        unfold phi in E. now rewrite E.
    - rewrite map_length. lia.
    - intros z Hz. apply in_map_iff in Hz as (j & <- & Hj). pose proof Hj as Hj'. apply cls_in in Hj' as [Hjb Hjs].
      destruct (F1 j Hj) as (_ & Lj & _ & _). assert (Hokj : okg (length j) g) by (now rewrite Lj).
      assert (Pk : Permutation (pick 0 sg (pick 0 g j)) (pick 0 g j)) by (apply pick_Permutation; now rewrite pick_length).
      apply cls_in. split.
      + apply (inb_put s g _ j d); auto.
        * rewrite pick_length. exact Hsl.
        * eapply Permutation_Forall; [symmetry; exact Pk|]. now apply (pick_inb_lt s g j d).
      + unfold phi. rewrite sort_in_put; auto. now symmetry. }
  (* double counting *)
  assert (HS : ofn (length S) <> v0) by (apply char0, perms_nonempty).
  assert (Hcn : ofn (length c) <> v0).
  { apply char0. destruct c; [contradiction|cbn; lia]. }
  assert (E : ofn (length c) * symg X g i = sumo c X).
  { rewrite <- (sum_const V v0 v1 vadd vmul vsub vopp Vring c (symg X g i)).
    rewrite (sum_over_ext V v0 vadd c _ (fun j => vinv (ofn (length S)) * sumo S (fun sg => X (phi sg j)))).
    2:{ intros j Hj. rewrite <- (F3 j Hj). now apply F4. }
    rewrite (sum_over_scale_l V v0 v1 vadd vmul vsub vopp Vring).
    rewrite (sum_over_swap V v0 v1 vadd vmul vsub vopp Vring c S (fun j sg => X (phi sg j))).
    rewrite (sum_over_ext V v0 vadd S _ (fun _ => sumo c X)).
    2:{ intros sg Hsg. rewrite <- (sum_over_map V v0 vadd (phi sg) c X).
        apply (sum_over_perm V v0 v1 vadd vmul vsub vopp Vring). now apply F5. }
    rewrite (sum_const V v0 v1 vadd vmul vsub vopp Vring).
    transitivity ((vinv (ofn (length S)) * ofn (length S)) * sumo c X); [ring|]. rewrite (vinv_l _ HS). ring. }
  rewrite <- E. transitivity ((vinv (ofn (length c)) * ofn (length c)) * symg X g i); [ring|].
  rewrite (vinv_l _ Hcn). ring.
Qed.

(* NEW symmetrize, one group: the class-exemplar algorithm (short-cut included) computes the spec average *)
Theorem sym_new_group_correct s X g : okg (length s) g -> group_cubical s g = true ->
  forall i, inb s i = true -> sym_new_group v0 v1 vadd vmul vinv veqb s X g i = symg X g i.
Proof.
  intros Hok Hc i Hi. unfold sym_new_group. destruct (exemplar_ok veqb s X g) eqn:E.
  - symmetry. apply (sym_group_fixes V v0 v1 vadd vmul vsub vopp vinv Vring char0 vinv_l).
    intros vals Pm. apply (proj1 (exemplar_sym_on V veqb veqb_spec s X g Hok Hc) E); auto.
  - now apply class_average.
Qed.

Lemma sym_group_ext_inb s (X Y : idx -> V) g : okg (length s) g -> group_cubical s g = true ->
  (forall j, inb s j = true -> X j = Y j) -> forall i, inb s i = true -> symg X g i = symg Y g i.
Proof.
  intros Hok Hc H i Hi. unfold sym_group. f_equal. apply sum_over_ext. intros u Hu. apply H.
  pose proof (cubical_sizes s g Hc) as Hd.
  apply (inb_put s g u i (nth (hd 0 g) s 0)); auto.
  - apply perms_length in Hu. now rewrite pick_length in Hu.
  - eapply Permutation_Forall; [apply perms_sound, Hu|]. now apply (pick_inb_lt s g i).
Qed.

(* NEW symmetrize, any list of groups = the spec, at every in-bounds subscript *)
Theorem impl_sym_new_correct s G : (forall g, In g G -> okg (length s) g /\ group_cubical s g = true) ->
  forall (X : idx -> V) i, inb s i = true ->
  impl_sym_new v0 v1 vadd vmul vinv veqb s X G i = spec_sym v0 v1 vadd vmul vinv X G i.
Proof.
  intros HG X. assert (Hgen : forall Y, (forall j, inb s j = true -> X j = Y j) -> forall i, inb s i = true ->
            impl_sym_new v0 v1 vadd vmul vinv veqb s X G i = spec_sym v0 v1 vadd vmul vinv Y G i); [|now apply Hgen].
  revert X. induction G as [|g G IH]; intros X Y H i Hi; cbn; [now apply H|].
  destruct (HG g (or_introl eq_refl)) as [Hok Hc].
  apply IH; auto.
  - intros g' Hg'. apply HG. now right.
  - intros j Hj. rewrite sym_new_group_correct by auto. now apply (sym_group_ext_inb s X Y g).
Qed.

End N15.

(* ------------------------------------------------------------------------------------------------ *)
(* OLD issymmetric: X.permute(perm) == X for every rearrangement gp of every group,                  *)
(* perm = arange(n); perm[g] = gp                                                                    *)
(* ------------------------------------------------------------------------------------------------ *)
Lemma insert_all_in x y1 y2 : In (y1 ++ x :: y2) (insert_all x (y1 ++ y2)).
Proof.
  induction y1 as [|a y1 IH]; cbn.
  - destruct y2; cbn; auto.
  - right. apply in_map. exact IH.
Qed.

Lemma perms_complete l : forall y, Permutation l y -> In y (perms l).
Proof.
  induction l as [|x l IH]; intros y P.
  - apply Permutation_nil in P. subst. now left.
  - assert (Hin : In x y) by (eapply Permutation_in; [exact P|now left]).
    apply in_split in Hin as (y1 & y2 & ->). apply Permutation_cons_app_inv in P.
    cbn. apply in_flat_map. exists (y1 ++ y2). split; [now apply IH|apply insert_all_in].
Qed.

Lemma set_nth_comm l a b x y : a <> b -> set_nth (set_nth l a x) b y = set_nth (set_nth l b y) a x.
Proof.
  revert a b; induction l as [|z l IH]; intros [|a] [|b] H; cbn; auto; try congruence. f_equal. apply IH. congruence.
Qed.

Lemma put_swap_both t : forall g v i, NoDup g -> length v = length g -> put (swap_adj t g) (swap_adj t v) i = put g v i.
Proof.
  induction t as [|t IH]; intros g v i Hn HL.
  - destruct g as [|a [|b g]], v as [|x [|y v]]; cbn in HL; try lia; cbn [swap_adj put]; auto.
    rewrite set_nth_comm; auto. inversion Hn as [|? ? Ha _]; subst. intros ->. apply Ha. now left.
  - destruct g as [|a g], v as [|x v]; cbn in HL; try lia; cbn [swap_adj put]; auto.
    apply IH; [now inversion Hn|lia].
Qed.

Lemma swap_adj_len t l : length (swap_adj t l) = length l.
Proof. apply Permutation_length, swap_adj_perm. Qed.

Lemma swap_adj_invol t : forall l, swap_adj t (swap_adj t l) = l.
Proof. induction t as [|t IH]; intros [|a [|b l]]; cbn; auto; f_equal; apply IH. Qed.

Lemma okg_perm N g gp : okg N g -> Permutation g gp -> okg N gp.
Proof.
  intros [Hn Hb] P. split; [eapply Permutation_NoDup; eauto|].
  intros m Hm. apply Hb. eapply Permutation_in; [symmetry; exact P|exact Hm].
Qed.

Lemma nth_mode_perm_in N g gp t : okg N g -> length gp = length g -> t < length g ->
  nth (nth t g 0) (mode_perm N g gp) 0 = nth t gp 0.
Proof. intros Hok HL Ht. unfold mode_perm. apply nth_put_in; auto. now rewrite seq_length. Qed.

Lemma nth_mode_perm_out N g gp m : ~ In m g -> m < N -> nth m (mode_perm N g gp) 0 = m.
Proof. intros Hout Hm. unfold mode_perm. rewrite nth_put_out by exact Hout. now rewrite seq_nth. Qed.

Lemma mode_perm_okg N g gp : okg N g -> Permutation g gp -> okg N (mode_perm N g gp).
Proof.
  intros Hok P. pose proof (okg_perm N g gp Hok P) as Hokp. pose proof (Permutation_length P) as HL.
  assert (Hlen : length (mode_perm N g gp) = N) by (unfold mode_perm; now rewrite length_put, seq_length).
  assert (Hval : forall m, m < N -> (In m g /\ In (nth m (mode_perm N g gp) 0) g) \/ (~ In m g /\ nth m (mode_perm N g gp) 0 = m)).
  { intros m Hm. destruct (in_dec Nat.eq_dec m g) as [Hin|Hout].
    - left. split; auto. destruct (In_nth g m 0 Hin) as (t & Ht & <-). rewrite nth_mode_perm_in by (auto; lia).
      eapply Permutation_in; [symmetry; exact P|]. apply nth_In. lia.
    - right. split; auto. now apply nth_mode_perm_out. }
  split.
  - apply (NoDup_nth _ 0). rewrite Hlen. intros a b Ha Hb E.
    destruct (Hval a Ha) as [[Ia Ja]|[Oa Ea]], (Hval b Hb) as [[Ib Jb]|[Ob Eb]].
    + destruct (In_nth g a 0 Ia) as (t & Ht & <-). destruct (In_nth g b 0 Ib) as (t' & Ht' & <-).
      rewrite !nth_mode_perm_in in E by (auto; lia). destruct Hokp as [Hnp _].
      rewrite (proj1 (NoDup_nth gp 0) Hnp t t'); auto; lia.
    + rewrite Eb in E. rewrite <- E in Ob. contradiction.
    + rewrite Ea in E. rewrite E in Oa. contradiction.
    + congruence.
  - intros m Hm. destruct (In_nth _ m 0 Hm) as (q & Hq & <-). rewrite Hlen in Hq.
    destruct (Hval q Hq) as [[_ J]|[_ E]]; [now apply (proj2 Hok)|now rewrite E].
Qed.

(* the subscript read by X.permute(perm) at i: the values of the group positions are moved from g to gp *)
Lemma permuted_index N g gp i : okg N g -> Permutation g gp -> length i = N ->
  put (mode_perm N g gp) i i = put gp (pick 0 g i) i.
Proof.
  intros Hok P HN. pose proof (okg_perm N g gp Hok P) as Hokp. pose proof (Permutation_length P) as HL.
  pose proof (mode_perm_okg N g gp Hok P) as Hokm.
  assert (Hlen : length (mode_perm N g gp) = N) by (unfold mode_perm; now rewrite length_put, seq_length).
  apply idx_ext; [now rewrite !length_put|]. intros q.
  destruct (Nat.lt_ge_cases q N) as [Hq|Hq].
  2:{ rewrite !nth_overflow; auto; rewrite length_put; lia. }
  destruct (in_dec Nat.eq_dec q gp) as [Hin|Hout].
  - destruct (In_nth gp q 0 Hin) as (t & Ht & <-).
    rewrite (nth_put_in gp) by (rewrite ?HN, ?pick_length; auto; lia).
    rewrite nth_pick by lia.
    rewrite <- (nth_mode_perm_in N g gp t) by (auto; lia).
    rewrite (nth_put_in (mode_perm N g gp) i i (nth t g 0)); auto; [now rewrite HN|lia|].
    rewrite Hlen. apply (proj2 Hok). apply nth_In. lia.
  - assert (Houtg : ~ In q g) by (intros H; apply Hout; eapply Permutation_in; eauto).
    rewrite (nth_put_out gp) by exact Hout.
    rewrite <- (nth_mode_perm_out N g gp q Houtg Hq) at 1.
    apply (nth_put_in (mode_perm N g gp) i i q); [now rewrite HN|lia|lia].
Qed.

Section O15i.
Variable V : Type.
Variable veqb : V -> V -> bool.
Hypothesis veqb_spec : forall a b, veqb a b = true <-> a = b.

Lemma same_on_spec s (X Y : idx -> V) : same_on veqb s X Y = true <-> (forall j, inb s j = true -> X j = Y j).
Proof.
  unfold same_on. rewrite forallb_forall. split; intros H j Hj; apply veqb_spec, H; now apply in_allsubs.
Qed.

(* moving the group values from g to a rearrangement gp of g is a rearrangement of the values at g *)
Lemma moved_is_rearranged g gp i : okg (length i) g -> Permutation g gp ->
  let j := put gp (pick 0 g i) i in Permutation (pick 0 g i) (pick 0 g j) /\ j = put g (pick 0 g j) i.
Proof.
  intros Hok P j. pose proof (okg_perm _ g gp Hok P) as Hokp. pose proof (Permutation_length P) as HL.
  assert (Hj : length j = length i) by (unfold j; apply length_put).
  split.
  - rewrite <- (pick_put gp (pick 0 g i) i Hokp) at 1 by (rewrite pick_length; lia). fold j.
    unfold pick. apply Permutation_map. now symmetry.
  - apply idx_ext; [now rewrite length_put|]. intros m.
    destruct (in_dec Nat.eq_dec m g) as [Hin|Hout].
    + destruct (In_nth g m 0 Hin) as (t & Ht & <-).
      rewrite nth_put_in; auto; [|apply pick_length]. now rewrite nth_pick.
    + rewrite nth_put_out by exact Hout. unfold j. apply nth_put_out.
      intros H. apply Hout. eapply Permutation_in; [symmetry; exact P|exact H].
Qed.

(* OLD issymmetric = the spec test *)
Theorem impl_issym_old_correct s (X : idx -> V) G : (forall g, In g G -> okg (length s) g) ->
  impl_issym_old veqb s X G = spec_issym veqb s X G.
Proof.
  intros Hok. apply eq_true_iff_eq. rewrite (spec_issym_all_rearrangements V veqb veqb_spec s X G Hok).
  unfold impl_issym_old. rewrite andb_true_iff, !forallb_forall. split.
  - intros [Hc Hp] g Hg. split; [now apply Hc|].
    apply (adj_on_sym_on V s X g (Hok g Hg) (Hc g Hg)). intros i Hi t Ht.
    specialize (Hp g Hg). rewrite forallb_forall in Hp.
    assert (Hgp : In (swap_adj t g) (perms g)) by (apply perms_complete; symmetry; apply swap_adj_perm).
    specialize (Hp _ Hgp). rewrite same_on_spec in Hp. specialize (Hp i Hi). unfold permuted in Hp.
    pose proof (inb_length s i Hi) as HL.
    rewrite (permuted_index (length s) g (swap_adj t g) i (Hok g Hg)) in Hp; auto; [|symmetry; apply swap_adj_perm].
    rewrite <- (swap_adj_invol t (pick 0 g i)) in Hp at 1.
    rewrite put_swap_both in Hp; [now symmetry|apply (Hok g Hg)|rewrite swap_adj_len; apply pick_length].
  - intros H. split; [intros g Hg; now apply H|]. intros g Hg. destruct (H g Hg) as [Hc Hs].
    rewrite forallb_forall. intros gp Hgp. apply same_on_spec. intros i Hi. unfold permuted.
    pose proof (inb_length s i Hi) as HL. pose proof (perms_sound g gp Hgp) as P.
    rewrite (permuted_index (length s) g gp i (Hok g Hg) P HL).
    assert (Hoki : okg (length i) g) by (rewrite HL; now apply Hok).
    destruct (moved_is_rearranged g gp i Hoki P) as [P1 P2]. rewrite P2. symmetry. now apply Hs.
Qed.
End O15i.
