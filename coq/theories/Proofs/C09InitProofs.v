(* Proofs/C09InitProofs.v — init='random' over a captured stream (Model/C09Init.v): closed form of every entry of the start, its
   shape, and exact consumption of the stream (mode order 0..N-1, row-major inside a factor, nothing skipped or reused), for all
   shapes, ranks and streams; independent of dimorder / optdims by construction (they are not arguments). *)
From Coq Require Import List Arith Lia.
From PV Require Import Base.Index Model.Repr Model.C09Init.
Import ListNotations.

Section InitProofs.
Variable V : Type.
Variables (v0 v1 : V).
Local Notation mg := (mget v0).

Lemma nth_firstn_lt (l : list V) : forall m k, k < m -> nth k (firstn m l) v0 = nth k l v0.
Proof.
  induction l as [|x l IH]; intros m k H; [now rewrite firstn_nil|].
  destruct m as [|m]; [lia|]. destruct k as [|k]; cbn [firstn nth]; auto. apply IH. lia.
Qed.

Lemma nth_skipn_add (l : list V) : forall m k, nth k (skipn m l) v0 = nth (m + k) l v0.
Proof.
  induction l as [|x l IH]; intros m k.
  - rewrite skipn_nil. destruct k, m; reflexivity.
  - destruct m as [|m]; [reflexivity|]. cbn [skipn Nat.add nth]. apply IH.
Qed.

Lemma skipn_skipn_add (l : list V) : forall b a, skipn a (skipn b l) = skipn (b + a) l.
Proof.
  induction l as [|x l IH]; intros b a; [now rewrite !skipn_nil|].
  destruct b as [|b]; [reflexivity|]. cbn [skipn Nat.add]. apply IH.
Qed.

Lemma chunks_length R : forall d (l : list V), length (chunks R d l) = d.
Proof. induction d as [|d IH]; intros l; cbn [chunks length]; auto. Qed.

Lemma chunks_entry R : forall d (l : list V) j r, j < d -> r < R ->
  nth r (nth j (chunks R d l) []) v0 = nth (j * R + r) l v0.
Proof.
  induction d as [|d IH]; intros l j r Hj Hr; [lia|].
  destruct j as [|j]; cbn [chunks nth].
  - now rewrite nth_firstn_lt.
  - rewrite IH by lia. rewrite nth_skipn_add. f_equal. cbn [Nat.mul]. lia.
Qed.

Lemma chunks_rows R : forall d (l : list V), d * R <= length l -> Forall (fun row => length row = R) (chunks R d l).
Proof.
  induction d as [|d IH]; intros l H; cbn [chunks]; constructor.
  - rewrite firstn_length. cbn [Nat.mul] in H. lia.
  - apply IH. rewrite skipn_length. cbn [Nat.mul] in H. lia.
Qed.

Lemma chunks_concat R : forall d (l : list V), d * R <= length l -> concat (chunks R d l) = firstn (d * R) l.
Proof.
  induction d as [|d IH]; intros l H; cbn [chunks concat]; [reflexivity|].
  cbn [Nat.mul] in *. rewrite IH by (rewrite skipn_length; lia).
  rewrite <- (firstn_skipn R l) at 3. rewrite firstn_app, firstn_firstn, firstn_length.
  replace (Nat.min (R + d * R) R) with R by lia. replace (R + d * R - Nat.min R (length l)) with (d * R) by lia.
  reflexivity.
Qed.

(* numbers drawn before mode n: R * (I_0 + ... + I_{n-1}) *)
Definition offset (s : shape) (R n : nat) : nat := list_sum (firstn n s) * R.

(* closed form: entry (j, r) of the mode-n factor is number  offset(n) + j*R + r  of the stream — every shape, rank, stream *)
Theorem draw_entry R : forall (s : shape) (stream : list V) n j r, n < length s -> j < nth n s 0 -> r < R ->
  mg (nth n (fst (draw_factors s R stream)) []) j r = nth (offset s R n + j * R + r) stream v0.
Proof.
  unfold mget, offset. induction s as [|d s IH]; intros stream n j r Hn Hj Hr; cbn in Hn; [lia|].
  destruct n as [|n]; cbn [draw_factors fst nth firstn list_sum].
  - cbn [nth] in Hj. rewrite chunks_entry by auto. rewrite nth_firstn_lt by nia. reflexivity.
  - cbn [nth] in Hj. rewrite IH by (auto; lia). rewrite nth_skipn_add. f_equal. change (list_sum (d :: firstn n s)) with (d + list_sum (firstn n s)). rewrite Nat.mul_add_distr_r. lia.
Qed.

Theorem draw_shape R : forall (s : shape) (stream : list V), list_sum s * R <= length stream ->
  map (@nrows V) (fst (draw_factors s R stream)) = s /\
  Forall (fun A => Forall (fun row => length row = R) A) (fst (draw_factors s R stream)).
Proof.
  induction s as [|d s IH]; intros stream H; cbn [draw_factors fst map]; [split; [reflexivity|constructor]|].
  change (list_sum (d :: s)) with (d + list_sum s) in H.
  destruct (IH (skipn (d * R) stream)) as [I1 I2]; [rewrite skipn_length; nia|].
  split.
  - rewrite I1. unfold nrows. now rewrite chunks_length.
  - constructor; [|exact I2]. apply chunks_rows. rewrite firstn_length. nia.
Qed.

(* exact consumption: the factors, flattened row-major and concatenated in mode order, are the first R * sum(shape) numbers of the
   stream; the generator is left at the next number *)
Theorem draw_consumes R : forall (s : shape) (stream : list V), list_sum s * R <= length stream ->
  concat (map (@concat V) (fst (draw_factors s R stream))) = firstn (list_sum s * R) stream /\
  snd (draw_factors s R stream) = skipn (list_sum s * R) stream.
Proof.
  induction s as [|d s IH]; intros stream H; cbn [draw_factors fst snd map concat]; [split; reflexivity|]. change (list_sum (d :: s)) with (d + list_sum s).
  change (list_sum (d :: s)) with (d + list_sum s) in H.
  destruct (IH (skipn (d * R) stream)) as [I1 I2]; [rewrite skipn_length; nia|].
  split.
  - rewrite I1. rewrite chunks_concat by (rewrite firstn_length; nia). rewrite firstn_firstn. replace (Nat.min (d * R) (d * R)) with (d * R) by lia.
    rewrite <- (firstn_skipn (d * R) stream) at 3. rewrite firstn_app, firstn_firstn, firstn_length.
    replace (Nat.min ((d + list_sum s) * R) (d * R)) with (d * R) by nia.
    replace ((d + list_sum s) * R - Nat.min (d * R) (length stream)) with (list_sum s * R) by nia.
    reflexivity.
  - rewrite I2. rewrite skipn_skipn_add. f_equal. nia.
Qed.

Theorem init_random_shape R (s : shape) (stream : list V) : list_sum s * R <= length stream ->
  krank (init_random v1 s R stream) = R /\ kshape (init_random v1 s R stream) = s /\ kweights (init_random v1 s R stream) = repeat v1 R.
Proof.
  intros H. unfold init_random, krank, kshape. cbn [kweights kfactors]. rewrite repeat_length.
  split; [reflexivity|]. split; [exact (proj1 (draw_shape R s stream H))|reflexivity].
Qed.

End InitProofs.
