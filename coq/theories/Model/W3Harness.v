(* Model/W3Harness.v — boolean comparers used by the generated correspondence cases of tools/props/w3gen.py
   (results of the functions of Gen/GenUtils3.v and of the Np/NpZ3.v primitives). *)
From Coq Require Import List ZArith Bool.
From PV Require Import Np.NpZ Np.NpZ2 Np.NpZ3 Model.Harness Gen.GenUtils3.
Import ListNotations.
Local Open Scope Z_scope.

Definition matlist_eqb : list mat -> list mat -> bool := list_eqb mat_eqb.

Definition ivar_eqb (a b : IndexVariant) : bool :=
  match a, b with
  | UNKNOWN, UNKNOWN | LINEAR, LINEAR | SUBTENSOR, SUBTENSOR | SUBSCRIPTS, SUBSCRIPTS => true
  | _, _ => false
  end.

Definition kt_eqb (a b : ktz) : bool := vec_eqb (kt_weights a) (kt_weights b) && matlist_eqb (kt_factors a) (kt_factors b).

(* shape and dtype kind of an array (np.array(key) is only modelled that far) *)
Definition kind_eqb (a b : dkind) : bool :=
  match a, b with DInt, DInt | DFloat, DFloat | DBool, DBool => true | _, _ => false end.
Definition nd_shape_kind_eqb (a : ndarr) (shp : vec) (k : dkind) : bool := vec_eqb (nd_shape a) shp && kind_eqb (nd_kind a) k.

(* whole arrays: shape, kind and entries (np.array(<list>) is modelled with its C-order entries) *)
Definition num_eqb (a b : npnum) : bool :=
  match a, b with
  | NFin x, NFin y => x =? y
  | NPosInf, NPosInf | NNegInf, NNegInf | NNan, NNan => true
  | _, _ => false
  end.
Definition nd_eqb (a b : ndarr) : bool :=
  vec_eqb (nd_shape a) (nd_shape b) && kind_eqb (nd_kind a) (nd_kind b) && list_eqb num_eqb (nd_data a) (nd_data b).
