(* Props/C15w5.v — wave 5: ktensor.symmetrize END TO END on the code AS WRITTEN.  Only statements closed by [exact] + Print
   Assumptions.  Layers (each proved equal to the next):
     k_symmetrize_code  (Model/C15KLoop.v: cubical assertion -> KErr; K.normalize("all"); the alignment loop with its in-place
                         column flips fmi[:, [j]] = -fmi[:, [j]] and weight toggles, the test read from the CURRENT state;
                         V = V + fmi; V / N; the odd-order repair loop; N copies of V)
     k15_core           (Model/C15K.v: the closed form of the body — the object of the wave-3 theorems C15_ksym_...)
   and K.normalize("all") = C08's loops py_normalize (Proofs/C08Loop2.v) = C08's model k_normalize. *)
From Coq Require Import List Arith Bool Permutation Ring.
From PV Require Import Base.Index Base.Perm Base.Sum Np.Array Model.Repr Model.C08Kruskal Model.C15Sym Model.C15K Model.C15KLoop
  Model.C15KSym Proofs.C08Loop2 Proofs.C15KLoop Proofs.C15KProp.
Import ListNotations.

Section C15w5.
Variable V : Type.
Variables (v0 v1 : V) (vadd vmul vsub : V -> V -> V) (vopp vinv : V -> V).
Hypothesis Vring : ring_theory v0 v1 vadd vmul vsub vopp (@eq V).
Variables (nrm : list V -> V) (pos neg : V -> bool) (root : V -> V) (srt : list V -> list nat).

(* the body as written (two nested loops with in-place updates, accumulation, division, odd-order loop) returns the closed form
   as a Kruskal tensor — weights and every stored entry — for every input whose factors are all m x R with R weights; every
   commutative ring, every oracle for "x < 0" *)
Theorem C15_ksym_loop : forall (K1 : ktensor V) m, (forall A, In A (kfactors K1) -> wfm V m (krank K1) A) ->
  k15_loop v0 v1 vadd vmul vopp vinv neg K1 = k15_core v0 v1 vadd vmul vopp vinv neg K1.
Proof. exact (k15_loop_is_core V v0 v1 vadd vmul vsub vopp vinv neg Vring). Qed.

(* a Kruskal tensor whose factors do not all have the same number of rows is refused (AssertionError), whatever the values *)
Theorem C15_ksym_code_refuses : forall nz (K : ktensor V), cubical_shape (kshape K) = false ->
  k_symmetrize_code v0 v1 vadd vmul vopp vinv neg nz K = KErr.
Proof. exact (ksym_code_refuses V v0 v1 vadd vmul vopp vinv neg). Qed.

(* the whole method as written — loops of normalize("all") (C08's py_normalize), loops of the body — on every well-formed
   cubical Kruskal tensor: answers, and the answer is the closed-form body applied to C08's normalize model *)
Theorem C15_ksym_code_is_model : forall K : ktensor V, wf_k K -> cubical_shape (kshape K) = true ->
  k_symmetrize_code v0 v1 vadd vmul vopp vinv neg (py_normalize V v0 v1 vmul vopp vinv nrm pos neg root srt WAll false None) K =
  KOk (k15_core v0 v1 vadd vmul vopp vinv neg (k_normalize v0 v1 vmul vopp vinv nrm pos neg root srt WAll false None K)).
Proof. exact (ksym_code_is_model V v0 v1 vadd vmul vsub vopp vinv Vring nrm pos neg root srt). Qed.

(* "symmetrising a Kruskal tensor returns a Kruskal tensor that is symmetric in all modes": whatever the normalisation step nz
   returns, an answer of the method consists of N copies of one matrix and denotes an array invariant under every
   rearrangement of the subscripts *)
Theorem C15_ksym_code_symmetric : forall nz (K Sy : ktensor V), kfactors (nz K) <> [] ->
  k_symmetrize_code v0 v1 vadd vmul vopp vinv neg nz K = KOk Sy ->
  (exists w M, Sy = mkK w (repeat M (length (kfactors (nz K))))) /\
  forall i i', Permutation i i' -> den_k v0 v1 vadd vmul Sy i = den_k v0 v1 vadd vmul Sy i'.
Proof. exact (ksym_code_symmetric V v0 v1 vadd vmul vsub vopp vinv Vring neg). Qed.

(* "the result passes the symmetry test" (ktensor.issymmetric as transliterated in Model/C15KSym.v) *)
Theorem C15_ksym_code_passes_test : forall (veqb : V -> V -> bool), (forall a b, veqb a b = true <-> a = b) ->
  forall nz (K Sy : ktensor V), kfactors (nz K) <> [] ->
  k_symmetrize_code v0 v1 vadd vmul vopp vinv neg nz K = KOk Sy -> k_issym veqb Sy = true.
Proof. exact (ksym_code_passes_test V v0 v1 vadd vmul vsub vopp vinv Vring neg). Qed.

(* "an already symmetric tensor keeps its value", end to end on the code as written: identical factors A (rows of length R,
   R weights of either sign, any size), any order N = S n: the method answers and the answer denotes the same array.
   Oracles: C08's for normalize (inverse, norm positive on non-zero columns, N-th root on non-negative values, sort
   permutation, sign test) and: a sum of squares is not negative and vanishes only termwise *)
Hypothesis vinv_r : forall x, x <> v0 -> vmul x (vinv x) = v1.
Hypothesis vinv_l : forall x, x <> v0 -> vmul (vinv x) x = v1.
Hypothesis char0 : forall n, n <> 0 -> of_nat v0 v1 vadd n <> v0.
Hypothesis pos_nz : forall x, pos x = true -> x <> v0.
Hypothesis nrm_pos : forall l, pos (nrm l) = false -> Forall (fun y => y = v0) l.
Hypothesis srt_perm : forall l, is_perm (srt l) (length l).
Hypothesis neg_opp : forall x, neg x = true -> neg (vopp x) = false.
Hypothesis neg_sq : forall (h : nat -> V) n, neg (sum_n v0 vadd n (fun x => vmul (h x) (h x))) = false.
Hypothesis neg_opp_sq : forall (h : nat -> V) n, neg (vopp (sum_n v0 vadd n (fun x => vmul (h x) (h x)))) = false ->
  forall x, x < n -> h x = v0.

Theorem C15_ksym_code_identical_input_keeps : forall (w : list V) (A : list (list V)) n,
  Forall (fun row => length row = length w) A ->
  (forall x, neg x = false -> vpow v1 vmul (root x) (S n) = x) ->
  exists Sy,
    k_symmetrize_code v0 v1 vadd vmul vopp vinv neg (py_normalize V v0 v1 vmul vopp vinv nrm pos neg root srt WAll false None)
      (mkK w (repeat A (S n))) = KOk Sy /\
    forall i, den_k v0 v1 vadd vmul Sy i = den_k v0 v1 vadd vmul (mkK w (repeat A (S n))) i.
Proof. exact (ksym_code_identical_input_keeps V v0 v1 vadd vmul vsub vopp vinv Vring nrm pos neg root srt vinv_r vinv_l char0 pos_nz nrm_pos srt_perm neg_opp neg_sq neg_opp_sq). Qed.

(* ---- factors with PROPORTIONAL columns (factor k = B . diag(c_k), every scalar non-zero: identical factors, factors stored with
   scrambled column signs and scalings — the dense value is symmetric, the stored factors are not).  One more oracle
   hypothesis: the norm is absolutely homogeneous, nrm (c . l) = nrm l * c or nrm l * (-c) ---- *)
Hypothesis nrm_homog : forall c l, nrm (map (fun a => vmul a c) l) = vmul (nrm l) c \/ nrm (map (fun a => vmul a c) l) = vmul (nrm l) (vopp c).

(* normalize("all") (C08's model) turns such a tensor into one whose factors are, column by column, ONE matrix up to a sign:
   the hypothesis of C15_ksym_keeps is a theorem for this class (correspondence-only until wave 4) *)
Theorem C15_ksym_normalize_signed_copies : forall (w : list V) (B : list (list V)) (cv0 : list V) (cs' : list (list V)),
  (forall cv, In cv (cv0 :: cs') -> forall r, r < length w -> nth r cv v0 <> v0) ->
  exists Bref, forall A,
    In A (kfactors (k_normalize v0 v1 vmul vopp vinv nrm pos neg root srt WAll false None
                      (mkK w (map (fun cv => scale_cols vmul cv B) (cv0 :: cs'))))) ->
    signed_copy v0 v1 vmul vopp Bref (length B) (length w) A.
Proof. exact (normalize_all_signed_copies V v0 v1 vadd vmul vsub vopp vinv Vring nrm pos neg root srt vinv_r vinv_l char0 pos_nz nrm_pos nrm_homog). Qed.

(* "an already symmetric tensor keeps its value": symmetrize (closed-form body after normalize("all")) keeps the value of every
   Kruskal tensor with proportional columns — all orders N >= 1, sizes, ranks, weights and scalars of either sign *)
Theorem C15_ksym_proportional_keeps : forall (w : list V) (B : list (list V)) (cv0 : list V) (cs' : list (list V)),
  (forall cv, In cv (cv0 :: cs') -> forall r, r < length w -> nth r cv v0 <> v0) ->
  (forall x, neg x = false -> vpow v1 vmul (root x) (length (cv0 :: cs')) = x) ->
  forall i,
  den_k v0 v1 vadd vmul (k15_core v0 v1 vadd vmul vopp vinv neg
     (k_normalize v0 v1 vmul vopp vinv nrm pos neg root srt WAll false None
        (mkK w (map (fun cv => scale_cols vmul cv B) (cv0 :: cs'))))) i =
  den_k v0 v1 vadd vmul (mkK w (map (fun cv => scale_cols vmul cv B) (cv0 :: cs'))) i.
Proof. exact (ksymmetrize_proportional_keeps V v0 v1 vadd vmul vsub vopp vinv Vring nrm pos neg root srt vinv_r vinv_l char0 pos_nz nrm_pos nrm_homog srt_perm neg_opp neg_sq neg_opp_sq). Qed.

(* the same on the code as written (loops of normalize, loops of the body): the method answers and keeps the value *)
Theorem C15_ksym_code_proportional_keeps : forall (w : list V) (B : list (list V)) (cv0 : list V) (cs' : list (list V)),
  (forall cv, In cv (cv0 :: cs') -> forall r, r < length w -> nth r cv v0 <> v0) ->
  (forall x, neg x = false -> vpow v1 vmul (root x) (length (cv0 :: cs')) = x) ->
  Forall (fun row => length row = length w) B -> (forall cv, In cv (cv0 :: cs') -> length cv = length w) ->
  exists Sy,
    k_symmetrize_code v0 v1 vadd vmul vopp vinv neg (py_normalize V v0 v1 vmul vopp vinv nrm pos neg root srt WAll false None)
      (mkK w (map (fun cv => scale_cols vmul cv B) (cv0 :: cs'))) = KOk Sy /\
    forall i, den_k v0 v1 vadd vmul Sy i = den_k v0 v1 vadd vmul (mkK w (map (fun cv => scale_cols vmul cv B) (cv0 :: cs'))) i.
Proof. exact (ksym_code_proportional_keeps V v0 v1 vadd vmul vsub vopp vinv Vring nrm pos neg root srt vinv_r vinv_l char0 pos_nz nrm_pos nrm_homog srt_perm neg_opp neg_sq neg_opp_sq). Qed.
End C15w5.

Print Assumptions C15_ksym_loop.
Print Assumptions C15_ksym_code_refuses.
Print Assumptions C15_ksym_code_is_model.
Print Assumptions C15_ksym_code_symmetric.
Print Assumptions C15_ksym_code_passes_test.
Print Assumptions C15_ksym_code_identical_input_keeps.
Print Assumptions C15_ksym_normalize_signed_copies.
Print Assumptions C15_ksym_proportional_keeps.
Print Assumptions C15_ksym_code_proportional_keeps.

(* non-vacuity: the loops executed over Qc on a 2 x 2 x 2 rank-2 tensor with scrambled column signs and a negative weight
   (odd order: alignment flips, weight toggles and the odd-order repair all act) give the closed form entry by entry, three
   identical factors and the same array; a 2 x 3 x 2 shape and a (1, 2)-shaped Kruskal tensor are refused *)
From Coq Require Import QArith Qcanon.
From PV Require Import Model.Harness Model.C08Inst Model.C15Inst Model.C15KLoopInst Proofs.C15W4.
Local Open Scope nat_scope.
Example C15_example_kloop :
  q_k15_loop_matches exK (q_k15_core exK) = true /\
  q_mats_identical (kfactors (q_k15_loop exK)) = true /\ qk_den_eqb [2; 2; 2] exK (q_k15_loop exK) = true /\
  k_code_refuses [2; 3; 2] = true /\ k_code_refuses [2; 2; 2] = false /\
  k_symmetrize_code q0 q1 Qcplus Qcmult Qcopp Qcinv q_neg15 (fun K => K) (mkK [q1] [[[q1]]; [[q1]; [q1]]]) = KErr.
Proof. exact s15_example_kloop. Qed.
