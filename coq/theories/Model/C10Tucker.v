(* Model/C10Tucker.v — executable model pieces for hosvd / tucker_als (pyttb/hosvd.py, pyttb/tucker_als.py,
   tensor.ttm): value-generic definitions only (no proofs).
   * rank rule of hosvd.py:113-116 + column slice of hosvd.py:128 (transliteration of the code after the A-32 repair)
   * mode-n product (ttm) on dense arrays, matrix transpose, Gram of the mode-n unfolding
   * Tucker reconstruction through the shared denotation den_t *)
From Coq Require Import List Arith Lia Bool.
From PV Require Import Base.Index Base.Sum Np.Array Model.Sparse Model.Repr.
Import ListNotations.

(* ---------------------------------------------------------------------------------------- *)
(* hosvd rank rule                                                                            *)
(* ---------------------------------------------------------------------------------------- *)
Section RankRule.
Context {V : Type} (v0 : V) (vadd : V -> V -> V) (vltb : V -> V -> bool).

(* np.cumsum *)
Fixpoint cumsum_from (acc : V) (l : list V) : list V :=
  match l with [] => [] | x :: l' => let a := vadd acc x in a :: cumsum_from a l' end.
Definition np_cumsum (l : list V) : list V := cumsum_from v0 l.
(* eigsum = np.cumsum(eigvec[::-1])[::-1] *)
Definition eigsum (eig : list V) : list V := rev (np_cumsum (rev eig)).
(* np.where(l > t)[0] *)
Definition where_gt (l : list V) (t : V) : list nat :=
  filter (fun i => vltb t (nth i l v0)) (seq 0 (length l)).
(* [...][-1]  (None = IndexError) *)
Definition last_opt (l : list nat) : option nat := match rev l with [] => None | x :: _ => Some x end.
(* index of the last reverse-cumulative sum that exceeds the threshold: np.where(eigsum > eigsumthresh)[0][-1] *)
Definition last_above (eig : list V) (t : V) : option nat := last_opt (where_gt (eigsum eig) t).
(* the value hosvd stores in ranks[k] when it was 0 (hosvd.py:116): that index + 1 = the NUMBER of columns kept *)
Definition auto_rank (eig : list V) (t : V) : option nat :=
  match last_above eig t with Some k => Some (k + 1) | None => None end.
(* pi[0 : ranks[k]]  — hosvd.py:128 *)
Definition keep_cols {A} (rk : nat) (p : list A) : list A := firstn rk p.

(* number of columns of factor k: as coded (user rank 0 = automatic), and as the property demands *)
Definition ncols_impl (user_rank : nat) (eig : list V) (t : V) : option nat :=
  match user_rank with
  | O => match auto_rank eig t with Some r => Some (length (keep_cols r eig)) | None => None end
  | _ => Some (length (keep_cols user_rank eig))
  end.
Definition ncols_spec (user_rank : nat) (eig : list V) (t : V) : option nat :=
  match user_rank with
  | O => auto_rank eig t
  | _ => Some user_rank
  end.
End RankRule.

(* ---------------------------------------------------------------------------------------- *)
(* matrices and mode-n products                                                               *)
(* ---------------------------------------------------------------------------------------- *)
Section Lin.
Context {V : Type} (v0 v1 : V) (vadd vmul vsub : V -> V -> V).

Definition set_nth (n a : nat) (i : list nat) : list nat := firstn n i ++ a :: skipn (S n) i.

Definition mtrans (A : matrix (V:=V)) (m n : nat) : matrix (V:=V) :=
  map (fun j => map (fun i => mget v0 A i j) (seq 0 m)) (seq 0 n).

(* (X x_n M)(i) = sum_a M[i_n, a] * X(i[n := a]);  M has one row per NEW index of mode n *)
Definition ttm_den (X : idx -> V) (In n : nat) (M : matrix (V:=V)) (i : idx) : V :=
  sum_n v0 vadd In (fun a => vmul (mget v0 M (nth n i 0) a) (X (set_nth n a i))).
Definition ttm (X : dense V) (n : nat) (M : matrix (V:=V)) : dense V :=
  tabulate (set_nth n (nrows M) (dshape X)) (ttm_den (den_dense v0 X) (nth n (dshape X) 0) n M).

(* X x_0 Ms[0] x_1 Ms[1] ...  (modes in natural order starting at n) *)
Fixpoint ttm_from (X : dense V) (n : nat) (Ms : list (matrix (V:=V))) : dense V :=
  match Ms with [] => X | M :: Ms' => ttm_from (ttm X n M) (S n) Ms' end.
Definition ttm_all (X : dense V) (Ms : list (matrix (V:=V))) : dense V := ttm_from X 0 Ms.
(* X x_k Ms[k] for the modes k listed in [order] (hosvd's sequential shrink in dimorder) *)
Fixpoint ttm_order (X : dense V) (order : list nat) (Ms : list (matrix (V:=V))) : dense V :=
  match order with [] => X | k :: o' => ttm_order (ttm X k (nth k Ms [])) o' Ms end.

(* factors transposed: U_n (I_n x r_n) -> U_n^T (r_n x I_n) *)
Definition transposed (Us : list (matrix (V:=V))) : list (matrix (V:=V)) :=
  map (fun U => mtrans U (nrows U) (ncols U)) Us.

(* Gram matrix of the mode-n unfolding of a denotation: G[a,b] = sum_{i : rest} X(i[n:=a]) X(i[n:=b]);
   the sum runs over all subscripts of the shape with mode n collapsed to size 1 *)
Definition gram_den (s : shape) (X : idx -> V) (n : nat) (a b : nat) : V :=
  sum_over v0 vadd (allsubs (set_nth n 1 s)) (fun i => vmul (X (set_nth n a i)) (X (set_nth n b i))).
Definition gram (X : dense V) (n : nat) : matrix (V:=V) :=
  let d := nth n (dshape X) 0 in
  map (fun a => map (fun b => gram_den (dshape X) (den_dense v0 X) n a b) (seq 0 d)) (seq 0 d).

(* matrix product, A (m x k) * B (k x n) given k *)
Definition mmul (A B : matrix (V:=V)) (k n : nat) : matrix (V:=V) :=
  map (fun row => map (fun j => sum_n v0 vadd k (fun l => vmul (nth l row v0) (mget v0 B l j))) (seq 0 n)) A.
(* U^T U for U : m x r *)
Definition gram_cols (U : matrix (V:=V)) (r : nat) : matrix (V:=V) :=
  map (fun j => map (fun k => sum_over v0 vadd U (fun row => vmul (nth j row v0) (nth k row v0))) (seq 0 r)) (seq 0 r).

Definition sumsq (l : list V) : V := sum_over v0 vadd l (fun x => vmul x x).
Definition dense_sub (A B : dense V) : list V := map (fun p => vsub (fst p) (snd p)) (combine (ddata A) (ddata B)).

(* Tucker reconstruction (ttensor.full) through the shared denotation *)
Definition tfull (T : ttensor V) : dense V := tabulate (tshape T) (den_t v0 v1 vadd vmul T).
(* ... and as the code computes it: core x_n U_n *)
Definition tfull_ttm (T : ttensor V) : dense V := ttm_all (tcore T) (tfactors T).
End Lin.
