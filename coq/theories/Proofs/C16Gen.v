(* Proofs/C16Gen.v — export_size over the translator-GENERATED pyttb_utils.parse_shape (Gen/GenUtils3b.v, regenerated from
   /repo on every run).  export_data calls export_size(fp, data.shape) for dense and Kruskal tensors, for every factor matrix
   and for np.ndarrays:
       shape = parse_shape(shape); print(len(shape)); print(" ".join(str(d) for d in shape))
   [export_size_gen] is that function with the generated parse_shape inside; on the tuple of Python ints that `.shape` is, it
   writes exactly the two lines [size_lines] of the hand model (Model/C16IO.v) — so an edit of parse_shape in /repo that
   changes what a shape tuple is parsed to breaks this proof. *)
From Coq Require Import String.
From Coq Require Import List Arith ZArith Lia Bool.
From PV Require Import Np.NpZ Np.NpZ2 Np.NpZ3 Np.NpZ3b Gen.GenUtils3b Proofs.W3ShapeArgs Base.Index Model.C16IO.
Import ListNotations.

Section S.
Variable T : Type.

Definition export_size_gen (shp : pyshp) : option (list (list (token T))) :=
  match parse_shape shp with
  | Ok l => Some [[Int (Z.of_nat (length l))]; map (@Int T) l]
  | Err => None
  end.

(* `.shape` of a tensor / ktensor / ndarray: a tuple of (non-negative) Python ints *)
Definition shape_tuple (s : shape) : pyshp := STuple (ints (map Z.of_nat s)).

Theorem export_size_tuple (s : shape) : export_size_gen (shape_tuple s) = Some (size_lines T s).
Proof.
  unfold export_size_gen, shape_tuple. rewrite (proj1 (parse_shape_ints (map Z.of_nat s))).
  unfold size_lines, zn. now rewrite map_length, map_map.
Qed.

(* the object without modes: the empty tuple gives the order line 0 and an EMPTY sizes line *)
Example export_size_order0 : export_size_gen (shape_tuple []) = Some [[Int 0%Z]; []].
Proof. apply export_size_tuple. Qed.
Example export_size_2x3 : export_size_gen (shape_tuple [2; 3]) = Some [[Int 2%Z]; [Int 2%Z; Int 3%Z]].
Proof. apply export_size_tuple. Qed.
End S.
