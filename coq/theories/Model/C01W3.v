(* Model/C01W3.v — third wave: the conversions that were correspondence-only, transliterated.
   * sptenmat(subs, vals, rdims, cdims, tshape, copy=False) (pyttb/sptenmat.py): the argument checks run, the arguments are
     stored UNCHANGED (no unique / accumulate / nonzero step; empty vals give empty subs);
   * tenmat(..., copy=False): same checks and same stored matrix as copy=True (Model/C01Unique.v tm_ctor) — `tm_ctor_nocopy`;
   * ktensor.full with the rank-0 branch of /repo d9f07bf (ktensor_full_code);
   * tensor.double(): the data array; ktensor.double / ttensor.double / sumtensor.double = full().double();
   * ktensor.to_tenmat = full().to_tenmat(rdims, cdims, cdims_cyclic);
   * ttensor.full() with a SPARSE core: `core.ttm(factor_matrices)` = sptensor.ttm in mode 0 (to_sptenmat(rdims=[0], "t"),
     scipy coo `.dot(U.T)` — a dense ndarray —, sptenmat.from_array(Z, rdims, cdims, newshape).to_sptensor().to_tensor()),
     then tensor.ttm (Model/C01Ttm.v ttm_all_impl) for modes 1..N-1.
   Definitions only; proofs in Proofs/C01W3.v. *)
From Coq Require Import List Arith Lia Bool.
From PV Require Import Base.Index Base.Perm Base.Sum Np.Array Model.Sparse Model.Repr Model.C07Ops Model.C01Conv Model.C01Unique
  Model.C01Coo Model.C02Spec Model.C02Dense Model.C01Ttm.
Import ListNotations.

Section W3.
Context {V : Type} (v0 v1 : V) (vadd vmul : V -> V -> V) (isz : V -> bool).

(* ---------------------------------------------------------------- constructors with copy=False *)
Definition stm_ctor_nocopy (subs : list idx) (vals : list V) (rd cd : option (list nat)) (ts : shape) : option (sptenmat V) :=
  match rd, cd with
  | None, None => None                          (* subs / vals given without rdims and cdims: assertion *)
  | _, _ =>
      match gather_wrap_dims (length ts) rd cd None with
      | None => None
      | Some (r, c) =>
          if negb (is_permb (r ++ c) (length ts)) then None
          else if negb (forallb (fun rc => nth 0 rc 0 <? size (pick 0 r ts)) subs) then None
          else if negb (forallb (fun rc => nth 1 rc 0 <? size (pick 0 c ts)) subs) then None
          else Some (match vals with [] => mkSTM [] [] r c ts | _ => mkSTM subs vals r c ts end)
      end
  end.

Definition tm_ctor_nocopy (data : option (dense V)) (rd cd : option (list nat)) (ts : option shape) : ctor_res (tenmat V) :=
  tm_ctor data rd cd ts.

(* ---------------------------------------------------------------- double() aliases, ktensor.to_tenmat *)
(* ktensor.full as the code is since /repo d9f07bf (fourth wave): `if self.ncomponents == 0: return tensor(zeros(shape))`
   comes first (khatrirao cannot infer its row count from matrices without columns), then the single-mode branch and the
   min_split_dims route of Model/C01Conv.v ktensor_full_impl *)
Definition dense_zeros (s : shape) : dense V := mkDense s (repeat v0 (size s)).
Definition ktensor_full_code (K : ktensor V) : option (dense V) :=
  if krank K =? 0 then Some (dense_zeros (kshape K)) else ktensor_full_impl v0 vadd vmul K.

Definition dense_double (T : dense V) : dense V := T.                (* tensor.double(): self.data (copied) *)
Definition ktensor_double (K : ktensor V) : option (dense V) := option_map dense_double (ktensor_full_code K).
Definition ttensor_double (T : ttensor V) : dense V := dense_double (ttensor_full_impl v0 vadd vmul T).
Definition sum_double (parts : list (part V)) : option (dense V) := option_map dense_double (sum_full v0 v1 vadd vmul parts).

Definition ktensor_to_tenmat (K : ktensor V) (rd cd : option (list nat)) (cy : option cyc) : option (tenmat V) :=
  match ktensor_full_code K with
  | Some D => to_tenmat_req v0 D rd cd cy
  | None => None
  end.

(* ---------------------------------------------------------------- sptensor.ttm (one mode) and the sparse-core Tucker route *)
(* Z = X @ U.T for X an R x I matrix (F-order dense) and U a J x I matrix: Z[r, j] = sum_k X[r, k] * U[j, k] *)
Definition matmul_xut (X : dense V) (U : matrix (V:=V)) : dense V :=
  tabulate [nth 0 (dshape X) 0; nrows U]
    (fun rj => sum_n v0 vadd (nth 1 (dshape X) 0) (fun k => vmul (den_dense v0 X [nth 0 rj 0; k]) (mget v0 U (nth 1 rj 0) k))).

Definition sp_ttm (G : sparse V) (U : matrix (V:=V)) (n : nat) : option (dense V) :=
  match to_sptenmat_sorted_req vadd isz G (Some [n]) None (Some CycT) with        (* Xnt = self.to_sptenmat([n], cdims_cyclic="t") *)
  | None => None
  | Some Xnt =>
      let Z := matmul_xut (coo_toarray v0 vadd (stm_double Xnt)) U in               (* Xnt.double().dot(U.T): an ndarray *)
      let siz := set_nth (sshape G) n (nrows U) in
      match from_array_dense v0 vadd isz Z (Some (stm_r Xnt)) (Some (stm_c Xnt)) siz with
      | None => None
      | Some Y => Some (full v0 (sptenmat_to_sptensor Y))                           (* .to_sptensor() ... .to_tensor() *)
      end
  end.

(* sptensor.ttm(list of all factor matrices): mode 0 by sp_ttm (the result is a dense tensor), the others by tensor.ttm *)
Definition ttensor_full_spcore (G : sparse V) (Us : list (matrix (V:=V))) : option (dense V) :=
  match Us with
  | [] => None
  | U :: rest => option_map (fun Y => ttm_all_impl v0 vadd vmul Y rest 1) (sp_ttm G U 0)
  end.

End W3.
