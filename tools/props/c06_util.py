"""Helpers of c06.py — the second order-permutation stream: every other public operation that takes a sparse tensor.

One request = (op, operands, parameters).  c06.py runs it once per stored order of each sparse operand; this module
supplies, for the operations that are not element-wise operators,

  gen_ext      admissible requests (valid modes / shapes only, integer data so every result is exact)
  run_ext      the pyttb call and the raw observation of whatever comes back (sptensor, tensor, numpy array,
               number, sptenmat) — `kind` records which, and must not depend on the stored order
  check_ext    the Gallina boolean evaluated by Coq on the raw observations of all runs (Model/C06Ops.v)
  oracle_ext   the same judgement in pure Python loops (independent of pyttb, numpy and the Coq model)
"""
import itertools
import math
from fractions import Fraction

import tgen
from vcheck import gz, gzlist, gnlist, gnmat, gq

VALS = (-3, -2, -1, 1, 2, 3, 4, 5)
SCALAR_OPS = ("innerprod", "norm")
EXT_OPS = SCALAR_OPS + ("permute", "reshape", "squeeze", "ttv", "ttm", "contract", "collapse", "scale", "sptenmat",
                        "setitem", "mask", "extract", "getitem", "stm_hist", "gen", "chain")
LAYOUT_OPS = tuple(o for o in EXT_OPS if o != "gen")      # the identity stored order is re-run with the operand's arrays in other memory layouts
MUST_RETURN = ("stm_hist", "gen")     # requests that are admissible by construction: pyttb has to return something
BIG_CELLS = 200          # above this many cells the canonical form is compared entry-wise (all_same_sparse_e)


# ---------------------------------------------------------------------------------------------
# generation
# ---------------------------------------------------------------------------------------------
COLLAPSE_REDS = ("max", "min", "prod", "len")


def np_reducer(np, red):
    return {"max": np.max, "min": np.min, "prod": np.prod, "len": len, "first": (lambda x: x[0])}[red]


def py_reduce(red, g):
    return {"max": max, "min": min, "prod": math.prod, "len": len, "first": (lambda x: x[0])}[red](g)


def cells_of(shape):
    return [list(s) for s in tgen.all_subs(shape)]


def rand_entries(rng, shape, n, vals=VALS):
    """n distinct in-bounds subscripts in F-sorted stored order with nonzero integer values"""
    cells = cells_of(shape)
    n = max(0, min(n, len(cells)))
    idx = sorted(rng.sample(range(len(cells)), n))
    return [cells[k] for k in idx], [rng.choice(vals) for _ in idx]


def pick_nnz(rng, ncells):
    """mostly <= 4 stored nonzeros (all n! orders are run), sometimes more (random orders), sometimes full"""
    return min(ncells, rng.choice((0, 1, 2, 2, 3, 3, 4, 4, 4, 5, 6, 8, ncells)))


def sp_args(rng, shape, n=None):
    shape = list(shape)
    subs, vals = rand_entries(rng, shape, pick_nnz(rng, math.prod(shape)) if n is None else n)
    return {"shape": shape, "subs": subs, "vals": vals}


def rand_vec(rng, n, pz=0.25):
    return [0 if rng.random() < pz else rng.choice((-2, -1, 1, 2, 3)) for _ in range(n)]


def rand_mat(rng, m, n, pz=0.3):
    return [rand_vec(rng, n, pz) for _ in range(m)]


def ip_pair(rng, shape, ncommon, ea, eb):
    """two sparse operands sharing `ncommon` positions, with ea / eb further positions of their own; values drawn so that
    pairing the shared entries in a wrong order changes the sum (distinct magnitudes on the shared positions)"""
    cells = cells_of(shape)
    if ncommon + ea + eb > len(cells):
        return None
    pick = rng.sample(range(len(cells)), ncommon + ea + eb)
    ia = sorted(pick[:ncommon + ea])
    ib = sorted(pick[:ncommon] + pick[ncommon + ea:])
    pool_a = rng.sample(range(1, 10), min(9, len(ia))) + [rng.randint(1, 9) for _ in range(max(0, len(ia) - 9))]
    pool_b = rng.sample(range(1, 10), min(9, len(ib))) + [rng.randint(1, 9) for _ in range(max(0, len(ib) - 9))]
    va = [v * rng.choice((1, 1, -1)) for v in pool_a]
    vb = [v * rng.choice((1, 1, -1)) for v in pool_b]
    return {"shape": list(shape), "subs": [cells[k] for k in ia], "vals": va, "rk": "sparse",
            "bsubs": [cells[k] for k in ib], "bvals": vb}


def rand_region(rng, shape, allow_all_int=True):
    """an in-bounds region key: per mode an index or a [start, stop] range (None = open end)"""
    key = []
    for d in shape:
        r = rng.random()
        if r < 0.35:
            key.append(rng.randrange(d))
        elif r < 0.6:
            key.append({"s": [None, None]})
        else:
            lo = rng.randrange(d)
            hi = rng.randint(lo + 1, d)
            key.append({"s": [lo if rng.random() < 0.7 or lo else None, hi if rng.random() < 0.7 or hi < d else None]})
    if not allow_all_int and all(isinstance(k, int) for k in key):
        key[rng.randrange(len(key))] = {"s": [None, None]}
    return key


def rand_region_lists(rng, shape, grow=False):
    """region key with explicit slices and index lists ({"l": [...]}, possibly repeating an index); returns
    (key, extents of the non-integer components = shape of a fitting right-hand side, shape after the assignment)"""
    key, lens, after = [], [], []
    g = rng.randrange(len(shape)) if grow else None
    for n, d in enumerate(shape):
        top = d + (rng.randint(1, 2) if n == g else 0)          # indices may reach top - 1
        r = rng.random()
        if r < 0.25:
            k = rng.randrange(top) if n != g else top - 1
            key.append(k)
            after.append(max(d, k + 1))
        elif r < 0.5:
            lo = rng.randrange(top)
            hi = rng.randint(lo + 1, top) if n != g else top
            key.append({"s": [lo, hi]})
            lens.append(hi - lo)
            after.append(max(d, hi))
        else:
            m = rng.randint(1, 3)
            l = [rng.randrange(top) for _ in range(m)]
            if r < 0.75:
                l = list(dict.fromkeys(l))                       # distinct
            elif len(l) >= 2:
                l[rng.randrange(1, len(l))] = l[0]               # an index repeated
            if n == g:
                l[-1] = top - 1
            key.append({"l": l})
            lens.append(len(l))
            after.append(max(d, max(l) + 1))
    if not lens:
        n = rng.randrange(len(shape))
        key[n] = {"l": [key[n], key[n]]}
        lens.append(2)
    return key, lens, after


def ordered_partitions(rng, N):
    dims = list(range(N))
    rng.shuffle(dims)
    k = rng.randint(0, N)
    return dims[:k], dims[k:]


def factorizations(n, maxlen=3):
    """all shapes (lists of positive ints, 1 .. maxlen modes, singleton modes included) with n cells"""
    out = []

    def rec(prefix, rest):
        if prefix and rest == 1:
            out.append(list(prefix))
        if len(prefix) == maxlen:
            return
        for d in range(1, rest + 1):
            if rest % d == 0:
                rec(prefix + [d], rest // d)
    rec([], n)
    return out


SHAPES = [[3], [1], [4], [2, 2], [2, 3], [3, 2], [1, 3], [3, 1], [3, 3], [2, 3, 2], [2, 2, 2], [3, 1, 2], [1, 1, 2], [1, 1], [2, 3, 4],
          [2, 2, 3, 2], [3, 2, 1, 2]]


def gen_ext(rng, tier, mk):
    """mk(op, args) -> Case (adds the stored-order variants)"""
    cases = []
    for _ in range(6 if tier == "thorough" else 3):
        cases += gen_round(rng, tier, mk)
    return cases


def gen_huge(rng, tier, mk):
    """wave 4 — huge operands, once per run (not per round): more than 2**22 candidate (search row, source row) pairs inside the row
    helpers (both row lists longer than 2048), 2-way and 3-way shapes with short modes (the Coq side compares unary naturals: cost grows with the index values).  mk gives identity /
    reversed / one random stored order per sparse operand; no memory-layout re-runs."""
    cases = []
    reqs = [([48, 48], "extract"), ([13, 14, 13], "innerprod")]
    if tier == "thorough":
        reqs += [([13, 14, 13], "extract"), ([48, 48], "mask"), ([13, 14, 13], "mask"), ([48, 48], "getitem")]
    for shape, op in reqs:
        n = math.prod(shape)
        a = sp_args(rng, shape, n - 150)
        if op == "innerprod":
            b = sp_args(rng, shape, n - 150)
            cases.append(mk(op, dict(a, rk="sparse", bsubs=b["subs"], bvals=b["vals"])))
        elif op == "mask":
            w = sp_args(rng, shape, n - 150)
            cases.append(mk(op, dict(a, rk="sparse", bsubs=w["subs"], bvals=[1] * len(w["subs"]))))
        else:
            qs = [list(q) for q in rng.sample(cells_of(shape), n - 200)]
            cases.append(mk(op, dict(a, q=qs)))
    return cases


def gen_round(rng, tier, mk):
    big = tier == "thorough"
    rep = 4 if big else 1
    cases = []

    def add(op, a):
        cases.append(mk(op, a))

    # ---- innerprod: sparse x sparse on both sides of the `self.nnz < other.nnz` switch, >= 2 shared nonzeros
    splits = [(2, 0, 0), (2, 1, 0), (2, 0, 1), (3, 0, 0), (3, 1, 0), (3, 0, 1), (2, 2, 0), (2, 0, 2), (2, 1, 1), (4, 0, 0),
              (3, 0, 3), (3, 3, 0), (2, 4, 0), (2, 0, 4), (5, 1, 0), (4, 1, 2), (6, 0, 0), (1, 1, 1), (0, 1, 2), (0, 0, 0), (0, 2, 0), (1, 0, 0)]
    for shape in ([3], [2, 2], [2, 3], [2, 2, 2], [3, 1, 2], [4, 3], [2, 3, 4]):
        for (nc, ea, eb) in splits:
            for _ in range(rep):
                a = ip_pair(rng, shape, nc, ea, eb)
                if a is not None:
                    add("innerprod", a)
    # ---- large operands: row look-ups over more than 1000 candidate pairs (a size-dependent path inside the row helpers is
    #      invisible below that), stored orders identity / reversed / random
    for shape in ([6, 6], [4, 3, 3]):
        a = ip_pair(rng, shape, 34, 1, 1)
        add("innerprod", a)
        w = sp_args(rng, shape, 35)
        add("mask", dict(sp_args(rng, shape, 35), rk="sparse", bsubs=w["subs"], bvals=[1] * len(w["subs"])))
        qs = [[rng.randrange(d) for d in shape] for _ in range(32)]
        add("extract", dict(sp_args(rng, shape, 34), q=qs))
        add("getitem", dict(sp_args(rng, shape, 34), q=qs))
    # ---- innerprod: dense and Kruskal operands; norm
    for shape in SHAPES * (3 if big else 1):
        n = math.prod(shape)
        for _ in range(2):
            a = sp_args(rng, shape)
            add("innerprod", dict(a, rk="dense", bd=tgen.rand_dense(rng, shape, rng.choice((0.5, 1.0)))))
            R = rng.randint(1, 2)
            add("innerprod", dict(a, rk="ktensor", kw=[rng.choice((-1, 1, 2, 3)) for _ in range(R)],
                                  kf=[rand_mat(rng, d, R, 0.15) for d in shape]))
            add("norm", sp_args(rng, shape))
    # ---- permute: every mode order (N <= 3), random ones for N = 4
    for shape in SHAPES:
        N = len(shape)
        perms = list(itertools.permutations(range(N)))
        if len(perms) > 6 and not big:
            perms = rng.sample(perms, 4)
        for p in perms:
            add("permute", dict(sp_args(rng, shape), p=list(p)))
    # ---- reshape (whole shape) into every factorisation with <= 3 modes
    for shape in SHAPES:
        fs = factorizations(math.prod(shape))
        if len(fs) > (10 if big else 3):
            fs = rng.sample(fs, 10 if big else 3)
        for new in fs:
            add("reshape", dict(sp_args(rng, shape), new=new))
    # ---- reshape of a subset of the modes (old_modes in any order; the kept modes come first, then the new shape)
    for shape in [s for s in SHAPES if len(s) >= 2]:
        for _ in range(2 * rep):
            old = rng.sample(range(len(shape)), rng.randint(1, len(shape)))
            if rng.random() < 0.5:
                old.sort()
            add("reshape", dict(sp_args(rng, shape), new=rng.choice(factorizations(math.prod(shape[m] for m in old))), old=old))
    # ---- squeeze: no singleton, some, all singleton modes
    for shape in ([1], [1, 1], [1, 3], [3, 1], [1, 1, 2], [2, 1, 3, 1], [1, 2, 1], [2, 3], [3], [1, 1, 1], [2, 1, 2]):
        for _ in range(2 * rep):
            add("squeeze", sp_args(rng, shape))
    # ---- ttv: single mode, several modes (sparse / dense / scalar result: fills on both sides of the 50% switch), vectors with zeros
    for shape in SHAPES:
        N = len(shape)
        subsets = [list(c) for r in range(1, N + 1) for c in itertools.combinations(range(N), r)]
        if len(subsets) > 4 and not big:
            subsets = rng.sample(subsets, 4) + [list(range(N))]
        for dims in subsets:
            for n in ((None, math.prod(shape)) if big else (None,)):
                a = sp_args(rng, shape, n)
                if rng.random() < 0.4:
                    dims = dims[::-1]
                pz = rng.choice((0.0, 0.3))
                add("ttv", dict(a, dims=list(dims), vecs=[rand_vec(rng, shape[m], pz) for m in dims], single=len(dims) == 1 and rng.random() < 0.5))
    # ---- ttm: single matrix (either orientation), two matrices
    for shape in SHAPES:
        N = len(shape)
        reqs = [[m] for m in range(N)] + ([list(p) for p in itertools.permutations(range(N), 2)][:(6 if big else 2)] if N >= 2 else [])
        if len(reqs) > 4 and not big:
            reqs = rng.sample(reqs, 4)
        for dims in reqs:
            tr = rng.random() < 0.5
            mats = []
            for m in dims:
                J = rng.choice((1, 2, 3))
                mats.append(rand_mat(rng, shape[m], J) if tr else rand_mat(rng, J, shape[m]))
            # spm: the matrices are handed over as scipy.sparse.coo_matrix — the only way to reach the sparse-result branch of ttm
            add("ttm", dict(sp_args(rng, shape), dims=list(dims), mats=mats, tr=tr, single=len(dims) == 1 and rng.random() < 0.6,
                            spm=rng.random() < 0.5))
    # ---- contract: every ordered pair of equally sized modes
    for shape in ([2, 2], [3, 3], [1, 1], [2, 3, 2], [2, 2, 2], [3, 2, 3], [2, 2, 3, 2], [3, 1, 3], [2, 3, 3, 2]):
        N = len(shape)
        for i1 in range(N):
            for i2 in range(N):
                if i1 != i2 and shape[i1] == shape[i2]:
                    for _ in range(2 * rep):
                        add("contract", dict(sp_args(rng, shape), i1=i1, i2=i2))
    # ---- collapse (sum) over every mode subset and over all modes (dims=None)
    for shape in SHAPES:
        N = len(shape)
        subsets = [list(c) for r in range(1, N + 1) for c in itertools.combinations(range(N), r)]
        if len(subsets) > 5 and not big:
            subsets = rng.sample(subsets, 5)
        for dims in subsets + [None]:
            for _ in range(rep):
                add("collapse", dict(sp_args(rng, shape), dims=dims))
        # wave 5: a reducer other than sum (np.max / np.min / np.prod / len): it sees the STORED values only (Model/C06W5.v cont_collapse_f)
        for dims in rng.sample(subsets, min(2, len(subsets))) + [None]:
            add("collapse", dict(sp_args(rng, shape), dims=dims, red=rng.choice(COLLAPSE_REDS)))
    # ---- scale: dense / sparse / ndarray factor (nonzero factors: a zero factor is a C02 matter — see SCALE_ZERO below)
    for shape in SHAPES:
        N = len(shape)
        subsets = [list(c) for r in range(1, N + 1) for c in itertools.combinations(range(N), r)]
        if len(subsets) > 3 and not big:
            subsets = rng.sample(subsets, 3)
        for dims in subsets:
            fshape = [shape[m] for m in dims]
            for fk in ("tensor", "sptensor") + (("ndarray",) if len(dims) == 1 else ()):
                pz = rng.choice((0.0, 0.0, 0.3))
                fdata = [0 if rng.random() < pz else rng.choice((-2, -1, 2, 3)) for _ in range(math.prod(fshape))]
                add("scale", dict(sp_args(rng, shape), dims=dims, fshape=fshape, fdata=fdata, fkind=fk))
    # ---- to_sptenmat (every kind of row / column mode split incl. an empty side) and back
    for shape in SHAPES:
        N = len(shape)
        for _ in range(3 * rep):
            rd, cd = ordered_partitions(rng, N)
            add("sptenmat", dict(sp_args(rng, shape), rd=rd, cd=cd))
    # ---- __setitem__: a scalar into a region / values at a few subscripts (zero deletes), starting from the permuted tensor
    for shape in [s for s in SHAPES if math.prod(s) > 1]:
        for _ in range(3 * rep):
            a = sp_args(rng, shape)
            steps = []
            for _ in range(rng.randint(1, 2)):
                if rng.random() < 0.5:
                    steps.append({"t": "region", "key": rand_region(rng, shape), "c": rng.choice((0, 0, 7, -4))})
                else:
                    p = rng.randint(1, 3)
                    qs = [rng.choice(a["subs"]) if a["subs"] and rng.random() < 0.6 else [rng.randrange(d) for d in shape] for _ in range(p)]
                    qs = [list(q) for q in dict.fromkeys(map(tuple, qs))]          # distinct targets: one value per target
                    steps.append({"t": "subs", "subs": qs, "c": [rng.choice((0, 0, 6, -5)) for _ in qs]})
            add("setitem", dict(a, steps=steps))
    # ---- wave 5: ONE subscript assignment that zeroes stored entries (they are deleted), overwrites OTHER stored entries with nonzero
    #      values and (optionally) creates new entries / assigns zero to an absent cell; targets listed in a random order; run for every
    #      stored order of the receiver (all n! for n <= 4): positions inside the coordinate list that were looked up before the
    #      deletion are stale afterwards, whether that shows depends on the stored order
    for shape in [s for s in SHAPES if math.prod(s) >= 3]:
        for _ in range(2 * rep):
            n = rng.randint(2, min(math.prod(shape), rng.choice((3, 4, 4, 6))))
            a = sp_args(rng, shape, n)
            idx = list(range(n))
            rng.shuffle(idx)
            kd = rng.randint(1, n - 1)
            ku = rng.randint(1, n - kd)
            tg = [(a["subs"][k], 0) for k in idx[:kd]] + [(a["subs"][k], rng.choice((6, -5, 9))) for k in idx[kd:kd + ku]]
            absent = [c for c in cells_of(shape) if c not in a["subs"]]
            rng.shuffle(absent)
            tg += [(c, rng.choice((0, 7, -8))) for c in absent[:rng.randint(0, 2)]]
            rng.shuffle(tg)
            if rng.random() < 0.3:        # a target listed twice with different values: the LAST assignment wins (np.unique on the reversed rows)
                q, v = rng.choice(tg)
                tg.insert(rng.randint(0, len(tg)), (q, rng.choice([x for x in (0, 3, -7) if x != v])))
            steps = [{"t": "subs", "subs": [list(q) for q, _ in tg], "c": [v for _, v in tg]}]
            if rng.random() < 0.3:        # and a second call on the result: delete one of the overwritten entries, restore a deleted one
                steps.append({"t": "subs", "subs": [list(a["subs"][idx[kd]]), list(a["subs"][idx[0]])], "c": [0, 4]})
            add("setitem", dict(a, steps=steps, mixed=True))
    # ---- wave 5 (/repo d89c921): scale with a factor whose shape does not fit the scaled modes — refused for a receiver with and
    #      WITHOUT stored entries alike (every stored order / memory layout behaves the same); and admissible factors on an empty receiver
    for shape in ([3], [2, 3], [2, 3, 2]):
        for n in (0, None):
            m = rng.randrange(len(shape))
            for fk in ("tensor", "sptensor"):
                bad = [shape[m] + 1]
                add("scale", dict(sp_args(rng, shape, n), dims=[m], fshape=bad, fdata=[rng.choice((-2, 2, 3)) for _ in range(bad[0])], fkind=fk))
                add("scale", dict(sp_args(rng, shape, 0), dims=[m], fshape=[shape[m]], fdata=[rng.choice((-2, 2, 3)) for _ in range(shape[m])], fkind=fk))
    # ---- __setitem__ of a region whose key holds index LISTS (distinct or REPEATING an index: finding C06-DUP1), on empty and
    #      non-empty receivers, with a scalar / zero / sparse right-hand side, optionally growing the shape
    for shape in [s for s in SHAPES if math.prod(s) > 1]:
        for _ in range(3 * rep):
            a = sp_args(rng, shape, 0 if rng.random() < 0.3 else None)
            steps = []
            cur = list(shape)
            for _ in range(rng.randint(1, 2)):
                key, lens, cur = rand_region_lists(rng, cur, grow=rng.random() < 0.2)
                if rng.random() < 0.6:
                    steps.append({"t": "region", "key": key, "c": rng.choice((0, 7, -4, 7))})
                else:
                    v = sp_args(rng, lens)
                    steps.append({"t": "region_sp", "key": key, "vshape": lens, "vsubs": v["subs"], "vvals": v["vals"]})
            add("setitem", dict(a, steps=steps))
    # ---- mask (the mask is a second sparse operand, its stored order is permuted too), extract, __getitem__ of a region
    for shape in SHAPES:
        for _ in range(2 * rep):
            a = sp_args(rng, shape)
            w = sp_args(rng, shape, 0 if rng.random() < 0.15 else None)
            # a sparse mask WITHOUT stored entries is an ordinary request since /repo 5f8b038: no value is returned
            add("mask", dict(a, rk="sparse", bsubs=w["subs"], bvals=[1] * len(w["subs"])))
            p = rng.randint(1, 4)
            qs = [rng.choice(a["subs"]) if a["subs"] and rng.random() < 0.6 else [rng.randrange(d) for d in shape] for _ in range(p)]
            add("extract", dict(a, q=[list(q) for q in qs]))
            add("getitem", dict(sp_args(rng, shape), key=rand_region(rng, shape)))
            add("getitem", dict(sp_args(rng, shape), q=[list(q) for q in qs]))
    # ---- chains (third wave): the RESULT of one public operation (possibly empty by exact cancellation, S - S, S * 0, all entries
    #      assigned zero) is fed into a second one; the second result is compared with the same request on a freshly built copy
    for shape in [s for s in SHAPES if math.prod(s) > 1]:
        for _ in range(3 * rep):
            first = rng.choice(("sub", "sub", "add", "mul", "and", "or", "xor", "self_sub", "times0", "neg", "setzero"))
            a = sp_args(rng, shape)
            if first in ("sub", "add", "mul", "and", "or", "xor"):
                b = sp_args(rng, shape)
                if first in ("sub", "add") and a["subs"] and rng.random() < 0.5:       # exact cancellation on a part / on everything
                    k = rng.choice((len(a["subs"]), rng.randint(1, len(a["subs"]))))
                    sgn = 1 if first == "sub" else -1
                    b = {"subs": [list(x) for x in a["subs"][:k]], "vals": [sgn * v for v in a["vals"][:k]]}
                a = dict(a, rk="sparse", bsubs=b["subs"], bvals=b["vals"])
            cases.append(mark(mk("chain", dict(a, first=first, second=rand_second(rng, shape))), rng))
    # ---- sptenmat.__setitem__ histories (third wave): raw well-formedness bits of the sptenmat after EVERY step
    for shape in [s for s in SHAPES if math.prod(s) > 1]:
        for _ in range(3 * rep):
            cases.append(mark(mk("stm_hist", gen_stm_hist(rng, shape)), rng))
    # ---- generators (third wave): sptendiag, sptenrand, from_function, sptenmat constructor / from_array
    for g in gen_generators(rng, tier):
        cases.append(mark(mk("gen", g)))
    return cases


def rand_second(rng, shape):
    """an admissible single-operand request on a sparse tensor of the given shape"""
    N = len(shape)
    n = math.prod(shape)
    ops = ["permute", "reshape", "squeeze", "ttv", "collapse", "sptenmat", "norm", "innerprod", "getitem", "extract", "scale", "setitem", "ttm"]
    if any(shape[i] == shape[j] for i in range(N) for j in range(N) if i != j):
        ops.append("contract")
    op = rng.choice(ops)
    d = {"op": op, "shape": list(shape)}
    if op == "permute":
        p = list(range(N))
        rng.shuffle(p)
        d["p"] = p
    elif op == "reshape":
        d["new"] = rng.choice(factorizations(n))
    elif op == "ttv":
        dims = rng.sample(range(N), rng.randint(1, N))
        d.update(dims=dims, vecs=[rand_vec(rng, shape[m], 0.2) for m in dims], single=len(dims) == 1 and rng.random() < 0.5)
    elif op == "collapse":
        d["dims"] = None if rng.random() < 0.3 else sorted(rng.sample(range(N), rng.randint(1, N)))
    elif op == "sptenmat":
        d["rd"], d["cd"] = ordered_partitions(rng, N)
    elif op == "innerprod":
        d.update(rk="dense", bd=tgen.rand_dense(rng, shape, 0.8))
    elif op == "getitem":
        d["key"] = rand_region(rng, shape)
    elif op == "extract":
        d["q"] = [[rng.randrange(x) for x in shape] for _ in range(rng.randint(1, 4))]
    elif op == "scale":
        m = rng.randrange(N)
        d.update(dims=[m], fshape=[shape[m]], fdata=[rng.choice((-2, -1, 2, 3)) for _ in range(shape[m])], fkind=rng.choice(("tensor", "ndarray")))
    elif op == "setitem":
        d["steps"] = [{"t": "region", "key": rand_region(rng, shape), "c": rng.choice((0, 7, -4))}]
    elif op == "ttm":
        m = rng.randrange(N)
        d.update(dims=[m], mats=[rand_mat(rng, rng.choice((1, 2, 3)), shape[m])], tr=False, single=True, spm=rng.random() < 0.4)
    elif op == "contract":
        d["i1"], d["i2"] = rng.choice([(i, j) for i in range(N) for j in range(N) if i != j and shape[i] == shape[j]])
    return d


def mark(c, rng=None, cap=8):
    """cases whose interest does not lie in several stored orders (histories, generators) count as non-trivial; every step of a
    history is evaluated per stored order, so at most `cap` orders besides the identity are kept (all 3! for <= 3 nonzeros)"""
    c.nontrivial = True
    v = c.args.get("variants")
    if rng is not None and v and len(v) > cap + 1:
        c.args["variants"] = [v[0]] + rng.sample(v[1:], cap)
    return c


# ---------------------------------------------------------------------------------------------
# sptenmat histories
# ---------------------------------------------------------------------------------------------
def stm_pos(shape, rd, cd, sub):
    """(row, column) of tensor subscript `sub` in the matricization with row modes rd and column modes cd (F order)"""
    out = []
    for dims in (rd, cd):
        k, mult = 0, 1
        for m in dims:
            k += sub[m] * mult
            mult *= shape[m]
        out.append(k)
    return out


def key_list(k, extent):
    """resolved index list of one key component: int | list of ints | {"s": [lo, hi]}"""
    if isinstance(k, int):
        return [k]
    if isinstance(k, dict):
        lo, hi = k["s"]
        return list(range(extent))[slice(lo, hi)]
    return list(k)


def step_targets(st, mshape):
    """[(row, col), value] in pyttb's loop order: columns outer, rows inner, k counting the targets"""
    rs, cs = key_list(st["r"], mshape[0]), key_list(st["c"], mshape[1])
    v = st["v"]
    out = []
    k = 0
    for c in cs:
        for r in rs:
            out.append(([r, c], v if isinstance(v, int) else v[k]))
            k += 1
    return out


NZ = (7, -4, 6, -5, 2)


def gen_stm_hist(rng, shape):
    """a sptensor, a row/column mode split and 1..4 assignments to the sptenmat; the steps are drawn against the simulated
    content so that every class occurs often: zero / nonzero written onto a stored / an absent position, alone and mixed in
    one call (with and without a new entry in the same call), whole rows / columns by slice, zeroing everything one call at a time"""
    N = len(shape)
    a = sp_args(rng, shape)
    rd, cd = ordered_partitions(rng, N)
    ms = [math.prod(shape[m] for m in rd), math.prod(shape[m] for m in cd)]
    state = {tuple(stm_pos(shape, rd, cd, s)): v for s, v in zip(a["subs"], a["vals"])}
    cells = [(r, c) for c in range(ms[1]) for r in range(ms[0])]
    steps = []

    def apply(st):
        steps.append(st)
        for (r, c), v in step_targets(st, ms):
            state[(r, c)] = v
        for k in [k for k, v in state.items() if v == 0]:
            del state[k]

    def keyform(r, c, v):
        f = rng.random()
        if f < 0.5:
            return {"r": r, "c": c, "v": v}
        if f < 0.75:
            return {"r": [r], "c": c, "v": [v]}
        return {"r": r, "c": [c], "v": [v]}

    if state and rng.random() < 0.15:           # zero every stored entry, one call each
        for (r, c) in rng.sample(sorted(state), len(state))[:4]:
            apply(keyform(r, c, 0))
    for _ in range(rng.randint(1, 3)):
        stored = sorted(state)
        absent = [x for x in cells if x not in state]
        kind = rng.choice(("zero_stored", "zero_stored", "nz_stored", "zero_absent", "nz_absent", "nonew", "nonew", "block", "block", "slice"))
        if kind in ("zero_stored", "nz_stored") and stored:
            r, c = rng.choice(stored)
            apply(keyform(r, c, 0 if kind == "zero_stored" else rng.choice(NZ)))
        elif kind in ("zero_absent", "nz_absent") and absent:
            r, c = rng.choice(absent)
            apply(keyform(r, c, 0 if kind == "zero_absent" else rng.choice(NZ)))
        elif kind == "nonew" and stored:        # several stored entries of one row (or column) in one call, no new entry, >= 1 zero
            r, c = rng.choice(stored)
            if rng.random() < 0.5:
                cs = [y for (x, y) in stored if x == r]
                rng.shuffle(cs)
                vs = [rng.choice((0, 0, rng.choice(NZ))) for _ in cs]
                vs[rng.randrange(len(vs))] = 0
                apply({"r": r, "c": cs, "v": vs})
            else:
                rs = [x for (x, y) in stored if y == c]
                rng.shuffle(rs)
                vs = [rng.choice((0, 0, rng.choice(NZ))) for _ in rs]
                vs[rng.randrange(len(vs))] = 0
                apply({"r": rs, "c": c, "v": vs})
        elif kind == "slice":
            sc = rng.choice((0, 0, 7))
            if rng.random() < 0.5:
                apply({"r": rng.randrange(ms[0]), "c": {"s": [None, None]}, "v": sc})
            else:
                lo = rng.randrange(ms[0])
                apply({"r": {"s": [lo, rng.randint(lo + 1, ms[0])]}, "c": rng.randrange(ms[1]), "v": sc})
        else:                                   # block of distinct rows x distinct columns, per-target values
            rs = rng.sample(range(ms[0]), rng.randint(1, min(3, ms[0])))
            cs = rng.sample(range(ms[1]), rng.randint(1, min(2, ms[1])))
            n = len(rs) * len(cs)
            v = rng.choice((0, 7)) if rng.random() < 0.3 else [rng.choice((0, 0, rng.choice(NZ))) for _ in range(n)]
            apply({"r": rs if len(rs) > 1 or rng.random() < 0.5 else rs[0], "c": cs if len(cs) > 1 or rng.random() < 0.5 else cs[0], "v": v})
    via = rng.choice(("to_sptenmat", "to_sptenmat", "ctor_nocopy", "ctor_copy")) if a["subs"] else "to_sptenmat"
    return dict(a, rd=rd, cd=cd, steps=steps, via=via)


# ---------------------------------------------------------------------------------------------
# generators
# ---------------------------------------------------------------------------------------------
def perms_of(n, rng):
    ident = list(range(n))
    if n <= 4:
        return [list(p) for p in itertools.permutations(ident)]
    out = [ident, ident[::-1]]
    for _ in range(3):
        p = ident[:]
        rng.shuffle(p)
        out.append(p)
    return out


def gen_generators(rng, tier):
    big = tier == "thorough"
    out = []

    def g(**kw):
        out.append(dict({"shape": [], "subs": [], "vals": []}, **kw))
    # sptendiag: element vectors with and without zeros; no shape, shorter / equal / longer requested shapes
    for els in ([1, 2, 3], [1, 0, 3], [0, 5], [4, 0, 0, 7], [0, 0], [2], [0], [3, -1], [0, 2, 0]):
        N = len(els)
        shapes = [None, [N, N], [2, 6, 3], [N], [1, N + 1]]
        for shp in shapes if big else rng.sample(shapes, 2):
            if shp is None and N > 3:
                continue
            g(g="sptendiag", els=els, req=shp)
    for _ in range(20 if big else 6):
        N = rng.randint(1, 4)
        els = [rng.choice((0, 0, 1, -2, 3)) for _ in range(N)]
        g(g="sptendiag", els=els, req=[rng.randint(1, 5) for _ in range(rng.randint(1, 3))])
    # sptenrand / from_function: subscripts drawn by numpy (seeded), values from the handle
    for _ in range(40 if big else 12):
        shape = tgen.rand_shape(rng, maxn=4, maxcells=60, maxdim=5)
        n = math.prod(shape)
        if n < 2:
            continue
        seed = rng.randrange(10 ** 6)
        g(g="sptenrand", req=shape, seed=seed, nonzeros=rng.randint(0, n - 1))
        g(g="sptenrand", req=shape, seed=seed, density=rng.choice((0.1, 0.3, 0.5, 0.9, 1.0 / n)))
        g(g="from_function", req=shape, seed=seed, nonzeros=rng.choice((rng.randint(0, n - 1), rng.choice((0.2, 0.5, 0.99)))),
          fn=rng.choice(("ones", "ints")))
    # near saturation (random subscripts collide: the generators' retry / give-up paths), several seeds per shape
    for shape in ([2, 2], [3], [2, 3], [4], [2, 2, 2], [3, 3]):
        n = math.prod(shape)
        for _ in range(6 if big else 3):
            seed = rng.randrange(10 ** 6)
            g(g="sptenrand", req=shape, seed=seed, nonzeros=n - 1)
            g(g="sptenrand", req=shape, seed=seed, density=rng.choice((0.8, 0.9, 0.99)))
            g(g="from_function", req=shape, seed=seed, nonzeros=rng.choice((n - 1, 0.99)), fn="ints")
    # sptenmat constructor (aggregating copy) and from_array: (row, col) triples with repeats, cancelling repeats, explicit zeros
    for _ in range(60 if big else 16):
        shape = tgen.rand_shape(rng, maxn=3, maxcells=30, maxdim=4)
        rd, cd = ordered_partitions(rng, len(shape))
        ms = [math.prod(shape[m] for m in rd), math.prod(shape[m] for m in cd)]
        m = rng.randint(0, 6)
        rows = [[rng.randrange(ms[0]), rng.randrange(ms[1])] for _ in range(m)]
        rv = [rng.choice((-2, -1, 1, 2, 0)) for _ in range(m)]
        if m >= 2 and rng.random() < 0.5:
            rows[1] = list(rows[0])
            rv[1] = -rv[0] if rng.random() < 0.5 else rv[1]
        # wave 4: the same triples handed over in other orders (all m! for m <= 4, identity / reversed / 3 random beyond): the
        # constructor must return the same object (C06_stm_ctor_indep, C06_stm_from_coo_indep)
        perms = perms_of(m, rng)
        g(g="stm_ctor", req=shape, rd=rd, cd=cd, rows=rows, rv=rv, perms=perms)
        g(g="stm_from_array", req=shape, rd=rd, cd=cd, rows=rows, rv=rv, dense=rng.random() < 0.4, perms=perms,
          fmt=rng.choice(("coo", "coo", "csr", "csc")))             # scipy storage class of the matrix handed over (coo keeps repeated triples)
    return out


# ---------------------------------------------------------------------------------------------
# pyttb side
# ---------------------------------------------------------------------------------------------
def py_key(key):
    import numpy as np
    return tuple(k if isinstance(k, int) else (np.array(k["l"], dtype=int) if "l" in k else slice(k["s"][0], k["s"][1])) for k in key)


def strict_bits(np, ttb, r, o):
    """bits of a returned sptensor / sptenmat that a list of integers cannot express (third wave, finding C06-DT1):
    the DTYPE of the subscript array (integral values in a float64 array are not integer subscripts: full()/double() refuse
    them), and whether the result can be used at all: full() must return.  Accepted for a result WITHOUT any stored row:
    any dtype / shape of the (empty) subscript array — pyttb's constructors give int arrays, several operations return a
    float `np.array([])` — provided the follow-up full() still succeeds and gives an all-zero array of the result's shape."""
    s = np.asarray(r.subs)
    o["subs_dtype"] = str(s.dtype)
    o["subs_dtype_int"] = bool(np.issubdtype(s.dtype, np.integer))
    try:
        f = r.full()
        d = np.asarray(f.data)
        o["full_ok"] = bool(tuple(d.shape) == tuple(r.shape)) if isinstance(r, ttb.sptensor) else bool(d.ndim == 2)
        if s.size == 0 and d.size and np.any(d != 0):
            o["full_ok"] = False
    except Exception as ex:
        o["full_ok"] = False
        o["full_exc"] = type(ex).__name__ + ": " + str(ex)[:80]
    return o


def strict_ok(o):
    """decided on the Python side: integer dtype whenever a row is stored; full() of the result returns"""
    if o.get("kind") not in ("sparse", "sptenmat") or "subs_dtype_int" not in o:
        return True
    return (len(o["subs"]) == 0 or o["subs_dtype_int"]) and o["full_ok"]


def strict_problem(o):
    if strict_ok(o):
        return None
    if len(o["subs"]) and not o["subs_dtype_int"]:
        return f"subscript array of dtype {o['subs_dtype']} (integral values, not integer subscripts)" + (
            f"; full() raises {o['full_exc']}" if "full_exc" in o else "")
    return "full() of the result " + (f"raises {o['full_exc']}" if "full_exc" in o else "has the wrong shape / content")


def obs_sparse(np, ttb, r):
    o = tgen.obs_sparse(np, r)
    o["kind"] = "sparse"
    s = np.asarray(r.subs)
    o["subs_shape"] = [int(d) for d in s.shape]
    o["subs_integral"] = bool(s.size == 0 or (np.issubdtype(s.dtype, np.integer)) or np.all(s == s.astype(int)))
    return strict_bits(np, ttb, r, o)


def obs_any(np, ttb, r):
    if isinstance(r, ttb.sptensor):
        return obs_sparse(np, ttb, r)
    if isinstance(r, ttb.tensor):
        return dict(tgen.obs_dense(np, r), kind="dense")
    if isinstance(r, ttb.sptenmat):
        s = np.asarray(r.subs)
        rows = [] if s.size == 0 else [[int(x) for x in row] for row in s.reshape((-1, 2))]
        return strict_bits(np, ttb, r, {
                "kind": "sptenmat", "subs": rows, "vals": [tgen.exact(x) for x in np.asarray(r.vals).ravel()],
                "shape": [int(d) for d in r.shape], "tshape": [int(d) for d in r.tshape], "rdims": [int(d) for d in np.asarray(r.rdims).ravel()],
                "cdims": [int(d) for d in np.asarray(r.cdims).ravel()], "nnz": int(r.nnz),
                "subs_integral": bool(s.size == 0 or np.issubdtype(s.dtype, np.integer) or np.all(s == s.astype(int)))})
    if isinstance(r, np.ndarray):
        return dict(tgen.obs_dense(np, r), kind="array")
    if isinstance(r, (bool, np.bool_)):
        return {"kind": "other", "type": type(r).__name__}
    if isinstance(r, (int, float, np.generic)):
        return {"kind": "scalar", "v": tgen.exact(r)}
    return {"kind": "other", "type": type(r).__name__}


def run_ext(op, a):
    """one request on pyttb with freshly built operands; returns the raw observation"""
    import numpy as np
    import pyttb as ttb
    try:
        if op == "gen":
            return run_gen(np, ttb, a)
        S = mk_sp_layout(ttb, np, a["shape"], a["subs"], a["vals"], a.get("layout"))
        if op == "chain":
            return run_chain(np, ttb, S, a)
        return run_on(np, ttb, S, op, a)
    except Exception as ex:
        return {"exc": type(ex).__name__, "msg": str(ex)[:160]}


def mk_sp_layout(ttb, np, shape, subs, vals, layout=None):
    """the operand with its coordinate arrays in another memory layout: "F" = Fortran-ordered subscript array,
    "view" = both arrays are strided views into larger buffers (handed over without a copy)"""
    if layout is None:
        return tgen.mk_sptensor(ttb, np, shape, subs, vals)
    n, N = len(subs), len(shape)
    s = np.array(subs, dtype=int).reshape((n, N))
    v = np.array(vals, dtype=float).reshape((n, 1))
    if layout == "F":
        return ttb.sptensor(np.asfortranarray(s), v, tuple(shape), copy=False)
    bs = np.full((2 * n + 1, 2 * N + 1), -7, dtype=int)
    bv = np.full((2 * n + 1, 3), 99.0)
    bs[0:2 * n:2, 0:2 * N:2] = s
    bv[0:2 * n:2, 1:2] = v
    return ttb.sptensor(bs[0:2 * n:2, 0:2 * N:2], bv[0:2 * n:2, 1:2], tuple(shape), copy=False)


def run_on(np, ttb, S, op, a):
    """one request on the pyttb sptensor S (freshly built, or the result of an earlier operation)"""
    if True:
        with np.errstate(all="ignore"):
            if op == "innerprod":
                if a["rk"] == "sparse":
                    Y = tgen.mk_sptensor(ttb, np, a["shape"], a["bsubs"], a["bvals"])
                elif a["rk"] == "dense":
                    Y = tgen.mk_tensor(ttb, np, a["shape"], a["bd"])
                else:
                    R = len(a["kw"])
                    Y = ttb.ktensor([np.array(f, dtype=float).reshape((len(f), R)) for f in a["kf"]], np.array(a["kw"], dtype=float), copy=True)
                return obs_any(np, ttb, S.innerprod(Y))
            if op == "norm":
                return obs_any(np, ttb, S.norm())
            if op == "permute":
                return obs_any(np, ttb, S.permute(np.array(a["p"], dtype=int)))
            if op == "reshape":
                if "old" in a:
                    return obs_any(np, ttb, S.reshape(tuple(a["new"]), np.array(a["old"], dtype=int)))
                return obs_any(np, ttb, S.reshape(tuple(a["new"])))
            if op == "squeeze":
                return obs_any(np, ttb, S.squeeze())
            if op == "ttv":
                vecs = [np.array(v, dtype=float) for v in a["vecs"]]
                if a["single"]:
                    return obs_any(np, ttb, S.ttv(vecs[0], int(a["dims"][0])))
                return obs_any(np, ttb, S.ttv(vecs, dims=np.array(a["dims"], dtype=int)))
            if op == "ttm":
                mats = [np.array(m, dtype=float).reshape((len(m), len(m[0]))) for m in a["mats"]]
                if a.get("spm"):
                    from scipy import sparse as sps
                    mats = [sps.coo_matrix(m) for m in mats]
                if a["single"]:
                    return obs_any(np, ttb, S.ttm(mats[0], int(a["dims"][0]), transpose=a["tr"]))
                return obs_any(np, ttb, S.ttm(mats, dims=np.array(a["dims"], dtype=int), transpose=a["tr"]))
            if op == "contract":
                return obs_any(np, ttb, S.contract(a["i1"], a["i2"]))
            if op == "collapse":
                if a.get("red"):
                    return obs_any(np, ttb, S.collapse(None if a["dims"] is None else np.array(a["dims"], dtype=int), np_reducer(np, a["red"])))
                return obs_any(np, ttb, S.collapse() if a["dims"] is None else S.collapse(np.array(a["dims"], dtype=int)))
            if op == "scale":
                if a["fkind"] == "ndarray":
                    F = np.array(a["fdata"], dtype=float)
                else:
                    F = tgen.mk_tensor(ttb, np, a["fshape"], a["fdata"])
                    if a["fkind"] == "sptensor":
                        fs, fv = tgen.dense_to_sparse(a["fshape"], a["fdata"])
                        F = tgen.mk_sptensor(ttb, np, a["fshape"], fs, fv)
                return obs_any(np, ttb, S.scale(F, np.array(a["dims"], dtype=int)))
            if op == "sptenmat":
                M = S.to_sptenmat(np.array(a["rd"], dtype=int), np.array(a["cd"], dtype=int))
                o = obs_any(np, ttb, M)
                try:
                    o["back"] = obs_any(np, ttb, M.to_sptensor())
                except Exception as ex:
                    o["back"] = {"exc": type(ex).__name__, "msg": str(ex)[:160]}
                return o
            if op == "setitem":
                for st in a["steps"]:
                    if st["t"] == "region":
                        S[py_key(st["key"])] = st["c"]
                    elif st["t"] == "region_sp":
                        S[py_key(st["key"])] = tgen.mk_sptensor(ttb, np, st["vshape"], st["vsubs"], st["vvals"])
                    else:
                        S[np.array(st["subs"], dtype=int)] = np.array(st["c"], dtype=float).reshape((len(st["c"]), 1))
                return obs_any(np, ttb, S)
            if op == "stm_hist":
                return run_stm_hist(np, ttb, S, a)
            if op == "mask":
                W = tgen.mk_sptensor(ttb, np, a["shape"], a["bsubs"], a["bvals"])
                ws = np.asarray(W.find()[0]).reshape((-1, len(a["shape"])))
                r = np.asarray(S.mask(W))
                return {"kind": "assoc", "keys": [[int(x) for x in row] for row in ws], "vals": [tgen.exact(x) for x in r.ravel()],
                        "vshape": [int(d) for d in r.shape]}
            if op == "extract":
                return obs_any(np, ttb, S.extract(np.array(a["q"], dtype=int)))
            if op == "getitem":
                if "q" in a:
                    return obs_any(np, ttb, S[np.array(a["q"], dtype=int)])
                return obs_any(np, ttb, S[py_key(a["key"])])
        raise ValueError(op)


def guarded(f):
    try:
        return f()
    except Exception as ex:
        return {"exc": type(ex).__name__, "msg": str(ex)[:160]}


def run_chain(np, ttb, S, a):
    """two public operations in a row: R = first(S[, B]); then `second` on R itself and on a freshly built copy of R"""
    f = a["first"]
    if f in ("sub", "add", "mul", "and", "or", "xor"):
        B = tgen.mk_sptensor(ttb, np, a["shape"], a["bsubs"], a["bvals"])
        R = {"sub": lambda: S - B, "add": lambda: S + B, "mul": lambda: S * B, "and": lambda: S.logical_and(B),
             "or": lambda: S.logical_or(B), "xor": lambda: S.logical_xor(B)}[f]()
    elif f == "self_sub":
        R = S - S
    elif f == "times0":
        R = S * 0
    elif f == "neg":
        R = -S
    elif f == "setzero":                    # every stored entry assigned zero, one call
        R = S.copy()
        if a["subs"]:
            R[np.array(a["subs"], dtype=int)] = 0
    else:
        raise ValueError(f)
    if not isinstance(R, ttb.sptensor):
        return {"kind": "other", "type": type(R).__name__}
    o1 = obs_sparse(np, ttb, R)
    sec, sa = a["second"]["op"], a["second"]
    ent = sorted(zip(o1["subs"], o1["vals"]))
    ok1 = raw_ok(o1)
    o2 = guarded(lambda: run_on(np, ttb, R, sec, sa))
    o3 = None
    if ok1:
        fresh = tgen.mk_sptensor(ttb, np, o1["shape"], [e[0] for e in ent], [e[1] for e in ent])
        o3 = guarded(lambda: run_on(np, ttb, fresh, sec, sa))
    return {"kind": "chain", "first": o1, "second": o2, "fresh": o3}


def obs_stm(np, ttb, M, back=True):
    """raw observation of a sptenmat (+ to_sptensor() of it)"""
    o = obs_any(np, ttb, M)
    o["subs_shape"] = [int(d) for d in np.asarray(M.subs).shape]
    o["vals_shape"] = [int(d) for d in np.asarray(M.vals).shape]
    if back:
        try:
            o["back"] = obs_any(np, ttb, M.to_sptensor())
        except Exception as ex:
            o["back"] = {"exc": type(ex).__name__, "msg": str(ex)[:160]}
    return o


def run_stm_hist(np, ttb, S, a):
    shape, rd, cd = a["shape"], a["rd"], a["cd"]
    rda, cda = np.array(rd, dtype=int), np.array(cd, dtype=int)
    if a["via"] == "to_sptenmat":
        M = S.to_sptenmat(rda, cda)
    else:
        rows = np.array([stm_pos(shape, rd, cd, s) for s in a["subs"]], dtype=int).reshape((len(a["subs"]), 2))
        vals = np.array(a["vals"], dtype=float).reshape((len(a["vals"]), 1))
        M = ttb.sptenmat(rows, vals, rda, cda, tuple(shape), copy=a["via"] == "ctor_copy")
    obs = [obs_stm(np, ttb, M)]
    for st in a["steps"]:
        key = tuple(k if isinstance(k, int) else (slice(k["s"][0], k["s"][1]) if isinstance(k, dict) else np.array(k, dtype=int))
                    for k in (st["r"], st["c"]))
        v = st["v"]
        M[key] = v if isinstance(v, int) else np.array(v, dtype=float).reshape((len(v), 1))
        obs.append(obs_stm(np, ttb, M))
    return {"kind": "stm_hist", "steps": obs}


def run_gen(np, ttb, a):
    g = a["g"]
    if g == "sptendiag":
        els = np.array(a["els"], dtype=float)
        keep = els.copy()
        R = ttb.sptendiag(els) if a["req"] is None else ttb.sptendiag(els, tuple(a["req"]))
        o = obs_sparse(np, ttb, R)
        o["input_kept"] = bool(np.array_equal(keep, els))
        els[:] = 99.0                                  # second step: the caller re-uses its vector
        o["after"] = obs_sparse(np, ttb, R)
        return o
    if g == "sptenrand":
        np.random.seed(a["seed"])
        if "density" in a:
            R = ttb.sptenrand(tuple(a["req"]), density=float(a["density"]))
        else:
            R = ttb.sptenrand(tuple(a["req"]), nonzeros=a["nonzeros"])
        o = obs_sparse(np, ttb, R)
        o["unit"] = bool(all(0 < float(x) < 1 for x in np.asarray(R.vals).ravel()))
        o["vals"] = [1 if x != 0 else 0 for x in o["vals"]]          # only the zero pattern of the random values is compared
        return o
    if g == "from_function":
        np.random.seed(a["seed"])
        cnt = [0]

        def ones(shp):
            return np.ones(shp)

        def ints(shp):
            cnt[0] += 1
            return np.arange(1, shp[0] + 1, dtype=float).reshape(shp) * (-1) ** cnt[0]
        return obs_sparse(np, ttb, ttb.sptensor.from_function(ones if a["fn"] == "ones" else ints, tuple(a["req"]), a["nonzeros"]))
    if g in ("stm_ctor", "stm_from_array") and "perms" in a and "perm_run" not in a:
        first = None
        alts = []
        for p in a["perms"]:
            b = dict(a, rows=[a["rows"][k] for k in p], rv=[a["rv"][k] for k in p], perm_run=True)
            try:
                o = run_gen(np, ttb, b)
            except Exception as ex:
                o = {"exc": type(ex).__name__, "msg": str(ex)[:160]}
            if first is None:
                first = o
            else:
                alts.append(o)
        if "exc" in first:
            return first
        first["alts"] = alts
        return first
    rda, cda = np.array(a["rd"], dtype=int), np.array(a["cd"], dtype=int)
    m = len(a["rows"])
    rows = np.array(a["rows"], dtype=int).reshape((m, 2))
    vals = np.array(a["rv"], dtype=float).reshape((m, 1))
    if g == "stm_ctor":
        if m == 0:
            return obs_stm(np, ttb, ttb.sptenmat(None, None, rda, cda, tuple(a["req"])))
        return obs_stm(np, ttb, ttb.sptenmat(rows.copy(), vals.copy(), rda, cda, tuple(a["req"])))
    if g == "stm_from_array":
        ms = stm_mshape(a["req"], a["rd"], a["cd"])
        if a["dense"]:
            A = np.zeros(tuple(ms))
            for (r, c), v in zip(a["rows"], a["rv"]):
                A[r, c] += v
        else:
            from scipy import sparse as sps
            A = sps.coo_matrix((vals.ravel().copy(), (rows[:, 0].copy(), rows[:, 1].copy())), shape=tuple(ms))
            if a.get("fmt") == "csr":
                A = sps.csr_matrix(A)
            elif a.get("fmt") == "csc":
                A = sps.csc_matrix(A)
        return obs_stm(np, ttb, ttb.sptenmat.from_array(A, rda, cda, tuple(a["req"])))
    raise ValueError(g)


def stm_mshape(shape, rd, cd):
    return [math.prod(shape[m] for m in rd), math.prod(shape[m] for m in cd)]


# ---------------------------------------------------------------------------------------------
# raw bits decided on the Python side before a literal is written (what a nat / Z literal cannot express)
# ---------------------------------------------------------------------------------------------
def raw_ok(o):
    k = o.get("kind")
    if not strict_ok(o):
        return False
    if k == "sparse":
        rows_ok = all(len(r) == len(o["shape"]) and all(x >= 0 for x in r) for r in o["subs"])
        return (rows_ok and o.get("subs_integral", True) and o["nnz"] == len(o["subs"]) == len(o["vals"]) and tgen.all_int(o["vals"])
                and all(d >= 0 for d in o["shape"]))
    if k in ("dense", "array"):
        return tgen.all_int(o["data"])
    if k == "scalar":
        return isinstance(o["v"], (int, Fraction))
    if k == "sptenmat":
        rows_ok = all(len(r) == 2 and all(x >= 0 for x in r) for r in o["subs"])
        back = o.get("back", {})
        return (rows_ok and o["subs_integral"] and o["nnz"] == len(o["subs"]) == len(o["vals"]) and tgen.all_int(o["vals"])
                and len(o["shape"]) == 2 and back.get("kind") == "sparse" and raw_ok(back))
    if k == "stm_hist":
        return all(stm_raw_ok(x) for x in o["steps"])
    if k == "assoc":
        return len(o["keys"]) == len(o["vals"]) and tgen.all_int(o["vals"]) and all(x >= 0 for r in o["keys"] for x in r)
    return False


def stm_raw_ok(o):
    """raw bits of one sptenmat observation: n x 2 integer subscripts, n x 1 values, nnz = n, and to_sptensor() returns"""
    if o.get("kind") != "sptenmat" or not raw_ok(o):
        return False
    n = len(o["subs"])
    if n == 0:
        return math.prod(o["subs_shape"]) == 0 and math.prod(o["vals_shape"]) == 0
    return o["subs_shape"] == [n, 2] and o["vals_shape"] == [n, 1]


def diag_shape(a):
    N = len(a["els"])
    return [N] * N if a["req"] is None else [max(N, d) for d in a["req"]]


def req_count(a):
    """upper bound on the number of stored entries of sptenrand / from_function"""
    n = math.prod(a["req"])
    if "density" in a:
        return int(math.floor(n * a["density"]))
    z = a["nonzeros"]
    return int(math.ceil(n * z)) if 0 < z < 1 else int(math.floor(z))


# ---------------------------------------------------------------------------------------------
# Coq side
# ---------------------------------------------------------------------------------------------
def glist(items):
    return "[" + "; ".join(items) + "]"


def gsp_obs(o):
    return tgen.gsparse(o["shape"], o["subs"], o["vals"])


def gsp_sorted(o):
    """the observation with its (subscript, value) pairs sorted by subscript — a joint permutation of the stored entries; Coq
    (all_same_sorted) checks that the rows ascend strictly, so nothing is taken on trust from this sort"""
    es = sorted(zip([list(s) for s in o["subs"]], o["vals"]), key=lambda e: e[0])
    return tgen.gsparse(o["shape"], [e[0] for e in es], [e[1] for e in es])


def gsp_lex(a, ks="subs", kv="vals"):
    """an OPERAND of a huge case as a literal with its entries listed in ascending (lexicographic) subscript order — what the
    linear-time walks of Model/C06W5.v expect (Coq re-checks the strict ascent: sorted_wfb)"""
    es = sorted(zip([list(s) for s in a[ks]], a[kv]), key=lambda e: e[0])
    return tgen.gsparse(a["shape"], [e[0] for e in es], [e[1] for e in es])


def gsame_sparse(obs):
    fn = "all_same_sparse_e" if math.prod(obs[0]["shape"]) > BIG_CELLS else "all_same_sparse"
    return f"{fn} {glist([gsp_obs(o) for o in obs])}"


def gqs(runs):
    return "[" + "; ".join(gq(Fraction(r["v"])) for r in runs) + "]"


def gktensor(a):
    return tgen.gktensor(a["kw"], a["kf"])


def gtargets(ts):
    if not ts:
        return "(@nil (list nat * Z))"
    return "[" + "; ".join(f"({gnlist(rc)}, {gz(v)})" for rc, v in ts) + "]"


def check_gen(a, o):
    """generators: one run, nothing to permute"""
    g = a["g"]
    if g in ("stm_ctor", "stm_from_array"):
        if not stm_raw_ok(o) or o["tshape"] != a["req"] or o["rdims"] != a["rd"] or o["cdims"] != a["cd"]:
            return "false"
        ms = stm_mshape(a["req"], a["rd"], a["cd"])
        if o["shape"] != ms:
            return "false"
        e = (f"sp_denotes {gsp_obs(o)} (full 0%Z (from_aggregator zisz (vsum 0%Z Z.add) {gnlist(ms)} {gnmat(a['rows'])} {gzlist(a['rv'])}))"
             f" && wf_spb zisz {gsp_obs(o['back'])}"
             f" && sp_perm_eqb (sptenmat_to_sptensor (mkSTM {gnmat(o['subs'])} {gzlist(o['vals'])} {gnlist(a['rd'])} {gnlist(a['cd'])} {gnlist(a['req'])})) {gsp_obs(o['back'])}")
        # wave 4: pyttb holds exactly the triples (up to stored order) that C01's transliteration of the constructor returns
        # (Model/C01Unique.v stm_ctor, Model/C01Coo.v from_array_coo / from_array_dense: the functions C06_stm_ctor, C06_stm_ctor_indep,
        # C06_stm_from_coo, C06_stm_from_coo_indep are about), for the triples as given and for every re-ordering of them
        rdcd = f"(Some {gnlist(a['rd'])}) (Some {gnlist(a['cd'])}) {gnlist(a['req'])}"
        if g == "stm_ctor":
            some = "None None" if not a["rows"] else f"(Some {gnmat(a['rows'])}) (Some {gzlist(a['rv'])})"
            model = f"(stm_ctor Z.add zisz {some} {rdcd})"
        elif a["dense"]:
            A = {}
            for (r_, c_), v in zip(a["rows"], a["rv"]):
                A[(r_, c_)] = A.get((r_, c_), 0) + v
            data = [A.get((r_, c_), 0) for c_ in range(ms[1]) for r_ in range(ms[0])]
            model = f"(from_array_dense 0%Z Z.add zisz {tgen.gdense(ms, data)} {rdcd})"
        else:
            model = f"(from_array_coo Z.add zisz (mkCoo {gnlist(ms)} {gnmat(a['rows'])} {gzlist(a['rv'])}) {rdcd})"
        for x in [o] + o.get("alts", []):
            if not stm_raw_ok(x) or x["tshape"] != a["req"] or x["rdims"] != a["rd"] or x["cdims"] != a["cd"] or x["shape"] != ms:
                return "false"
            e += f" && stm_obs_is {model} {gnmat(x['subs'])} {gzlist(x['vals'])}"
        return e
    if o.get("kind") != "sparse" or not raw_ok(o):
        return "false"
    if g == "sptendiag":
        if not o["input_kept"] or not raw_ok(o["after"]):
            return "false"
        shp = diag_shape(a)
        req = "None" if a["req"] is None else f"(Some {gnlist(a['req'])})"
        # wave 5: pyttb holds the entries the transliteration returns (Model/C06W5.v impl_sptendiag; C06_sptendiag: well-formed, super-diagonal)
        return (f"sp_den_is {gnlist(shp)} (diag_den {gzlist(a['els'])}) {gsp_obs(o)} && sp_raw_eqb {gsp_obs(o)} {gsp_obs(o['after'])}"
                f" && sp_perm_eqb (impl_sptendiag 0%Z Z.add zisz {gzlist(a['els'])} {req}) {gsp_obs(o)}")
    if g == "sptenrand" and not o["unit"]:
        return "false"
    if len(o["subs"]) > req_count(a):
        return "false"
    return f"gen_wf_ok {gnlist(a['req'])} {gsp_obs(o)}"


def gfun_is(rs, f, o):
    """Gallina bool: the observation o (sptensor / tensor / ndarray / number) is the array of shape rs with entries f"""
    k = o["kind"]
    if k == "scalar":
        return f"scalar_is {gqs([o])} ({f} (@nil nat))" if rs == [] else "false"
    if k == "sparse":
        return f"sp_den_is {gnlist(rs)} {f} {gsp_obs(o)}"
    if k in ("dense", "array"):
        return f"den_matches {gnlist(rs)} {f} {tgen.gdense(o['shape'], o['data'])}"
    return "false"


def gkres(o):
    """pyttb's raw result as a literal of Model/C06Cont.v's kres Z (None: not expressible, e.g. a non-integral number)"""
    k = o["kind"]
    if k == "sparse":
        return f"(KSp {gsp_obs(o)})"
    if k in ("dense", "array"):
        return f"(KDen {tgen.gdense(o['shape'], o['data'])})"
    if k == "scalar" and Fraction(o["v"]).denominator == 1:
        return f"(KNum {gz(int(Fraction(o['v'])))})"
    return None


def gcont_is(model, o):
    g = gkres(o)
    return " && false" if g is None else f" && kres_matches {model} {g}"


def kernel_tie(c, o):
    """ties the C06 kernel theorems (stated over the C02 models impl_ttv_sp, impl_ttm_sp, impl_collapse_sp, impl_contract_sp,
    impl_scale_sp, impl_mask_sp) to pyttb inside this check: the first run's raw result is what the model computes from the
    literal operand"""
    a = c.args
    if c.op not in ("ttv", "ttm", "collapse", "contract", "scale", "mask", "permute", "reshape", "squeeze", "extract", "setitem", "getitem"):
        return ""
    shp = a["shape"]
    N = len(shp)
    A = tgen.gsparse(shp, a["subs"], a["vals"])
    if c.op == "getitem":
        # wave 5: S[array of subscripts] is extract: one value per requested row, in the order of the request (C06_ops_extract)
        if "q" not in a:
            return ""
        if o["kind"] == "scalar" and len(a["q"]) == 1:         # one requested row: the value itself
            return f" && scalar_is {gqs([o])} (hd 0%Z (impl_extract 0%Z {A} {gnmat(a['q'])}))"
        if o["kind"] != "array" or len(o["data"]) != len(a["q"]):
            return " && false"
        return f" && vec_eqb (impl_extract 0%Z {A} {gnmat(a['q'])}) {gzlist(o['data'])}"
    if c.op == "setitem":
        # wave 5: assignments at listed subscripts (pairwise distinct, in bounds): the result denotes the receiver's array with the
        # listed cells replaced (a zero deletes), step after step
        if not all(st["t"] == "subs" for st in a["steps"]) or o["kind"] != "sparse":
            return ""
        f = f"(zden_sp {A})"
        for st in a["steps"]:
            f = f"(fun i_ => last_match i_ {gtargets(list(zip(st['subs'], st['c'])))} ({f} i_))"
        return f" && sp_den_is {gnlist(shp)} {f} {gsp_obs(o)}"
    # permute / reshape / squeeze: the C07 models the theorems C06_ops_permute / _reshape / _squeeze are stated over
    # (shape included: a result with the right entries and the wrong shape is not the model's result)
    if c.op == "permute":
        return (f" && match permute_sp {A} {gnlist(a['p'])} with Some R_ => sp_perm_eqb R_ {gsp_obs(o)} | None => false end"
                if o["kind"] == "sparse" else " && false")
    if c.op == "reshape":
        if "old" in a:
            return (f" && match reshape_sp {A} {gnlist(a['new'])} {gnlist(a['old'])} with Some R_ => sp_perm_eqb R_ {gsp_obs(o)} | None => false end"
                    if o["kind"] == "sparse" else " && false")
        return (f" && match reshape_sp_all {A} {gnlist(a['new'])} with Some R_ => sp_perm_eqb R_ {gsp_obs(o)} | None => false end"
                if o["kind"] == "sparse" else " && false")
    if c.op == "squeeze":
        if o["kind"] == "sparse":
            return f" && match squeeze_sp 0%Z {A} with SqT R_ => sp_perm_eqb R_ {gsp_obs(o)} | SqScalar _ => false end"
        if o["kind"] == "scalar":
            return f" && match squeeze_sp 0%Z {A} with SqT _ => false | SqScalar v_ => scalar_is {gqs([o])} v_ end"
        return " && false"
    Z4 = "0%Z 1%Z Z.add Z.mul"
    if c.op == "ttv":
        order = sorted(range(len(a["dims"])), key=lambda j: a["dims"][j])
        sd, sv = [a["dims"][j] for j in order], [a["vecs"][j] for j in order]
        rs = [shp[m] for m in range(N) if m not in sd]
        gv = "[" + "; ".join(gzlist(v) for v in sv) + "]"
        # value model (C06_ops_ttv) and container model (C06_cont_ttv: kind of container, no explicit zero, accumulation)
        return (" && " + gfun_is(rs, f"(impl_ttv_sp {Z4} {A} {gnlist(sd)} {gv})", o)
                + gcont_is(f"(cont_ttv {Z4} zisz {A} {gnlist(sd)} {gv})", o))
    if c.op == "ttm":
        if len(a["dims"]) != 1:
            return ""
        n, U = a["dims"][0], a["mats"][0]
        J = len(U[0]) if a["tr"] else len(U)
        rs = [J if m == n else d for m, d in enumerate(shp)]
        gtr = 'true' if a['tr'] else 'false'
        e = " && " + gfun_is(rs, f"(impl_ttm_sp 0%Z Z.add Z.mul {A} {n} {tgen.gmatrix(U)} {gtr})", o)
        # container (C06_cont_ttm): a numpy matrix always gives the tensor full(Ynt); a scipy matrix gives Ynt itself or its expansion
        ynt = f"(ttm_Ynt 0%Z Z.add Z.mul zisz {A} {n} {J} {tgen.gmatrix(U)} {gtr})"
        if o["kind"] == "sparse":
            return e + (f" && sp_perm_eqb {ynt} {gsp_obs(o)}" if a.get("spm") else " && false")
        return e + gcont_is(f"(cont_ttm_ndarray 0%Z Z.add Z.mul zisz {A} {n} {J} {tgen.gmatrix(U)} {gtr})", o)
    if c.op == "collapse":
        dims = list(range(N)) if a["dims"] is None else sorted(a["dims"])
        rs = [shp[m] for m in range(N) if m not in dims]
        if a.get("red"):
            # wave 5: container model with the reducer (C06_cont_collapse_reducer_indep / _wf)
            return gcont_is(f"(cont_collapse_f 0%Z zisz red_{a['red']} {A} {gnlist(dims)})", o)
        return (" && " + gfun_is(rs, f"(impl_collapse_sp 0%Z Z.add {A} {gnlist(dims)})", o)
                + gcont_is(f"(cont_collapse 0%Z Z.add zisz {A} {gnlist(dims)})", o))
    if c.op == "contract":
        rs = [shp[m] for m in range(N) if m not in (a["i1"], a["i2"])]
        return (" && " + gfun_is(rs, f"(impl_contract_sp 0%Z Z.add {A} {a['i1']} {a['i2']})", o)
                + gcont_is(f"(cont_contract 0%Z Z.add zisz {A} {a['i1']} {a['i2']})", o))
    if c.op == "scale":
        if o["kind"] != "sparse":
            return " && false"
        g = f"(zden {tgen.gdense(a['fshape'], a['fdata'])})"
        return f" && sp_perm_eqb (impl_scale_sp Z.mul zisz {A} {gnlist(sorted(a['dims']))} {g}) {gsp_obs(o)}"
    if c.op == "mask":
        return f" && vec_eqb (impl_mask_sp 0%Z {A} {gnmat(o['keys'])}) {gzlist(o['vals'])}"
    if c.op == "extract":
        # C06_ops_extract: a (p, 1) column, one value per requested row in the order of the request
        if o["kind"] != "array" or o["shape"] != [len(a["q"]), 1]:
            return " && false"
        return f" && vec_eqb (impl_extract 0%Z {A} {gnmat(a['q'])}) {gzlist(o['data'])}"
    return ""


def setitem_model_tie(c, runs):
    """wave 5: EVERY run of a request made of subscript assignments is, up to the stored order, what the positional transliteration
    of sptensor._set_subscripts (Model/C06SetSubs.v set_subscripts = de-duplication + set_subs_AB; C06_set_subscripts_total, _indep) returns on the receiver AS STORED IN
    THAT RUN (the memory-layout re-runs use the first stored order)"""
    a = c.args
    if not a["steps"] or not all(st["t"] == "subs" for st in a["steps"]) or "variants" not in a:
        return ""
    perms = [v[0] for v in a["variants"]]
    perms += [perms[0]] * (len(runs) - len(perms))
    items = []
    for r, pa in zip(runs, perms):
        m = tgen.gsparse(a["shape"], [a["subs"][k] for k in pa], [a["vals"][k] for k in pa])
        for st in a["steps"]:
            m = f"(set_subscripts 0%Z zisz {m} {gtargets(list(zip(st['subs'], st['c'])))})"
        items.append(f"sp_perm_eqb {m} {gsp_obs(r)}")
    return " && " + " && ".join(items)


def check_chain(c, runs):
    from vcheck import Case
    if any(r.get("kind") != "chain" for r in runs):
        return "false"
    firsts = [r["first"] for r in runs]
    if not all(raw_ok(o) for o in firsts):
        return "false"
    seconds = [r["second"] for r in runs] + [r["fresh"] for r in runs]
    if any(o is None for o in seconds):
        return "false"
    e = gsame_sparse(firsts)
    if any("exc" in o for o in seconds):
        # refused for the result and for its fresh copy alike: nothing returned, nothing to compare
        return e if len({o.get("exc") for o in seconds}) == 1 else "false"
    f0 = firsts[0]
    fake = Case("chain2", {"shape": f0["shape"], "subs": f0["subs"], "vals": f0["vals"]})
    return e + " && " + check_ext(fake, seconds)


def check_ext(c, runs):
    """Gallina bool over the runs of one request (all runs returned something, no exception)"""
    a = c.args
    if c.op == "gen":
        return check_gen(a, runs[0])
    if c.op == "chain":
        return check_chain(c, runs)
    kinds = {r.get("kind") for r in runs}
    if len(kinds) != 1 or not all(raw_ok(r) for r in runs):
        return "false"
    kind = kinds.pop()
    if a.get("huge"):
        # linear-time checkers (Model/C06W4.v); the quadratic model ties are kept only where they stay affordable (extract)
        if kind == "scalar":
            e = f"all_same_scalar {gqs(runs)}"
            if c.op == "innerprod" and a.get("rk") == "sparse":
                # wave 5: model tie — the number is what the linear-time walk over the two operands (listed ascending) computes;
                # C06_huge_inner_sound: = the sum over all subscripts = impl_innerprod_sp_sp
                e += f" && huge_inner_ok {gsp_lex(a)} {gsp_lex(a, 'bsubs', 'bvals')} {gqs(runs[:1])}"
            return e
        if kind == "sparse":
            return f"all_same_sorted {glist([gsp_sorted(r) for r in runs])}"
        if kind in ("dense", "array"):
            return "all_same_dense " + glist([tgen.gdense(r["shape"], r["data"]) for r in runs]) + (kernel_tie(c, runs[0]) if c.op in ("extract", "getitem") else "")
        if kind == "assoc":
            srt = [sorted(zip([list(k) for k in r["keys"]], r["vals"]), key=lambda e: e[0]) for r in runs]
            return ("all_same_assoc_sorted " + glist(["(combine " + gnmat([e[0] for e in x]) + " " + gzlist([e[1] for e in x]) + ")" for x in srt])
                    + (kernel_tie(c, runs[0]) if c.op == "mask" else ""))       # wave 5: impl_mask_sp tie for the huge mask (thorough tier)
        return "false"
    if kind == "scalar":
        e = f"all_same_scalar {gqs(runs)}"
        if c.op == "innerprod":
            A = tgen.gsparse(a["shape"], a["subs"], a["vals"])
            if a["rk"] == "sparse":
                B = f"(zden_sp {tgen.gsparse(a['shape'], a['bsubs'], a['bvals'])})"
            elif a["rk"] == "dense":
                B = f"(zden {tgen.gdense(a['shape'], a['bd'])})"
            else:
                B = f"(zden_k {gktensor(a)})"
            e += f" && scalar_is {gqs(runs[:1])} (zinner {gnlist(a['shape'])} (zden_sp {A}) {B})"
            if a["rk"] == "ktensor":
                # wave 4: the model C06_ops_innerprod_kruskal is about (per component a ttv over all modes, weighted sum)
                e += f" && scalar_is {gqs(runs[:1])} (impl_innerprod_sp_k 0%Z 1%Z Z.add Z.mul {A} {gktensor(a)})"
        if c.op == "norm":
            e += f" && norm_sq_is {gqs(runs[:1])} {gz(sum(v * v for v in a['vals']))}"
        return e + kernel_tie(c, runs[0])
    if kind == "sparse":
        return gsame_sparse(runs) + kernel_tie(c, runs[0]) + (setitem_model_tie(c, runs) if c.op == "setitem" else "")
    if kind in ("dense", "array"):
        return "all_same_dense " + glist([tgen.gdense(r["shape"], r["data"]) for r in runs]) + kernel_tie(c, runs[0])
    if kind == "sptenmat":
        meta = {(tuple(r["shape"]), tuple(r["tshape"]), tuple(r["rdims"]), tuple(r["cdims"])) for r in runs}
        if len(meta) != 1:
            return "false"
        A = tgen.gsparse(a["shape"], a["subs"], a["vals"])
        return (gsame_sparse(runs) + " && " + gsame_sparse([r["back"] for r in runs]) + f" && sp_perm_eqb {A} {gsp_obs(runs[0]['back'])}")
    if kind == "stm_hist":
        A = tgen.gsparse(a["shape"], a["subs"], a["vals"])
        ms = stm_mshape(a["shape"], a["rd"], a["cd"])
        steps = glist([gtargets(step_targets(st, ms)) for st in a["steps"]])
        return " && ".join(f"stm_hist_ok {A} {gnlist(a['rd'])} {gnlist(a['cd'])} {steps} " +
                           glist([f"({gsp_obs(x)}, {gsp_obs(x['back'])})" for x in r["steps"]]) for r in runs)
    if kind == "assoc":
        return "all_same_assoc " + glist(["(combine " + gnmat(r["keys"]) + " " + gzlist(r["vals"]) + ")" for r in runs]) + kernel_tie(c, runs[0])
    return "false"


# ---------------------------------------------------------------------------------------------
# brute-force oracle
# ---------------------------------------------------------------------------------------------
def kdense(a):
    out = {}
    for i in tgen.all_subs(a["shape"]):
        t = 0
        for r, w in enumerate(a["kw"]):
            p = w
            for n, f in enumerate(a["kf"]):
                p *= f[i[n]][r]
            t += p
        out[tuple(i)] = t
    return out


def brute_innerprod(a):
    A = {tuple(s): v for s, v in zip(a["subs"], a["vals"])}
    if a["rk"] == "sparse":
        B = {tuple(s): v for s, v in zip(a["bsubs"], a["bvals"])}
    elif a["rk"] == "dense":
        B = {tuple(s): v for s, v in zip(tgen.all_subs(a["shape"]), a["bd"])}
    else:
        B = kdense(a)
    return sum(v * B.get(s, 0) for s, v in A.items())


def sp_problems(o, shape):
    """the well-formedness clauses on a raw coordinate observation (sptensor, or sptenmat read as a 2-way coordinate list)"""
    subs, vals = o["subs"], o["vals"]
    if strict_problem(o):
        return strict_problem(o)
    if len(subs) != len(vals):
        return f"{len(subs)} subscript rows but {len(vals)} values"
    if o["nnz"] != len(subs):
        return f"nnz reports {o['nnz']} but {len(subs)} rows are stored"
    if not o.get("subs_integral", True):
        return "non-integer subscripts"
    seen = set()
    for s in subs:
        if len(s) != len(shape) or any(not (0 <= x < d) for x, d in zip(s, shape)):
            return f"subscript {s} outside shape {list(shape)}"
        if tuple(s) in seen:
            return f"subscript {s} stored twice"
        seen.add(tuple(s))
    if any(v == 0 for v in vals):
        return "explicit zero stored"
    return None


def canon_ext(r):
    k = r["kind"]
    if k == "sparse":
        return (k, tuple(r["shape"]), tuple(sorted((tuple(s), str(v)) for s, v in zip(r["subs"], r["vals"]))))
    if k in ("dense", "array"):
        return (k, tuple(r["shape"]), tuple(map(str, r["data"])))
    if k == "scalar":
        return (k, str(Fraction(r["v"])))
    if k == "sptenmat":
        return (k, tuple(r["shape"]), tuple(r["tshape"]), tuple(r["rdims"]), tuple(r["cdims"]),
                tuple(sorted((tuple(s), str(v)) for s, v in zip(r["subs"], r["vals"]))), canon_ext(r["back"]) if "kind" in r["back"] else str(r["back"]))
    if k == "assoc":
        return (k, tuple(sorted((tuple(s), str(v)) for s, v in zip(r["keys"], r["vals"]))))
    return (k, str(r))


def dict_of(o):
    return {tuple(s): v for s, v in zip(o["subs"], o["vals"])}


def oracle_stm_obs(o, ms, want, where):
    """one sptenmat observation against the matrix `want` ({(r, c): nonzero value}) it has to denote"""
    if o.get("kind") != "sptenmat":
        return where + f"result of kind {o.get('kind')}"
    p = sp_problems(o, ms)
    if p:
        return where + "ill-formed sptenmat: " + p
    if not stm_raw_ok(o):
        return where + f"ill-shaped sptenmat arrays: subs {o.get('subs_shape')} vals {o.get('vals_shape')} for {len(o['subs'])} entries"
    if dict_of(o) != want:
        return where + f"sptenmat stores {dict_of(o)} but the assigned matrix has the nonzeros {want}"
    b = o["back"]
    if "exc" in b:
        return where + f"to_sptensor raises {b['exc']}"
    if b.get("kind") != "sparse":
        return where + f"to_sptensor returns {b.get('kind')}"
    p = sp_problems(b, o["tshape"])
    if p:
        return where + "ill-formed to_sptensor() result: " + p
    got = {tuple(stm_pos(o["tshape"], o["rdims"], o["cdims"], s)): v for s, v in zip(b["subs"], b["vals"])}
    if got != want or list(b["shape"]) != list(o["tshape"]):
        return where + f"to_sptensor() does not denote the same array: {b}"
    return None


def aggregate(rows, vals):
    out = {}
    for r, v in zip(rows, vals):
        out[tuple(r)] = out.get(tuple(r), 0) + v
    return {k: v for k, v in out.items() if v != 0}


def oracle_gen(a, o):
    g = a["g"]
    if "exc" in o:
        return f"{g} raises {o['exc']}: {o.get('msg')}"
    if g in ("stm_ctor", "stm_from_array"):
        ms = stm_mshape(a["req"], a["rd"], a["cd"])
        if o.get("kind") == "sptenmat" and (o["tshape"] != a["req"] or o["rdims"] != a["rd"] or o["cdims"] != a["cd"] or o["shape"] != ms):
            return f"{g}: wrong tshape / rdims / cdims / shape: {o}"
        p = oracle_stm_obs(o, ms, aggregate(a["rows"], a["rv"]), g + ": ")
        if p:
            return p
        for k, x in enumerate(o.get("alts", [])):
            where = f"{g}, input triples in the order {a['perms'][k + 1]}: "
            if "exc" in x:
                return where + f"raises {x['exc']}: {x.get('msg')} (the first order is accepted)"
            p = oracle_stm_obs(x, ms, aggregate(a["rows"], a["rv"]), where)
            if p:
                return p
        return None
    if o.get("kind") != "sparse":
        return f"{g} returns {o.get('kind')}"
    shp = diag_shape(a) if g == "sptendiag" else a["req"]
    if list(o["shape"]) != list(shp):
        return f"{g}: shape {o['shape']}, expected {shp}"
    p = sp_problems(o, shp)
    if p:
        return f"{g}: ill-formed sparse result: {p}"
    if g == "sptendiag":
        want = {tuple([k] * len(shp)): v for k, v in enumerate(a["els"]) if v != 0}
        if dict_of(o) != want:
            return f"sptendiag stores {dict_of(o)}, expected {want}"
        if not o["input_kept"]:
            return "sptendiag changed the caller's vector"
        if (o["after"]["subs"], o["after"]["vals"]) != (o["subs"], o["vals"]):
            return f"sptendiag result changes when the caller re-uses its vector: {o['after']['vals']}"
    else:
        if len(o["subs"]) > req_count(a):
            return f"{g}: {len(o['subs'])} entries stored, at most {req_count(a)} requested"
        if g == "sptenrand" and not o["unit"]:
            return "sptenrand: value outside (0, 1)"
    return None


def brute_expected(op, a):
    """(shape, {subscript: nonzero value}) of the result by its definition, plain Python loops over all subscripts; None = not covered"""
    shp = a["shape"]
    N = len(shp)
    A = {tuple(s): v for s, v in zip(a["subs"], a["vals"])}
    cells = [tuple(x) for x in tgen.all_subs(shp)]

    def build(rs, f):
        out = {}
        for i in [tuple(x) for x in tgen.all_subs(rs)] if rs else [()]:
            v = f(i)
            if v != 0:
                out[i] = v
        return list(rs), out
    if op == "ttv":
        dims, vecs = a["dims"], a["vecs"]
        rest = [m for m in range(N) if m not in dims]

        def f(i):
            t = 0
            for j in cells:
                if all(j[m] == i[k] for k, m in enumerate(rest)):
                    p = A.get(j, 0)
                    for d, v in zip(dims, vecs):
                        p *= v[j[d]]
                    t += p
            return t
        return build([shp[m] for m in rest], f)
    if op == "ttm" and len(a["dims"]) == 1:
        n, U, tr = a["dims"][0], a["mats"][0], a["tr"]
        J = len(U[0]) if tr else len(U)
        rs = [J if m == n else d for m, d in enumerate(shp)]
        return build(rs, lambda i: sum((U[k][i[n]] if tr else U[i[n]][k]) * A.get(i[:n] + (k,) + i[n + 1:], 0) for k in range(shp[n])))
    if op == "collapse" and a.get("red"):
        dims = list(range(N)) if a["dims"] is None else a["dims"]
        rest = [m for m in range(N) if m not in dims]
        groups = {}
        for j, v in zip(a["subs"], a["vals"]):
            groups.setdefault(tuple(j[m] for m in rest), []).append(v)
        if not rest and not groups:
            return None                         # reducing no value: the reducer's own business (np.max raises)
        return build([shp[m] for m in rest], lambda i: py_reduce(a["red"], groups[i]) if i in groups else 0)
    if op in ("collapse", "contract"):
        dims = (list(range(N)) if a["dims"] is None else a["dims"]) if op == "collapse" else [a["i1"], a["i2"]]
        rest = [m for m in range(N) if m not in dims]
        return build([shp[m] for m in rest], lambda i: sum(
            v for j, v in A.items() if all(j[m] == i[k] for k, m in enumerate(rest)) and (op == "collapse" or j[a["i1"]] == j[a["i2"]])))
    if op == "scale":
        F = dict(zip(map(tuple, tgen.all_subs(a["fshape"])), a["fdata"]))
        sd = sorted(a["dims"])
        if list(a["fshape"]) != [shp[m] for m in sd]:
            return None                         # ill-sized factor: not an admissible request, nothing is defined
        return build(shp, lambda i: A.get(i, 0) * F[tuple(i[m] for m in sd)])
    if op == "permute":
        p = a["p"]
        return [shp[m] for m in p], {tuple(j[m] for m in p): v for j, v in A.items()}

    def lin(sub, dims_shape):
        k, mult = 0, 1
        for x, d in zip(sub, dims_shape):
            k += x * mult
            mult *= d
        return k

    def unlin(k, dims_shape):
        out = []
        for d in dims_shape:
            out.append(k % d)
            k //= d
        return tuple(out)
    if op == "reshape":
        old = a.get("old", list(range(N)))
        keep = [m for m in range(N) if m not in old]
        return ([shp[m] for m in keep] + list(a["new"]),
                {tuple(j[m] for m in keep) + unlin(lin([j[m] for m in old], [shp[m] for m in old]), a["new"]): v for j, v in A.items()})
    if op == "squeeze":
        keep = [m for m in range(N) if shp[m] != 1]
        return [shp[m] for m in keep], {tuple(j[m] for m in keep): v for j, v in A.items()}
    return None


def brute_problem(op, a, o):
    e = brute_expected(op, a)
    if e is None:
        return None
    rs, want = e
    k = o.get("kind")
    if k == "scalar":
        got = {(): Fraction(o["v"])} if Fraction(o["v"]) != 0 else {}
        if rs != [] or got != {x: Fraction(v) for x, v in want.items()}:
            return f"{op} returns the number {o['v']}, the definition gives shape {rs} entries {want}"
        return None
    if k == "sparse":
        got = {tuple(x): v for x, v in zip(o["subs"], o["vals"])}
    elif k in ("dense", "array"):
        got = {tuple(x): v for x, v in zip(tgen.all_subs(o["shape"]), o["data"]) if v != 0}
    else:
        return None
    if list(o["shape"]) != list(rs) or got != want:
        return f"{op} returns shape {o['shape']} with nonzeros {got}; by the definition (sum over all subscripts) it is shape {rs} with nonzeros {want}"
    return None


def oracle_ext(c, runs, variants):
    a = c.args
    if c.op == "gen":
        return oracle_gen(a, runs[0])
    if c.op == "chain":
        for r, (pa, pb) in zip(runs, variants):
            if r.get("kind") != "chain":
                return f"stored order {pa}/{pb}: {a['first']} returns {r}"
            p = sp_problems(r["first"], r["first"]["shape"])
            if p:
                return f"stored order {pa}/{pb}: ill-formed result of {a['first']}: {p}"
        c0 = canon_ext(runs[0]["first"])
        for r, (pa, pb) in zip(runs[1:], variants[1:]):
            if canon_ext(r["first"]) != c0:
                return f"stored order {pa}/{pb}: {a['first']} gives a different result: {r['first']} vs {runs[0]['first']}"
        seconds = [(r["second"], f"stored order {pa}/{pb}, {a['second']['op']} on the result of {a['first']}") for r, (pa, pb) in zip(runs, variants)]
        seconds += [(r["fresh"], f"stored order {pa}/{pb}, {a['second']['op']} on a fresh copy of the result") for r, (pa, pb) in zip(runs, variants)]
        if any(o is None for o, _ in seconds):
            return "no second observation"
        excs = {o.get("exc") for o, _ in seconds}
        if len(excs) > 1:
            return f"{a['second']['op']} after {a['first']}: raises for some of result / fresh copy / stored orders only: {[(w, o.get('exc'), o.get('msg')) for o, w in seconds if 'exc' in o][:2]}"
        if excs != {None}:
            return None
        for o, w in seconds:
            k = o.get("kind")
            if k in ("sparse", "sptenmat"):
                p = sp_problems(o, o["shape"])
                if p:
                    return w + ": ill-formed result: " + p
        s0 = canon_ext(seconds[-len(runs)][0])          # the fresh copy under the identity order is the reference
        for o, w in seconds:
            if canon_ext(o) != s0:
                return w + f": {o} differs from the same request on a fresh copy: {seconds[-len(runs)][0]}"
        return None
    if c.op == "stm_hist":
        ms = stm_mshape(a["shape"], a["rd"], a["cd"])
        for r, (pa, pb) in zip(runs, variants):
            want = {tuple(stm_pos(a["shape"], a["rd"], a["cd"], s)): v for s, v in zip(a["subs"], a["vals"])}
            if r.get("kind") != "stm_hist" or len(r["steps"]) != len(a["steps"]) + 1:
                return f"stored order {pa}: {r}"
            for k, o in enumerate(r["steps"]):
                if k > 0:
                    for (rr, cc), v in step_targets(a["steps"][k - 1], ms):
                        want[(rr, cc)] = v
                    want = {x: v for x, v in want.items() if v != 0}
                p = oracle_stm_obs(o, ms, want, f"stored order {pa} ({a['via']}), after step {k} {a['steps'][k - 1] if k else '(initial)'}: ")
                if p:
                    return p
        return None
    for r, (pa, pb) in zip(runs, variants):
        k = r.get("kind")
        where = f"stored order {pa}/{pb}: "
        if k == "other":
            return where + f"result of type {r.get('type')}"
        if k == "sparse":
            p = sp_problems(r, r["shape"])
            if p:
                return where + "ill-formed sparse result: " + p
        if k == "sptenmat":
            p = sp_problems(r, r["shape"])
            if p:
                return where + "ill-formed sptenmat: " + p
            b = r["back"]
            if "exc" in b:
                return where + f"to_sptensor of the returned sptenmat raises {b['exc']}"
            if b.get("kind") != "sparse":
                return where + f"to_sptensor of the returned sptenmat returns {b.get('kind')}"
            p = sp_problems(b, b["shape"])
            if p:
                return where + "ill-formed round-trip tensor: " + p
        if k == "assoc" and (len(r["keys"]) != len(r["vals"]) or len(set(map(tuple, r["keys"]))) != len(r["keys"])):
            return where + "mask: values do not correspond one-to-one to the nonzeros of the mask"
        if k in ("dense", "array") and len(r["data"]) != math.prod(r["shape"]):
            return where + "dense result with inconsistent size"
    c0 = canon_ext(runs[0])
    for r, (pa, pb) in zip(runs[1:], variants[1:]):
        if canon_ext(r) != c0:
            return f"stored order {pa}/{pb} of the same operands gives a different result: {r} vs {runs[0]}"
    r0 = runs[0]
    if c.op in ("ttv", "ttm", "collapse", "contract", "scale", "permute", "reshape", "squeeze"):
        p = brute_problem(c.op, a, r0)
        if p:
            return p
    if c.op == "mask" and r0.get("kind") == "assoc":
        A = {tuple(s): v for s, v in zip(a["subs"], a["vals"])}
        if [A.get(tuple(k), 0) for k in r0["keys"]] != list(r0["vals"]):
            return f"mask returns {r0['vals']} at the mask's nonzeros {r0['keys']}; the tensor holds {[A.get(tuple(k), 0) for k in r0['keys']]} there"
    if c.op == "innerprod":
        want = brute_innerprod(a)
        if r0["kind"] != "scalar" or Fraction(r0["v"]) != want:
            return f"innerprod returns {r0.get('v')} but the sum of products over all subscripts is {want}"
    if c.op == "norm":
        want = sum(v * v for v in a["vals"])
        got = Fraction(r0["v"]) ** 2 if r0["kind"] == "scalar" else None
        if got is None or abs(got - want) > Fraction(1, 10 ** 9) * max(1, want):
            return f"norm returns {r0.get('v')} whose square is not the sum of squares {want}"
    if c.op == "sptenmat":
        b = r0["back"]
        A = tuple(sorted((tuple(s), str(v)) for s, v in zip(a["subs"], a["vals"])))
        B = tuple(sorted((tuple(s), str(v)) for s, v in zip(b["subs"], b["vals"])))
        if A != B or list(b["shape"]) != list(a["shape"]):
            return f"to_sptenmat then to_sptensor does not give the tensor back: {b}"
    return None
