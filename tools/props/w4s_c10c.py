"""W4S slice for C10, third part: the WHOLE function hosvd — to be INCLUDEd by tools/props/c10.py
(`INCLUDE = ["w4s_c10", "w4s_c10c"]`): generated unit GenHosvdFull (pyttb/hosvd.py::hosvd: argument checks on ranks / dimorder, defaults,
threshold, mode loop, final core, result; GenHosvd is needed by the bridge), theorem file Props/W4SC10c.v, differential op sk_hosvd_full."""
from props import w4s as _w

PROP = "W4S"
LEVEL = _w.LEVEL
GEN_UNITS = ['GenHosvd', 'GenHosvdFull']
COQ_TARGETS = ['Props/W4SC10c.vo'] + ['Model/W4SHarnessHosvdFull.vo']
THEOREM_FILES = ['Props/W4SC10c.v']
COQ_IMPORTS = ("From Coq Require Import List ZArith Bool.\n"
               "From PV Require Import Model.W4SHarnessHosvdFull.\n")
RULE = _w.RULE
EXPLANATION = _w.EXPLANATION
CORRESPONDENCE_ONLY = []
TRUSTED_EXTRA = _w.TRUSTED_EXTRA
SHARD = _w.SHARD
_OPS = ('sk_hosvd_full',)


def gen_cases(rng, tier):
    return _w._hosvd_full_cases(rng, tier == "thorough")


run_impl = _w.run_impl
coq_check = _w.coq_check
oracle = _w.oracle
