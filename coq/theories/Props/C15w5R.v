(* Props/C15w5R.v — wave 5: ktensor.symmetrize over the REAL NUMBERS, code as written, with NO oracle hypothesis: the operations
   are the ones pyttb uses (1/x, the 2-norm sqrt(sum of squares), the tests 0 < x and x < 0, the N-th root x^(1/N) on the
   non-negative reals; Proofs/C15KReal.v proves every oracle hypothesis of Props/C15w5.v for them — so those hypotheses are
   jointly satisfiable).  r_symmetrize K = assert cubical; K.normalize("all") with C08's loops; the body loops of
   Model/C15KLoop.v.  Only statements closed by [exact]; axioms: the standard library's real numbers. *)
From Coq Require Import List Arith Bool Permutation Reals.
From PV Require Import Base.Index Np.Array Model.Repr Model.C08Kruskal Model.C15KLoop Proofs.C15KReal.
Import ListNotations.
Local Open Scope R_scope.

(* "an already symmetric tensor keeps its value": every real Kruskal tensor whose factors have proportional columns — factor k =
   B . diag(c_k), all scalars non-zero: identical factors, factors stored with scrambled column signs / scalings — is answered,
   and the answer denotes the same array; all orders N >= 1, sizes, ranks, weights and scalars of either sign, zero columns *)
Theorem C15_real_ksym_proportional_keeps : forall (w : list R) (B : list (list R)) (cv0 : list R) (cs' : list (list R)),
  (forall cv, In cv (cv0 :: cs') -> forall r, (r < length w)%nat -> nth r cv 0 <> 0) ->
  Forall (fun row => length row = length w) B -> (forall cv, In cv (cv0 :: cs') -> length cv = length w) ->
  exists Sy, r_symmetrize (mkK w (map (fun cv => scale_cols Rmult cv B) (cv0 :: cs'))) = KOk Sy /\
             forall i, den_k 0 1 Rplus Rmult Sy i = den_k 0 1 Rplus Rmult (mkK w (map (fun cv => scale_cols Rmult cv B) (cv0 :: cs'))) i.
Proof. exact r_symmetrize_proportional_keeps. Qed.

Theorem C15_real_ksym_identical_keeps : forall (w : list R) (A : list (list R)) n, Forall (fun row => length row = length w) A ->
  exists Sy, r_symmetrize (mkK w (repeat A (S n))) = KOk Sy /\
             forall i, den_k 0 1 Rplus Rmult Sy i = den_k 0 1 Rplus Rmult (mkK w (repeat A (S n))) i.
Proof. exact r_symmetrize_identical_keeps. Qed.

(* "returns a Kruskal tensor that is symmetric in all modes": every answer on a well-formed real Kruskal tensor *)
Theorem C15_real_ksym_symmetric : forall K Sy : ktensor R, kfactors K <> [] -> wf_k K -> r_symmetrize K = KOk Sy ->
  forall i i', Permutation i i' -> den_k 0 1 Rplus Rmult Sy i = den_k 0 1 Rplus Rmult Sy i'.
Proof. exact r_symmetrize_symmetric. Qed.

Theorem C15_real_ksym_refuses : forall K : ktensor R, cubical_shape (kshape K) = false -> r_symmetrize K = KErr.
Proof. exact r_symmetrize_refuses. Qed.

Print Assumptions C15_real_ksym_proportional_keeps.
Print Assumptions C15_real_ksym_identical_keeps.
Print Assumptions C15_real_ksym_symmetric.
Print Assumptions C15_real_ksym_refuses.
