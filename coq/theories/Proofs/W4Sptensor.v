(* Proofs/W4Sptensor.v — bridges Gen.f = H_f for sptensor.ones / sptensor.permute of Gen/GenSptensor4.v (regenerated from
   /repo/pyttb/sptensor.py on every run) and their laws; permute is tied to the hand model permute_sp of Model/C07Ops.v. *)
From Coq Require Import List ZArith Arith Bool Lia Permutation.
From PV Require Import Base.Index Base.Perm Np.NpZ Np.NpZ2 Np.NpZ3 Np.NpZ3c Np.NpZ3d Np.NpZ3e Np.NpZ4 Np.NpZ4b Proofs.NpZProofs
  Model.Sparse Model.C07Ops Model.W4Ktensor Model.W4Sptensor Proofs.W4Loops Proofs.W4KtensorLaws Gen.GenSptensor4.
Import ListNotations.
Local Open Scope Z_scope.

(* ---------------------------------------------------------------- ones *)
Theorem sp_ones_bridge (self : sptz) : sptensor_ones self = H_sp_ones self.
Proof. reflexivity. Qed.

Lemma spt_make_ok_vals (subs : mat) (v v' shape : vec) : length v = length v' -> spt_make_ok subs v shape = spt_make_ok subs v' shape.
Proof. intros H. unfold spt_make_ok, zlen. now rewrite H. Qed.

(* on a tensor that passes the constructor's checks: never raises, same pattern and shape, every value 1 *)
Theorem gen_sp_ones_wf (self : sptz) : spt_make_ok (spt_subs self) (spt_vals self) (spt_shape self) = true ->
  sptensor_ones self = Ok (mkspt (spt_subs self) (map (fun _ => 1) (spt_vals self)) (spt_shape self)).
Proof.
  intros H. rewrite sp_ones_bridge. unfold H_sp_ones. cbv zeta.
  rewrite (spt_make_ok_vals _ _ (spt_vals self)) by apply map_length. now rewrite H.
Qed.

Theorem gen_sp_ones_idem (self t : sptz) : sptensor_ones self = Ok t -> sptensor_ones t = Ok t.
Proof.
  rewrite sp_ones_bridge. unfold H_sp_ones. cbv zeta. destruct (spt_make_ok _ _ _) eqn:E; [|discriminate].
  intros X. injection X as <-. rewrite sp_ones_bridge. unfold H_sp_ones. cbv zeta. cbn [spt_subs spt_vals spt_shape]. rewrite map_map.
  cbv beta. now rewrite E.
Qed.

(* ---------------------------------------------------------------- permute *)
Lemma any_ne_is_not_eq (a b : vec) : zlen a = zlen b -> np_any (map negb (np_eq_vv a b)) = negb (zlist_eqb a b).
Proof.
  intros H. unfold np_eq_vv. rewrite H, Z.eqb_refl. unfold zlen in H. apply Nat2Z.inj in H. clear - H. revert b H.
  induction a as [|x a IH]; intros [|y b] H; cbn in H; try discriminate; [reflexivity|].
  cbn [zmap2b map zlist_eqb]. unfold np_any in *. cbn [existsb]. rewrite IH by lia. destruct (x =? y); reflexivity.
Qed.

Lemma zlen_np_sort l : zlen (np_sort l) = zlen l.
Proof. unfold zlen. now rewrite (Permutation_length (np_sort_perm l)). Qed.

Lemma zlen_arange0 n : 0 <= n -> zlen (np_arange 0 n) = n.
Proof. intros H. unfold np_arange, zlen. rewrite map_length, seq_length. lia. Qed.

(* `order_isbool` = the dtype flag of the request (`order.dtype == bool`, /repo 9c8fdd5): a boolean order is rejected
   whatever it holds; for an integer order the method is H_sp_permute *)
Theorem sp_permute_bridge (self : sptz) (order : vec) (isbool : bool) :
  sptensor_permute self order isbool = if isbool then Err else H_sp_permute self order.
Proof.
  unfold sptensor_permute, H_sp_permute, spt_ndims, spt_make. cbv zeta.
  destruct isbool; cbn [orb]; [reflexivity|].
  set (n := zlen (spt_shape self)). assert (Hn : 0 <= n) by (unfold n, zlen; lia).
  destruct (Z.eqb_spec n (zlen order)) as [E|E]; cbn [negb orb andb].
  - assert (El : zlen (np_sort order) = zlen (np_arange 0 n)) by (rewrite zlen_np_sort, zlen_arange0 by exact Hn; lia).
    unfold np_bcast_ok. rewrite El, Z.eqb_refl. cbn [orb]. rewrite (any_ne_is_not_eq _ _ El).
    destruct (zlist_eqb (np_sort order) (np_arange 0 n)); cbn [negb]; [|reflexivity].
    destruct (np_size2 (spt_subs self) =? 0); cbn [negb]; reflexivity.
  - reflexivity.
Qed.

Theorem sp_permute_bridge_int (self : sptz) (order : vec) : sptensor_permute self order false = H_sp_permute self order.
Proof. exact (sp_permute_bridge self order false). Qed.

(* a boolean order never reaches the column selection (where it would act as a mask) *)
Theorem gen_sp_permute_bool_rejected (self : sptz) (order : vec) : sptensor_permute self order true = Err.
Proof. exact (sp_permute_bridge self order true). Qed.

(* accepted exactly on permutations of range(ndims) *)
Theorem gen_sp_permute_rejects (self : sptz) (order : vec) :
  np_sort order <> np_arange 0 (zlen (spt_shape self)) -> sptensor_permute self order false = Err.
Proof.
  intros H. rewrite sp_permute_bridge_int. unfold H_sp_permute. cbv zeta.
  destruct (zlist_eqb _ _) eqn:E; [|now rewrite andb_false_r]. apply zlist_eqb_eq in E. congruence.
Qed.

(* the result is the hand model permute_sp of Model/C07Ops.v on the shared sparse record (a tensor with stored entries;
   subscripts and sizes non-negative, which the constructor guarantees) *)
Theorem gen_sp_permute_model (self t : sptz) (order : vec) :
  (forall row, In row (spt_subs self) -> forall s, In s row -> 0 <= s) -> (forall d, In d (spt_shape self) -> 0 <= d) ->
  np_size2 (spt_subs self) <> 0 ->
  sptensor_permute self order false = Ok t ->
  is_perm (nats order) (length (spt_shape self)) /\ permute_sp (to_Sp self) (nats order) = Some (to_Sp t).
Proof.
  intros Hsub Hshp Hz E. rewrite sp_permute_bridge_int in E. unfold H_sp_permute in E. cbv zeta in E.
  destruct (Z.eqb_spec (zlen (spt_shape self)) (zlen order)) as [El|]; [|discriminate]. cbn [andb] in E.
  destruct (zlist_eqb _ _) eqn:Es; [|discriminate]. apply zlist_eqb_eq in Es.
  assert (Hp : is_perm (nats order) (length (spt_shape self))) by (apply sorted_range_is_perm; exact Es).
  assert (Ho : forall x, In x order -> 0 <= x) by (intros x Hx; apply (sorted_is_range_in order _ Es x) in Hx; lia).
  split; [exact Hp|].
  unfold permute_sp, to_Sp. cbn [sshape ssubs svals].
  assert (Hb : is_permb (nats order) (length (nats (spt_shape self))) = true).
  { unfold nats at 2. rewrite map_length. apply is_permb_spec. exact Hp. }
  rewrite Hb.
  assert (Pk : forall (r : vec), nats (np_take 0 r order) = pick 0%nat (nats order) (nats r)).
  { intros r. rewrite (np_take_pick 0 r order Ho). unfold pick, nats. rewrite !map_map. apply map_ext. intros x.
    change 0%nat with (Z.to_nat 0). symmetry. apply map_nth. }
  replace (np_size2 (spt_subs self) =? 0) with false in E by (symmetry; apply Z.eqb_neq; exact Hz).
  destruct (_ && _ && _); [|discriminate]. injection E as <-. cbn [spt_shape spt_subs spt_vals].
  f_equal. f_equal; [symmetry; apply Pk|].
  unfold np_cols. rewrite !map_map. apply map_ext. intros r. symmetry. apply Pk.
Qed.

(* nothing stored: the subscript and value arrays are handed on, only the shape is permuted *)
Theorem gen_sp_permute_empty (self t : sptz) (order : vec) : np_size2 (spt_subs self) = 0 ->
  sptensor_permute self order false = Ok t -> t = mkspt (spt_subs self) (spt_vals self) (np_take 0 (spt_shape self) order).
Proof.
  intros Hz E. rewrite sp_permute_bridge_int in E. unfold H_sp_permute in E. cbv zeta in E.
  destruct (_ && _); [|discriminate]. rewrite Hz in E. cbn [Z.eqb] in E. destruct (_ && _); [|discriminate]. now injection E as <-.
Qed.

(* ... hence entry i of the result is entry (i o order^-1) of self (C07's permute theorem, Proofs/C07Proofs.v) *)
From PV Require Import Proofs.C07Proofs.
Theorem gen_sp_permute_den (self t : sptz) (order : vec) :
  (forall row, In row (spt_subs self) -> forall s, In s row -> 0 <= s) -> (forall d, In d (spt_shape self) -> 0 <= d) ->
  np_size2 (spt_subs self) <> 0 -> (forall row, In row (spt_subs self) -> length row = length (spt_shape self)) ->
  sptensor_permute self order false = Ok t ->
  forall i, length i = length (spt_shape self) ->
            den_sp 0 (to_Sp t) i = den_sp 0 (to_Sp self) (pick 0%nat (invperm (nats order)) i).
Proof.
  intros Hsub Hshp Hz Hrows E i Hi. destruct (gen_sp_permute_model self t order Hsub Hshp Hz E) as [Hp Hm].
  assert (HL : length (sshape (to_Sp self)) = length (spt_shape self)) by (unfold to_Sp, nats; cbn [sshape]; apply map_length).
  destruct (permute_sparse_correct 0 (Z.eqb 0) (to_Sp self) (nats order)) as (R & HR & _ & _ & _ & Hd & _).
  - rewrite HL. exact Hp.
  - apply Forall_forall. intros j Hj. unfold to_Sp in Hj. cbn [ssubs] in Hj. apply in_map_iff in Hj as (row & <- & Hrow).
    rewrite HL. unfold nats. rewrite map_length. apply Hrows. exact Hrow.
  - rewrite Hm in HR. injection HR as <-. apply Hd. rewrite HL. exact Hi.
Qed.
