"""C19 operation registry: descriptors -> pyttb calls, Gallina argument text, pure-Python preconditions, generators."""
import itertools
import math

from vcheck import gz, gzlist, gopt, gbool

OPS = {}
TRIGGERS = {}
WITNESSES = {}
CORRESPONDENCE_ONLY = []


class Op:
    def __init__(self, name, pre_c, guard_c, coq, pre, call, gen, mutating=False):
        self.name, self.pre_c, self.guard_c, self.coq, self.pre, self.call, self.gen = name, pre_c, guard_c, coq, pre, call, gen
        self.mutating = mutating


def reg(name, cname, coq, pre, call, gen, mutating=False, guard=True):
    """cname: 'x' -> pre_x / guard_x;  ('p', 'g') -> pre_p / guard_g;  guard=False -> only pre_x exists (no guard model)"""
    pre_c, guard_c = (cname, cname) if isinstance(cname, str) else cname
    OPS[name] = Op(name, pre_c, guard_c if guard else None, coq, pre, call, gen, mutating)


# ------------------------------------------------------------------------------------------------
# Gallina text
# ------------------------------------------------------------------------------------------------
def zl(l):
    return gzlist(list(l))


def zo(l):
    return gopt(None if l is None else list(l), gzlist)


def pl(pairs):
    if not pairs:
        return "(@nil (Z * Z))"
    return "[" + "; ".join(f"({gz(a)}, {gz(b)})" for a, b in pairs) + "]"


def zll(ll):
    if not ll:
        return "(@nil (list Z))"
    return "[" + "; ".join(zl(x) for x in ll) + "]"


# ------------------------------------------------------------------------------------------------
# operand builders (values are fixed small integers; only shapes matter)
# ------------------------------------------------------------------------------------------------
def _np():
    import numpy as np
    return np


def _ttb():
    import pyttb as ttb
    return ttb


def arr(shape, start=1):
    np = _np()
    n = math.prod(shape)
    return (np.arange(start, start + n, dtype=float) % 7 + 1).reshape(tuple(shape), order="F")


def marr(shape, start=1):
    """multiplicand (vector / matrix handed to ttv, ttm, mttkrp, khatrirao, constructors): layout from the descriptor's "mk":
    None = F-ordered, "C" = C-contiguous, "view" = every second row/column of a larger C-ordered buffer (non-contiguous)"""
    np = _np()
    a = arr(shape, start)
    mk = _KINDS.get("mk")
    if mk == "C":
        return np.ascontiguousarray(a)
    if mk == "view":
        big = np.zeros(tuple(2 * d for d in shape))
        v = big[tuple(slice(None, None, 2) for _ in shape)]
        v[...] = a
        return v
    return a


# ---- operand kinds -----------------------------------------------------------------------------------------------
# A request descriptor may carry "rk" / "rk2": the KIND of the first / second operand that a builder below produces
# (memory layout, degenerate stored patterns, operands arising from an earlier public operation).  Rejection must not
# depend on them, so the Coq side never sees them; pyttb does.  The builders read the kind from _KINDS (set by run()):
# the k-th top-level builder call of a request takes the k-th kind.
_KINDS = {"list": [], "depth": 0}
DENSE_KINDS = ("C", "zero", "view")                 # C-contiguous source data; all entries 0; built from a strided view
SPARSE_KINDS = ("empty", "cancel", "one", "zeros", "rev")
#   empty  = constructed without entries;  cancel = X - X (no entry left, arises from a computation);
#   one    = exactly one stored entry;     zeros  = explicitly stored zeros handed to the plain constructor;
#   rev    = entries stored in reversed order
KRUSKAL_KINDS = ("C", "norm")                       # C-ordered factor matrices assigned by the user; after normalize("all")
TUCKER_KINDS = ("C",)
NO_ENTRY = ("empty", "cancel")


def operand(f):
    def g(*a, **k):
        if _KINDS["depth"] == 0 and "kind" not in k:
            k["kind"] = _KINDS["list"].pop(0) if _KINDS["list"] else None
        _KINDS["depth"] += 1
        try:
            return f(*a, **k)
        finally:
            _KINDS["depth"] -= 1
    g.__name__ = f.__name__
    return g


@operand
def T(shape, kind=None):
    np, ttb = _np(), _ttb()
    a = arr(shape)
    if kind == "zero":
        a = a * 0.0
    elif kind == "C":
        a = np.ascontiguousarray(a)
    elif kind == "view":                            # every second element of a larger buffer along each mode, transposed source
        big = np.zeros(tuple(2 * d for d in shape)[::-1])
        v = big[tuple(slice(None, None, 2) for _ in shape)].T
        v[...] = a
        a = v
    return ttb.tensor(a, tuple(shape), copy=True)


def _sp_pattern(shape):
    n = math.prod(shape)
    subs = []
    for k in range(0, n, 2):
        row, kk = [], k
        for d in shape:
            row.append(kk % d)
            kk //= d
        subs.append(row)
    return subs


@operand
def S(shape, empty=False, kind=None):
    """sptensor with nonzeros on a 'diagonal-ish' pattern (at least one, at most prod/2+1); see SPARSE_KINDS"""
    np, ttb = _np(), _ttb()
    if kind is None and empty:
        kind = "empty"
    if kind == "empty":
        return ttb.sptensor(shape=tuple(shape))
    subs = _sp_pattern(shape)
    vals = [[float(i % 3 + 1)] for i in range(len(subs))]
    if kind == "one":
        subs, vals = subs[-1:], vals[-1:]
    elif kind == "rev":
        subs, vals = subs[::-1], vals[::-1]
    elif kind == "zeros":
        vals = [[0.0] for _ in vals]
    x = ttb.sptensor(np.array(subs, dtype=int).reshape((len(subs), len(shape))), np.array(vals), tuple(shape), copy=True)
    if kind == "cancel":
        x = x - x
        if x.nnz != 0:
            raise RuntimeError("X - X stores entries")
    return x


@operand
def K(shape, R=2, start=1, kind=None):
    np, ttb = _np(), _ttb()
    k = ttb.ktensor([arr((d, R), start + i) for i, d in enumerate(shape)], np.arange(1.0, R + 1), copy=True)
    if kind == "C":
        for n in range(len(shape)):
            k.factor_matrices[n] = np.ascontiguousarray(k.factor_matrices[n])
    elif kind == "norm":
        k.normalize(weight_factor="all")
    return k


@operand
def TT(shape, core, kind=None):
    np, ttb = _np(), _ttb()
    t = ttb.ttensor(T(core), [arr((d, c), 2 + i) for i, (d, c) in enumerate(zip(shape, core))], copy=True)
    if kind == "C":
        for n in range(len(shape)):
            t.factor_matrices[n] = np.ascontiguousarray(t.factor_matrices[n])
    return t


def snap(objs):
    """byte-wise snapshot of every array reachable from the receivers"""
    np, ttb = _np(), _ttb()
    out = []

    def rec(o):
        if o is None:
            return
        if isinstance(o, np.ndarray):
            out.append((o.shape, str(o.dtype), o.tobytes()))
        elif isinstance(o, (list, tuple)):
            out.append(("seq", len(o)))
            for x in o:
                rec(x)
        elif isinstance(o, (int, float, str, bool)):
            out.append(o)
        elif isinstance(o, ttb.tensor):
            out.append(tuple(o.shape)); rec(o.data)
        elif isinstance(o, ttb.sptensor):
            out.append(tuple(o.shape)); rec(o.subs); rec(o.vals)
        elif isinstance(o, ttb.ktensor):
            rec(o.weights); rec(list(o.factor_matrices))
        elif isinstance(o, ttb.ttensor):
            rec(o.core); rec(list(o.factor_matrices))
        elif isinstance(o, ttb.tenmat):
            out.append(tuple(o.tshape)); rec(o.data); rec(o.rindices); rec(o.cindices)
        elif isinstance(o, ttb.sptenmat):
            out.append(tuple(o.tshape)); rec(o.subs); rec(o.vals); rec(o.rdims); rec(o.cdims)
        elif isinstance(o, ttb.sumtensor):
            rec(list(o.parts))
        else:
            out.append(repr(type(o)))
    rec(objs)
    return out


def run(name, args):
    import logging
    logging.disable(logging.WARNING)          # pyttb logs a warning per non-F-ordered intermediate; irrelevant here
    op = OPS[name]
    _KINDS["list"], _KINDS["depth"], _KINDS["mk"] = [args.get("rk"), args.get("rk2")], 0, args.get("mk")
    try:
        recv, thunk = op.call(args)
        before = snap(recv)
    except Exception as ex:     # building the operands failed: harness problem, never a pass
        return {"harness": f"{type(ex).__name__}: {ex}"}
    exc = None
    try:
        r = thunk()
        rejected = False
    except Exception as ex:
        rejected = True
        exc = type(ex).__name__ + ": " + str(ex)[:120]
    after = snap(recv)
    return {"rejected": rejected, "exc": exc, "recv_same": before == after}


# ------------------------------------------------------------------------------------------------
# pure-Python vocabulary of the preconditions (independent of numpy and of pyttb)
# ------------------------------------------------------------------------------------------------
def in_range(N, x):
    return 0 <= x < N


def modes_ok(N, d):
    return all(in_range(N, x) for x in d) and len(set(d)) == len(d)


def is_perm(N, o):
    return len(o) == N and modes_ok(N, o)


def sel_modes(N, dims, excl):
    if dims is not None:
        return list(dims)
    if excl is not None:
        return [x for x in range(N) if x not in excl]
    return list(range(N))


def pre_sel(N, dims, excl):
    if dims is not None and excl is not None:
        return False
    if dims is not None:
        return modes_ok(N, dims)
    if excl is not None:
        return all(in_range(N, x) for x in excl)
    return True


def pre_mults(N, M, sel, ok_for):
    """one multiplicand per selected mode (positional, caller's order) or one per tensor mode (indexed by mode)"""
    P = len(sel)
    if M != P and M != N:
        return False
    for k, m in enumerate(sel):
        v = k if P == M else m
        if not (0 <= v < M) or not ok_for(v, m):
            return False
    return True


# ------------------------------------------------------------------------------------------------
# shape pools and mode-argument violations
# ------------------------------------------------------------------------------------------------
SH3 = [(2, 3, 4), (3, 3, 3), (3, 1, 2), (2, 2, 2), (1, 1, 1), (4, 2, 2)]
SH2 = [(2, 3), (3, 3), (1, 4), (1, 1), (4, 2)]
SH1 = [(4,), (1,)]
SH4 = [(2, 3, 2, 3), (2, 2, 2, 2)]


def pool(tier, mind=1, maxd=4):
    p = []
    if mind <= 1 <= maxd:
        p += SH1
    if mind <= 2 <= maxd:
        p += SH2
    if mind <= 3 <= maxd:
        p += SH3
    if mind <= 4 <= maxd:
        p += SH4 if tier == "thorough" else SH4[:1]
    return p


def bad_mode_lists(N, k=None):
    """lists of modes violating exactly one requirement: (tag, list)"""
    out = [("neg_mode", [-1]), ("oob_mode", [N]), ("oob_mode", [N + 1])]
    if N >= 1:
        out += [("rep_mode", [0, 0]), ("rep_mode", [N - 1, N - 1]), ("neg_mode", [-N])]
    if N >= 2:
        out += [("rep_mode", [0, 1, 0]), ("neg_mode", [0, -1]), ("oob_mode", [1, N]), ("rep_mode", [1, 1])]
        # the offending entry FIRST (the lists above carry it last)
        out += [("neg_mode", [-1, 0]), ("oob_mode", [N, 0]), ("rep_mode", [0, 0, 1])]
    if N >= 3:
        # ... and in the MIDDLE
        out += [("neg_mode", [0, -1, 1]), ("oob_mode", [0, N, 1]), ("rep_mode", [2, 0, 0]), ("neg_mode", [0, 1, -2]), ("oob_mode", [2, 0, N + 1])]
    return out


def subsets(N, rng, tier):
    """well-formed mode selections in caller order (non-sorted ones included)"""
    out = []
    for r in range(1, N + 1):
        combs = list(itertools.permutations(range(N), r))
        if tier != "thorough" and len(combs) > 6:
            combs = rng.sample(combs, 6)
        out += [list(c) for c in combs]
    return out


# ================================================================================================
# tensor
# ================================================================================================
def _g_tensor_ctor(rng, tier):
    out = []
    for s in pool(tier):
        n = math.prod(s)
        out.append(({"dshape": list(s), "shape": None}, "control"))
        out.append(({"dshape": list(s), "shape": list(s)}, "control"))
        out.append(({"dshape": [n], "shape": list(s)}, "control"))
        out.append(({"dshape": list(s), "shape": list(s) + [2]}, "count"))
        out.append(({"dshape": list(s), "shape": list(s[:-1]) + [s[-1] + 1]}, "count"))
        out.append(({"dshape": list(s), "shape": [n + 1]}, "count"))
        out.append(({"dshape": list(s), "shape": []}, "count"))
        if len(s) > 1:
            out.append(({"dshape": list(s), "shape": list(s[:-1])}, "count" if s[-1] != 1 else "control"))
            out.append(({"dshape": list(s), "shape": list(s[::-1])}, "control"))
    return out


reg("tensor.ctor", "tensor_ctor",
    lambda a: f"{zl(a['dshape'])} {zo(a['shape'])}",
    lambda a: True if a["shape"] is None else (math.prod(a["dshape"]) == 0 if len(a["shape"]) == 0
                                               else math.prod(a["shape"]) == math.prod(a["dshape"])),
    lambda a: ((lambda d: ([d], lambda: _ttb().tensor(d, None if a["shape"] is None else tuple(a["shape"]))))(marr(a["dshape"]))),
    _g_tensor_ctor)


def _g_permute(rng, tier):
    out = []
    for s in pool(tier):
        N = len(s)
        perms = list(itertools.permutations(range(N)))
        if len(perms) > 6 and tier != "thorough":
            perms = rng.sample(perms, 6)
        for p in perms:
            out.append(({"s": list(s), "order": list(p)}, "control"))
        out.append(({"s": list(s), "order": list(range(N - 1))}, "short"))
        out.append(({"s": list(s), "order": list(range(N + 1))}, "long"))
        out.append(({"s": list(s), "order": [1] * N}, "all_ones"))
        out.append(({"s": list(s), "order": [0] * N}, "rep_mode" if N > 1 else "control"))
        out.append(({"s": list(s), "order": list(range(1, N + 1))}, "oob_mode"))
        out.append(({"s": list(s), "order": [-1] + list(range(N - 1))}, "neg_mode"))
        if N >= 2:
            out.append(({"s": list(s), "order": [0] + list(range(N - 1))}, "rep_mode"))
            out.append(({"s": list(s), "order": list(range(N - 1)) + [N]}, "oob_mode"))
            out.append(({"s": list(s), "order": [-x - 1 for x in range(N)]}, "neg_mode"))
            out.append(({"s": list(s), "order": list(range(N - 1)) + [-1]}, "neg_mode"))
            out.append(({"s": list(s), "order": [N] + list(range(1, N))}, "oob_mode"))
            out.append(({"s": list(s), "order": list(range(N - 1)) + [0]}, "rep_mode"))
        if N >= 3:
            out.append(({"s": list(s), "order": [0, N] + list(range(2, N))}, "oob_mode"))
            out.append(({"s": list(s), "order": [0, -1] + list(range(2, N))}, "neg_mode"))
            out.append(({"s": list(s), "order": [0, 0] + list(range(2, N))}, "rep_mode"))
    return out


reg("tensor.permute", "tensor_permute",
    lambda a: f"{zl(a['s'])} {zl(a['order'])}",
    lambda a: is_perm(len(a["s"]), a["order"]),
    lambda a: (lambda t: ([t], lambda: t.permute(_np().array(a["order"], dtype=int))))(T(a["s"])),
    _g_permute)


def _g_reshape(rng, tier):
    out = []
    for s in pool(tier):
        n = math.prod(s)
        out.append(({"s": list(s), "new": [n]}, "control"))
        out.append(({"s": list(s), "new": list(s[::-1])}, "control"))
        out.append(({"s": list(s), "new": [1, n]}, "control"))
        out.append(({"s": list(s), "new": [n + 1]}, "count"))
        out.append(({"s": list(s), "new": list(s) + [2]}, "count"))
        out.append(({"s": list(s), "new": [2 * n]}, "count"))
        if n > 1:
            out.append(({"s": list(s), "new": [n - 1]}, "count"))
        if len(s) > 1 and s[0] != 1:
            out.append(({"s": list(s), "new": list(s[1:])}, "count"))
    return out


reg("tensor.reshape", "tensor_reshape",
    lambda a: f"{zl(a['s'])} {zl(a['new'])}",
    lambda a: math.prod(a["s"]) == math.prod(a["new"]),
    lambda a: (lambda t: ([t], lambda: t.reshape(tuple(a["new"]))))(T(a["s"])),
    _g_reshape)


def shape_variants(s):
    """shapes differing from s in exactly one way (some broadcastable, some with equal element count)"""
    s = list(s)
    out = [("drop_mode", s[:-1]), ("extra_mode", s + [1]), ("extra_mode", [1] + s), ("extra_mode", s + [2])]
    for k in range(len(s)):
        out.append(("size", s[:k] + [s[k] + 1] + s[k + 1:]))
        if s[k] != 1:
            out.append(("size_one", s[:k] + [1] + s[k + 1:]))
    if s != s[::-1]:
        out.append(("swapped", s[::-1]))
    # another ORDER with every common mode equal: s is a proper prefix / suffix of the variant or the other way round (a comparison that
    # pairs the two size tuples entry by entry — zip — stops at the shorter one; numpy aligns trailing axes, so suffixes always
    # broadcast and prefixes do when the sizes repeat: (3, 3) with (3,), (5, 1) with (5,), (4, 3, 4) with (4,))
    for k in range(1, len(s)):
        out.append(("prefix", s[:k]))
        out.append(("suffix", s[k:]))
    out += [("prefix", s + [s[-1]]), ("suffix", [s[0]] + s), ("prefix", s + [s[0]]), ("prefix", s + s)]
    seen, res = set(), []
    for t, v in out:
        if v != s and len(v) >= 1 and tuple(v) not in seen:
            seen.add(tuple(v))
            res.append((t, v))
    return res


def _g_two_shapes(rng, tier):
    out = []
    for s in pool(tier):
        out.append(({"s": list(s), "u": list(s)}, "control"))
        for tag, v in shape_variants(s):
            out.append(({"s": list(s), "u": v}, tag))
    return out


reg("tensor.innerprod", "tensor_innerprod",
    lambda a: f"{zl(a['s'])} {zl(a['u'])}",
    lambda a: a["s"] == a["u"],
    lambda a: (lambda t, u: ([t, u], lambda: t.innerprod(u)))(T(a["s"]), T(a["u"])),
    _g_two_shapes)

for _nm, _f in (("add", lambda t, u: t + u), ("mul", lambda t, u: t * u), ("sub", lambda t, u: t - u),
                ("logical_and", lambda t, u: t.logical_and(u)), ("eq", lambda t, u: t == u), ("le", lambda t, u: t <= u)):
    reg("tensor." + _nm, "tensor_binop",
        lambda a: f"{zl(a['s'])} {zl(a['u'])}",
        lambda a: a["s"] == a["u"],
        (lambda f: lambda a: (lambda t, u: ([t, u], lambda: f(t, u)))(T(a["s"]), T(a["u"])))(_f),
        _g_two_shapes)


def _g_contract(rng, tier):
    out = []
    for s in pool(tier, 2):
        N = len(s)
        for i1 in range(-N - 1, N + 2):
            for i2 in range(-N - 1, N + 2):
                if in_range(N, i1) and in_range(N, i2):
                    tag = "same_mode" if i1 == i2 else ("control" if s[i1] == s[i2] else "size")
                elif i1 < 0 or i2 < 0:
                    tag = "neg_mode"
                else:
                    tag = "oob_mode"
                out.append(({"s": list(s), "i1": i1, "i2": i2}, tag))
    return out


reg("tensor.contract", "tensor_contract",
    lambda a: f"{zl(a['s'])} {gz(a['i1'])} {gz(a['i2'])}",
    lambda a: in_range(len(a["s"]), a["i1"]) and in_range(len(a["s"]), a["i2"]) and a["i1"] != a["i2"]
    and a["s"][a["i1"]] == a["s"][a["i2"]],
    lambda a: (lambda t: ([t], lambda: t.contract(a["i1"], a["i2"])))(T(a["s"])),
    _g_contract)


def rearrangements(sizes, fixed=(), limit=12, rng=None):
    """size tuples with the SAME product on each side of the fixed positions but different entries: permutations of the
    free positions and re-factorisations (one entry multiplied by k, another divided by k) — the ill-formed requests a
    product-of-sizes test cannot see. `fixed` positions are left alone."""
    sizes = list(sizes)
    free = [i for i in range(len(sizes)) if i not in fixed]
    out = []
    for p in itertools.permutations(free):
        v = sizes[:]
        for i, j in zip(free, p):
            v[i] = sizes[j]
        if v != sizes and v not in out:
            out.append(v)
    for i in free:
        for j in free:
            if i == j:
                continue
            for k in (2, 3, 4):
                if sizes[j] % k == 0:
                    v = sizes[:]
                    v[i], v[j] = sizes[i] * k, sizes[j] // k
                    if v != sizes and v not in out:
                        out.append(v)
    if rng is not None and len(out) > limit:
        out = rng.sample(out, limit)
    return out


def bad_orders(N):
    """mode-order lists that are not permutations of range(N): (tag, list). Includes the over-long lists with repeats that
    still mention every mode (invisible to a set comparison) and the right-length lists with a repeat."""
    r = list(range(N))
    out = [("order_short", r[:-1]), ("order_long_rep", r + [N - 1]), ("order_long_rep", [r[0]] + r),
           ("order_long_rep", r[::-1] + r), ("order_long_oob", r + [N]), ("order_oob", r[:-1] + [N]),
           ("order_neg", [-1] + r[1:]), ("order_neg", r[:-1] + [-1]), ("order_empty", [])]
    if N >= 2:
        out += [("order_rep", [0] * N), ("order_rep", r[:-1] + [r[0]]), ("order_long_rep", [1, 1, 0] + r[2:]),
                ("order_shift", list(range(1, N + 1))), ("order_oob", [N] + r[1:]), ("order_rep", [r[1]] + r[1:])]
    if N >= 3:
        out += [("order_oob", [0, N] + r[2:]), ("order_neg", [0, -1] + r[2:]), ("order_rep", [0, 0] + r[2:])]
    return out


def _pos(k, n):
    return "only" if n == 1 else "first" if k == 0 else "last" if k == n - 1 else "mid"


def mode_sel_cases(s, rng, tier, mult_for, bad_mult_for, allow_empty=False):
    """(dims, excl, mults, tag): well-formed selections (both conventions, both multiplicand-count conventions) and
    one violation each: mode list (neg/oob/rep), count (one short / one long), multiplicand size."""
    N = len(s)
    out = []
    for d in subsets(N, rng, tier):
        good = [mult_for(m) for m in d]
        out.append((d, None, good, "control"))
        full = [mult_for(m) for m in range(N)]
        if len(d) != N:
            out.append((d, None, full, "control"))
            ex = [m for m in range(N) if m not in d]
            out.append((None, ex, [mult_for(m) for m in sorted(d)], "control"))
            out.append((None, ex, full, "control"))
        # count violations
        if len(d) >= 2:
            out.append((d, None, good[:-1], "count_short" if len(d) - 1 != N else "control"))
        if len(d) + 1 != N:
            out.append((d, None, good + [mult_for(d[-1])], "count_long"))
        # size violations: exactly one multiplicand wrong — in EVERY position of the list that is handed over (first / middle /
        # last / only; the tag carries the position so that every position survives the per-tag sampling for every operand
        # kind), under every calling convention: one multiplicand per listed mode, one per mode of the tensor (dims or
        # exclude_dims given), one per remaining mode with exclude_dims
        sd = sorted(d)
        ex = [m for m in range(N) if m not in d]
        for k in range(len(d)):
            for bad in bad_mult_for(d[k]):
                out.append((d, None, good[:k] + [bad] + good[k + 1:], "mult_size_" + _pos(k, len(d))))
                if len(d) != N:
                    fb = full[:d[k]] + [bad] + full[d[k] + 1:]
                    out.append((d, None, fb, "mult_size_" + _pos(d[k], N)))
                    out.append((None, ex, fb, "mult_size_" + _pos(d[k], N)))
                    j = sd.index(d[k])
                    gs = [mult_for(m) for m in sd]
                    out.append((None, ex, gs[:j] + [bad] + gs[j + 1:], "mult_size_" + _pos(j, len(sd))))
        if len(d) >= 2 and s[d[0]] != s[d[1]]:
            sw = good[:]
            sw[0], sw[1] = sw[1], sw[0]
            out.append((d, None, sw, "mult_order"))
    out.append((None, None, [mult_for(m) for m in range(N)], "control"))
    out.append(([0], [0], [mult_for(0)], "both_given"))
    for tag, d in bad_mode_lists(N):
        mm = [mult_for(m if 0 <= m < N else 0) for m in d]
        out.append((d, None, mm, tag))
        if len(d) != N:
            out.append((d, None, [mult_for(m) for m in range(N)], tag))
        if tag != "rep_mode":
            out.append((None, d, [mult_for(m) for m in range(N)], tag))
    return out


def _g_ttv(rng, tier):
    out = []
    for s in pool(tier):
        def mult_for(m):
            return s[m]

        def bad(m):
            return [s[m] + 1, 1] if s[m] != 1 else [2]
        for d, e, mm, tag in mode_sel_cases(s, rng, tier, mult_for, bad):
            out.append(({"s": list(s), "vlens": mm, "dims": d, "excl": e}, tag))
        # one vector per mode, lengths rearranged / re-factored (same total size)
        for v in rearrangements(s, rng=rng, limit=6 if tier != "thorough" else 40):
            a = {"s": list(s), "vlens": v, "dims": None, "excl": None}
            out.append((a, "mult_rearranged"))
            if len(s) >= 3:
                out.append(({"s": list(s), "vlens": v[1:], "dims": None, "excl": [0]},
                            "mult_rearranged" if v[1:] != list(s[1:]) else "control"))
    return out


def _pre_ttv(a):
    s, N, M = a["s"], len(a["s"]), len(a["vlens"])
    if not pre_sel(N, a["dims"], a["excl"]):
        return False
    return pre_mults(N, M, sel_modes(N, a["dims"], a["excl"]), lambda v, m: a["vlens"][v] == s[m])


def _dims(a):
    np = _np()
    return (None if a["dims"] is None else np.array(a["dims"], dtype=int),
            None if a["excl"] is None else np.array(a["excl"], dtype=int))


reg("tensor.ttv", "tensor_ttv",
    lambda a: f"{zl(a['s'])} {zl(a['vlens'])} {zo(a['dims'])} {zo(a['excl'])}",
    _pre_ttv,
    lambda a: (lambda t, vs: ([t, vs], lambda: t.ttv(vs, *_dims(a))))(T(a["s"]), [marr((n,), 2) for n in a["vlens"]]),
    _g_ttv)


def _g_ttm(rng, tier):
    out = []
    for s in pool(tier):
        for tr in (False, True):
            def mult_for(m):
                return (s[m], 2 + m % 2) if tr else (2 + m % 2, s[m])

            def bad(m):
                r = [(s[m] + 1, 2), (2, s[m] + 1)][0 if tr else 1]
                sw = (2, s[m]) if tr else (s[m], 2)
                res = [r]
                if s[m] != 2:
                    res.append(sw)         # swapped dims
                return res
            for d, e, mm, tag in mode_sel_cases(s, rng, tier, mult_for, bad):
                out.append(({"s": list(s), "ms": [list(x) for x in mm], "dims": d, "excl": e, "tr": tr}, tag))
            for v in rearrangements(s, rng=rng, limit=4 if tier != "thorough" else 30):
                mm = [((x, 2) if tr else (2, x)) for x in v]
                out.append(({"s": list(s), "ms": [list(x) for x in mm], "dims": None, "excl": None, "tr": tr}, "mult_rearranged"))
    if tier != "thorough":
        out = [x for i, x in enumerate(out) if x[1] != "control" or i % 2 == 0]
    return out


def _pre_ttm(a):
    s, N, M = a["s"], len(a["s"]), len(a["ms"])
    if not pre_sel(N, a["dims"], a["excl"]):
        return False
    sel = sel_modes(N, a["dims"], a["excl"])
    if not sel:
        return False
    return pre_mults(N, M, sel, lambda v, m: a["ms"][v][0 if a["tr"] else 1] == s[m])


reg("tensor.ttm", "tensor_ttm",
    lambda a: f"{zl(a['s'])} {pl(a['ms'])} {zo(a['dims'])} {zo(a['excl'])} {gbool(a['tr'])}",
    _pre_ttm,
    lambda a: (lambda t, ms: ([t, ms], lambda: t.ttm(ms, *_dims(a), transpose=a["tr"])))(T(a["s"]), [marr(m, 3) for m in a["ms"]]),
    _g_ttm)


# ================================================================================================
# shared request shapes for the other classes
# ================================================================================================
def two_shapes(name, mk1, mk2, f, pool_min=1, cname="same_shape", keep=lambda a: True):
    reg(name, cname, lambda a: f"{zl(a['s'])} {zl(a['u'])}", lambda a: a["s"] == a["u"],
        lambda a: (lambda x, y: ([x, y], lambda: f(x, y)))(mk1(a["s"]), mk2(a["u"])),
        lambda rng, tier: [(dict(a), t) for a, t in _g_two_shapes(rng, tier)
                           if len(a["s"]) >= pool_min and len(a["u"]) >= pool_min and keep(a)])


def perm_op(name, mk, f, guard="sorted_perm"):
    reg(name, ("perm", guard), lambda a: f"{zl(a['s'])} {zl(a['order'])}", lambda a: is_perm(len(a["s"]), a["order"]),
        lambda a: (lambda x: ([x], lambda: f(x, _np().array(a["order"], dtype=int))))(mk(a["s"])), _g_permute)


def _no_singleton_selected(a):
    """(no longer used: ktensor.ttv refused length-1 multiplicands before fix 66edb11; singleton modes are generated now)"""
    N = len(a["s"])
    sel = sel_modes(N, a["dims"], a["excl"])
    return all(not (0 <= m < N) or a["s"][m] != 1 for m in sel) and all(v != 1 for v in a["vlens"])


def ttv_op(name, mk, pool_min=1, keep=lambda a: True):
    reg(name, ("ttv", "ttv_checks"), lambda a: f"{zl(a['s'])} {zl(a['vlens'])} {zo(a['dims'])} {zo(a['excl'])}", _pre_ttv,
        lambda a: (lambda x, vs: ([x, vs], lambda: x.ttv(vs, *_dims(a))))(mk(a["s"]), [marr((n,), 2) for n in a["vlens"]]),
        lambda rng, tier: [(a, t) for a, t in _g_ttv(rng, tier) if len(a["s"]) >= pool_min and keep(a)])


def _pre_ttensor_ttm(a):
    s, N, M = a["s"], len(a["s"]), len(a["ms"])
    if not pre_sel(N, a["dims"], a["excl"]):
        return False
    return pre_mults(N, M, sel_modes(N, a["dims"], a["excl"]), lambda v, m: a["ms"][v][0 if a["tr"] else 1] == s[m])


def ttm_op(name, mk, pool_min=1, cname="ttm", pre=None):
    reg(name, cname, lambda a: f"{zl(a['s'])} {pl(a['ms'])} {zo(a['dims'])} {zo(a['excl'])} {gbool(a['tr'])}", pre or _pre_ttm,
        lambda a: (lambda x, ms: ([x, ms], lambda: x.ttm(ms, *_dims(a), transpose=a["tr"])))(mk(a["s"]), [marr(m, 3) for m in a["ms"]]),
        lambda rng, tier: [(a, t) for a, t in _g_ttm(rng, tier) if len(a["s"]) >= pool_min])


def _g_mttkrp_zero_cols(rng, tier):
    """matrices WITHOUT columns (R = 0): well-formed ones, and one wrong row count (the loop over the columns never runs)"""
    out = []
    for s in pool(tier, 2):
        N = len(s)
        good = [[d, 0] for d in s]
        for n in range(N):
            out.append(({"s": list(s), "us": good, "n": n}, "control"))
            for k in range(N):
                if k != n:
                    out.append(({"s": list(s), "us": good[:k] + [[s[k] + 1, 0]] + good[k + 1:], "n": n}, "rows_zero_cols"))
                    out.append(({"s": list(s), "us": good[:k] + [[s[k], 2]] + good[k + 1:], "n": n},
                                "cols" if N > 2 else "control"))       # 2-way: the only matrix that is looked at
        out.append(({"s": list(s), "us": good[:-1], "n": 0}, "list_short"))
        out.append(({"s": list(s), "us": good, "n": N}, "oob_mode"))
    return out


def _g_mttkrp(rng, tier, minN=2):
    out = []
    for s in pool(tier, 1):
        N = len(s)
        R = 2
        good = [[d, R] for d in s]
        for n in range(N):
            tagc = "control" if N >= 2 else "one_way"
            out.append(({"s": list(s), "us": good, "n": n}, tagc))
            if N < 2:
                continue
            out.append(({"s": list(s), "us": good[:-1], "n": n}, "list_short"))
            out.append(({"s": list(s), "us": good + [[2, R]], "n": n}, "list_long"))
            for k in range(N):
                if k == n:
                    continue
                # the tag carries the POSITION of the offending matrix in the list (first / middle / last), so that every position
                # survives the per-tag sampling for every operand kind
                out.append(({"s": list(s), "us": good[:k] + [[s[k] + 1, R]] + good[k + 1:], "n": n}, "rows_" + _pos(k, N)))
                # 2-way: U[k] is the only matrix that is looked at, any column count is well-formed
                out.append(({"s": list(s), "us": good[:k] + [[s[k], R + 1]] + good[k + 1:], "n": n}, "cols_" + _pos(k, N) if N > 2 else "control"))
                out.append(({"s": list(s), "us": good[:k] + [[s[k], 1]] + good[k + 1:], "n": n}, "cols_one" if N > 2 else "control"))
                if s[k] != R:
                    out.append(({"s": list(s), "us": good[:k] + [[R, s[k]]] + good[k + 1:], "n": n}, "swapped"))
        if N >= 2:
            out.append(({"s": list(s), "us": good, "n": -1}, "neg_mode"))
            out.append(({"s": list(s), "us": good, "n": -N}, "neg_mode"))
            out.append(({"s": list(s), "us": good, "n": N}, "oob_mode"))
        # row counts rearranged / re-factored among the matrices that are used (U[n] is never looked at): the products on
        # each side of n (and over all modes) are unchanged
        for n in range(N):
            if N < 3:
                break
            vs = rearrangements(s, fixed=(n,), rng=rng, limit=6 if tier != "thorough" else 40)
            if tier == "thorough":
                vs += [v for v in rearrangements(s, rng=rng, limit=20) if v not in vs]
            for v in vs:
                a = {"s": list(s), "us": [[r, R] for r in v], "n": n}
                out.append((a, "rows_rearranged" if any(v[i] != s[i] for i in range(N) if i != n) else "control"))
    return out


def _pre_mttkrp(a):
    s, us, n, N = a["s"], a["us"], a["n"], len(a["s"])
    if N < 2 or len(us) != N or not in_range(N, n):
        return False
    R = us[1 if n == 0 else 0][1]
    return all(i == n or (us[i][0] == s[i] and us[i][1] == R) for i in range(N))


def mttkrp_op(name, mk, guard=None, zero_cols=False):
    """zero_cols: also matrices without columns (tensor / ttensor / sumtensor.mttkrp refuse even the well-formed ones — numpy cannot
    reshape the empty Khatri-Rao product — which is outside C19, so the class is generated for the sparse and Kruskal receivers)"""
    gen = (lambda rng, tier: _g_mttkrp(rng, tier) + _g_mttkrp_zero_cols(rng, tier)) if zero_cols else _g_mttkrp
    reg(name, "mttkrp" if guard is None else ("mttkrp", guard), lambda a: f"{zl(a['s'])} {pl(a['us'])} {gz(a['n'])}", _pre_mttkrp,
        lambda a: (lambda x, us: ([x, us], lambda: x.mttkrp(us, a["n"])))(mk(a["s"]), [marr(u, 2) for u in a["us"]]),
        gen, guard=guard is not None)


# ---------------------------------------------------------------- tensor (continued)
mttkrp_op("tensor.mttkrp", T, guard="tensor_mttkrp")


def _g_modes(rng, tier):
    out = []
    for s in pool(tier):
        N = len(s)
        for d in subsets(N, rng, tier):
            out.append(({"s": list(s), "d": d}, "control"))
        for tag, d in bad_mode_lists(N):
            out.append(({"s": list(s), "d": d}, tag))
    return out


reg("tensor.collapse", ("collapse", "tensor_collapse"), lambda a: f"{zl(a['s'])} {zl(a['d'])}", lambda a: modes_ok(len(a["s"]), a["d"]),
    lambda a: (lambda x: ([x], lambda: x.collapse(_np().array(a["d"], dtype=int))))(T(a["s"])), _g_modes)
reg("sptensor.collapse", ("collapse", "sptensor_collapse"), lambda a: f"{zl(a['s'])} {zl(a['d'])}", lambda a: modes_ok(len(a["s"]), a["d"]),
    lambda a: (lambda x: ([x], lambda: x.collapse(_np().array(a["d"], dtype=int))))(S(a["s"])), _g_modes)


def _g_scale(rng, tier):
    out = []
    for s in pool(tier):
        N = len(s)
        for d in subsets(N, rng, tier):
            f = [s[m] for m in sorted(d)]          # dims is a set of modes: the factor's k-th mode is the k-th smallest listed mode
            out.append(({"s": list(s), "f": f, "d": d}, "control"))
            fc = [s[m] for m in d]
            if fc != f:                            # the sizes in the caller's order of an unsorted list
                out.append(({"s": list(s), "f": fc, "d": d}, "caller_order"))
            for k in range(len(f)):                 # one size of the factor off, in every position
                out.append(({"s": list(s), "f": f[:k] + [f[k] + 1] + f[k + 1:], "d": d}, "size"))
                if f[k] != 1:
                    out.append(({"s": list(s), "f": f[:k] + [1] + f[k + 1:], "d": d}, "size_one"))
            if f != f[::-1]:
                out.append(({"s": list(s), "f": f[::-1], "d": d}, "swapped"))
            out.append(({"s": list(s), "f": f + [1], "d": d}, "extra_mode"))
        for tag, d in bad_mode_lists(N):
            out.append(({"s": list(s), "f": [s[m] if 0 <= m < N else 2 for m in d], "d": d}, tag))
    return out


reg("tensor.scale", "scale", lambda a: f"{zl(a['s'])} {zl(a['f'])} {zl(a['d'])}",
    lambda a: modes_ok(len(a["s"]), a["d"]) and a["f"] == [a["s"][m] for m in sorted(a["d"])],
    lambda a: (lambda x, f: ([x, f], lambda: x.scale(f, _np().array(a["d"], dtype=int))))(T(a["s"]), T(a["f"])), _g_scale)


def _g_to_tenmat(rng, tier):
    out = []
    for s in pool(tier):
        N = len(s)
        for r in range(0, N + 1):
            for rd in itertools.combinations(range(N), r):
                cd = [m for m in range(N) if m not in rd]
                out.append(({"s": list(s), "rd": list(rd), "cd": cd}, "control"))
                if cd:
                    out.append(({"s": list(s), "rd": list(rd), "cd": cd[:-1]}, "missing_mode"))
                    out.append(({"s": list(s), "rd": list(rd), "cd": cd + [cd[0]]}, "rep_mode"))
                    out.append(({"s": list(s), "rd": list(rd), "cd": cd[:-1] + [N]}, "oob_mode"))
                    out.append(({"s": list(s), "rd": list(rd), "cd": cd[:-1] + [cd[-1] - N]}, "neg_mode"))
                if rd:
                    out.append(({"s": list(s), "rd": list(rd), "cd": cd + [rd[0]]}, "rep_mode"))
    return out


reg("tensor.to_tenmat", ("to_tenmat", "to_tenmat"), lambda a: f"{zl(a['s'])} {zl(a['rd'])} {zl(a['cd'])}",
    lambda a: is_perm(len(a["s"]), a["rd"] + a["cd"]),
    lambda a: (lambda x: ([x], lambda: x.to_tenmat(_np().array(a["rd"], dtype=int), _np().array(a["cd"], dtype=int))))(T(a["s"])),
    _g_to_tenmat)
reg("sptensor.to_sptenmat", ("to_tenmat", "to_sptenmat"), lambda a: f"{zl(a['s'])} {zl(a['rd'])} {zl(a['cd'])}",
    lambda a: is_perm(len(a["s"]), a["rd"] + a["cd"]),
    lambda a: (lambda x: ([x], lambda: x.to_sptenmat(_np().array(a["rd"], dtype=int), _np().array(a["cd"], dtype=int))))(S(a["s"])),
    _g_to_tenmat)


def _g_ttt(rng, tier):
    out = []
    for s in pool(tier, 2, 3):
        for u in pool(tier, 2, 3):
            for k in (1, 2):
                for sd in itertools.permutations(range(len(s)), k):
                    for od in itertools.permutations(range(len(u)), k):
                        ok = all(s[a_] == u[b_] for a_, b_ in zip(sd, od))
                        if ok or rng.random() < 0.08:
                            out.append(({"s": list(s), "u": list(u), "sd": list(sd), "od": list(od)}, "control" if ok else "size"))
        N = len(s)
        out.append(({"s": list(s), "u": list(s), "sd": [0, 0], "od": [0, 0]}, "rep_mode"))
        out.append(({"s": list(s), "u": list(s), "sd": [N], "od": [N]}, "oob_mode"))
        out.append(({"s": list(s), "u": list(s), "sd": [-1], "od": [-1]}, "neg_mode"))
        out.append(({"s": list(s), "u": list(s), "sd": [0, 1], "od": [0]}, "count"))
    return out


reg("tensor.ttt", "ttt", lambda a: f"{zl(a['s'])} {zl(a['u'])} {zl(a['sd'])} {zl(a['od'])}",
    lambda a: modes_ok(len(a["s"]), a["sd"]) and modes_ok(len(a["u"]), a["od"])
    and [a["s"][m] for m in a["sd"]] == [a["u"][m] for m in a["od"]],
    lambda a: (lambda x, y: ([x, y], lambda: x.ttt(y, _np().array(a["sd"], dtype=int), _np().array(a["od"], dtype=int))))(T(a["s"]), T(a["u"])),
    _g_ttt)


def _g_linear(rng, tier):
    out = []
    for s in pool(tier):
        n = math.prod(s)
        for k, tag in ((0, "control"), (n - 1, "control"), (n, "oob_index"), (n + 1, "oob_index"), (2 * n + 3, "oob_index"),
                       (-1, "control"), (-n, "control"), (-(n + 1) // 2, "control"),      # Python's convention: counted from the end
                       (-n - 1, "neg_oob_index"), (-2 * n, "neg_oob_index" if n > 0 else "control"), (-2 * n - 3, "neg_oob_index")):
            out.append(({"s": list(s), "k": k}, tag))
    return out


def _set_linear(x, k):
    x[_np().array([k])] = 9.0


reg("tensor.setitem_linear", "linear_index", lambda a: f"{zl(a['s'])} {gz(a['k'])}", lambda a: -math.prod(a["s"]) <= a["k"] < math.prod(a["s"]),
    lambda a: (lambda x: ([x], lambda: _set_linear(x, a["k"])))(T(a["s"])), _g_linear, mutating=True)
reg("tensor.getitem_linear", "linear_index", lambda a: f"{zl(a['s'])} {gz(a['k'])}", lambda a: -math.prod(a["s"]) <= a["k"] < math.prod(a["s"]),
    lambda a: (lambda x: ([x], lambda: x[_np().array([a["k"]])]))(T(a["s"])), _g_linear)

# ---------------------------------------------------------------- sptensor


def _g_sp_ctor(rng, tier):
    out = []
    for s in pool(tier):
        N = len(s)
        top = [d - 1 for d in s]
        zero = [0] * N
        good = [zero, top] if top != zero else [zero]
        out.append(({"s": list(s), "subs": good, "nvals": len(good)}, "control"))
        for k in range(N):
            bad = top[:k] + [s[k]] + top[k + 1:]
            out.append(({"s": list(s), "subs": [zero, bad], "nvals": 2}, "oob_sub"))
        out.append(({"s": list(s), "subs": [zero + [0], top + [0]], "nvals": 2}, "extra_col"))
        if N > 1:
            out.append(({"s": list(s), "subs": [zero[:-1], top[:-1]], "nvals": 2}, "missing_col"))
        for k in range(N):
            out.append(({"s": list(s), "subs": [zero[:k] + [-1] + zero[k + 1:], top], "nvals": 2}, "neg_sub"))
        out.append(({"s": list(s), "subs": good, "nvals": len(good) + 1}, "vals_count"))
        if len(good) == 2:
            out.append(({"s": list(s), "subs": good, "nvals": 1}, "vals_count"))
        # a subscript array without rows: no values (well-formed) / values without subscripts
        out.append(({"s": list(s), "subs": [], "nvals": 0}, "control"))
        out.append(({"s": list(s), "subs": [], "nvals": 2}, "vals_no_subs"))
        out.append(({"s": list(s), "subs": [], "nvals": 1}, "vals_no_subs"))
    return out


def _pre_sp_ctor(a):
    s = a["s"]
    return all(len(r) == len(s) and all(0 <= x < d for x, d in zip(r, s)) for r in a["subs"]) and a["nvals"] == len(a["subs"])


def _mk_subs(a):
    np = _np()
    subs = np.array(a["subs"], dtype=int) if a["subs"] else np.zeros((0, len(a["s"])), dtype=int)
    vals = np.arange(1.0, a["nvals"] + 1).reshape((a["nvals"], 1))
    return subs, vals


reg("sptensor.ctor", "sptensor_ctor", lambda a: f"{zl(a['s'])} {zll(a['subs'])} {gz(a['nvals'])}", _pre_sp_ctor,
    lambda a: (lambda sv: ([sv[0], sv[1]], lambda: _ttb().sptensor(sv[0], sv[1], tuple(a["s"]))))(_mk_subs(a)), _g_sp_ctor)
reg("sptensor.from_aggregator", ("sptensor_ctor", "from_aggregator"), lambda a: f"{zl(a['s'])} {zll(a['subs'])} {gz(a['nvals'])}", _pre_sp_ctor,
    lambda a: (lambda sv: ([sv[0], sv[1]], lambda: _ttb().sptensor.from_aggregator(sv[0], sv[1], tuple(a["s"]))))(_mk_subs(a)),
    _g_sp_ctor)


def _g_extract(rng, tier):
    out = []
    for s in pool(tier):
        N = len(s)
        top = [d - 1 for d in s]
        zero = [0] * N
        out.append(({"s": list(s), "subs": [zero, top]}, "control"))
        for k in range(N):
            out.append(({"s": list(s), "subs": [zero, top[:k] + [s[k]] + top[k + 1:]]}, "oob_sub"))
            out.append(({"s": list(s), "subs": [zero[:k] + [-1] + zero[k + 1:], top]}, "neg_sub"))
        # subscript arrays with the wrong number of columns (a single column / one more / one less): numpy would broadcast some
        out.append(({"s": list(s), "subs": [zero + [0], top + [0]]}, "extra_col"))
        if N > 1:
            out.append(({"s": list(s), "subs": [zero[:-1], top[:-1]]}, "missing_col"))
            out.append(({"s": list(s), "subs": [[0], [min(s) - 1]]}, "one_col"))
    return out


reg("sptensor.extract", ("subs", "sptensor_extract"), lambda a: f"{zl(a['s'])} {zll(a['subs'])}",
    lambda a: all(len(r) == len(a["s"]) and all(0 <= x < d for x, d in zip(r, a["s"])) for r in a["subs"]),
    lambda a: (lambda x: ([x], lambda: x.extract(_np().array(a["subs"], dtype=int))))(S(a["s"])), _g_extract)


def _g_sp_innerprod(rng, tier):
    return [(dict(a, empty=e), t) for a, t in _g_two_shapes(rng, tier) for e in (False, True)]


reg("sptensor.innerprod_sp", "sptensor_innerprod", lambda a: f"{zl(a['s'])} {gbool(a['empty'])} {zl(a['u'])}", lambda a: a["s"] == a["u"],
    lambda a: (lambda x, y: ([x, y], lambda: x.innerprod(y)))(S(a["s"], a["empty"]), S(a["u"])), _g_sp_innerprod)
reg("sptensor.innerprod_dense", "sptensor_innerprod", lambda a: f"{zl(a['s'])} {gbool(a['empty'])} {zl(a['u'])}", lambda a: a["s"] == a["u"],
    lambda a: (lambda x, y: ([x, y], lambda: x.innerprod(y)))(S(a["s"], a["empty"]), T(a["u"])),
    lambda rng, tier: [(a, t) for a, t in _g_sp_innerprod(rng, tier) if a["empty"] or math.prod(a["s"]) > 2])   # A-05: one nonzero
two_shapes("sptensor.add", S, S, lambda x, y: x + y)
two_shapes("sptensor.sub", S, S, lambda x, y: x - y)
two_shapes("sptensor.mul", S, S, lambda x, y: x * y)
two_shapes("sptensor.logical_and", S, S, lambda x, y: x.logical_and(y))
two_shapes("sptensor.logical_or", S, S, lambda x, y: x.logical_or(y))
two_shapes("sptensor.eq", S, S, lambda x, y: x == y)
two_shapes("sptensor.mul_dense", S, T, lambda x, y: x * y, keep=lambda a: math.prod(a["s"]) > 2)
perm_op("sptensor.permute", S, lambda x, o: x.permute(o))
reg("sptensor.reshape", ("reshape", "tensor_reshape"), lambda a: f"{zl(a['s'])} {zl(a['new'])}", lambda a: math.prod(a["s"]) == math.prod(a["new"]),
    lambda a: (lambda t: ([t], lambda: t.reshape(tuple(a["new"]))))(S(a["s"])), _g_reshape)
ttv_op("sptensor.ttv", S)
ttm_op("sptensor.ttm", S, pool_min=2, cname=("ttm", "sptensor_ttm"))      # 1-way: to_sptenmat with an empty side raises (A-02, outside C19)
mttkrp_op("sptensor.mttkrp", S, guard="sptensor_mttkrp", zero_cols=True)

# ---------------------------------------------------------------- ktensor


def _g_k_ctor(rng, tier):
    out = []
    for s in pool(tier):
        R = 2
        good = [[d, R] for d in s]
        out.append(({"ms": good, "w": None}, "control"))
        out.append(({"ms": good, "w": R}, "control"))
        out.append(({"ms": good, "w": R + 1}, "weights_len"))
        out.append(({"ms": good, "w": 1}, "weights_len"))
        for k in range(1, len(s)):
            out.append(({"ms": good[:k] + [[s[k], R + 1]] + good[k + 1:], "w": None}, "cols"))
            out.append(({"ms": good[:k] + [[s[k], 1]] + good[k + 1:], "w": R}, "cols_one"))
        if len(s) > 1:
            out.append(({"ms": [[s[0], R + 1]] + good[1:], "w": R}, "cols"))
            out.append(({"ms": [[s[0], R + 1]] + good[1:], "w": None}, "cols"))
            out.append(({"ms": [[s[0], 1]] + good[1:], "w": None}, "cols_one"))
            out.append(({"ms": [[s[0], 1]] + good[1:], "w": 1}, "cols_one"))
    return out


def _pre_k_ctor(a):
    R = a["ms"][0][1]
    return all(m[1] == R for m in a["ms"]) and (a["w"] is None or a["w"] == R)


reg("ktensor.ctor", "ktensor_ctor", lambda a: f"{pl(a['ms'])} {gopt(a['w'], gz)}", _pre_k_ctor,
    lambda a: (lambda fs, w: ([fs, w], lambda: _ttb().ktensor(fs, w)))([marr(m, 2) for m in a["ms"]],
                                                                      None if a["w"] is None else _np().arange(1.0, a["w"] + 1)),
    _g_k_ctor)


def _g_arrange(rng, tier):
    out = []
    for R in (1, 2, 3):
        for p in itertools.permutations(range(R)):
            out.append(({"s": [2, 3], "R": R, "p": list(p)}, "control"))
        out.append(({"s": [2, 3], "R": R, "p": list(range(R - 1))}, "short"))
        out.append(({"s": [2, 3], "R": R, "p": list(range(R + 1))}, "long"))
        out.append(({"s": [2, 3], "R": R, "p": [0] * R}, "rep_comp" if R > 1 else "control"))
        out.append(({"s": [2, 3], "R": R, "p": list(range(1, R + 1))}, "oob_comp"))
        out.append(({"s": [2, 3], "R": R, "p": [-1] + list(range(R - 1))}, "neg_comp"))
        if R > 2:
            out.append(({"s": [2, 3], "R": R, "p": [0, 1, 1]}, "rep_comp"))
    return out


reg("ktensor.arrange", "ktensor_arrange", lambda a: f"{gz(a['R'])} {zl(a['p'])}", lambda a: is_perm(a["R"], a["p"]),
    lambda a: (lambda x: ([x], lambda: x.arrange(permutation=list(a["p"]))))(K(a["s"], a["R"])), _g_arrange, mutating=True)


def _g_k_extract(rng, tier):
    out = []
    for R in (1, 2, 3):
        for r in range(1, R + 1):
            for p in itertools.permutations(range(R), r):
                out.append(({"s": [2, 3], "R": R, "idx": list(p)}, "control"))
        out.append(({"s": [2, 3], "R": R, "idx": []}, "empty"))
        out.append(({"s": [2, 3], "R": R, "idx": list(range(R + 1))}, "too_many"))
        out.append(({"s": [2, 3], "R": R, "idx": [R]}, "oob_comp"))
        out.append(({"s": [2, 3], "R": R, "idx": [-1]}, "neg_comp"))
    return out


reg("ktensor.extract", "ktensor_extract", lambda a: f"{gz(a['R'])} {zl(a['idx'])}",
    lambda a: 1 <= len(a["idx"]) <= a["R"] and all(0 <= x < a["R"] for x in a["idx"]),
    lambda a: (lambda x: ([x], lambda: x.extract(list(a["idx"]))))(K(a["s"], a["R"])), _g_k_extract)


def _g_mode(rng, tier):
    out = []
    for s in pool(tier):
        N = len(s)
        for n in range(N):
            out.append(({"s": list(s), "n": n}, "control"))
        out += [({"s": list(s), "n": N}, "oob_mode"), ({"s": list(s), "n": -1}, "neg_mode"), ({"s": list(s), "n": -N}, "neg_mode"),
                ({"s": list(s), "n": N + 2}, "oob_mode")]
    return out


reg("ktensor.redistribute", "mode", lambda a: f"{zl(a['s'])} {gz(a['n'])}", lambda a: in_range(len(a["s"]), a["n"]),
    lambda a: (lambda x: ([x], lambda: x.redistribute(a["n"])))(K(a["s"])), _g_mode, mutating=True)
reg("ktensor.normalize_mode", "mode", lambda a: f"{zl(a['s'])} {gz(a['n'])}", lambda a: in_range(len(a["s"]), a["n"]),
    lambda a: (lambda x: ([x], lambda: x.normalize(mode=a["n"])))(K(a["s"])), _g_mode, mutating=True)
reg("tensor.nvecs", ("mode", "nvecs"), lambda a: f"{zl(a['s'])} {gz(a['n'])}", lambda a: in_range(len(a["s"]), a["n"]),
    lambda a: (lambda x: ([x], lambda: x.nvecs(a["n"], 1)))(T(a["s"])),
    lambda rng, tier: [(a, t) for a, t in _g_mode(rng, tier) if len(a["s"]) >= 2 and a["s"][0] > 1])
two_shapes("ktensor.innerprod", K, K, lambda x, y: x.innerprod(y))
two_shapes("ktensor.innerprod_dense", K, T, lambda x, y: x.innerprod(y))
two_shapes("ktensor.add", K, K, lambda x, y: x + y)
perm_op("ktensor.permute", K, lambda x, o: x.permute(o))
ttv_op("ktensor.ttv", K)
mttkrp_op("ktensor.mttkrp", K, guard="ktensor_mttkrp", zero_cols=True)

# ---------------------------------------------------------------- ttensor


def _g_tt_ctor(rng, tier):
    out = []
    for s in pool(tier):
        core = [2 + (i % 2) for i in range(len(s))]
        good = [[d, c] for d, c in zip(s, core)]
        out.append(({"core": core, "ms": good}, "control"))
        out.append(({"core": core, "ms": good[:-1]}, "list_short"))
        out.append(({"core": core, "ms": good + [[2, 2]]}, "list_long"))
        for k in range(len(s)):
            out.append(({"core": core, "ms": good[:k] + [[s[k], core[k] + 1]] + good[k + 1:]}, "cols"))
            out.append(({"core": core, "ms": good[:k] + [[s[k], 1]] + good[k + 1:]}, "cols_one"))
            if s[k] != core[k]:
                out.append(({"core": core, "ms": good[:k] + [[core[k], s[k]]] + good[k + 1:]}, "swapped"))
    return out


reg("ttensor.ctor", "ttensor_ctor", lambda a: f"{zl(a['core'])} {pl(a['ms'])}",
    lambda a: len(a["ms"]) == len(a["core"]) and all(m[1] == c for m, c in zip(a["ms"], a["core"])),
    lambda a: (lambda c, fs: ([c, fs], lambda: _ttb().ttensor(c, fs)))(T(a["core"]), [marr(m, 2) for m in a["ms"]]), _g_tt_ctor)


def TTs(s):
    return TT(s, [2] * len(s))


two_shapes("ttensor.innerprod", TTs, TTs, lambda x, y: x.innerprod(y))
two_shapes("ttensor.innerprod_dense", TTs, T, lambda x, y: x.innerprod(y))
perm_op("ttensor.permute", TTs, lambda x, o: x.permute(o))
ttv_op("ttensor.ttv", TTs)
ttm_op("ttensor.ttm", TTs, cname="ttensor_ttm", pre=_pre_ttensor_ttm)
mttkrp_op("ttensor.mttkrp", TTs, guard="ttensor_mttkrp")


# ttensor.reconstruct(samples, modes): one sample array per listed mode ("If samples and modes provided lengths must be equal"), the
# modes distinct modes of the tensor (the property's clause on mode arguments; the docstring is empty).  Descriptor: shape, the mode
# list, the number of sample arrays (each one np.array([0]): row 0 of the factor, valid for every mode)
def _pre_reconstruct(a):
    return modes_ok(len(a["s"]), a["modes"]) and a["nsamp"] == len(a["modes"])


def _g_reconstruct(rng, tier):
    out = []
    for s in pool(tier, 1, 3):
        s, N = list(s), len(s)
        for d in subsets(N, rng, tier):
            out.append(({"s": s, "modes": d, "nsamp": len(d)}, "control"))
            out.append(({"s": s, "modes": d, "nsamp": len(d) + 1}, "list_long"))
            if len(d) > 1:
                out.append(({"s": s, "modes": d, "nsamp": len(d) - 1}, "list_short"))
        for tag, d in bad_mode_lists(N):
            out.append(({"s": s, "modes": d, "nsamp": len(d)}, tag))
    return out


reg("ttensor.reconstruct", "reconstruct", lambda a: f"{zl(a['s'])} {zl(a['modes'])} {gz(a['nsamp'])}", _pre_reconstruct,
    lambda a: (lambda x: ([x], lambda: x.reconstruct([_np().array([0]) for _ in range(a["nsamp"])], list(a["modes"]))))(TTs(a["s"])),
    _g_reconstruct)

# ---------------------------------------------------------------- tenmat / sptenmat


def _g_tenmat_ctor(rng, tier):
    out = []
    for s in pool(tier, 2):
        N = len(s)
        for r in range(1, N):
            for rd in itertools.combinations(range(N), r):
                rd = list(rd)
                cd = [m for m in range(N) if m not in rd]
                rp, cp = math.prod(s[m] for m in rd), math.prod(s[m] for m in cd)
                base = {"ts": list(s), "rd": rd, "cd": cd}
                out.append((dict(base, d=[rp, cp]), "control"))
                if rp != cp:
                    out.append((dict(base, d=[cp, rp]), "swapped"))
                out.append((dict(base, d=[rp, cp + 1]), "count"))
                if rp * cp > 1:
                    out.append((dict(base, d=[1, rp * cp]), "control" if rp == 1 else "regrouped"))
                out.append((dict(base, d=[rp, cp], cd=cd[:-1]), "missing_mode"))
                out.append((dict(base, d=[rp, cp], cd=cd + [rd[0]]), "rep_mode"))
                out.append((dict(base, d=[rp, cp], cd=cd[:-1] + [N]), "oob_mode"))
                # a mode listed twice with a data matrix that has the element count of the lists AS GIVEN (so the element-count test
                # cannot stand in for the partition test): the repeated mode first / last in rdims, first / last in cdims, twice in
                # the same list or once in each.  For a SINGLETON mode the matrix is at the same time the right one for the
                # de-duplicated lists (tag rep_singleton); for a longer mode it has more entries than the tensor (rep_mode)
                for m in range(N):
                    tag = "rep_singleton" if s[m] == 1 else "rep_mode"
                    out.append((dict(base, d=[rp * s[m], cp], rd=[m] + rd), tag))
                    out.append((dict(base, d=[rp * s[m], cp], rd=rd + [m]), tag))
                    out.append((dict(base, d=[rp, cp * s[m]], cd=[m] + cd), tag))
                    out.append((dict(base, d=[rp, cp * s[m]], cd=cd + [m]), tag))
        # every mode in rdims (cdims empty) with one of them twice
        for m in range(N):
            tag = "rep_singleton" if s[m] == 1 else "rep_mode"
            out.append(({"ts": list(s), "rd": list(range(N)) + [m], "cd": [], "d": [math.prod(s) * s[m], 1]}, tag))
            out.append(({"ts": list(s), "rd": [], "cd": [m] + list(range(N)), "d": [1, math.prod(s) * s[m]]}, tag))
    return out


def _pre_tenmat_ctor(a):
    ts = a["ts"]
    if not is_perm(len(ts), a["rd"] + a["cd"]):
        return False
    return a["d"][0] == math.prod(ts[m] for m in a["rd"]) and a["d"][1] == math.prod(ts[m] for m in a["cd"])


reg("tenmat.ctor", "tenmat_ctor", lambda a: f"({gz(a['d'][0])}, {gz(a['d'][1])}) {zl(a['rd'])} {zl(a['cd'])} {zl(a['ts'])}", _pre_tenmat_ctor,
    lambda a: (lambda d: ([d], lambda: _ttb().tenmat(d, _np().array(a["rd"], dtype=int), _np().array(a["cd"], dtype=int), tuple(a["ts"]))))(marr(a["d"])),
    _g_tenmat_ctor)


def TM(rc):
    return _ttb().tenmat(arr(rc), _np().array([0]), _np().array([1]), tuple(rc))


def _g_mat2(rng, tier):
    out = []
    for a_ in [(2, 3), (3, 3), (1, 4), (4, 1), (1, 1)]:
        out.append(({"a": list(a_), "b": [a_[1], 2]}, "control"))
        out.append(({"a": list(a_), "b": [a_[1] + 1, 2]}, "inner"))
        out.append(({"a": list(a_), "b": [1, a_[1]]}, "inner" if a_[1] != 1 else "control"))
        if a_[0] != a_[1]:
            out.append(({"a": list(a_), "b": list(a_)}, "inner"))
    return out


reg("tenmat.mul", "tenmat_mul", lambda a: f"({gz(a['a'][0])}, {gz(a['a'][1])}) ({gz(a['b'][0])}, {gz(a['b'][1])})",
    lambda a: a["a"][1] == a["b"][0], lambda a: (lambda x, y: ([x, y], lambda: x * y))(TM(a["a"]), TM(a["b"])), _g_mat2)


# element-wise + / - of two matricised tensors: each operand is (tshape, rdims, cdims); the MATRIX shapes must agree.
# Streams: the same tensor shape split differently (N x 1 against 1 x N, singleton modes: numpy would broadcast these),
# different tensor shapes with the same / a different matrix shape, same split.
def _splits(N):
    out = []
    for r in range(0, N + 1):
        for rd in itertools.combinations(range(N), r):
            out.append((list(rd), [m for m in range(N) if m not in rd]))
    return out


def _mshape(ts, rd, cd):
    return [math.prod(ts[m] for m in rd), math.prod(ts[m] for m in cd)]


def _g_tenmat_binop(rng, tier):
    out = []
    shapes = [(2, 3), (1, 3), (4, 1, 1), (1, 2, 3), (2, 3, 4), (5,), (2, 2), (1, 1), (3, 3, 3)]
    for s in shapes:
        s = list(s)
        sp = _splits(len(s))
        for rd, cd in sp:
            for urd, ucd in sp:
                a = {"ts": s, "rd": rd, "cd": cd, "us": s, "urd": urd, "ucd": ucd}
                m1, m2 = _mshape(s, rd, cd), _mshape(s, urd, ucd)
                if m1 == m2:
                    tag = "control"
                elif _bcast2(m1, m2):
                    tag = "split_broadcastable"
                else:
                    tag = "split"
                out.append((a, tag))
        # a different tensor
        for tag, v in shape_variants(s):
            for rd, cd in sp[:3] + sp[-1:]:
                k = len(rd)
                urd, ucd = list(range(min(k, len(v)))), list(range(min(k, len(v)), len(v)))
                a = {"ts": s, "rd": rd, "cd": cd, "us": v, "urd": urd, "ucd": ucd}
                out.append((a, "control" if _mshape(s, rd, cd) == _mshape(v, urd, ucd) else "tshape_" + tag))
    return out


def _bcast2(a, b):
    return all(x == y or x == 1 or y == 1 for x, y in zip(a, b))


def TMs(ts, rd, cd):
    np = _np()
    return T(ts).to_tenmat(np.array(rd, dtype=int), np.array(cd, dtype=int))


for _nm, _f in (("add", lambda x, y: x + y), ("sub", lambda x, y: x - y), ("radd", lambda x, y: x.__radd__(y)),
                ("rsub", lambda x, y: x.__rsub__(y))):
    reg("tenmat." + _nm, "tenmat_binop",
        lambda a: f"{zl(a['ts'])} {zl(a['rd'])} {zl(a['cd'])} {zl(a['us'])} {zl(a['urd'])} {zl(a['ucd'])}",
        lambda a: _mshape(a["ts"], a["rd"], a["cd"]) == _mshape(a["us"], a["urd"], a["ucd"]),
        (lambda f: lambda a: (lambda x, y: ([x, y], lambda: f(x, y)))(TMs(a["ts"], a["rd"], a["cd"]), TMs(a["us"], a["urd"], a["ucd"])))(_f),
        _g_tenmat_binop)


def _g_sptenmat_ctor(rng, tier):
    out = []
    for s in pool(tier, 2):
        N = len(s)
        for r in range(1, N):
            for rd in itertools.combinations(range(N), r):
                rd = list(rd)
                cd = [m for m in range(N) if m not in rd]
                rp, cp = math.prod(s[m] for m in rd), math.prod(s[m] for m in cd)
                base = {"ts": list(s), "rd": rd, "cd": cd}
                out.append((dict(base, mr=rp - 1, mc=cp - 1), "control"))
                out.append((dict(base, mr=rp, mc=cp - 1), "row_eq_size"))
                out.append((dict(base, mr=rp - 1, mc=cp), "col_eq_size"))
                out.append((dict(base, mr=rp + 1, mc=cp - 1), "oob_row"))
                out.append((dict(base, mr=rp - 1, mc=cp + 2), "oob_col"))
                out.append((dict(base, mr=rp - 1, mc=cp - 1, cd=cd[:-1]), "missing_mode"))
                out.append((dict(base, mr=rp - 1, mc=cp - 1, cd=cd + [rd[0]]), "rep_mode"))
    return out


def _pre_sptenmat_ctor(a):
    ts = a["ts"]
    if not is_perm(len(ts), a["rd"] + a["cd"]):
        return False
    return a["mr"] < math.prod(ts[m] for m in a["rd"]) and a["mc"] < math.prod(ts[m] for m in a["cd"])


reg("sptenmat.ctor", "sptenmat_ctor", lambda a: f"{gz(a['mr'])} {gz(a['mc'])} {zl(a['rd'])} {zl(a['cd'])} {zl(a['ts'])}", _pre_sptenmat_ctor,
    lambda a: (lambda subs, vals: ([subs, vals], lambda: _ttb().sptenmat(subs, vals, _np().array(a["rd"], dtype=int),
                                                                          _np().array(a["cd"], dtype=int), tuple(a["ts"]))))(
        _np().array([[0, 0], [a["mr"], a["mc"]]], dtype=int), _np().array([[1.0], [2.0]])),
    _g_sptenmat_ctor)

# ---------------------------------------------------------------- sumtensor / khatrirao


def _g_shapes_list(rng, tier):
    out = []
    for s in pool(tier):
        out.append(({"shapes": [list(s), list(s)]}, "control"))
        out.append(({"shapes": [list(s), list(s), list(s)]}, "control"))
        for tag, v in shape_variants(s):
            out.append(({"shapes": [list(s), v]}, tag))
            out.append(({"shapes": [list(s), list(s), v]}, tag))
            out.append(({"shapes": [list(s), v, list(s)]}, tag))
            out.append(({"shapes": [v, list(s), list(s)]}, tag))
    return out


reg("sumtensor.ctor", "all_same_shape", lambda a: zll(a["shapes"]), lambda a: all(x == a["shapes"][0] for x in a["shapes"]),
    lambda a: (lambda ps: ([ps], lambda: _ttb().sumtensor(ps)))([T(a["shapes"][0])] + [K(x) for x in a["shapes"][1:]]), _g_shapes_list)


@operand
def SU(s, kind=None):
    if kind in ("sparse", "empty"):
        return _ttb().sumtensor([S(s, kind=kind if kind == "empty" else None), K(s)])
    return _ttb().sumtensor([T(s, kind=kind), K(s, kind=kind)])


two_shapes("sumtensor.add", SU, T, lambda x, y: x + y)
two_shapes("sumtensor.innerprod", SU, T, lambda x, y: x.innerprod(y))
ttv_op("sumtensor.ttv", SU)
mttkrp_op("sumtensor.mttkrp", SU, guard="sumtensor_mttkrp")


def _g_khatrirao(rng, tier):
    out = []
    for rows_ in ([2, 3], [3, 3, 2], [1, 4], [2], [1, 1, 1]):
        R = 2
        good = [[r, R] for r in rows_]
        out.append(({"ms": good}, "control"))
        for k in range(len(rows_)):
            if len(rows_) > 1:
                out.append(({"ms": good[:k] + [[rows_[k], R + 1]] + good[k + 1:]}, "cols"))
                out.append(({"ms": good[:k] + [[rows_[k], 1]] + good[k + 1:]}, "cols_one"))
                if rows_[k] != R:
                    out.append(({"ms": good[:k] + [[R, rows_[k]]] + good[k + 1:]}, "swapped"))
    return out


reg("khatrirao", "khatrirao", lambda a: pl(a["ms"]), lambda a: all(m[1] == a["ms"][0][1] for m in a["ms"]),
    lambda a: (lambda ms: ([ms], lambda: _ttb().khatrirao(*ms)))([marr(m, 2) for m in a["ms"]]), _g_khatrirao)


# ---------------------------------------------------------------- algorithm entry points and import_data


def ginit(i):
    if i == "random":
        return "InitRandom"
    if i == "nvecs":
        return "InitNvecs"
    if i == "bogus":
        return "InitBogus"
    if "k" in i:
        return f"(InitK {zl(i['k'])} {gz(i['R'])})"
    return f"(InitList {pl(i['l'])})"


def mk_init(i):
    if isinstance(i, str):
        return i
    if "k" in i:
        return K(i["k"], i["R"])
    return [arr(m, 2) for m in i["l"]]


def _pre_cp_init(s, rank, i, allow_nvecs):
    if i == "random":
        return True
    if i == "nvecs":
        return allow_nvecs
    if isinstance(i, dict) and "k" in i:
        return i["k"] == s and i["R"] == rank
    return False


def _g_cp(rng, tier, nvecs=True):
    out = []
    for s in [(2, 3, 4), (3, 3, 3), (3, 2)]:
        s = list(s)
        R = 2
        base = {"s": s, "rank": R, "init": {"k": s, "R": R}, "dimorder": None}
        out.append((dict(base), "control"))
        out.append((dict(base, init="random"), "control"))
        out.append((dict(base, rank=0), "rank"))
        out.append((dict(base, rank=-1, init="random"), "rank"))
        out.append((dict(base, init={"k": s, "R": R + 1}), "init_rank"))
        out.append((dict(base, init={"k": s, "R": 1}), "init_rank"))
        out.append((dict(base, init={"k": s[:-1], "R": R}), "init_modes"))
        out.append((dict(base, init={"k": s + [2], "R": R}), "init_modes"))
        for k in range(len(s)):
            out.append((dict(base, init={"k": s[:k] + [s[k] + 1] + s[k + 1:], "R": R}), "init_size"))
        if s != s[::-1]:
            out.append((dict(base, init={"k": s[::-1], "R": R}), "init_size"))
        out.append((dict(base, init="bogus"), "init_name"))
        N = len(s)
        out.append((dict(base, dimorder=list(range(N))[::-1]), "control"))
        out.append((dict(base, dimorder=list(range(N - 1))), "dimorder"))
        out.append((dict(base, dimorder=[0] * N), "dimorder"))
        out.append((dict(base, dimorder=list(range(1, N + 1))), "dimorder"))
        out.append((dict(base, dimorder=[-1] + list(range(N - 1))), "dimorder"))
        for tag, o in bad_orders(N):
            out.append((dict(base, dimorder=o), tag))
            out.append((dict(base, dimorder=o, init="random"), tag))
    return out


def _quiet(f):
    import contextlib
    import io
    with contextlib.redirect_stdout(io.StringIO()):
        return f()


reg("cp_als", "cp_als", lambda a: f"{zl(a['s'])} {gz(a['rank'])} {ginit(a['init'])} {zo(a['dimorder'])}",
    lambda a: a["rank"] > 0 and _pre_cp_init(a["s"], a["rank"], a["init"], True)
    and (a["dimorder"] is None or is_perm(len(a["s"]), a["dimorder"])),
    lambda a: (lambda x, i: ([x], lambda: _quiet(lambda: _ttb().cp_als(x, a["rank"], init=i, dimorder=a["dimorder"], maxiters=2,
                                                                           printitn=0))))(T(a["s"]), mk_init(a["init"])),
    _g_cp)


def _g_optdims(rng, tier):
    out = []
    for s in [(2, 3, 4), (3, 2)]:
        N = len(s)
        for d in subsets(N, rng, tier):
            out.append(({"s": list(s), "optdims": d}, "control"))
        for tag, d in bad_mode_lists(N):
            out.append(({"s": list(s), "optdims": d}, tag))
        out.append(({"s": list(s), "optdims": list(range(N)) + [N - 1]}, "rep_mode"))
        out.append(({"s": list(s), "optdims": list(range(N)) + [N]}, "oob_mode"))
        out.append(({"s": list(s), "optdims": []}, "no_mode"))
    return out


# cp_als(optdims=...): the list of modes to optimise is a mode argument (distinct modes of the tensor)
reg("cp_als.optdims", "cp_optdims", lambda a: f"{zl(a['s'])} {zl(a['optdims'])}",
    lambda a: modes_ok(len(a["s"]), a["optdims"]) and len(a["optdims"]) > 0,
    lambda a: (lambda x: ([x], lambda: _quiet(lambda: _ttb().cp_als(x, 2, optdims=list(a["optdims"]), maxiters=1, printitn=0))))(T(a["s"])),
    _g_optdims)


def _g_cp_apr(rng, tier):
    out = []
    for a, t in _g_cp(rng, tier):
        if a["dimorder"] is not None:
            continue
        for alg in ("mu", "pdnr", "pqnr"):
            out.append((dict(a, alg=alg), t))
    out.append(({"s": [2, 3, 4], "rank": 2, "init": "random", "dimorder": None, "alg": "newton"}, "algorithm"))
    out.append(({"s": [2, 3, 4], "rank": 2, "init": "nvecs", "dimorder": None, "alg": "mu"}, "init_name"))
    return out


reg("cp_apr", "cp_apr", lambda a: f"{zl(a['s'])} {gz(a['rank'])} {ginit(a['init'])} {gbool(a['alg'] in ('mu', 'pdnr', 'pqnr'))}",
    lambda a: a["rank"] > 0 and _pre_cp_init(a["s"], a["rank"], a["init"], False) and a["alg"] in ("mu", "pdnr", "pqnr"),
    lambda a: (lambda x, i: ([x], lambda: _quiet(lambda: _ttb().cp_apr(x, a["rank"], algorithm=a["alg"], init=i, maxiters=1,
                                                                           maxinneriters=1, printitn=0, printinneritn=0))))(
        T(a["s"]), mk_init(a["init"])),
    _g_cp_apr)


def _g_hosvd(rng, tier):
    out = []
    for s in [(2, 3, 4), (3, 3, 3), (3, 2)]:
        s = list(s)
        N = len(s)
        base = {"s": s, "ranks": [1] * N, "dimorder": None}
        out.append((dict(base), "control"))
        out.append((dict(base, ranks=None), "control"))
        out.append((dict(base, ranks=[min(2, d) for d in s]), "control"))
        out.append((dict(base, ranks=[1] * (N - 1)), "ranks_len"))
        out.append((dict(base, ranks=[1] * (N + 1)), "ranks_len"))
        out.append((dict(base, dimorder=list(range(N))[::-1]), "control"))
        out.append((dict(base, dimorder=list(range(N - 1))), "dimorder"))
        out.append((dict(base, dimorder=[0] * N), "dimorder"))
        out.append((dict(base, dimorder=list(range(1, N + 1))), "dimorder"))
        for tag, o in bad_orders(N):
            out.append((dict(base, dimorder=o), tag))
            out.append((dict(base, dimorder=o, ranks=None), tag))
    return out


def _ranks_ok(r, s):
    return len(r) == len(s)          # only the count is a stated precondition (rank vs. mode size is left to the algorithms)


reg("hosvd", "hosvd", lambda a: f"{zl(a['s'])} {zo(a['ranks'])} {zo(a['dimorder'])}",
    lambda a: (a["ranks"] is None or _ranks_ok(a["ranks"], a["s"])) and (a["dimorder"] is None or is_perm(len(a["s"]), a["dimorder"])),
    lambda a: (lambda x, r: ([x], lambda: _quiet(lambda: _ttb().hosvd(x, 1e-4, verbosity=0, dimorder=a["dimorder"], ranks=r))))(
        T(a["s"]), None if a["ranks"] is None else _np().array(a["ranks"], dtype=int)),
    _g_hosvd)


def _g_tucker(rng, tier):
    out = []
    for s in [(2, 3, 4), (3, 3, 3), (3, 2)]:
        s = list(s)
        N = len(s)
        rk = [min(2, d) for d in s]
        good = [[d, r] for d, r in zip(s, rk)]
        base = {"s": s, "ranks": rk, "init": "random", "dimorder": None, "maxiters": 1}
        out.append((dict(base), "control"))
        out.append((dict(base, ranks=[2]), "control"))
        out.append((dict(base, init={"l": good}), "control"))
        out.append((dict(base, ranks=rk[:-1] if N > 2 else rk + [1]), "ranks_len"))
        out.append((dict(base, maxiters=-1), "maxiters"))
        out.append((dict(base, init="bogus"), "init_name"))
        out.append((dict(base, init={"l": good[:-1]}), "init_len"))
        out.append((dict(base, init={"l": good + [[2, 2]]}), "init_len"))
        for k in range(N):
            out.append((dict(base, init={"l": good[:k] + [[s[k] + 1, rk[k]]] + good[k + 1:]}), "init_size"))
            out.append((dict(base, init={"l": good[:k] + [[s[k], rk[k] + 1]] + good[k + 1:]}), "init_size"))
        out.append((dict(base, dimorder=list(range(N))[::-1]), "control"))
        out.append((dict(base, dimorder=list(range(N - 1))), "dimorder"))
        out.append((dict(base, dimorder=[0] * N), "dimorder"))
        for tag, o in bad_orders(N):
            out.append((dict(base, dimorder=o), tag))
            if o:
                out.append((dict(base, dimorder=o, init={"l": good}), tag))
        out.append((dict(base, ranks=rk + [1]), "ranks_len"))
        out.append((dict(base, ranks=rk + rk), "ranks_len"))
    return out


def _pre_tucker(a):
    s, N = a["s"], len(a["s"])
    rk = a["ranks"] * N if len(a["ranks"]) == 1 else a["ranks"]
    if not _ranks_ok(rk, s) or a["maxiters"] < 0:
        return False
    if a["dimorder"] is not None and not is_perm(N, a["dimorder"]):
        return False
    i = a["init"]
    if i in ("random", "nvecs"):
        return True
    if isinstance(i, dict) and "l" in i:
        first = 0 if a["dimorder"] is None else a["dimorder"][0]     # the first mode in dimorder is recomputed, its guess unused
        return len(i["l"]) == N and all(n == first or i["l"][n] == [s[n], rk[n]] for n in range(N))
    return False


reg("tucker_als", "tucker_als",
    lambda a: f"{zl(a['s'])} {zl(a['ranks'])} {ginit(a['init'])} {zo(a['dimorder'])} {gz(a['maxiters'])}", _pre_tucker,
    lambda a: (lambda x, i: ([x], lambda: _quiet(lambda: _ttb().tucker_als(x, _np().array(a["ranks"], dtype=int), init=i,
                                                                               dimorder=a["dimorder"], maxiters=a["maxiters"],
                                                                               printitn=0))))(T(a["s"]), mk_init(a["init"])),
    _g_tucker)


def _g_gcp(rng, tier):
    out = []
    for s in [(2, 3, 4), (3, 2)]:
        s = list(s)
        base = {"s": s, "rank": 2, "init": {"k": s, "R": 2}, "opt": "lbfgsb"}
        out.append((dict(base), "control"))
        out.append((dict(base, init="random"), "control"))
        out.append((dict(base, opt="none"), "optimizer"))
        out.append((dict(base, init={"k": s, "R": 3}), "init_rank"))
        out.append((dict(base, init={"k": s[:-1] + [s[-1] + 1], "R": 2}), "init_size"))
        out.append((dict(base, init={"k": s[:-1], "R": 2}), "init_modes"))
        out.append((dict(base, rank=0, init="random"), "rank"))
        # the initial guess as a list of factor matrices
        good = [[d, 2] for d in s]
        out.append((dict(base, init={"l": good}), "control"))
        out.append((dict(base, init={"l": [[d, 3] for d in s]}), "list_rank"))
        out.append((dict(base, init={"l": [[d, 1] for d in s]}), "list_rank"))
        out.append((dict(base, init={"l": good[:-1] + [[s[-1], 3]]}), "list_cols"))
        for k in range(len(s)):
            out.append((dict(base, init={"l": good[:k] + [[s[k] + 1, 2]] + good[k + 1:]}), "list_size"))
        out.append((dict(base, init={"l": good[:-1]}), "list_len"))
        out.append((dict(base, init={"l": good + [[2, 2]]}), "list_len"))
        if s != s[::-1]:
            out.append((dict(base, init={"l": good[::-1]}), "list_size"))
        # a list guess next to a rank <= 0: matrices of the data's sizes with 2 / 1 / no columns
        for rank in (0, -1, -2):
            for c in (2, 1, 0):
                out.append((dict(base, rank=rank, init={"l": [[d, c] for d in s]}), "rank"))
            out.append((dict(base, rank=rank, init={"k": s, "R": 2}), "rank"))
        out.append((dict(base, rank=0, init={"k": s, "R": 0}), "rank"))
        out.append((dict(base, rank=-1, init="random"), "rank"))
        out.append((dict(base, rank=0, init={"l": [[d, 0] for d in s]}, opt="none"), "rank"))
    for s in ([3, 1], [1, 2, 3]):           # singleton modes: a wrong row count that numpy broadcasts against the data
        base = {"s": s, "rank": 2, "init": "random", "opt": "lbfgsb"}
        good = [[d, 2] for d in s]
        out.append((dict(base), "control"))
        out.append((dict(base, init={"l": good}), "control"))
        for k in range(len(s)):
            out.append((dict(base, init={"l": good[:k] + [[s[k] + 2, 2]] + good[k + 1:]}), "list_size"))
            out.append((dict(base, init={"k": s[:k] + [s[k] + 2] + s[k + 1:], "R": 2}), "init_size"))
    return out


def _gcp_call(a):
    ttb = _ttb()
    from pyttb.gcp.optimizers import LBFGSB
    from pyttb.gcp.fg_setup import Objectives
    x, i = T(a["s"]), mk_init(a["init"])
    opt = LBFGSB(maxiter=1, iprint=-1) if a["opt"] == "lbfgsb" else "not an optimizer"
    return [x], lambda: _quiet(lambda: ttb.gcp_opt(x, a["rank"], Objectives.GAUSSIAN, opt, init=i, printitn=0))


reg("gcp_opt", "gcp_opt", lambda a: f"{zl(a['s'])} {gz(a['rank'])} {ginit(a['init'])} {gbool(a['opt'] == 'lbfgsb')}",
    lambda a: a["rank"] > 0 and a["opt"] == "lbfgsb" and (
        a["init"] == "random" or (isinstance(a["init"], dict) and (
            (a["init"]["k"] == a["s"] and a["init"]["R"] == a["rank"]) if "k" in a["init"]
            else a["init"]["l"] == [[d, a["rank"]] for d in a["s"]]))),
    _gcp_call, _g_gcp)


def _g_import(rng, tier):
    out = []
    for s in [(2, 3), (4,), (2, 2, 2)]:
        for typ in ("tensor", "sptensor"):
            out.append(({"type": typ, "n": len(s), "shape": list(s)}, "control"))
            out.append(({"type": typ, "n": len(s) + 1, "shape": list(s)}, "header_count"))
            out.append(({"type": typ, "n": len(s) - 1, "shape": list(s)}, "header_count"))
        out.append(({"type": "tensr", "n": len(s), "shape": list(s)}, "type_word"))
    return out


def _import_call(a):
    import os
    import tempfile
    ttb = _ttb()
    s = a["shape"]
    lines = [a["type"], str(a["n"]), " ".join(str(d) for d in s)]
    if a["type"] == "sptensor":
        lines += ["1", " ".join(["1"] * len(s)) + " 5.0"]
    else:
        lines += ["1.0"] * math.prod(s)
    fd, path = tempfile.mkstemp(suffix=".tns", dir=os.environ.get("TMPDIR", "/tmp"))
    with os.fdopen(fd, "w") as fh:
        fh.write("\n".join(lines) + "\n")

    def go():
        try:
            return ttb.import_data(path)
        finally:
            os.unlink(path)
    return [lines], go


reg("import_data", "import", lambda a: f"{gbool(a['type'] in ('tensor', 'sptensor', 'matrix', 'ktensor'))} {gz(a['n'])} {gz(len(a['shape']))}",
    lambda a: a["type"] in ("tensor", "sptensor", "matrix", "ktensor") and a["n"] == len(a["shape"]), _import_call, _g_import)


# ================================================================================================
# operand kinds per operation: every malformed stream is repeated on degenerate / differently laid out operands
# ================================================================================================
def with_kinds(names, combos, mks=()):
    """combos: (rk, rk2) pairs; mks: layouts of the multiplicands. The base stream (default kinds) is kept in full."""
    for name in names:
        op = OPS[name]

        def gen(rng, tier, _g=op.gen, _combos=tuple(combos), _mks=tuple(mks)):
            base = _g(rng, tier)
            out = list(base)
            for rk, rk2 in _combos:
                for a, t in base:
                    if "empty" in a and a["empty"] != (rk in NO_ENTRY):      # the descriptor says whether entries are stored
                        continue
                    d = dict(a)
                    if rk:
                        d["rk"] = rk
                    if rk2:
                        d["rk2"] = rk2
                    out.append((d, t))
            for mk in _mks:
                out += [(dict(a, mk=mk), t) for a, t in base]
            return out
        op.gen = gen


DENSE_BINOPS_ALL = {"tensor.add", "tensor.sub", "tensor.mul", "tensor.logical_and", "tensor.eq", "tensor.le"}
_SP1 = [(k, None) for k in SPARSE_KINDS]
_SP2 = _SP1 + [(None, k) for k in SPARSE_KINDS] + [(k, k) for k in ("empty", "cancel", "one", "zeros")] + [("empty", "cancel"), ("one", "empty")]
_D1 = [(k, None) for k in DENSE_KINDS]
_D2 = _D1 + [(None, k) for k in DENSE_KINDS] + [("C", "C"), ("zero", "zero")]
_MK = ("C", "view")
with_kinds(["sptensor.collapse", "sptensor.permute", "sptensor.reshape", "sptensor.extract", "sptensor.to_sptenmat"], _SP1)
with_kinds(["sptensor.ttv", "sptensor.ttm", "sptensor.mttkrp"], _SP1, _MK)
with_kinds(["sptensor.add", "sptensor.sub", "sptensor.mul", "sptensor.logical_and", "sptensor.logical_or", "sptensor.eq",
            "sptensor.innerprod_sp"], _SP2)
with_kinds(["sptensor.innerprod_dense", "sptensor.mul_dense"], _SP1 + [(None, k) for k in DENSE_KINDS])
with_kinds(["tensor.permute", "tensor.reshape", "tensor.contract", "tensor.collapse", "tensor.to_tenmat", "tensor.getitem_linear",
            "tensor.setitem_linear", "tensor.nvecs"], _D1)
with_kinds(["tensor.ttv", "tensor.ttm", "tensor.mttkrp"], _D1, _MK)
with_kinds(["tensor.innerprod", "tensor.scale", "tensor.ttt"] + sorted(DENSE_BINOPS_ALL), _D2)
with_kinds(["tensor.ctor", "tenmat.ctor", "khatrirao", "ktensor.ctor", "ttensor.ctor"], [], _MK)
with_kinds(["ktensor.arrange", "ktensor.extract", "ktensor.redistribute", "ktensor.normalize_mode", "ktensor.permute"],
           [(k, None) for k in KRUSKAL_KINDS])
with_kinds(["ktensor.ttv", "ktensor.mttkrp"], [(k, None) for k in KRUSKAL_KINDS], _MK)
with_kinds(["ktensor.innerprod", "ktensor.add"], [(k, None) for k in KRUSKAL_KINDS] + [(None, k) for k in KRUSKAL_KINDS])
with_kinds(["ktensor.innerprod_dense"], [(k, None) for k in KRUSKAL_KINDS] + [(None, k) for k in DENSE_KINDS])
with_kinds(["ttensor.permute"], [("C", None)])
with_kinds(["ttensor.ttv", "ttensor.ttm", "ttensor.mttkrp"], [("C", None)], _MK)
with_kinds(["ttensor.innerprod"], [("C", None), (None, "C")])
with_kinds(["ttensor.innerprod_dense"], [("C", None)] + [(None, k) for k in DENSE_KINDS])
with_kinds(["sumtensor.add", "sumtensor.innerprod"], [("C", None), ("sparse", None), ("empty", None), (None, "C"), (None, "zero")])
with_kinds(["sumtensor.ttv", "sumtensor.mttkrp"], [("C", None), ("sparse", None), ("empty", None)], _MK)
with_kinds(["tenmat.add", "tenmat.sub", "tenmat.radd", "tenmat.rsub"], [("C", None), (None, "C"), ("zero", "zero")])
with_kinds(["cp_als", "cp_apr", "hosvd", "tucker_als", "gcp_opt", "cp_als.optdims"], [("C", None)])


# ---------------------------------------------------------------- wave 4: more members of the same-shape family
# Operations whose only dimensional precondition is "both operands have the same shape" and that were not in the stream yet:
# the remaining sparse/sparse and sparse/dense element-wise operations and comparisons, dense operations with a sparse operand,
# ktensor subtraction, inner products across classes, sumtensor + Kruskal / sparse.  Guard = guard_same_shape (theorem
# C19_same_shape).  A lighter shape pool in the quick tier (the full pool in the thorough tier); every variant of
# shape_variants (drop / extra mode, one size off, size 1 = broadcastable, swapped) on each.
LITE = [(2, 3, 4), (3, 1, 2), (1, 4), (4,), (2, 2)]


def _g_two_shapes_lite(rng, tier):
    out = []
    for s in (LITE if tier != "thorough" else pool(tier)):
        out.append(({"s": list(s), "u": list(s)}, "control"))
        for tag, v in shape_variants(s):
            out.append(({"s": list(s), "u": v}, tag))
    return out


def two_shapes_lite(name, mk1, mk2, f):
    reg(name, "same_shape", lambda a: f"{zl(a['s'])} {zl(a['u'])}", lambda a: a["s"] == a["u"],
        lambda a: (lambda x, y: ([x, y], lambda: f(x, y)))(mk1(a["s"]), mk2(a["u"])), _g_two_shapes_lite)


W4_SAME_SHAPE = {
    # sparse / sparse
    "sptensor.logical_xor": (S, S, lambda x, y: x.logical_xor(y)), "sptensor.ne": (S, S, lambda x, y: x != y),
    "sptensor.truediv": (S, S, lambda x, y: x / y), "sptensor.lt": (S, S, lambda x, y: x < y), "sptensor.ge": (S, S, lambda x, y: x >= y),
    # sparse / dense
    "sptensor.add_dense": (S, T, lambda x, y: x + y), "sptensor.sub_dense": (S, T, lambda x, y: x - y),
    "sptensor.eq_dense": (S, T, lambda x, y: x == y), "sptensor.ne_dense": (S, T, lambda x, y: x != y),
    "sptensor.lt_dense": (S, T, lambda x, y: x < y), "sptensor.ge_dense": (S, T, lambda x, y: x >= y),
    "sptensor.logical_and_dense": (S, T, lambda x, y: x.logical_and(y)), "sptensor.logical_or_dense": (S, T, lambda x, y: x.logical_or(y)),
    "sptensor.logical_xor_dense": (S, T, lambda x, y: x.logical_xor(y)), "sptensor.truediv_dense": (S, T, lambda x, y: x / y),
    # dense with a sparse operand, further dense operations
    "tensor.add_sparse": (T, S, lambda x, y: x + y), "tensor.eq_sparse": (T, S, lambda x, y: x == y),
    "tensor.logical_xor": (T, T, lambda x, y: x.logical_xor(y)), "tensor.ne": (T, T, lambda x, y: x != y),
    "tensor.truediv": (T, T, lambda x, y: x / y),
    # Kruskal
    "ktensor.sub": (K, K, lambda x, y: x - y),
    # inner products across classes
    "ttensor.innerprod_ktensor": (TTs, K, lambda x, y: x.innerprod(y)), "ttensor.innerprod_sparse": (TTs, S, lambda x, y: x.innerprod(y)),
    "ktensor.innerprod_sparse": (K, S, lambda x, y: x.innerprod(y)), "ktensor.innerprod_ttensor": (K, TTs, lambda x, y: x.innerprod(y)),
    "tensor.innerprod_sparse": (T, S, lambda x, y: x.innerprod(y)), "tensor.innerprod_ktensor": (T, K, lambda x, y: x.innerprod(y)),
    "tensor.innerprod_ttensor": (T, TTs, lambda x, y: x.innerprod(y)),
    "sumtensor.innerprod_ktensor": (SU, K, lambda x, y: x.innerprod(y)), "sumtensor.innerprod_sparse": (SU, S, lambda x, y: x.innerprod(y)),
    # sums
    "sumtensor.add_ktensor": (SU, K, lambda x, y: x + y), "sumtensor.add_sparse": (SU, S, lambda x, y: x + y),
}
for _n, (_m1, _m2, _f) in W4_SAME_SHAPE.items():
    two_shapes_lite(_n, _m1, _m2, _f)


# sptensor.contract / sptensor.nvecs: the requests of the dense methods on a sparse receiver (range tests since db95721 / 453f75b)
reg("sptensor.contract", ("tensor_contract", "sptensor_contract"),
    lambda a: f"{zl(a['s'])} {gz(a['i1'])} {gz(a['i2'])}",
    lambda a: in_range(len(a["s"]), a["i1"]) and in_range(len(a["s"]), a["i2"]) and a["i1"] != a["i2"]
    and a["s"][a["i1"]] == a["s"][a["i2"]],
    lambda a: (lambda t: ([t], lambda: t.contract(a["i1"], a["i2"])))(S(a["s"])),
    _g_contract)
# all-singleton shapes are refused by sptensor.nvecs whatever the mode ("only singleton dimensions": a documented limitation)
reg("sptensor.nvecs", ("mode", "sptensor_nvecs"), lambda a: f"{zl(a['s'])} {gz(a['n'])}", lambda a: in_range(len(a["s"]), a["n"]),
    lambda a: (lambda x: ([x], lambda: x.nvecs(a["n"], 1)))(S(a["s"])),
    lambda rng, tier: [(a, t) for a, t in _g_mode(rng, tier) if len(a["s"]) >= 2 and any(d > 1 for d in a["s"])])
with_kinds(["sptensor.contract", "sptensor.nvecs"], _SP1)


# sptensor.scale(factor, dims) with a dense / sparse factor: the descriptor says whether the receiver stores an entry (a receiver
# without entries compares the factor's shape too since d89c921; both kinds must be refused alike)
def _g_sp_scale(rng, tier):
    return [(dict(a, empty=e), t) for a, t in _g_scale(rng, tier) for e in (False, True)]


for _n, _mk in (("sptensor.scale_dense", T), ("sptensor.scale_sparse", S)):
    reg(_n, "sptensor_scale", lambda a: f"{zl(a['s'])} {gbool(a['empty'])} {zl(a['f'])} {zl(a['d'])}",
        lambda a: modes_ok(len(a["s"]), a["d"]) and a["f"] == [a["s"][m] for m in sorted(a["d"])],
        lambda a, _mk=_mk: (lambda x, f: ([x, f], lambda: x.scale(f, _np().array(a["d"], dtype=int))))(S(a["s"], a["empty"]), _mk(a["f"])),
        _g_sp_scale)
with_kinds(["sptensor.scale_dense", "sptensor.scale_sparse"], _SP1)


# sptensor.scale(factor, dims) with a NUMPY VECTOR as factor ("a scaling factor array of length 3 ... along mode 2"): one mode, and the
# vector has that mode's length (a receiver without entries compares the vector's shape too: C19-N27 repaired, 98f7017).  Descriptor: shape, receiver stores an entry or not, length of the vector, mode list
def _pre_sp_scale_arr(a):
    return modes_ok(len(a["s"]), a["d"]) and len(a["d"]) == 1 and a["flen"] == a["s"][a["d"][0]]


def _g_sp_scale_arr(rng, tier):
    out = []
    for s in pool(tier, 1, 3):
        s, N = list(s), len(s)

        def case(d, flen, tag):
            for e in (False, True):
                a = {"s": s, "empty": e, "flen": flen, "d": d}
                out.append((a, "control" if _pre_sp_scale_arr(a) else tag))
        for m in range(N):
            case([m], s[m], "control")
            case([m], s[m] + 1, "size")
            case([m], 2 * s[m], "size")
            if s[m] != 1:
                case([m], 1, "size_one")
                case([m], s[m] - 1, "size")
            for m2 in range(N):
                if m2 != m:
                    case([m], s[m2], "other_mode")
                    case([m, m2], s[m], "two_modes")
                    case([m, m2], s[m2], "two_modes")
                    case([m, m2], s[m] * s[m2], "two_modes")
        for tag, d in bad_mode_lists(N):
            case(d, s[d[0]] if 0 <= d[0] < N else 2, tag)
    return out


reg("sptensor.scale_array", "sptensor_scale_arr", lambda a: f"{zl(a['s'])} {gbool(a['empty'])} {gz(a['flen'])} {zl(a['d'])}",
    _pre_sp_scale_arr,
    lambda a: (lambda x, f: ([x, f], lambda: _quiet_warn(lambda: x.scale(f, _np().array(a["d"], dtype=int)))))(S(a["s"], a["empty"]), 1.0 + _np().arange(float(a["flen"]))),
    _g_sp_scale_arr)
with_kinds(["sptensor.scale_array"], _SP1)
with_kinds(["ttensor.reconstruct"], [(k, None) for k in TUCKER_KINDS])


# ktensor.score(other, threshold=...): same shape, the receiver has at least as many components as the operand, threshold in [0, 1]
_THR = {"none": None, "half": 0.5, "zero": 0.0, "one": 1.0, "neg": -0.1, "big": 1.5}


def _pre_score(a):
    return a["s"] == a["u"] and a["RA"] >= a["RB"] and a["thr"] not in ("neg", "big")


def _g_score(rng, tier):
    out = []
    for s in pool(tier, 1, 3):
        s = list(s)
        for ra, rb in ((2, 2), (3, 2), (1, 1)):
            for thr in ("none", "half", "zero", "one"):
                out.append(({"s": s, "u": s, "RA": ra, "RB": rb, "thr": thr}, "control"))
            for thr in ("neg", "big"):
                out.append(({"s": s, "u": s, "RA": ra, "RB": rb, "thr": thr}, "threshold"))
        for ra, rb in ((2, 3), (1, 2), (1, 3)):
            out.append(({"s": s, "u": s, "RA": ra, "RB": rb, "thr": "none"}, "components"))
        for tag, v in shape_variants(s):
            for ra, rb in ((2, 2), (3, 2)):
                out.append(({"s": s, "u": v, "RA": ra, "RB": rb, "thr": "none"}, tag))
    return out


reg("ktensor.score", "score", lambda a: f"{zl(a['s'])} {zl(a['u'])} {gz(a['RA'])} {gz(a['RB'])} {gbool(a['thr'] not in ('neg', 'big'))}", _pre_score,
    lambda a: (lambda x, y: ([x, y], lambda: _quiet_warn(lambda: x.score(y, threshold=_THR[a["thr"]]))))(K(a["s"], a["RA"]), K(a["u"], a["RB"], start=3)),
    _g_score)


# sptensor.subdims(region): one key per mode ("Number of subdimensions must equal number of dimensions"); every key of the stream is
# the list [0] (valid for every mode)
def _g_subdims(rng, tier):
    out = []
    for s in pool(tier, 1, 4):
        N = len(s)
        out.append(({"s": list(s), "k": N}, "control"))
        out.append(({"s": list(s), "k": N + 1}, "list_long"))
        out.append(({"s": list(s), "k": N + 2}, "list_long"))
        out.append(({"s": list(s), "k": N - 1}, "list_short"))
        if N >= 3:
            out.append(({"s": list(s), "k": 1}, "list_short"))
    return out


reg("sptensor.subdims", "subdims", lambda a: f"{zl(a['s'])} {gz(a['k'])}", lambda a: a["k"] == len(a["s"]),
    lambda a: (lambda x: ([x], lambda: x.subdims([[0] for _ in range(a["k"])])))(S(a["s"])), _g_subdims)


# ktensor.from_vector(data, shape, contains_weights): len(data) is a multiple of sum(shape) (+ 1 with weights)
def _pre_from_vector(a):
    d = sum(a["shape"]) + (1 if a["cw"] else 0)
    return d != 0 and a["n"] % d == 0


def _g_from_vector(rng, tier):
    out = []
    for s in pool(tier, 1, 4):
        s = list(s)
        for cw in (False, True):
            d = sum(s) + (1 if cw else 0)
            for R in (0, 1, 2, 3):
                out.append(({"n": R * d, "shape": s, "cw": cw}, "control"))
                for n in {R * d + 1, R * d - 1, R * d + R + 1, R * (d - 1) + (0 if cw else 2 * R + 1), R * math.prod(s)}:
                    a = {"n": n, "shape": s, "cw": cw}
                    if n >= 0:
                        out.append((a, "control" if _pre_from_vector(a) else "count"))
    return out


reg("ktensor.from_vector", "from_vector", lambda a: f"{gz(a['n'])} {zl(a['shape'])} {gbool(a['cw'])}", _pre_from_vector,
    lambda a: (lambda d: ([d], lambda: _ttb().ktensor.from_vector(d, tuple(a["shape"]), a["cw"])))(1.0 + _np().arange(float(a["n"]))),
    _g_from_vector)
with_kinds(["ktensor.score"], [("C", None), (None, "norm")])
with_kinds(["sptensor.subdims"], _SP1)


# tensor.ttsv(vector, skip_dim) (default algorithm = version 2, "Sizes of all modes must be the same"): the tensor is cubical, skip_dim
# is None or a mode, and the vector has the modes' length whenever a mode is multiplied (skip_dim = ndims - 1 multiplies nothing)
def _ttsv_drem(a):
    return len(a["s"]) - ((a["skip"] if a["skip"] is not None else -1) + 1)


def _pre_ttsv(a):
    s, N, sk = a["s"], len(a["s"]), a["skip"]
    if sk is not None and not 0 <= sk < N:
        return False
    if any(x != s[0] for x in s):
        return False
    return _ttsv_drem(a) == 0 or a["vlen"] == s[0]


# shapes that are NOT cubical although they have the element count shape[0] ** ndims of a cubical tensor
TTSV_COUNT = [(2, 4, 1), (2, 1, 4), (4, 2, 8), (4, 8, 2), (3, 9, 1), (2, 4, 2, 1), (2, 8, 1, 1), (4, 1, 16), (2, 1, 1, 8)]


def _g_ttsv(rng, tier):
    out = []
    shapes = [list(x) for x in pool(tier, 1, 4)] + [[2, 2], [2, 2, 2, 2], [3, 3, 3, 3], [1, 1, 1, 1]]
    for s in shapes + [list(x) for x in TTSV_COUNT]:
        N = len(s)
        cub = all(x == s[0] for x in s)
        odd = "control" if cub else ("not_cubical_count" if math.prod(s) == s[0] ** N else "not_cubical")
        for ver in (None, 2):
            for skip in [None] + list(range(N)):
                a = {"s": s, "vlen": s[0], "skip": skip, "version": ver}
                out.append((a, odd))
                if _ttsv_drem(a) >= 1:
                    for v in sorted({s[0] + 1, 1, s[-1], 2 * s[0]} - {s[0]}):
                        out.append((dict(a, vlen=v), "vec_len" if cub else odd))
            out.append(({"s": s, "vlen": s[0], "skip": -1, "version": ver}, "neg_mode" if cub else odd))
            out.append(({"s": s, "vlen": s[0], "skip": N, "version": ver}, "oob_mode" if cub else odd))
            out.append(({"s": s, "vlen": s[0], "skip": N + 1, "version": ver}, "oob_mode" if cub else odd))
    return out


reg("tensor.ttsv", "ttsv", lambda a: f"{zl(a['s'])} {gz(a['vlen'])} {'None' if a['skip'] is None else '(Some ' + gz(a['skip']) + ')'}", _pre_ttsv,
    lambda a: (lambda x, v: ([x, v], lambda: _quiet_warn(lambda: x.ttsv(v, a["skip"], a["version"]))))(T(a["s"]), 1.0 + _np().arange(float(a["vlen"]))),
    _g_ttsv)
with_kinds(["tensor.ttsv"], [(k, None) for k in DENSE_KINDS])


# ktensor.update(modes, data): in place.  Descriptor: shape, R = 2 components, the mode list, the length of the data vector.
def _upd_need(s, R, k):
    return R if k == -1 else s[k] * R


def _pre_k_update(a):
    s, R, ms, N = a["s"], a["R"], a["modes"], len(a["s"])
    if any(x >= y for x, y in zip(ms, ms[1:])) or any(not (k == -1 or 0 <= k < N) for k in ms):
        return False
    return sum(_upd_need(s, R, k) for k in ms) <= a["dlen"]


def _g_k_update(rng, tier):
    out = []
    R = 2
    for s in pool(tier, 1, 3):
        s, N = list(s), len(s)

        def case(ms, tag, delta=0, drop=None):
            need = [_upd_need(s, R, k) if (k == -1 or -N <= k < N) else 0 for k in ms]
            n = sum(need) + delta if drop is None else sum(need[:drop]) + max(0, need[drop] - 1)
            out.append(({"s": s, "R": R, "modes": ms, "dlen": max(0, n)}, tag))
        allm = list(range(N))
        for k in allm:
            case([k], "control")
            case([k], "data_short_first", delta=-1)
        case([-1], "control")
        case([-1], "data_short_first", delta=-1)
        case(allm, "control")
        case([-1] + allm, "control")
        case([N], "oob_mode_first")
        case([N + 1], "oob_mode_first")
        case([-N - 1], "neg_mode_first")
        case([-2] if N >= 2 else [-3], "neg_mode" if N >= 2 else "neg_mode_first")      # below -1: wraps around when >= -N
        case([0, 0], "rep_mode")
        case([-1, -1], "rep_mode")
        case([0, N], "oob_mode_later")
        case([-1, N], "oob_mode_later")
        case([-1, 0], "data_short_later", drop=1)
        if N >= 2:
            case([0, N - 1], "control")
            case([N - 1, 0], "unsorted")
            case([0, N - 1], "data_short_later", drop=1)
            case(allm, "data_short_later", drop=N - 1)
            case([-1] + allm, "data_short_later", drop=N)
            case([-2, 0], "neg_mode")
            case([-1, 0, 0], "rep_mode")
            case(allm + [N], "oob_mode_later")
            case([0, N - 1, N - 1], "rep_mode")
        if N >= 3:
            case([0, 2, 1], "unsorted")
            case(allm, "data_short_later", drop=1)
    return out


reg("ktensor.update", "ktensor_update", lambda a: f"{zl(a['s'])} {gz(a['R'])} {zl(a['modes'])} {gz(a['dlen'])}", _pre_k_update,
    lambda a: (lambda k, d: ([k], lambda: _quiet_warn(lambda: k.update(list(a["modes"]), d))))(K(a["s"], a["R"]), 100.5 + _np().arange(float(a["dlen"]))),      # values that occur nowhere in the receiver
    _g_k_update, mutating=True)
with_kinds(["ktensor.update"], [(k, None) for k in KRUSKAL_KINDS])


def _quiet_warn(f):
    import warnings
    with warnings.catch_warnings():
        warnings.simplefilter("ignore")
        return f()


# X.mask(W): the mask has the order of the receiver and no mode of it is longer ("Mask cannot be bigger than the data tensor")
def _pre_mask(a):
    return len(a["u"]) == len(a["s"]) and all(x <= y for x, y in zip(a["u"], a["s"]))


def _g_mask(rng, tier):
    out = []
    for s in pool(tier, 1, 3):
        s = list(s)
        out.append(({"s": s, "u": s}, "control"))
        for k in range(len(s)):                    # a smaller mask is well-formed
            if s[k] > 1:
                out.append(({"s": s, "u": s[:k] + [s[k] - 1] + s[k + 1:]}, "control"))
        for tag, v in shape_variants(s):
            a = {"s": s, "u": v}
            out.append((a, "control" if _pre_mask(a) else tag))
        if len(s) >= 2:                            # masks of another order whose sizes fit every mode (broadcastable comparisons)
            out.append(({"s": s, "u": [min(s)]}, "order_one"))
            out.append(({"s": s, "u": [1]}, "order_one"))
            out.append(({"s": s, "u": [s[0]]}, "order_one"))
            out.append(({"s": s, "u": [1] + s}, "extra_mode"))
        else:
            out.append(({"s": s, "u": [1, 1]}, "extra_mode"))
            out.append(({"s": s, "u": [s[0], 1]}, "extra_mode"))
    return out


for _n, _m1, _m2 in (("tensor.mask", T, T), ("sptensor.mask", S, S), ("ktensor.mask", K, T), ("ktensor.mask_sparse", K, S)):
    reg(_n, "mask", lambda a: f"{zl(a['s'])} {zl(a['u'])}", _pre_mask,
        lambda a, _m1=_m1, _m2=_m2: (lambda x, w: ([x, w], lambda: x.mask(w)))(_m1(a["s"]), _m2(a["u"])), _g_mask)
with_kinds(["tensor.mask"], [("C", None), (None, "C"), (None, "zero")])
with_kinds(["sptensor.mask"], [("empty", None), (None, "empty"), ("one", None), (None, "one")])
with_kinds(["ktensor.mask"], [("C", None), (None, "zero")])
with_kinds(["ktensor.mask_sparse"], [("norm", None), (None, "empty")])


# sptensor.innerprod(other) with a Kruskal / Tucker operand: like innerprod_sp the descriptor says whether the receiver stores an entry
# (an all-zero receiver answers 0 only after the shapes have been compared: 76fa98e)
def _g_sp_innerprod_lite(rng, tier):
    return [(dict(a, empty=e), t) for a, t in _g_two_shapes_lite(rng, tier) for e in (False, True)]


reg("sptensor.innerprod_ktensor", ("sptensor_innerprod", "sptensor_innerprod_kt"),
    lambda a: f"{zl(a['s'])} {gbool(a['empty'])} {zl(a['u'])}", lambda a: a["s"] == a["u"],
    lambda a: (lambda x, y: ([x, y], lambda: x.innerprod(y)))(S(a["s"], a["empty"]), K(a["u"])), _g_sp_innerprod_lite)
reg("sptensor.innerprod_ttensor", ("sptensor_innerprod", "sptensor_innerprod_kt"),
    lambda a: f"{zl(a['s'])} {gbool(a['empty'])} {zl(a['u'])}", lambda a: a["s"] == a["u"],
    lambda a: (lambda x, y: ([x, y], lambda: x.innerprod(y)))(S(a["s"], a["empty"]), TTs(a["u"])), _g_sp_innerprod_lite)
with_kinds(["sptensor.innerprod_ktensor", "sptensor.innerprod_ttensor"], _SP1 + [(None, "C")])
# operand kinds: a sparse operand without entries (constructed empty / X - X) on either side, a C-ordered dense operand
for _n, (_m1, _m2, _f) in W4_SAME_SHAPE.items():
    _c = []
    if _m1 is S:
        _c += [("empty", None), ("cancel", None), ("one", None)]
    if _m2 is S:
        _c += [(None, "empty"), (None, "cancel")]
    if _m1 is T:
        _c += [("C", None)]
    if _m2 is T:
        _c += [(None, "C"), (None, "zero")]
    if _m1 is K:
        _c += [("C", None)]
    if _m2 is K:
        _c += [(None, "norm")]
    with_kinds([_n], _c)


# ================================================================================================
# known findings: trigger predicates (as narrow as the defect) and witnesses
# ================================================================================================
FINDINGS = []      # source of findings.d/C19.jsonl (written by `python3 tools/props/c19_ops.py --findings`)
# repaired in /repo (fix: commits): the record is kept, but there is neither a trigger nor a witness any more —
# if such a defect comes back the correspondence reports it
FIXED = {"C19-N02": "b4434a4", "C19-N03": "d384651", "A-42": "f9fb7ec", "A-44": "3c0ad44", "A-45": "ce8a533",
         "C19-N04": "d862071", "C19-N05": "2c19f39", "C19-N06": "f9fb7ec", "C19-N07": "5b41ba6", "C19-N08": "aca2504",
         "C19-N10": "d3df9c1", "C19-N12": "922ff4e", "C19-N13": "7d1fad0", "C19-N14": "f8cdd2b", "C19-N15": "03352d0",
         "C19-N01": "072fe0a", "C19-N09": "4943733", "C19-N16": "2c0f010", "C19-N17": "929a206", "C19-N19": "3b2d1cd",
         "C19-N20": "dc71f18", "C19-N21": "76fa98e", "C19-N22": "db95721", "C19-N23": "453f75b", "C19-N24": "d89c921",
         "C19-N25": "b9311d6", "C19-N26": "553ad5e", "C19-N27": "98f7017", "C19-N28": "0478ea5",
    "C19-N29": "9d2314a",
}
# C19-N29 (fixes/C19-N29.diff = 9d2314a, pending until C02's reconstruct model follows): the lead adds  "C19-N29": "<commit>"  above —
# trigger and witness go, and the correspondence runs guard_reconstruct_fixed (the method WITH the range / distinctness test:
# C19_reconstruct_repaired, guard = decide pre for all requests) instead of guard_reconstruct (the method of the tree without it).
# While the finding is open both trees are green: outside the trigger the two guards agree (C19_reconstruct_gap), inside it pyttb is
# compared with the precondition alone.
if "C19-N29" in FIXED:
    OPS["ttensor.reconstruct"].guard_c = "reconstruct_fixed"


def finding(fid, trigger, pred, op, witness, what, call_site, proposed="fix", observed="a value is returned",
            expected="an exception (request rejected)"):
    if fid in FIXED:
        FINDINGS.append({"property": "C19", "finding_id": fid, "status": "fixed", "op": None, "trigger": trigger,
                         "call_site": call_site, "what": what, "witness": {"op": op, "args": witness},
                         "expected": expected, "observed": observed,
                         "proposed": proposed, "fixed_commit": FIXED[fid]})
        return
    TRIGGERS[trigger] = lambda c, _p=pred: bool(_p(c.op, c.args))

    def wit(_op=op, _w=witness):
        o = run(_op, _w)
        if "harness" in o:
            return "witness could not be built: " + o["harness"]
        if not o["rejected"]:
            return f"{_op}{_w} is answered, not rejected"
        return None if o["recv_same"] else f"{_op}{_w} is rejected, but its receiver has changed"
    WITNESSES[fid] = wit
    FINDINGS.append({"property": "C19", "finding_id": fid, "status": "open", "op": None, "trigger": trigger,
                     "call_site": call_site, "what": what, "witness": {"op": op, "args": witness},
                     "expected": expected, "observed": observed, "proposed": proposed})


def _wrapped_distinct(N, l):
    return all(-N <= x < N for x in l) and len({x % N for x in l}) == len(l) if N > 0 else False


def _bcast(a, b):
    return all(x == y or x == 1 or y == 1 for x, y in zip(a[::-1], b[::-1]))


DENSE_BINOPS = {"tensor.add", "tensor.sub", "tensor.mul", "tensor.logical_and", "tensor.eq", "tensor.le"}

finding("A-28", "permute_all_ones",
        lambda op, a: op == "tensor.permute" and len(a["s"]) == 1 and a["order"] == [1],
        "tensor.permute", {"s": [4], "order": [1]},
        "tensor.permute: the '(order == 1).all()' shortcut, left for 1-way tensors (fix 072fe0a), returns a copy for the order [1] on "
        "a 1-way tensor instead of rejecting the invalid permutation (upstream tests/test_tensor.py::test_tensor_permute asks for it)",
        "tensor.permute", proposed="known")
finding("C19-N01", "permute_negative_axes",
        lambda op, a: op == "tensor.permute" and len(a["order"]) == len(a["s"]) and any(x < 0 for x in a["order"])
        and _wrapped_distinct(len(a["s"]), a["order"]),
        "tensor.permute", {"s": [2, 3], "order": [-1, 0]},
        "tensor.permute: negative modes are passed to np.transpose, which wraps them around, so order [-1,0] is answered",
        "tensor.permute")
finding("C19-N02", "dense_binop_broadcast",
        lambda op, a: op in DENSE_BINOPS and a["s"] != a["u"] and _bcast(a["s"], a["u"]),
        "tensor.add", {"s": [2, 3], "u": [1, 3]},
        "dense element-wise binary operations (+ - * logical_* comparisons via tenfun) never compare shapes: operands of "
        "different shape are answered whenever numpy can broadcast them", "tensor.tenfun_binary")
finding("C19-N03", "contract_negative_2way",
        lambda op, a: op == "tensor.contract" and len(a["s"]) == 2 and (a["i1"] < 0 or a["i2"] < 0)
        and -2 <= a["i1"] < 2 and -2 <= a["i2"] < 2 and a["i1"] != a["i2"] and a["s"][a["i1"]] == a["s"][a["i2"]],
        "tensor.contract", {"s": [3, 3], "i1": -1, "i2": 0},
        "tensor.contract on a matrix: negative modes index self.shape with wrap-around and np.trace is returned "
        "(contract(-2, 0) even traces mode 0 against itself)", "tensor.contract")


def _rep_in_range(a):
    d = a.get("dims")
    return d is not None and a.get("excl") is None and len(set(d)) != len(d) and all(0 <= x < len(a["s"]) for x in d)


finding("A-42", "repeated_dims",
        lambda op, a: op in REPEATED_DIMS_OPS and _rep_in_range(a),
        "tensor.ttm", {"s": [2, 3], "ms": [[2, 2], [2, 2]], "dims": [0, 0], "excl": None, "tr": False},
        "tt_dimscheck accepts repeated dims; callers then answer when the sizes happen to chain (ttm applies both "
        "matrices to the same mode; ttv on a length-1 1-way tensor; collapse/scale ...)", "pyttb_utils.tt_dimscheck")
REPEATED_DIMS_OPS = {"tensor.ttv", "tensor.ttm"}
# operations whose guard model has its theorem(s) in Props/C19.v (decides, or refuted + partial); everything else is tied by
# the correspondence stream only (pre_<op> executed in Coq and, where a guard model exists, guard_<op> as well)
PROVED = {"tensor.ctor", "tensor.reshape", "tensor.innerprod", "tensor.permute", "tensor.contract",
          "tensor.add", "tensor.sub", "tensor.mul", "tensor.logical_and", "tensor.eq", "tensor.le",
          "sptensor.add", "sptensor.sub", "sptensor.mul", "sptensor.logical_and", "sptensor.logical_or", "sptensor.eq",
          "sptensor.mul_dense", "sptensor.permute", "sptensor.reshape", "sptensor.innerprod_sp", "sptensor.innerprod_dense",
          "ktensor.ctor", "ktensor.arrange", "ktensor.extract", "ktensor.innerprod", "ktensor.innerprod_dense", "ktensor.add",
          "ktensor.permute", "ttensor.ctor", "ttensor.innerprod", "ttensor.innerprod_dense", "ttensor.permute",
          "tenmat.mul", "tenmat.add", "sptenmat.ctor", "sumtensor.ctor", "sumtensor.add", "sumtensor.innerprod",
          "khatrirao", "import_data", "tenmat.sub", "tenmat.radd", "tenmat.rsub",
          "cp_als.optdims", "tensor.to_tenmat", "sptensor.to_sptenmat", "tenmat.ctor", "tensor.nvecs", "tensor.ttt",
          "tensor.getitem_linear", "tensor.setitem_linear", "tensor.scale", "ktensor.mttkrp", "sumtensor.mttkrp", "sptensor.ttm", "ttensor.ttm", "sptensor.mttkrp", "sptensor.extract", "sptensor.from_aggregator", "gcp_opt",
          "tensor.ttv", "tensor.ttm", "tensor.mttkrp", "tensor.collapse", "sptensor.ctor", "ktensor.redistribute",
          "cp_als", "hosvd", "cp_apr", "tucker_als", "sptensor.ttv", "ktensor.ttv", "ttensor.ttv", "sumtensor.ttv",
          "sptensor.collapse", "ttensor.mttkrp", "ktensor.normalize_mode", "sptensor.innerprod_ktensor", "sptensor.innerprod_ttensor", "sptensor.contract", "sptensor.nvecs", "sptensor.scale_dense", "sptensor.scale_sparse", "sptensor.scale_array", "tensor.ttsv", "ttensor.reconstruct", "ktensor.score", "sptensor.subdims", "ktensor.from_vector", "ktensor.update", "tensor.mask", "sptensor.mask", "ktensor.mask", "ktensor.mask_sparse"} | set(W4_SAME_SHAPE)      # guard_same_shape: C19_same_shape


def tagfinding(fid, ops, tags, witness_op, witness, what, call_site, extra=lambda a: True, proposed="fix"):
    ops, tags = set(ops), set(tags)
    finding(fid, fid.lower().replace("-", "_") + "_" + "_".join(sorted(tags)),
            lambda op, a: op in ops and a.get("tag") in tags and extra(a), witness_op, witness, what, call_site, proposed)



tagfinding("A-44", ["sptenmat.ctor"], ["row_eq_size", "col_eq_size"], "sptenmat.ctor",
           {"ts": [2, 2], "rd": [0], "cd": [1], "mr": 2, "mc": 1},
           "sptenmat.__init__: the index checks use '>=' so a row/column index equal to the number of rows/columns is accepted",
           "sptenmat.__init__")
tagfinding("A-45", ["ktensor.arrange"], ["rep_comp", "neg_comp"], "ktensor.arrange", {"s": [2, 3], "R": 2, "p": [0, 0]},
           "ktensor.arrange(permutation=p): only len(p) is compared with ncomponents; repeated or negative entries are used "
           "as a numpy fancy index (a component is duplicated, another dropped: the tensor changes)", "ktensor.arrange",
           extra=lambda a: all(-a["R"] <= x < a["R"] for x in a["p"]))
tagfinding("C19-N04", ["sptensor.innerprod_sp", "sptensor.innerprod_dense"],
           ["drop_mode", "extra_mode", "size", "size_one", "swapped"], "sptensor.innerprod_sp",
           {"s": [2, 3], "u": [3, 2], "empty": True},
           "sptensor.innerprod: an all-zero receiver returns 0 before the shapes are compared", "sptensor.innerprod",
           extra=lambda a: a["empty"])
tagfinding("C19-N05", ["sptensor.ctor"], ["vals_count"], "sptensor.ctor", {"s": [4], "subs": [[0], [3]], "nvals": 3},
           "sptensor.__init__ never compares the number of values with the number of subscripts", "sptensor.__init__")
tagfinding("C19-N06", ["sptensor.collapse"], ["oob_mode"], "sptensor.collapse", {"s": [3, 3], "d": [3]},
           "sptensor.collapse: modes >= ndims pass tt_dimscheck (no upper bound) and are silently ignored by setdiff1d",
           "sptensor.collapse / tt_dimscheck")
tagfinding("C19-N07", ["ktensor.redistribute"], ["neg_mode"], "ktensor.redistribute", {"s": [2, 3], "n": -1},
           "ktensor.redistribute(mode): no range check; a negative mode wraps around (list indexing)", "ktensor.redistribute",
           extra=lambda a: -len(a["s"]) <= a["n"])
tagfinding("C19-N08", ["ktensor.mttkrp", "tensor.mttkrp", "sumtensor.mttkrp"], ["neg_mode"], "ktensor.mttkrp",
           {"s": [2, 3], "us": [[2, 2], [3, 2]], "n": -1},
           "mttkrp(U, n) with negative n: no range check; ktensor.mttkrp wraps (and multiplies every mode), tensor.mttkrp "
           "answers when the reshapes happen to fit (all-singleton shapes)", "ktensor.mttkrp / tensor.mttkrp",
           extra=lambda a: -len(a["s"]) <= a["n"] < 0)
tagfinding("C19-N09", ["ktensor.mttkrp", "sptensor.mttkrp"], ["cols", "cols_one"], "sptensor.mttkrp",
           {"s": [2, 2, 2], "us": [[2, 2], [2, 3], [2, 2]], "n": 2},
           "mttkrp: the column counts of the matrices in U are not compared (sptensor uses the first R columns, ktensor "
           "broadcasts a single column)", "sptensor.mttkrp / ktensor.mttkrp")
tagfinding("C19-N20", ["sptensor.mttkrp"], ["rows_zero_cols"], "sptensor.mttkrp",
           {"s": [2, 3, 4], "us": [[2, 0], [5, 0], [4, 0]], "n": 0},
           "sptensor.mttkrp with factor matrices that have no column: the row counts are compared only inside the loop over the "
           "columns (by ttv), which never runs, so a matrix with the wrong number of rows is answered (zeros of shape (shape[n], 0)); "
           "tensor / ktensor / ttensor.mttkrp reject the same request", "sptensor.mttkrp")
tagfinding("C19-N10", ["ttensor.mttkrp"], ["list_short", "list_long"], "ttensor.mttkrp",
           {"s": [2, 2, 2], "us": [[2, 2], [2, 2], [2, 2], [2, 2]], "n": 2},
           "ttensor.mttkrp does not check the length of U (extra matrices ignored; a short list answers when n is the "
           "missing position)", "ttensor.mttkrp")
# trigger = a predicate on the REQUEST, exactly the class that is answered although ill-formed: the mode lists are a partition,
# the element count is right, the matrix shape is not (rows x cols) = (prod tshape[rdims], prod tshape[cdims])
finding("C19-N11", "c19_n11_regrouped_swapped",
        lambda op, a: op == "tenmat.ctor" and is_perm(len(a["ts"]), a["rd"] + a["cd"])
        and a["d"][0] * a["d"][1] == math.prod(a["ts"])
        and (a["d"][0] != math.prod(a["ts"][m] for m in a["rd"]) or a["d"][1] != math.prod(a["ts"][m] for m in a["cd"])),
        "tenmat.ctor", {"ts": [2, 3, 4], "rd": [2], "cd": [0, 1], "d": [6, 4]},
           "tenmat.__init__ compares only the element count with prod(tshape[rdims])*prod(tshape[cdims]); a data matrix "
           "with the wrong number of rows and columns (e.g. transposed) is accepted", "tenmat.__init__", proposed="known")

tagfinding("C19-N12", ["tucker_als"], ["ranks_len"], "tucker_als",
           {"s": [3, 2], "ranks": [2, 2, 1], "init": "random", "dimorder": None, "maxiters": 1},
           "tucker_als: a rank vector longer than the number of modes is accepted (extra entries ignored); hosvd rejects the "
           "same request", "tucker_als", extra=lambda a: len(a["ranks"]) > len(a["s"]))
tagfinding("C19-N13", ["gcp_opt"], ["init_rank"], "gcp_opt",
           {"s": [3, 2], "rank": 2, "init": {"k": [3, 2], "R": 3}, "opt": "lbfgsb"},
           "gcp_opt: an initial ktensor whose number of components differs from the requested rank is accepted (cp_als and "
           "cp_apr reject it)", "gcp_opt._get_initial_guess")


tagfinding("C19-N14", ["sptensor.ctor"], ["neg_sub"], "sptensor.ctor", {"s": [2, 3], "subs": [[0, -1], [1, 1]], "nvals": 2},
           "sptensor.__init__ checks only the upper bound of the subscripts (max(subs)+1 <= shape): negative subscripts are "
           "stored as they are (from_aggregator rejects them)", "sptensor.__init__")
finding("C19-N15", "c19_n15_optdims",
        lambda op, a: op == "cp_als.optdims" and not modes_ok(len(a["s"]), a["optdims"])
        and any(in_range(len(a["s"]), x) for x in a["optdims"]),
        "cp_als.optdims", {"s": [2, 3, 4], "optdims": [0, 5]},
        "cp_als never validates optdims: out-of-range, negative or repeated modes are silently ignored as long as one listed "
        "mode exists (dimorder is validated, optdims is not)", "cp_als")


finding("C19-N19", "c19_n19_gcp_list_init",
        lambda op, a: op == "gcp_opt" and isinstance(a["init"], dict) and "l" in a["init"] and a.get("tag") in ("list_rank", "list_size")
        and len({m[1] for m in a["init"]["l"]}) == 1 and _bcast([m[0] for m in a["init"]["l"]], a["s"]),
        "gcp_opt", {"s": [3, 2], "rank": 2, "init": {"l": [[3, 3], [2, 3]]}, "opt": "lbfgsb"},
        "gcp_opt: an initial guess given as a list of factor matrices is turned into a Kruskal tensor and used without comparing "
        "it with the requested rank or the shape of the data (a Kruskal-tensor guess is compared): another number of components "
        "is answered, a wrong size is answered whenever numpy can broadcast it against the data (singleton modes)",
        "gcp_opt._get_initial_guess")
# trigger = a predicate on the REQUEST: a subscript array without rows, at least one value, a valid shape
finding("C19-N18", "c19_n18_vals_no_subs",
        lambda op, a: op == "sptensor.from_aggregator" and len(a["subs"]) == 0 and a["nvals"] > 0 and all(d > 0 for d in a["s"]),
        "sptensor.from_aggregator", {"s": [2, 3], "subs": [], "nvals": 2},
           "sptensor.from_aggregator compares the number of values with the number of subscripts only when subs.size > 1: "
           "values handed over with a subscript array without rows are silently dropped (upstream tests "
           "test_sptensor_initialization_from_aggregator and test_sptensor_ttv call it that way, so no repair is proposed)",
           "sptensor.from_aggregator", proposed="known")
tagfinding("C19-N16", ["sptensor.ctor"], ["vals_no_subs"], "sptensor.ctor", {"s": [2, 3], "subs": [], "nvals": 3},
           "sptensor.__init__ compares nothing when the subscript array has no rows: values without subscripts are stored "
           "(vals keeps 3 rows next to an empty subs: an ill-formed object whose nnz is 0)", "sptensor.__init__")
tagfinding("C19-N17", ["sptensor.extract"], ["one_col", "extra_col", "missing_col"], "sptensor.extract", {"s": [2, 3], "subs": [[0], [1]]},
           "sptensor.extract never compares the number of subscript columns with the number of modes: a single column (any "
           "tensor) or any number of columns (1-way tensor) is broadcast against the shape and answered", "sptensor.extract",
           extra=lambda a: len(a["subs"][0]) == 1 or len(a["s"]) == 1)


finding("C19-N21", "c19_n21_empty_innerprod_kt",
        lambda op, a: op in ("sptensor.innerprod_ktensor", "sptensor.innerprod_ttensor") and a["empty"] and a["s"] != a["u"],
        "sptensor.innerprod_ktensor", {"s": [2, 3], "u": [3, 2], "empty": True},
        "sptensor.innerprod(other) with a Kruskal or Tucker operand: the shape tests in front of the 'all entries are zero' early return "
        "(added for C19-N04) cover sparse and dense operands only, so a receiver that stores no entry answers 0 for a ktensor / ttensor of "
        "ANY shape (a receiver with an entry hands the call to other.innerprod(self), which compares the shapes)", "sptensor.innerprod")


finding("C19-N22", "c19_n22_sparse_contract_negative",
        lambda op, a: op == "sptensor.contract" and (a["i1"] < 0 or a["i2"] < 0)
        and all(-len(a["s"]) <= i < len(a["s"]) for i in (a["i1"], a["i2"])) and a["i1"] != a["i2"] and a["s"][a["i1"]] == a["s"][a["i2"]],
        "sptensor.contract", {"s": [2, 3], "i1": -2, "i2": 0},
        "sptensor.contract: no range test on the modes (tensor.contract has one since d384651): negative modes index self.shape and "
        "self.subs with wrap-around, so contract(-2, 0) on a 2 x 3 tensor 'contracts' mode 0 with itself and contract(-1, 0) on a square "
        "matrix is answered", "sptensor.contract")
finding("C19-N23", "c19_n23_sparse_nvecs_mode",
        lambda op, a: op == "sptensor.nvecs" and not in_range(len(a["s"]), a["n"]),
        "sptensor.nvecs", {"s": [2, 3], "n": 2},
        "sptensor.nvecs(n, r): the mode is only used in np.setdiff1d(np.arange(ndims), n), which ignores a mode that does not exist: an "
        "out-of-range or negative n is answered with eigenvectors of the 1 x 1 Gram matrix of the fully vectorised tensor "
        "(tensor.nvecs rejects the same request)", "sptensor.nvecs")


finding("C19-N24", "c19_n24_empty_sparse_scale",
        lambda op, a: op in ("sptensor.scale_dense", "sptensor.scale_sparse") and a["empty"] and modes_ok(len(a["s"]), a["d"])
        and a["f"] != [a["s"][m] for m in sorted(a["d"])],
        "sptensor.scale_dense", {"s": [2, 3], "f": [5], "d": [0], "empty": True},
        "sptensor.scale(factor, dims): 'if self.nnz == 0: return self.copy()' comes before the comparison of factor.shape with "
        "shape[dims], so a receiver that stores no entry answers for a factor of ANY shape (mode arguments are still checked)",
        "sptensor.scale")


finding("C19-N27", "c19_n27_empty_sparse_scale_array",
        lambda op, a: op == "sptensor.scale_array" and a["empty"] and modes_ok(len(a["s"]), a["d"]) and not _pre_sp_scale_arr(a),
        "sptensor.scale_array", {"s": [2, 3, 2], "empty": True, "flen": 5, "d": [1]},
        "sptensor.scale(factor, dims) with a numpy vector as factor: the shape test that d89c921 (C19-N24) put in front of the "
        "'self.nnz == 0' early return covers tensor / sptensor factors only, so a receiver that stores no entry answers for a vector "
        "of ANY length and for any number of listed modes (a receiver with an entry raises 'Size mismatch in scale', or ValueError "
        "for several modes; tensor.scale raises ValueError)", "sptensor.scale")


finding("C19-N29", "c19_n29_reconstruct_modes",
        lambda op, a: op == "ttensor.reconstruct" and a["nsamp"] == len(a["modes"]) and not modes_ok(len(a["s"]), a["modes"])
        and all(-len(a["s"]) <= m < len(a["s"]) for m in a["modes"]),
        "ttensor.reconstruct", {"s": [2, 3, 4], "modes": [-1], "nsamp": 1},
        "ttensor.reconstruct(samples, modes): the modes are used as Python list indices (full_samples[mode] = sample) without a test: a "
        "negative mode wraps around (modes=[-1] samples the last mode) and a mode listed twice is answered (the later sample silently "
        "replaces the earlier one); only a mode >= ndims ends in IndexError", "ttensor.reconstruct")


def _ttsv_answered(a):
    """the checks numpy makes for the default algorithm: the element count of a cubical tensor and, when a mode is multiplied, the
    vector's length; with nothing to multiply the count that the final reshape needs"""
    s, N, sk = a["s"], len(a["s"]), a["skip"]
    if sk is not None and sk < 0:
        return False
    dnew = (sk if sk is not None else -1) + 1
    if N - dnew >= 1:
        return math.prod(s) == s[0] ** N and a["vlen"] == s[0]
    return dnew < 2 or math.prod(s) == s[0] ** dnew


finding("C19-N28", "c19_n28_ttsv_not_cubical",
        lambda op, a: op == "tensor.ttsv" and not _pre_ttsv(a) and _ttsv_answered(a),
        "tensor.ttsv", {"s": [2, 4, 1], "vlen": 2, "skip": None, "version": None},
        "tensor.ttsv (default algorithm, version 2; comment 'Sizes of all modes must be the same'): nothing compares the mode sizes — "
        "the data is reshaped to (shape[0] ** k, shape[0]), so a tensor that is NOT cubical but has shape[0] ** ndims elements "
        "(2 x 4 x 1, 4 x 2 x 8) is multiplied by a vector of length shape[0] along modes of another length and a number is returned "
        "(version=1 rejects the same request: 'Multiplicand is wrong size'); on all-singleton tensors skip_dim >= ndims is answered too",
        "tensor.ttsv")


def _upd_first_block_applied(a):
    s, R, ms, N = a["s"], a["R"], a["modes"], len(a["s"])
    if not ms or any(x > y for x, y in zip(ms, ms[1:])):
        return False                                  # empty list / refused by the (non-strict) sortedness test: nothing is touched
    k = ms[0]
    if not (k == -1 or -N <= k < N):
        return False                                  # the first block is refused
    return a["dlen"] >= _upd_need(s, R, k)


finding("C19-N25", "c19_n25_ktensor_update_in_place",
        lambda op, a: op == "ktensor.update" and not _pre_k_update(a) and _upd_first_block_applied(a),
        "ktensor.update", {"s": [2, 3], "R": 2, "modes": [0, 5], "dlen": 10},
        "ktensor.update(modes, data) checks each mode and the data length inside the loop that assigns in place: a request that is "
        "rejected at a later block ('Invalid mode: 5' for modes [0, 5], 'Data is too short' for the second block) has already "
        "overwritten the earlier factors / weights (receiver changed by a rejected call); modes below -1 wrap around (update(-2, ...) "
        "replaces factor ndims-2) and repeated modes pass the '<=' sortedness test and are answered", "ktensor.update",
        observed="AssertionError 'Invalid mode: 5' after factor_matrices[0] has been overwritten with data[0:4] (receiver changed by a rejected call)",
        expected="an exception and an unchanged receiver")


finding("C19-N26", "c19_n26_dense_mask_order_one",
        lambda op, a: op == "tensor.mask" and len(a["u"]) == 1 and len(a["s"]) >= 2 and a["u"][0] <= min(a["s"]),
        "tensor.mask", {"s": [2, 3], "u": [2]},
        "tensor.mask(W) compares np.array(W.shape) > np.array(self.shape) without comparing the orders (sptensor.mask and ktensor.mask "
        "do): a 1-way mask is broadcast against every mode and then used as an index of the first mode only, so T(2 x 3).mask(W(2)) "
        "returns rows of the data instead of raising 'Mask cannot be bigger than the data tensor'", "tensor.mask")


# witness inputs of repaired findings stay in the stream as ordinary ill-formed cases (tag regression_<finding>): exactly one
# behaviour is accepted for them — rejected, receiver unchanged, guard and precondition agree
def _keep_witnesses_as_regressions():
    byop = {}
    for f in FINDINGS:
        if f["status"] == "fixed":
            byop.setdefault(f["witness"]["op"], []).append((f["finding_id"], f["witness"]["args"]))
    for name, ws in byop.items():
        op = OPS[name]

        def gen(rng, tier, _g=op.gen, _ws=tuple(ws)):
            return list(_g(rng, tier)) + [(dict(w), "regression_" + fid.lower().replace("-", "_")) for fid, w in _ws]
        op.gen = gen


_keep_witnesses_as_regressions()


if __name__ == "__main__":
    import json
    import os
    import sys
    if "--findings" in sys.argv:
        p = os.path.join(os.path.dirname(os.path.abspath(__file__)), "..", "..", "findings.d", "C19.jsonl")
        with open(p, "w") as fh:
            for f in FINDINGS:
                fh.write(json.dumps(f) + "\n")
        print("wrote", len(FINDINGS), "findings")
