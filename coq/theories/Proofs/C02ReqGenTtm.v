(* Proofs/C02ReqGenTtm.v — sptensor.ttm / ttensor.ttm AS CALLED (list form): the request (dims in any order | exclude_dims | neither;
   |dims| or N matrices, plain or transposed) is resolved by the translator-GENERATED tt_dimscheck exactly as each class does
       dims, vidx = tt_dimscheck(self.ndims, len(matrices), dims, exclude_dims);  kernel([(dims[i], matrices[vidx[i]]) ...])
   and the result is the defining list product over the CALLER's own order of the designated modes with the matrix the caller attaches
   to each.  Kernel-generic resolution (ttm_req_resolves) + the proved kernels (C02_ttm_sparse_list, C02_ttm_tucker). *)
From Coq Require Import List ZArith Arith Bool Lia Permutation Ring.
From PV Require Import Base.Index Base.Perm Base.Sum Np.NpZ Np.Array Model.Sparse Model.Repr Model.C02Spec Model.C02Dense Model.C02Modes
                       Model.C02SpMore Model.C02Tucker Gen.GenUtils Proofs.NpZProofs Proofs.C02DenseProofs Proofs.C02ModesProofs
                       Proofs.C02PermProofs Proofs.C02SpTtmListProofs Proofs.C02TuckerProofs.
Import ListNotations.

Section G.
Variable V : Type.
Variables (v0 v1 : V) (vadd vmul vsub : V -> V -> V) (vopp : V -> V).
Hypothesis Vring : ring_theory v0 v1 vadd vmul vsub vopp (@eq V).
Variable isz : V -> bool.

Definition ttm_req {R : Type} (N : nat) (kernel : list (nat * (nat * @matrix V)) -> bool -> R) (dims excl : option vec)
                   (ms : list (nat * @matrix V)) (tr : bool) : res R :=
  match tt_dimscheck (Z.of_nat N) (Some (zlen ms)) dims excl with
  | Ok (sdims, Some vidx) => Ok (kernel (combine (nats sdims) (map (znth (@ttm_dflt V) ms) vidx)) tr)
  | _ => Err
  end.

Theorem ttm_req_resolves {R : Type} (N : nat) (kernel : list (nat * (nat * @matrix V)) -> bool -> R) dims excl
                         (ms : list (nat * @matrix V)) tr :
  admissible (Z.of_nat N) dims excl (zlen ms) ->
  let d := req_modes (Z.of_nat N) dims excl in
  let cd := nats d in
  let nUs := combine cd (map (attach (@ttm_dflt V) d ms) cd) in
  exists snUs, ttm_req N kernel dims excl ms tr = Ok (kernel snUs tr) /\
    Forall (fun p => fst p < N) snUs /\ (d <> [] -> snUs <> []) /\
    forall (f : idx -> V) s, length s = N ->
      ttm_list_shape s snUs = ttm_list_shape s nUs /\
      forall i, inb (ttm_list_shape s snUs) i = true ->
        spec_ttm_list v0 vadd vmul f s snUs tr i = spec_ttm_list v0 vadd vmul f s nUs tr i.
Proof.
  intros Hadm. cbn zeta.
  destruct (dimscheck_align (@ttm_dflt V) _ dims excl ms Hadm) as (vidx & E & Hal & Hr & Hn).
  set (d := req_modes (Z.of_nat N) dims excl) in *.
  assert (HP : Permutation (nats (np_sort d)) (nats d)) by (apply Permutation_map, np_sort_perm).
  assert (Hnd : NoDup (nats (np_sort d))).
  { apply (Permutation_NoDup (Permutation_sym HP)). apply nats_NoDup; auto. intros x Hx. apply Hr in Hx. lia. }
  assert (Hrs : forall x, In x (nats (np_sort d)) -> x < N).
  { intros x Hx. apply (Permutation_in x HP) in Hx. now apply (nats_range _ d). }
  set (g := attach (@ttm_dflt V) d ms) in *.
  exists (combine (nats (np_sort d)) (map g (nats (np_sort d)))).
  split; [unfold ttm_req; rewrite E, Hal; reflexivity|].
  assert (HF : Forall (fun p : nat * (nat * @matrix V) => fst p < N) (combine (nats (np_sort d)) (map g (nats (np_sort d))))).
  { apply Forall_forall. intros [n JU] Hin. apply in_combine_l in Hin. cbn [fst]. now apply Hrs. }
  split; [exact HF|]. split.
  - intros Hne Hc. apply Hne. apply (f_equal (@length _)) in Hc. rewrite combine_length, map_length, Nat.min_id in Hc.
    unfold nats in Hc. rewrite map_length in Hc. cbn [length] in Hc.
    pose proof (Permutation_length (np_sort_perm d)) as PL. destruct d; [reflexivity|]. cbn [length] in PL. lia.
  - intros f s Hs. subst N.
    apply (spec_ttm_list_perm V v0 v1 vadd vmul vsub vopp Vring _ _ (combine_map_perm g _ _ HP) f s tr).
    + rewrite map_fst_combine by (now rewrite map_length). exact Hnd.
    + exact HF.
Qed.

(* ---- sptensor.ttm, list form, as called ---- *)
Theorem ttm_sparse_req_caller (S : sparse V) dims excl (ms : list (nat * @matrix V)) tr : wf_sp isz S ->
  admissible (Z.of_nat (length (sshape S))) dims excl (zlen ms) ->
  let d := req_modes (Z.of_nat (length (sshape S))) dims excl in
  let cd := nats d in
  let nUs := combine cd (map (attach (@ttm_dflt V) d ms) cd) in
  d <> [] ->
  exists Y, ttm_req (length (sshape S)) (impl_ttm_sp_list V v0 vadd vmul S) dims excl ms tr = Ok Y /\
    dshape Y = ttm_list_shape (sshape S) nUs /\ wf_dense Y /\
    forall i, inb (ttm_list_shape (sshape S) nUs) i = true ->
      den_dense v0 Y i = spec_ttm_list v0 vadd vmul (den_sp v0 S) (sshape S) nUs tr i.
Proof.
  intros W Hadm. cbn zeta. intros Hne.
  destruct (ttm_req_resolves (length (sshape S)) (impl_ttm_sp_list V v0 vadd vmul S) dims excl ms tr Hadm) as (snUs & E & HF & Hnn & Hp).
  destruct (Hp (den_sp v0 S) (sshape S) eq_refl) as [S2 E2].
  destruct snUs as [|[n [J U]] r]; [exfalso; now apply (Hnn Hne)|].
  destruct (impl_ttm_sp_list_correct V v0 v1 vadd vmul vsub vopp Vring isz S n J U r tr W HF) as (S1 & W1 & D1).
  eexists. split; [exact E|]. rewrite <- S2. split; [exact S1|]. split; [exact W1|].
  intros i Hi. rewrite (D1 i Hi). now apply E2.
Qed.

(* ---- ttensor.ttm, list form, as called ---- *)
Theorem ttm_tucker_req_caller (T : ttensor V) dims excl (ms : list (nat * @matrix V)) tr :
  length (dshape (tcore T)) = length (tfactors T) ->
  admissible (Z.of_nat (length (tfactors T))) dims excl (zlen ms) ->
  let d := req_modes (Z.of_nat (length (tfactors T))) dims excl in
  let cd := nats d in
  let nUs := combine cd (map (attach (@ttm_dflt V) d ms) cd) in
  exists Y, ttm_req (length (tfactors T)) (impl_ttm_t v0 vadd vmul T) dims excl ms tr = Ok Y /\
    tshape Y = ttm_list_shape (tshape T) nUs /\
    forall i, inb (ttm_list_shape (tshape T) nUs) i = true ->
      den_t v0 v1 vadd vmul Y i = spec_ttm_list v0 vadd vmul (den_t v0 v1 vadd vmul T) (tshape T) nUs tr i.
Proof.
  intros HC Hadm. cbn zeta.
  assert (HN : length (tshape T) = length (tfactors T)) by (unfold tshape; apply map_length).
  destruct (ttm_req_resolves (length (tfactors T)) (impl_ttm_t v0 vadd vmul T) dims excl ms tr Hadm) as (snUs & E & HF & _ & Hp).
  destruct (Hp (den_t v0 v1 vadd vmul T) (tshape T) HN) as [S2 E2].
  destruct (impl_ttm_t_correct V v0 v1 vadd vmul vsub vopp Vring snUs T tr HF HC) as (S1 & D1).
  eexists. split; [exact E|]. rewrite <- S2. split; [exact S1|].
  intros i Hi. rewrite (D1 i Hi). now apply E2.
Qed.
End G.
