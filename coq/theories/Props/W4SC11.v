(* Props/W4SC11.v — C11 (CP-APR multiplicative update: one reported KKT violation / inner-iteration count / violation count / time
   per outer iteration performed, iteration limit respected) stated over the GENERATED skeleton Gen/GenCpAprMu.v
   (tools/pyx2v_skel.py regenerates it from the region `kktViolations = -np.ones((maxiters,))` .. `return M, output` of
   /repo/pyttb/cp_apr.py::tt_cp_apr_mu on every run).  All numeric kernels and the clock are arbitrary.
   Only statements, `exact`, Print Assumptions. *)
From Coq Require Import String List Arith Bool.
From PV Require Import Model.W4SPrelude Gen.GenCpAprMu Proofs.W4SCpAprMu.
Import ListNotations.
Local Open Scope nat_scope.

Theorem W4S_C11_mu_bookkeeping : forall (T_W T_F T_Mat T_Mask T_K T_X T_Pi : Type) (c_leF : T_F -> T_F -> bool) (c_zeroF c_m1F : T_F)
  (c_subF : T_F -> T_F -> T_F) (k_normalize : T_K -> nat -> T_K) (k_zeros_like_factor : T_K -> nat -> T_Mat) (k_time : T_W -> T_W * T_F)
  (k_violation_mask : list T_Mat -> nat -> T_K -> T_F -> T_Mask) (k_any : T_Mask -> bool) (k_add_kappa : T_K -> nat -> T_Mask -> T_F -> T_K)
  (k_redistribute : T_K -> nat -> T_K) (k_calculate_pi : T_X -> T_K -> nat -> nat -> nat -> T_Pi)
  (k_calculate_phi : T_W -> T_X -> T_K -> nat -> nat -> T_Pi -> T_F -> T_W * T_Mat) (k_kkt_mode : T_K -> nat -> list T_Mat -> T_F)
  (k_mult_update : T_K -> nat -> list T_Mat -> T_K) (k_normalize_mode : T_K -> nat -> nat -> T_K) (k_max : list T_F -> T_F)
  (k_normalize_sort : T_K -> nat -> bool -> T_K) (k_loglikelihood : T_X -> T_K -> T_F)
  w X rank init stoptol stoptime maxiters maxinner eps printitn printinner kappa kappatol N M kkt ninner nviol ntotal times tstop obj w',
  GenCpAprMu.cp_apr_mu T_W T_F T_Mat T_Mask T_K T_X T_Pi c_leF c_zeroF c_m1F c_subF k_normalize k_zeros_like_factor k_time
    k_violation_mask k_any k_add_kappa k_redistribute k_calculate_pi k_calculate_phi k_kkt_mode k_mult_update k_normalize_mode k_max
    k_normalize_sort k_loglikelihood w X rank init stoptol stoptime maxiters maxinner eps printitn printinner kappa kappatol N
    = Some (M, (kkt, ninner, nviol, ntotal, times, tstop, obj), w') ->
  1 <= length kkt <= maxiters /\ length ninner = length kkt /\ length nviol = length kkt /\ length times = length kkt.
Proof. exact mu_bookkeeping. Qed.

Print Assumptions W4S_C11_mu_bookkeeping.

Section W4SC11Steps.
Variables T_W T_F T_Mat T_Mask T_K T_X T_Pi : Type.
Variable c_leF : T_F -> T_F -> bool.
Variable c_subF : T_F -> T_F -> T_F.
Variable k_time : T_W -> T_W * T_F.
Variable k_violation_mask : list T_Mat -> nat -> T_K -> T_F -> T_Mask.
Variable k_any : T_Mask -> bool.
Variable k_add_kappa : T_K -> nat -> T_Mask -> T_F -> T_K.
Variable k_redistribute : T_K -> nat -> T_K.
Variable k_calculate_pi : T_X -> T_K -> nat -> nat -> nat -> T_Pi.
Variable k_calculate_phi : T_W -> T_X -> T_K -> nat -> nat -> T_Pi -> T_F -> T_W * T_Mat.
Variable k_kkt_mode : T_K -> nat -> list T_Mat -> T_F.
Variable k_mult_update : T_K -> nat -> list T_Mat -> T_K.
Variable k_normalize_mode : T_K -> nat -> nat -> T_K.
Variable k_max : list T_F -> T_F.
Notation gloop4 := (GenCpAprMu.cp_apr_mu_loop4 T_W T_F T_Mat T_K T_X T_Pi c_leF k_calculate_phi k_kkt_mode k_mult_update).
Notation gloop3 := (GenCpAprMu.cp_apr_mu_loop3 T_W T_F T_Mat T_Mask T_K T_X T_Pi c_leF k_violation_mask k_any k_add_kappa k_redistribute
  k_calculate_pi k_calculate_phi k_kkt_mode k_mult_update k_normalize_mode).
Notation gloop2 := (GenCpAprMu.cp_apr_mu_loop2 T_W T_F T_Mat T_Mask T_K T_X T_Pi c_leF c_subF k_time k_violation_mask k_any k_add_kappa
  k_redistribute k_calculate_pi k_calculate_phi k_kkt_mode k_mult_update k_normalize_mode k_max).

(* the stop rule of a mode subproblem, over the generated inner loop *)
Theorem W4S_C11_mu_inner_step : forall Pi eps X it n rank tol fuel i M Phi cv km ni w c ni1 w1 ph Phi1 km1,
  nth_error ni it = Some c -> sk_set ni it (c + 1) = Some ni1 ->
  k_calculate_phi w X M rank n Pi eps = (w1, ph) -> sk_set Phi n ph = Some Phi1 ->
  sk_set km n (k_kkt_mode M n Phi1) = Some km1 ->
  gloop4 Pi eps X it n rank tol (S fuel) i (M, Phi, cv, km, ni, w) =
    if negb (c_leF tol (k_kkt_mode M n Phi1))
    then Some (M, Phi1, cv, km1, ni1, w1)
    else gloop4 Pi eps X it n rank tol fuel (S i) (k_mult_update M n Phi1, Phi1, false, km1, ni1, w1).
Proof. exact (mu_inner_step T_W T_F T_Mat T_K T_X T_Pi c_leF k_calculate_phi k_kkt_mode k_mult_update). Qed.

(* the exit rules of the outer loop, over the generated outer loop *)
Theorem W4S_C11_mu_outer_step : forall N eps X kappa kappatol maxinner rank start stoptime tol
  fuel i M Phi it km kv n ni nt nv w M1 Phi1 cv1 km1 n1 ni1 nv1 w1 kv1 w2 t nt1,
  gloop3 N eps X i kappa kappatol maxinner rank tol N 0 (M, Phi, true, km, n, ni, nv, w) = Some (M1, Phi1, cv1, km1, n1, ni1, nv1, w1) ->
  sk_set kv i (k_max km1) = Some kv1 -> k_time w1 = (w2, t) -> sk_set nt i (c_subF t start) = Some nt1 ->
  gloop2 N eps X kappa kappatol maxinner rank start stoptime tol (S fuel) i (M, Phi, it, km, kv, n, ni, nt, nv, w) =
    if cv1 then Some (M1, Phi1, Some i, km1, kv1, n1, ni1, nt1, nv1, w2)
    else if negb (c_leF (c_subF t start) stoptime) then Some (M1, Phi1, Some i, km1, kv1, n1, ni1, nt1, nv1, w2)
    else gloop2 N eps X kappa kappatol maxinner rank start stoptime tol fuel (S i) (M1, Phi1, Some i, km1, kv1, n1, ni1, nt1, nv1, w2).
Proof. exact (mu_outer_step T_W T_F T_Mat T_Mask T_K T_X T_Pi c_leF c_subF k_time k_violation_mask k_any k_add_kappa k_redistribute
  k_calculate_pi k_calculate_phi k_kkt_mode k_mult_update k_normalize_mode k_max). Qed.
End W4SC11Steps.

Print Assumptions W4S_C11_mu_inner_step.
Print Assumptions W4S_C11_mu_outer_step.
