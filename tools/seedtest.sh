#!/bin/sh
# usage: seedtest.sh <patch.diff> <ID> [<ID>...]   — run checks against a scratch worktree of /repo with the patch applied,
# from an isolated scratch copy of /verif (so nothing in /verif or /repo is disturbed). Prints the check output.
patch="$1"; shift
WT=/tmp/seedwt.$$; VS=/tmp/seedvs.$$
git -C /repo worktree add -q --detach "$WT" HEAD || exit 2
git -C "$WT" apply "$patch" 2>/dev/null || git -C "$WT" apply --3way "$patch" || { echo "PATCH DOES NOT APPLY"; git -C /repo worktree remove --force "$WT"; exit 2; }
rsync -a --exclude .git --exclude replays --exclude "coq/run" "${VERIF_SRC:-/verif}"/ "$VS"/
rc=0
for id in "$@"; do
  echo "=== $id with $(basename "$patch")"
  (cd "$VS" && PYTTB_SRC="$WT" ./check "$id" quick) | cut -c1-300
  for r in $(ls "$VS"/replays/"$id"/*.json 2>/dev/null | head -2); do echo "--- replay $r"; head -c 700 "$r"; echo; done
done
git -C /repo worktree remove --force "$WT"; rm -rf "$VS"
