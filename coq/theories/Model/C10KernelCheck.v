(* Model/C10KernelCheck.v — wave 5: the two mode-product kernels of tucker_als' main loop AS CALLED there,
     Utilde = input_tensor.ttm(U, exclude_dims=n, transpose=True)     and     core = Utilde.ttm(U, n, transpose=True),
   value-generic (excl_g, core_g) with the Qc instance evaluated by the correspondence op `tals_kernels` on pyttb's answers.  The real
   instance IS the contract of the kernels k_ttm_excl / k_ttm_core in Props/C10W5.v (Proofs/C10Kernel.v: excl_is_model, core_is_model). *)
From Coq Require Import List Arith Bool ZArith QArith Qabs Qcanon.
From PV Require Import Base.Index Base.Sum Np.Array Model.Sparse Model.Repr Model.Harness Model.C10Tucker Model.C10Loop Model.C10Check.
Import ListNotations.

Section Generic.
Context {V : Type} (v0 : V) (vadd vmul : V -> V -> V).
(* Z x_m Ms[0] x_{m+1} Ms[1] ... without the factor of mode n (the list entry of mode n is not read: pyttb passes None there) *)
Fixpoint ttm_skip_g (Z : dense V) (m : nat) (Ms : list (@matrix V)) (n : nat) : dense V :=
  match Ms with
  | [] => Z
  | M :: Ms' => ttm_skip_g (if Nat.eqb m n then Z else ttm v0 vadd vmul Z m M) (S m) Ms' n
  end.
Definition excl_g (X : dense V) (Us : list (@matrix V)) (n : nat) : dense V := ttm_skip_g X 0 (transposed v0 Us) n.
Definition core_g (Z : dense V) (Us : list (@matrix V)) (n : nat) : dense V :=
  ttm v0 vadd vmul Z n (mtrans v0 (nth n Us []) (nrows (nth n Us [])) (ncols (nth n Us []))).
End Generic.

Local Open Scope Qc_scope.
(* pyttb's answers Zobs / Cobs agree with the model (absolute tolerance eps * max(1, ||X||^2); integer inputs: exact) *)
Definition kernel_excl_ok (eps : Qc) (X : dense Qc) (Us : list qmatrix) (n : nat) (Zobs : dense Qc) : bool :=
  qdense_close (eps * qscale X) Zobs (excl_g q0 Qcplus Qcmult X Us n).
Definition kernel_core_ok (eps : Qc) (X Z : dense Qc) (Us : list qmatrix) (n : nat) (Cobs : dense Qc) : bool :=
  qdense_close (eps * qscale X) Cobs (core_g q0 Qcplus Qcmult Z Us n).
