"""C06 — sparse results are well-formed and independent of the stored order of nonzeros (DESIGN §C06).

Every case runs one request several times: once per stored order of the operands (all n! orders for n <= 4 stored
nonzeros of each operand, random orders beyond).  Coq then checks, on pyttb's raw outputs, the well-formedness bits of
every returned sparse tensor (lengths, in-bounds, pairwise distinct, no explicit zero, nnz) and that all runs have the
same canonical form (Model/C06Ops.v: canon = F-order scan of the dense expansion).

Two streams share that machinery: the element-wise operators of C03 plus squash / from_aggregator (this file), and every
other public operation that takes a sparse tensor — scalar-valued ones included (props/c06_util.py)."""
import itertools
import math

from vcheck import Case, gz, gzlist, gnlist, gnmat
import tgen
from props import c03_util as U
from props import c03
from props import c06_util as X

PROP = "C06"
LEVEL = "proof"
GEN_UNITS = ["GenUtils"]
COQ_TARGETS = ["Props/C06.vo", "Model/Harness.vo"]
THEOREM_FILES = ["Props/C06.v"]
COQ_IMPORTS = ("From Coq Require Import List ZArith Bool QArith Qcanon.\n"
               "From PV Require Import Base.Index Np.Array Model.Sparse Model.Repr Model.Harness Model.C03Ops Model.C06Ops.\n"
               'Set Warnings "-abstract-large-number".\n')
RULE = ("stream 1: every C03 request (operator x right-hand-side kind) on all zero-pattern pairs of the shapes (2,2) [operators rotated] and "
        "(3,) [all operators], plus seeded larger shapes; squash and from_aggregator with permuted input rows. stream 2 (admissible requests "
        "only, integer data, shapes of 1-4 modes incl. singleton modes, 0..all cells stored): innerprod with a sparse operand (shared "
        "nonzeros 0..6, both sides and the tie of the nnz(self) < nnz(other) switch, distinct magnitudes on the shared positions), with a "
        "dense and with a Kruskal operand; norm; permute (all mode orders, sampled for 4 modes); whole-shape reshape into every "
        "factorisation; squeeze (no / some / all singleton modes); ttv (single mode, several modes, all modes; vectors with zeros; sparse, "
        "dense and scalar results); ttm (one or two ndarray matrices, either orientation; scipy coo matrices to reach the sparse-result "
        "branch); contract (every ordered pair of equal modes); collapse by sum (every mode subset and all modes: scalar / vector / sparse "
        "result); scale (tensor / sptensor / ndarray factor); to_sptenmat with random row/column mode splits (incl. an empty side) and "
        "to_sptensor back; __setitem__ (scalar into a region, values incl. 0 at listed subscripts, one or two steps); mask (the mask's "
        "stored order is permuted too); extract; __getitem__ (region and subscript list). EVERY request of both streams is re-run for ALL "
        "n! stored orders (n <= 4) of each sparse operand, identity/reversed/3 random orders beyond 4 nonzeros; non-trivial = at least two "
        "distinct stored orders were run; distinct = distinct (op, args)")
EXPLANATION = ("Theorems: uniqueness of the representation up to stored order (canon_unique), canonical form, and order independence of "
               "every operation that is denotationally correct (instantiated for all operators proved in C03). Correspondence, evaluated in "
               "Coq on pyttb's raw outputs (Model/C06Ops.v): the result kind (sptensor / tensor / ndarray / number / sptenmat) is the same for "
               "every stored order; every returned sptensor and sptenmat (read as a 2-way coordinate list) satisfies the raw well-formedness "
               "bits (one value per subscript row, in bounds, pairwise distinct, no explicit zero, nnz = stored rows); all runs have the same "
               "canonical form (all_same_sparse / all_same_sparse_e / all_same_dense / all_same_assoc) or the same number "
               "(all_same_scalar, exact in Qc); innerprod additionally equals the sum of products over all subscripts computed by Coq from "
               "the literal operands (zinner), norm^2 the sum of squares (1e-9), and to_sptensor(to_sptenmat(S)) is S up to stored order.")
CORRESPONDENCE_ONLY = [
    "__truediv__ (scalar/dense: result well-formedness is part of C03_div_scalar / C03_div_dense_partial; sparse operand: open finding A-07), "
    "logical_or/xor with dense/scalar operands (dense results), __eq__/__ne__ scalar/dense/sparse own paths (proved correct in C03, no separate "
    "C06 instance): order independence observed on pyttb's raw outputs",
    "squash (executable model, no proof)", "from_aggregator with duplicate input rows (proved in C03_from_aggregator; order independence of the INPUT rows observed only for sum)",
    "innerprod (sparse / dense / Kruskal operand) and norm: order independence and the exact value observed on pyttb's outputs (no C06 theorem instantiated for them)",
    "ttv, ttm, contract, collapse, scale, mask, extract: well-formedness of the result and order independence observed on pyttb's raw outputs "
    "only (their denotational theorems are C02's; no C06 corollary instantiated). permute, reshape (all modes), squeeze, to_sptenmat/to_sptensor "
    "and every __setitem__/__getitem__ path of the C04 state machine ARE proved well-formed and order-independent (C06_ops_permute, "
    "_reshape, _squeeze, _sptenmat, _setitem) as corollaries of the C07/C01/C04 theorems",
    "reshape with old_modes, __setitem__ with a sparse right-hand side or growing the shape, collapse with a function other than sum, "
    "sptenmat methods other than to_sptensor: not generated",
]


# ---------------------------------------------------------------------------------------------
# generation
# ---------------------------------------------------------------------------------------------
def variants_for(a, rng):
    """list of (perm of A's entries, perm of B's entries or None): identity first"""
    na = len(a["subs"])
    pa = U.permutations_of(na, rng)
    out = [(list(range(na)), None)]
    if a.get("rk") == "sparse":
        nb = len(a["bsubs"])
        pb = U.permutations_of(nb, rng)
        idb = list(range(nb))
        out = [(list(range(na)), idb)]
        out += [(p, idb) for p in pa[1:]]
        out += [(list(range(na)), q) for q in pb[1:]]
        if na > 1 and nb > 1:
            out.append((pa[-1], pb[-1]))
            out.append((rng.choice(pa), rng.choice(pb)))
    else:
        out += [(p, None) for p in pa[1:]]
    return out


def mk_case(op, a, rng):
    a = dict(a)
    a["variants"] = variants_for(a, rng)
    return Case(op, a, len(a["variants"]) > 1)


def permuted(a, pa, pb):
    b = {k: v for k, v in a.items() if k != "variants"}
    b["subs"] = [a["subs"][k] for k in pa]
    b["vals"] = [a["vals"][k] for k in pa]
    if pb is not None:
        b["bsubs"] = [a["bsubs"][k] for k in pb]
        b["bvals"] = [a["bvals"][k] for k in pb]
    return b


def gen_cases(rng, tier):
    big = tier == "thorough"
    cases = []
    unary = ("neg", "not", "ones") + tuple("elemfun:" + k for k in U.ELEMFUNS)
    k = 0
    for shape, per in (((2, 2), 13 if big else 3), ((3,), 13)):
        n = math.prod(shape)
        for pa in itertools.product((0, 1), repeat=n):
            for pb in itertools.product((0, 1), repeat=n):
                for _ in range(per):
                    op = U.BINOPS[k % len(U.BINOPS)]
                    k += 1
                    cases.append(mk_case(op, c03.binary_args(shape, pa, pb, "sparse", rng, "sorted", "sorted"), rng))
            for _ in range(4 if big else 2):
                for op in U.BINOPS:
                    pb = [rng.randint(0, 1) for _ in range(n)]
                    cases.append(mk_case(op, c03.binary_args(shape, pa, pb, "dense", rng, "sorted"), rng))
            for c in c03.SCALARS:
                for op in c03.ops_for("scalar"):
                    cases.append(mk_case(op, c03.binary_args(shape, pa, pa, "scalar", rng, "sorted", c=c), rng))
            for op in unary:
                subs, vals = c03.sparse_from_pattern(shape, pa, rng, "sorted")
                cases.append(mk_case(op, {"shape": list(shape), "subs": subs, "vals": vals}, rng))
    # larger shapes: random orders
    for _ in range(60 if big else 14):
        shape = tuple(tgen.rand_shape(rng, maxn=4, maxcells=24))
        n = math.prod(shape)

        def rpat():
            f = rng.choice((0.2, 0.5, 0.8, 1.0))
            return [int(rng.random() < f) for _ in range(n)]
        for rk in ("sparse", "dense", "scalar"):
            for op in c03.ops_for(rk):
                cases.append(mk_case(op, c03.binary_args(shape, rpat(), rpat(), rk, rng, "sorted", "sorted", c=rng.choice(c03.SCALARS)), rng))
        for op in unary:
            subs, vals = c03.sparse_from_pattern(shape, rpat(), rng, "sorted")
            cases.append(mk_case(op, {"shape": list(shape), "subs": subs, "vals": vals}, rng))
    # squash and from_aggregator
    for _ in range(400 if big else 120):
        shape = tuple(tgen.rand_shape(rng, maxn=3, maxcells=60, maxdim=6))
        n = math.prod(shape)
        f = rng.choice((0.1, 0.3, 0.6))
        subs, vals = c03.sparse_from_pattern(shape, [int(rng.random() < f) for _ in range(n)], rng, "sorted")
        cases.append(mk_case("squash", {"shape": list(shape), "subs": subs, "vals": vals}, rng))
        m = rng.randint(0, 6)
        rows = [[rng.randrange(d) for d in shape] for _ in range(m)]
        rv = [rng.choice((-2, -1, 1, 2, 0)) for _ in range(m)]
        if m >= 2 and rng.random() < 0.5:      # force a duplicate row whose values cancel
            rows[1] = list(rows[0])
            rv[1] = -rv[0]
        cases.append(mk_case("from_agg", {"shape": list(shape), "subs": rows, "vals": rv}, rng))
    # second stream: scalar-valued operations and every other public operation on a sparse tensor
    cases += X.gen_ext(rng, tier, lambda op, a: mk_case(op, a, rng))
    return cases


# ---------------------------------------------------------------------------------------------
# pyttb side
# ---------------------------------------------------------------------------------------------
def run_one(op, a):
    import numpy as np
    import pyttb as ttb
    if op == "squash":
        try:
            S = tgen.mk_sptensor(ttb, np, a["shape"], a["subs"], a["vals"])
            return U.observe(ttb, np, S.squash())
        except Exception as ex:
            return {"exc": type(ex).__name__, "msg": str(ex)[:160]}
    if op == "from_agg":
        try:
            s = np.array(a["subs"], dtype=int).reshape((len(a["subs"]), len(a["shape"])))
            v = np.array(a["vals"], dtype=float).reshape((len(a["vals"]), 1))
            return U.observe(ttb, np, ttb.sptensor.from_aggregator(s.copy(), v.copy(), tuple(a["shape"])))
        except Exception as ex:
            return {"exc": type(ex).__name__, "msg": str(ex)[:160]}
    if op in X.EXT_OPS:
        return X.run_ext(op, a)
    return U.run_elementwise(op, a)


def run_impl(c):
    a = c.args
    return {"runs": [run_one(c.op, permuted(a, pa, pb)) for pa, pb in a["variants"]]}


# ---------------------------------------------------------------------------------------------
# Coq side
# ---------------------------------------------------------------------------------------------
def glist(items):
    return "[" + "; ".join(items) + "]"


def coq_check(c, o):
    runs = o["runs"]
    if all("exc" in r for r in runs):
        # the request is refused for every stored order: nothing is returned, so C06 has nothing to say
        # (whether refusing is right is C03's question); different exception types still count as different results
        return "true" if len({r["exc"] for r in runs}) == 1 else "false"
    if any("exc" in r for r in runs):
        return "false"
    if c.op in X.EXT_OPS:
        return None if pending(c, o) else X.check_ext(c, runs)
    kinds = {r.get("kind") for r in runs}
    if len(kinds) != 1 or kinds - {"sparse", "dense"}:
        return "false"
    if not all(c03.raw_ok(r) for r in runs):
        return "false"
    isdiv = c.op in ("div", "rdiv")
    kind = kinds.pop()
    extra = ""
    if c.op == "squash":
        a = c.args
        extra = f" && sp_raw_eqb {c03.gobs_sparse_z(runs[0])} (squash {U.gsp(a)})"
    if c.op == "from_agg":
        a = c.args
        extra = (f" && sp_denotes {c03.gobs_sparse_z(runs[0])} (full 0%Z (from_aggregator zisz (vsum 0%Z Z.add) "
                 f"{gnlist(a['shape'])} {gnmat(a['subs'])} {gzlist(a['vals'])}))")
    if kind == "sparse":
        if isdiv:
            return f"all_same_xsparse {glist([c03.gobs_sparse_x(r) for r in runs])}"
        if not all(tgen.all_int(r["vals"]) for r in runs):
            return "false"
        fn = "all_same_sparse_e" if c.op == "squash" else "all_same_sparse"     # squash shapes can be large
        return f"{fn} {glist([c03.gobs_sparse_z(r) for r in runs])}" + extra
    if isdiv:
        return "all_same_xdense " + glist([f"(mkDense {gnlist(r['shape'])} {U.gxlist(r['data'])})" for r in runs])
    if not all(tgen.all_int(r["data"]) for r in runs):
        return "false"
    return "all_same_dense " + glist([tgen.gdense(r["shape"], r["data"]) for r in runs])


# ---------------------------------------------------------------------------------------------
# brute-force oracle
# ---------------------------------------------------------------------------------------------
def canon_py(r):
    if r["kind"] == "dense":
        return ("dense", tuple(r["shape"]), tuple(map(str, r["data"])))
    return ("sparse", tuple(r["shape"]), tuple(sorted((tuple(s), str(v)) for s, v in zip(r["subs"], r["vals"]))))


def oracle(c, o):
    runs = o["runs"]
    if all("exc" in r for r in runs):
        return None
    for r, (pa, pb) in zip(runs, c.args["variants"]):
        if "exc" in r:
            return f"stored order {pa}/{pb}: raises {r['exc']} while another stored order of the same operands returns a result"
    if c.op in X.EXT_OPS:
        return X.oracle_ext(c, runs, c.args["variants"])
    for r, (pa, pb) in zip(runs, c.args["variants"]):
        if r["kind"] == "sparse":
            shape = r["shape"] if c.op == "squash" else c.args["shape"]
            p = U.wf_problems(r, shape)
            if p:
                return f"stored order {pa}/{pb}: ill-formed sparse result: {p}"
    if c.op == "squash":
        a = c.args
        want = [len({s[n] for s in a["subs"]}) for n in range(len(a["shape"]))]
        if runs[0]["shape"] != want:
            return f"squash: shape {runs[0]['shape']} but the numbers of distinct indices per mode are {want}"
    c0 = canon_py(runs[0])
    for r, (pa, pb) in zip(runs[1:], c.args["variants"][1:]):
        if canon_py(r) != c0:
            return f"stored order {pa}/{pb} of the same operands gives a different result: {r} vs {runs[0]}"
    return None


# ---------------------------------------------------------------------------------------------
# known findings
# ---------------------------------------------------------------------------------------------
def _any_variant(pred):
    def trig(c):
        a = c.args
        return any(pred(Case(c.op, permuted(a, pa, pb))) for pa, pb in a["variants"])
    return trig


def _squash_shape(c):
    a = c.args
    return c.op == "squash" and any(len({s[n] for s in a["subs"]}) != len(a["subs"]) for n in range(len(a["shape"])))


TRIGGERS = {
    "div_sparse_supports_differ_or_misaligned_some_order": _any_variant(c03._div_sparse_bad),
    "squash_repeated_index_in_some_mode": _squash_shape,
}

def _scale_zero_factor(c, o=None):
    """C06-Z2: scale by a factor that is zero at the position of a stored entry (the product is stored as an explicit zero)"""
    a = c.args
    if c.op != "scale":
        return False
    F = dict(zip(map(tuple, tgen.all_subs(a["fshape"])), a["fdata"]))
    return any(F[tuple(s[m] for m in a["dims"])] == 0 for s in a["subs"])


TRIGGERS["scale_zero_factor_at_stored_entry"] = _scale_zero_factor

# Genuine defects seen by the second stream that are not yet recorded in findings.d: name -> predicate(case, observation).
# A case for which a predicate holds is skipped (coq_check returns None) until the finding is recorded; nothing else is.
PENDING_FINDINGS = {}       # C06-Z2 (scale) is recorded in findings.d/C06.jsonl since wave 2


def pending(c, o):
    return any(p(c, o) for p in PENDING_FINDINGS.values())


def _witness(op, args):
    def run():
        import random
        c = mk_case(op, args, random.Random(0))
        return oracle(c, run_impl(c))
    return run


W22 = {"shape": [2, 2]}
WITNESS_INPUTS = {
    "A-07": ("div", dict(W22, subs=[[1, 0]], vals=[4], rk="sparse", bsubs=[[0, 0], [1, 1]], bvals=[2, 3])),
    "A-27": ("squash", {"shape": [3, 4], "subs": [[0, 1], [2, 1]], "vals": [2, 1]}),
    "C06-Z2": ("scale", {"shape": [2, 2], "subs": [[0, 0], [1, 1]], "vals": [2, 3], "dims": [1], "fshape": [2], "fdata": [0, 4],
                         "fkind": "tensor"}),
}
WITNESSES = {k: _witness(*v) for k, v in WITNESS_INPUTS.items()}
