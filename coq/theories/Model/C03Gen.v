(* Model/C03Gen.v — the sparse algorithms of pyttb.sptensor that go through the row-set helpers, transliterated
   against the helpers GENERATED from pyttb_utils.py (Gen/GenUtils.v): every call of tt_intersect_rows /
   tt_setdiff_rows / tt_ismember_rows in the source is a call of the generated function here, fancy indexing is
   np_take, boolean-mask indexing is np_mask.  Source (repaired tree): sptensor.__mul__ (sparse operand),
   __eq__ (sparse operand), logical_not, _compare (scalar and sparse operand), __ne__ (scalar), __truediv__ (scalar 0).
   Definitions only; proofs in Proofs/C03GenProofs.v. *)
From Coq Require Import List ZArith Bool.
From PV Require Import Base.Index Np.NpZ Np.Array Gen.GenUtils Model.Sparse Model.C03Ops.
Import ListNotations.

Definition zrow (i : idx) : vec := map Z.of_nat i.
Definition zrows (l : list idx) : mat := map zrow l.
Fixpoint zipw {X Y W} (f : X -> Y -> W) (l1 : list X) (l2 : list Y) : list W :=
  match l1, l2 with x :: r1, y :: r2 => f x y :: zipw f r1 r2 | _, _ => [] end.

(* a[tt_setdiff_rows(a, b)] and a[tt_intersect_rows(a, b)] *)
Definition gen_diff (l1 l2 : list idx) : res (list idx) :=
  bind (tt_setdiff_rows (zrows l1) (zrows l2)) (fun ix => Ok (np_take [] l1 ix)).
Definition gen_inter (l1 l2 : list idx) : res (list idx) :=
  bind (tt_intersect_rows (zrows l1) (zrows l2)) (fun ix => Ok (np_take [] l1 ix)).
(* position of a row in a list (first occurrence) *)
Fixpoint pos (i : idx) (l : list idx) : nat :=
  match l with [] => 0 | j :: r => if idx_eqb i j then 0 else S (pos i r) end.

Section Gen.
Context {V : Type} (v0 : V).
Variables (one : V).

(* __mul__ (sparse operand), repaired:
     idxSelf = tt_intersect_rows(self.subs, other.subs)
     _, idxOther = tt_ismember_rows(self.subs[idxSelf], other.subs)
     sptensor(self.subs[idxSelf], self.vals[idxSelf] * other.vals[idxOther], self.shape) *)
Definition impl_mul_gen (vmul : V -> V -> V) (A B : sparse V) : res (sparse V) :=
  bind (tt_intersect_rows (zrows (ssubs A)) (zrows (ssubs B))) (fun idxSelf =>
  bind (tt_ismember_rows (zrows (np_take [] (ssubs A) idxSelf)) (zrows (ssubs B))) (fun mr =>
  Ok (mkSp (sshape A) (np_take [] (ssubs A) idxSelf)
           (zipw vmul (np_take v0 (svals A) idxSelf) (np_take v0 (svals B) (snd mr)))))).

(* __eq__ (sparse operand), repaired *)
Definition impl_eq_gen (veqb : V -> V -> bool) (A B : sparse V) : res (sparse V) :=
  bind (gen_diff (allsubs (sshape A)) (ssubs A)) (fun xzerosubs =>
  bind (gen_diff (allsubs (sshape B)) (ssubs B)) (fun otherzerosubs =>
  bind (gen_inter xzerosubs otherzerosubs) (fun zzerosubs =>
  bind (tt_intersect_rows (zrows (ssubs A)) (zrows (ssubs B))) (fun nzsubsIdx =>
  let nzsubs := np_take [] (ssubs A) nzsubsIdx in
  bind (tt_ismember_rows (zrows nzsubs) (zrows (ssubs B))) (fun mr =>
  let equal_subs := zipw veqb (np_take v0 (svals A) nzsubsIdx) (np_take v0 (svals B) (snd mr)) in
  Ok (sp_const (sshape A) (zzerosubs ++ np_mask nzsubs equal_subs) one)))))).

(* logical_not: allsubs[tt_setdiff_rows(allsubs, self.subs)] *)
Definition impl_not_gen (A : sparse V) : res (sparse V) :=
  bind (gen_diff (allsubs (sshape A)) (ssubs A)) (fun subs => Ok (sp_const (sshape A) subs one)).

(* _compare, case 1 (scalar) *)
Definition impl_cmp_scalar_gen (cmp : V -> V -> bool) (A : sparse V) (c : V) : res (sparse V) :=
  let subs1 := map fst (filter (fun e => cmp (snd e) c) (entries A)) in
  if cmp v0 c then bind (gen_diff (allsubs (sshape A)) (ssubs A)) (fun subs2 => Ok (sp_const (sshape A) (subs1 ++ subs2) one))
  else Ok (sp_const (sshape A) subs1 one).

(* _compare, case 2a (two sparse tensors): extract() is den_sp *)
Definition impl_cmp_gen (cmp : V -> V -> bool) (A B : sparse V) : res (sparse V) :=
  bind (gen_diff (ssubs A) (ssubs B)) (fun d1 =>
  let subs1 := filter (fun i => cmp (den_sp v0 A i) v0) d1 in
  bind (gen_diff (ssubs B) (ssubs A)) (fun d2 =>
  let subs2 := filter (fun i => cmp v0 (den_sp v0 B i)) d2 in
  bind (gen_inter (ssubs A) (ssubs B)) (fun c3 =>
  let subs3 := filter (fun i => cmp (den_sp v0 A i) (den_sp v0 B i)) c3 in
  if cmp v0 v0 then
    bind (gen_diff (allsubs (sshape A)) (ssubs A)) (fun xzerosubs =>
    bind (gen_diff (allsubs (sshape B)) (ssubs B)) (fun yzerosubs =>
    bind (gen_inter xzerosubs yzerosubs) (fun subs4 =>
    Ok (sp_const (sshape A) (subs1 ++ subs2 ++ subs3 ++ subs4) one))))
  else Ok (sp_const (sshape A) (subs1 ++ subs2 ++ subs3 ++ []) one)))).

(* __ne__ (scalar c <> 0): stored entries with another value, plus every implicit zero *)
Definition impl_ne_scalar_gen (veqb : V -> V -> bool) (isz : V -> bool) (A : sparse V) (c : V) : res (sparse V) :=
  if isz c then Ok (sp_const (sshape A) (ssubs A) one)
  else
    let subs1 := map fst (filter (fun e => negb (veqb (snd e) c)) (entries A)) in
    bind (gen_diff (allsubs (sshape A)) (ssubs A)) (fun subs2 => Ok (sp_const (sshape A) (subs1 ++ subs2) one)).
End Gen.

(* ------------------------------------------------------------------------------------------ *)
(* __truediv__ (sparse operand) exactly as pyttb computes it (repaired tree, commit e2beb21: finding A-07 fixed; the
   fill values NaN for x/0 and a stored 0 for 0/x are finding C03-N7), over the generated helpers.
   a[idx] with an index outside the array raises in numpy: take_chk *)
Definition take_chk {A} (d : A) (a : list A) (idx : vec) : res (list A) :=
  if forallb (fun k => (- zlen a <=? k)%Z && (k <? zlen a)%Z) idx then Ok (np_take d a idx) else Err.
Definition nonempty {A} (l : list A) : bool := match l with [] => false | _ => true end.

Section DivGen.
Context {V X : Type} (v0 : V).
Variables (dv : V -> V -> X) (xnan xzero : X).

(* if moresubs.size > 0: newsubs = vstack(newsubs, src[moresubs, :]); newvals = vstack(newvals, fill) *)
Definition more_rows (acc : list idx * list X) (src : list idx) (moresubs : vec) (fill : X) : res (list idx * list X) :=
  if nonempty moresubs then
    bind (take_chk [] src moresubs) (fun rows => Ok (fst acc ++ rows, snd acc ++ map (fun _ => fill) moresubs))
  else Ok acc.

(* `alls` = self.allsubs() = other.allsubs() (pyttb enumerates with the FIRST mode slowest: allsubsC); the enumeration is a
   parameter: the theorems hold for any duplicate-free enumeration of the shape *)
Definition impl_div_sparse_gen (alls : list idx) (A B : sparse V) : res (sparse X) :=
  let zA := zrows (ssubs A) in let zB := zrows (ssubs B) in
  bind (if nonempty (ssubs A) then gen_diff alls (ssubs A) else Ok alls) (fun SelfZeroSubs =>
  bind (if nonempty (ssubs B) then gen_diff alls (ssubs B) else Ok alls) (fun OtherZeroSubs =>
  (* both nonzero: idxSelf = tt_intersect_rows(self.subs, other.subs); newsubs = self.subs[idxSelf];
     _, idxOther = tt_ismember_rows(newsubs, other.subs); newvals = self.vals[idxSelf] / other.vals[idxOther] *)
  bind (if nonempty (ssubs A) && nonempty (ssubs B) then
          bind (tt_intersect_rows zA zB) (fun idxSelf =>
          let newsubs := np_take [] (ssubs A) idxSelf in
          bind (tt_ismember_rows (zrows newsubs) zB) (fun mr =>
          Ok (newsubs, zipw dv (np_take v0 (svals A) idxSelf) (np_take v0 (svals B) (snd mr)))))
        else Ok ([], [])) (fun acc0 =>
  (* self nonzero, other zero: self.subs[tt_intersect_rows(self.subs, OtherZeroSubs)], filled with NaN *)
  bind (if nonempty (ssubs A) then
          bind (tt_intersect_rows zA (zrows OtherZeroSubs)) (fun moresubs => more_rows acc0 (ssubs A) moresubs xnan)
        else Ok acc0) (fun acc1 =>
  (* other nonzero, self zero: other.subs[tt_intersect_rows(other.subs, SelfZeroSubs)], filled with 0 *)
  bind (if nonempty (ssubs B) then
          bind (tt_intersect_rows zB (zrows SelfZeroSubs)) (fun moresubs => more_rows acc1 (ssubs B) moresubs xzero)
        else Ok acc1) (fun acc2 =>
  (* both zero: SelfZeroSubs[tt_intersect_rows(SelfZeroSubs, OtherZeroSubs)], filled with NaN *)
  bind (tt_intersect_rows (zrows SelfZeroSubs) (zrows OtherZeroSubs)) (fun moresubs =>
  bind (more_rows acc2 SelfZeroSubs moresubs xnan) (fun acc3 =>
  Ok (mkSp (sshape A) (fst acc3) (snd acc3))))))))).

(* what the code stores at subscript i, by membership in the two stored supports *)
Definition div_fill (A B : sparse V) (i : idx) : X :=
  if mem i (ssubs A) then (if mem i (ssubs B) then dv (den_sp v0 A i) (den_sp v0 B i) else xnan)
  else (if mem i (ssubs B) then xzero else xnan).
End DivGen.
Definition allsubsC (s : shape) : list idx := map (@rev nat) (allsubs (rev s)).
