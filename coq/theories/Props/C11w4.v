(* Props/C11w4.v — wave 4: the Qc instance of the PDNR / PQNR state machine that the correspondence check replays side by side with
   pyttb (Model/C11Replay.v: gradients and line-search answers are TABLES recorded from the run; everything else is computed).
   Only statements, `exact`, Print Assumptions. *)
From Coq Require Import List Arith Bool ZArith QArith Qcanon.
From PV Require Import Base.Index Np.Array Model.Sparse Model.Repr Model.Harness Model.C11Apr Model.C11Rows Model.C11Check
                       Model.C11Replay Proofs.C11Replay.
Import ListNotations.

(* whatever the recorded tables contain (any gradients, any directions, step lengths, fallback flags — also missing entries), for
   every count tensor and every guess with non-negative rational entries the replayed result has non-negative weights and factors,
   one non-negative KKT entry and one inner count per outer iteration performed (at least one, at most maxiters, fewer only with
   the convergence flag set) and inner counts within (sum of mode sizes) * (max(maxinneriters, 2) - 1):
   the instance the check executes is covered by C11_rows_nonneg / C11_rows_inner_bound (no gap between the abstract sign contracts
   and the rational arithmetic actually run) *)
Theorem C11_rows_replay_nonneg : forall (stoptol tiny : Qc) (maxinner : nat) (inexact prestep : bool)
    (gtab : list (key * list Qc)) (stab : list (key * stepent)) (X : dense Qc) (K : ktensor Qc) (maxiters : nat),
  qnn tiny -> Forall qnn (kweights K) -> Forall (Forall (Forall qnn)) (kfactors K) ->
  match rows_replay stoptol tiny maxinner inexact prestep gtab stab X K maxiters with
  | (st, kkts, inners) =>
      Forall qnn (sw st) /\ Forall (Forall (Forall qnn)) (sA st) /\
      Forall qnn kkts /\ (length kkts <= maxiters)%nat /\ (1 <= maxiters -> 1 <= length kkts)%nat /\ length inners = length kkts /\
      (length kkts < maxiters -> sconv st = true)%nat /\
      Forall (fun c => c <= list_sum (kshape K) * Nat.pred (Nat.max maxinner 2))%nat inners
  end.
Proof. exact rows_replay_nonneg. Qed.
Print Assumptions C11_rows_replay_nonneg.

Example C11_example_rows_replay :
  let X := mkDense [2; 2]%nat [q1; q0; (q1 + q1)%Qc; q1] in
  let K := mkK [q1] [[[q1]; [q1]]; [[q1]; [(q1 + q1 + q1)%Qc]]] in
  let gtab := [((0, 0, 0, 0)%nat, [Q2Qc (-1 # 2)]); ((0, 0, 0, 1)%nat, [Q2Qc (1 # 100000)])] in
  let stab := [((0, 0, 0, 0)%nat, mkSE false [Q2Qc (3 # 1)] (Q2Qc (1 # 2)) [q1])] in
  match rows_replay (Q2Qc (1 # 10000)) (Q2Qc (1 # 100000000)) 3%nat false false gtab stab X K 1%nat with
  | (st, kkts, inners) =>
      (map this (sw st), map (map (map this)) (sA st), map this kkts, inners) =
      ([19 # 2], [[[11 # 19]; [8 # 19]]; [[1 # 4]; [3 # 4]]], [1 # 2], [1%nat])%Q
  end.
Proof. exact rows_replay_ex. Qed.
