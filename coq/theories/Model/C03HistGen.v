(* Model/C03HistGen.v — wave 5: S[i1, ..., iN] = v (v a nonzero scalar; pyttb.sptensor._set_subtensor, Case I(b)ii) for ONE
   position, transliterated over the row-set helpers GENERATED from pyttb_utils.py (Gen/GenUtils.v):

       newsz[n] = max(self.shape[n], key[n] + 1); self.shape = tuple(newsz)         (resize first)
       addsubs = the one row `sub`
       if self.subs.size > 0:
           loc = tt_intersect_rows(self.subs, addsubs); self.vals[loc] = value
           addsubs = addsubs[tt_setdiff_rows(addsubs, self.subs)]
       if addsubs.size > 0:
           self.subs = vstack((self.subs, addsubs)) / addsubs;  self.vals = vstack((self.vals, value * ones)) / value * ones

   `self.vals[loc] = value` is np_scatter_const.  Definitions only. *)
From Coq Require Import List ZArith Bool.
From PV Require Import Base.Index Np.NpZ Np.Array Gen.GenUtils Model.Sparse Model.C03Ops Model.C03Gen Model.C03Hist.
Import ListNotations.

Definition impl_set_elem_gen {V : Type} (A : sparse V) (sub : idx) (v : V) : res (sparse V) :=
  let newshape := grow_shape (sshape A) sub in
  match ssubs A with
  | [] => Ok (mkSp newshape [sub] [v])
  | _ => bind (tt_intersect_rows (zrows (ssubs A)) (zrows [sub])) (fun loc =>
         bind (gen_diff [sub] (ssubs A)) (fun add =>
         Ok (mkSp newshape (ssubs A ++ add) (np_scatter_const (svals A) loc v ++ map (fun _ => v) add))))
  end.
