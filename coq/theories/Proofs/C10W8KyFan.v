(* Proofs/C10W8KyFan.v — wave 8: KY-FAN plugged into the older abstract HOOI theorems (Proofs/C10Spectral.v hooi_monotone / hooi_steps,
   Proofs/C10Fit.v concrete_hooi_fit_monotone).  Their per-step optimality hypothesis
       ||P (y)||^2 <= ||P' (y)||^2,   y = X projected on all the OTHER factors,
   is DERIVED here from the eigen-solver contract of the step (W orthogonal, G W = W diag(mu) for the mode-n Gram matrix G of y, mu
   descending, new factor = W[:, 0:r]) through kyfan_energy (Proofs/C10KyFan.v), for P = mode-n projector M M^T of ANY old factor M with
   orthonormal columns.  Old theorems untouched. *)
From Coq Require Import String List Arith Lia Bool ZArith Reals Lra Permutation RealField.
From PV Require Import Base.Index Base.Sum Np.Array Np.NpR Model.Sparse Model.Repr Model.C10Tucker Model.C10Loop Model.C14Nvecs
                       Proofs.C10Ttm Proofs.C10Proofs Proofs.C10Spectral Proofs.C10Proj Proofs.C10ProjR Proofs.C10Recon Proofs.C10Concrete
                       Proofs.C10Rayleigh Proofs.C10Isometry Proofs.C10Seq Proofs.C10Fit Proofs.C10KyFan.
Import ListNotations.
Local Open Scope R_scope.

(* energy captured by the projector M M^T in mode n = energy of the tensor multiplied by M^T (M with orthonormal columns) *)
Lemma proj_energy (Z : dense R) (n r : nat) (M : @matrix R) :
  let s := dshape Z in let I := nth n s 0%nat in
  (n < length s)%nat -> nrows M = I -> orthocolsR I r M ->
  nrm2 (dense R) (innerR s) (projR s n (uutR I r M) Z) = normsqR (ttm 0 Rplus Rmult Z n (mtrans 0 M I r)).
Proof.
  intros s I Hn HM Ho. unfold projR, uutR. unfold I, s.
  rewrite <- (ttm_ttm_uut R 0 1 Rplus Rmult Rminus Ropp RTheory Z n r M Hn HM). fold s I.
  set (Y := ttm 0 Rplus Rmult Z n (mtrans 0 M I r)).
  assert (Hr : nrows (mtrans 0 M I r) = r) by (unfold nrows, mtrans; now rewrite map_length, seq_length).
  assert (HY : dshape Y = set_nth n r s) by (unfold Y; rewrite (dshape_ttm R 0 Rplus Rmult), Hr; reflexivity).
  assert (HnY : (n < length (dshape Y))%nat) by (rewrite HY, length_set_nth; exact Hn).
  assert (HrY : nth n (dshape Y) 0%nat = r) by (rewrite HY; now apply nth_set_nth_same).
  pose proof (norm_isometry R 0 1 Rplus Rmult Rminus Ropp RTheory Y n I M HnY HM) as Hiso. cbv zeta in Hiso.
  rewrite HrY in Hiso. specialize (Hiso Ho).
  rewrite HY in Hiso at 1. rewrite set_nth_set_nth in Hiso by exact Hn.
  replace (set_nth n I s) with s in Hiso by (symmetry; apply set_nth_self; exact Hn).
  unfold nrm2, innerR, normsqR, innerR. exact Hiso.
Qed.

Lemma dshape_applyPs_projs s : forall l (X : dense R), dshape X = s -> dshape (applyPs (dense R) (projs s l) X) = s.
Proof.
  induction l as [|[n M] l IH]; intros X HX; [exact HX|]. cbn [projs map applyPs]. apply IH.
  apply (dshape_mproj R 0 Rplus Rmult).
Qed.

Lemma projs_mid s l1 l2 n A : projs s (l1 ++ (n, A) :: l2) = projs s l1 ++ projR s n A :: projs s l2.
Proof. unfold projs. rewrite map_app. reflexivity. Qed.
Lemma projs_app s l1 l2 : projs s (l1 ++ l2) = projs s l1 ++ projs s l2.
Proof. unfold projs. now rewrite map_app. Qed.

Lemma good_mode_uut s n r (M : @matrix R) : (n < length s)%nat -> orthocolsR (nth n s 0%nat) r M ->
  good_mode s (n, uutR (nth n s 0%nat) r M).
Proof.
  intros Hn Ho. unfold good_mode. cbn [fst snd]. split; [exact Hn|]. split.
  - apply (uut_sym R 0 1 Rplus Rmult Rminus Ropp RTheory).
  - apply (uut_idem R 0 1 Rplus Rmult Rminus Ropp RTheory). exact Ho.
Qed.

Lemma good_mid s l1 l2 p : Forall (good_mode s) (l1 ++ l2) -> good_mode s p -> Forall (good_mode s) (l1 ++ p :: l2).
Proof.
  intros H Hp. apply Forall_app in H. destruct H as (H1 & H2). apply Forall_app. split; [exact H1|]. constructor; assumption.
Qed.

Lemma nodup_mid {A} (l1 l2 : list (nat * A)) n a : NoDup (map fst (l1 ++ l2)) -> ~ In n (map fst (l1 ++ l2)) ->
  NoDup (map fst (l1 ++ (n, a) :: l2)).
Proof.
  intros Hnd Hin. rewrite map_app in *. cbn [map fst]. apply NoDup_Add with (a := n) (l := map fst l1 ++ map fst l2); [|constructor; assumption].
  apply Add_app.
Qed.

Section KyFanHooi.
Variable s : shape.
Variable X : dense R.
Hypothesis HX : dshape X = s.

(* the eigen-solver contract of ONE HOOI update of mode n: the other modes' projectors are l1 ++ l2, the old factor is M, the new factor is
   the r leading columns of W *)
Definition eigen_update (l1 l2 : list (nat * @matrix R)) (n r : nat) (M W : @matrix R) (mu : list R) : Prop :=
  let I := nth n s 0%nat in let y := applyPs (dense R) (projs s (l1 ++ l2)) X in
  (n < length s)%nat /\ ~ In n (map fst (l1 ++ l2)) /\ Forall (good_mode s) (l1 ++ l2) /\ NoDup (map fst (l1 ++ l2)) /\
  (r <= I)%nat /\ nrows M = I /\ nrows W = I /\ orthocolsR I r M /\
  orthocolsR I I W /\ orthorowsR I W /\ eigen_eq s n y W mu /\
  (forall c c', (c <= c')%nat -> (c' < I)%nat -> nth c' mu 0 <= nth c mu 0).

(* Ky Fan => the optimality hypothesis of hooi_monotone / hooi_step *)
Theorem kyfan_step_opt l1 l2 n r M W mu : eigen_update l1 l2 n r M W mu ->
  let I := nth n s 0%nat in let y := applyPs (dense R) (projs s (l1 ++ l2)) X in
  nrm2 (dense R) (innerR s) (projR s n (uutR I r M) y) <= nrm2 (dense R) (innerR s) (projR s n (uutR I r (leading R r W)) y).
Proof.
  intros (Hn & _ & _ & _ & Hr & HM & HW & HoM & HoW & HrW & HE & Hd) I y.
  assert (Hy : dshape y = s) by (apply dshape_applyPs_projs; exact HX).
  pose proof (proj_energy y n r M) as E1. pose proof (proj_energy y n r (leading R r W)) as E2.
  cbv zeta in E1, E2. rewrite Hy in E1, E2. fold I in E1, E2.
  rewrite E1 by assumption.
  rewrite E2; [| exact Hn | unfold leading, nrows; rewrite map_length; exact HW | apply leading_ortho; assumption].
  pose proof (kyfan_energy y n r W M mu) as K. cbv zeta in K. rewrite Hy in K. fold I in K. apply K; assumption.
Qed.

Lemma eigen_update_lists l1 l2 n r M W mu : eigen_update l1 l2 n r M W mu ->
  let I := nth n s 0%nat in
  (Forall (good_mode s) (l1 ++ (n, uutR I r M) :: l2) /\ NoDup (map fst (l1 ++ (n, uutR I r M) :: l2))) /\
  (Forall (good_mode s) (l1 ++ (n, uutR I r (leading R r W)) :: l2) /\ NoDup (map fst (l1 ++ (n, uutR I r (leading R r W)) :: l2))).
Proof.
  intros (Hn & Hin & Hg & Hnd & Hr & HM & HW & HoM & HoW & _) I. split; split.
  - apply good_mid; [exact Hg|]. now apply good_mode_uut.
  - now apply nodup_mid.
  - apply good_mid; [exact Hg|]. apply good_mode_uut; [exact Hn|]. apply leading_ortho; assumption.
  - now apply nodup_mid.
Qed.

(* C10_hooi_monotone with its optimality hypothesis discharged: one update under the eigen contract never decreases ||core||^2 *)
Theorem kyfan_hooi_monotone l1 l2 n r M W mu : eigen_update l1 l2 n r M W mu ->
  let I := nth n s 0%nat in
  nrm2 (dense R) (innerR s) (applyPs (dense R) (projs s (l1 ++ (n, uutR I r M) :: l2)) X) <=
  nrm2 (dense R) (innerR s) (applyPs (dense R) (projs s (l1 ++ (n, uutR I r (leading R r W)) :: l2)) X).
Proof.
  intros H I. destruct (eigen_update_lists _ _ _ _ _ _ _ H) as ((G1 & N1) & (G2 & N2)). fold I in G1, N1, G2, N2.
  pose proof (kyfan_step_opt _ _ _ _ _ _ _ H) as Hopt. cbv zeta in Hopt. fold I in Hopt.
  rewrite !projs_mid. rewrite projs_app in Hopt.
  apply (hooi_monotone (dense R) (innerR s)).
  - rewrite <- projs_mid. now apply modes_commute.
  - rewrite <- projs_mid. now apply modes_commute.
  - exact Hopt.
Qed.

(* any number of updates, in any mode order, each under the eigen contract of ITS call *)
Inductive eigen_steps : list (nat * @matrix R) -> list (nat * @matrix R) -> Prop :=
| es_refl : forall l, eigen_steps l l
| es_step : forall l1 l2 n r M W mu l'',
    eigen_update l1 l2 n r M W mu ->
    eigen_steps (l1 ++ (n, uutR (nth n s 0%nat) r (leading R r W)) :: l2) l'' ->
    eigen_steps (l1 ++ (n, uutR (nth n s 0%nat) r M) :: l2) l''.

Theorem eigen_steps_hooi_steps l l' : eigen_steps l l' -> hooi_steps (dense R) (innerR s) X (projs s l) (projs s l').
Proof.
  induction 1 as [l|l1 l2 n r M W mu l'' Hu _ IH]; [apply hooi_refl|].
  destruct (eigen_update_lists _ _ _ _ _ _ _ Hu) as ((G1 & N1) & (G2 & N2)).
  pose proof (kyfan_step_opt _ _ _ _ _ _ _ Hu) as Hopt. cbv zeta in Hopt. rewrite projs_app in Hopt.
  rewrite projs_mid. rewrite projs_mid in IH.
  eapply hooi_step; [| |exact Hopt|exact IH].
  - rewrite <- projs_mid. now apply modes_commute.
  - rewrite <- projs_mid. now apply modes_commute.
Qed.

Lemma eigen_steps_good l l' : eigen_steps l l' ->
  Forall (good_mode s) l' /\ NoDup (map fst l') -> Forall (good_mode s) l /\ NoDup (map fst l).
Proof.
  induction 1 as [l|l1 l2 n r M W mu l'' Hu _ _]; intros H'; [exact H'|].
  exact (proj1 (eigen_update_lists _ _ _ _ _ _ _ Hu)).
Qed.

(* C10_hooi_fit_monotone / concrete_hooi_fit_monotone with the hooi_steps hypothesis discharged from the eigen contracts *)
Theorem kyfan_hooi_fit_monotone l l' : eigen_steps l l' ->
  Forall (good_mode s) l' -> NoDup (map fst l') -> 0 < nrm2 (dense R) (innerR s) X ->
  nrm2 (dense R) (innerR s) (applyPs (dense R) (projs s l) X) <= nrm2 (dense R) (innerR s) (applyPs (dense R) (projs s l') X) /\
  nrm2 (dense R) (innerR s) X - nrm2 (dense R) (innerR s) (applyPs (dense R) (projs s l') X) <=
  nrm2 (dense R) (innerR s) X - nrm2 (dense R) (innerR s) (applyPs (dense R) (projs s l) X) /\
  1 - sqrt (nrm2 (dense R) (innerR s) (subR s X (applyPs (dense R) (projs s l) X))) / sqrt (nrm2 (dense R) (innerR s) X) <=
  1 - sqrt (nrm2 (dense R) (innerR s) (subR s X (applyPs (dense R) (projs s l') X))) / sqrt (nrm2 (dense R) (innerR s) X).
Proof.
  intros H G' N' Hpos. destruct (eigen_steps_good l l' H (conj G' N')) as (G & N).
  pose proof (eigen_steps_hooi_steps l l' H) as Hs.
  destruct (concrete_hooi_fit_monotone s l l' X G N G' N' Hs Hpos) as (A & B).
  split; [exact A|]. split; [|exact B].
  apply (hooi_fit_monotone (dense R) (innerR s)). exact Hs.
Qed.
End KyFanHooi.

(* non-vacuity: the 2 x 3 array [[3,0,0],[0,1,0]], mode 0, no other mode projected, old factor e_2 (captures 1), W = I_2, mu = (9, 1):
   the eigen contract holds, the update e_2 -> e_1 is an eigen step, and the captured energy grows from 1 to 9 *)
Example kyfan_hooi_example :
  let s := [2; 3]%nat in let M := ([[0]; [1]] : @matrix R) in
  eigen_update s exX [] [] 0 1 M exI2 [9; 1] /\
  eigen_steps s exX [(0%nat, uutR 2 1 M)] [(0%nat, uutR 2 1 (leading R 1 exI2))] /\
  nrm2 (dense R) (innerR s) (applyPs (dense R) (projs s [(0%nat, uutR 2 1 M)]) exX) = 1 /\
  nrm2 (dense R) (innerR s) (applyPs (dense R) (projs s [(0%nat, uutR 2 1 (leading R 1 exI2))]) exX) = 9.
Proof.
  intros s M.
  assert (Hu : eigen_update s exX [] [] 0 1 M exI2 [9; 1]).
  { unfold eigen_update. cbn [app map applyPs projs]. change (nth 0 s 0%nat) with 2%nat.
    split; [cbn; lia|]. split; [intros []|]. split; [constructor|]. split; [constructor|]. split; [lia|].
    split; [reflexivity|]. split; [reflexivity|]. split; [|split; [|split; [|split]]].
    - intros j l Hj Hl. destruct j as [|j], l as [|l]; try lia; cbn; lra.
    - intros j l Hj Hl. destruct j as [|[|j]], l as [|[|l]]; try lia; cbn; lra.
    - intros j l Hj Hl. destruct j as [|[|j]], l as [|[|l]]; try lia; cbn; lra.
    - intros a j Ha Hj. cbn in Ha, Hj. destruct a as [|[|a]], j as [|[|j]]; try lia; unfold gramR, gram_spec; cbn; lra.
    - intros c c' Hc Hc'. destruct c' as [|[|c']]; [|destruct c as [|[|c]]|]; try lia; cbn; try lra.
      assert (c = 0)%nat as -> by lia. cbn. lra. }
  split; [exact Hu|]. split.
  - apply (es_step s exX [] [] 0 1 M exI2 [9; 1] _ Hu). apply es_refl.
  - split; unfold nrm2, innerR, dinner; cbn; lra.
Qed.
