(* Proofs/C20Teneye.v — the identity action of teneye, proved for order 2 (the general statement is C20_teneye_identity_stmt). *)
From Coq Require Import List Arith ZArith Bool QArith Qcanon Lia Ring.
From PV Require Import Base.Index Base.Sum Np.Array Model.Sparse Model.Repr Model.Harness Model.C20Gen Model.C20Harness Proofs.C20Proofs.
Import ListNotations.
Local Open Scope nat_scope.
Lemma two_half : (Q2Qc (Z.of_nat 2 # 1) / fact_q 2)%Qc = q1.
Proof. apply Qc_is_canon. vm_compute. reflexivity. Qed.
Lemma zero_half : (Q2Qc (Z.of_nat 0 # 1) / fact_q 2)%Qc = q0.
Proof. apply Qc_is_canon. vm_compute. reflexivity. Qed.

Theorem teneye_identity_order2 n (x : list Qc) a : length x = n -> a < n ->
  ttsv1 (tabulate (repeat n 2) (teneye_entry 2)) 2 n x a = (qpow (qdot x) (2 / 2 - 1) * nth a x q0)%Qc.
Proof.
  intros HL Ha. unfold ttsv1. cbn [repeat Nat.sub]. change (2 / 2 - 1) with 0. cbn [qpow].
  change (fold_right Qcplus q0 (map ?f ?l)) with (sum_over q0 Qcplus l f).
  unfold allsubs. rewrite sum_over_map.
  rewrite (sum_over_single Qc q0 q1 Qcplus Qcmult Qcminus Qcopp Qcrt _ a).
  - cbn [ind2sub]. rewrite Nat.mod_small by (cbn; lia). unfold qden. rewrite den_tabulate.
    + unfold teneye_entry. rewrite teneye_count_2, Nat.eqb_refl, two_half. unfold qprodx. cbn [fold_right]. unfold q1. ring.
    + cbn. apply andb_true_iff; split; [|rewrite andb_true_r]; apply Nat.ltb_lt; lia.
  - apply seq_NoDup.
  - apply in_seq. cbn. lia.
  - intros k Hk Hne. apply in_seq in Hk. cbn in Hk. cbn [ind2sub]. rewrite Nat.mod_small by lia.
    unfold qden. rewrite den_tabulate.
    + unfold teneye_entry. rewrite teneye_count_2. destruct (Nat.eqb_spec a k); [congruence|]. rewrite zero_half. unfold q0. ring.
    + cbn. apply andb_true_iff; split; [|rewrite andb_true_r]; apply Nat.ltb_lt; lia.
Qed.
