(* Model/C09Als.v — exact-arithmetic model of pyttb.cp_als (one mode update, one sweep) and the quantities it reports.
   Source anchors: pyttb/cp_als.py:181-250 (UtU, mttkrp, Y = prod of Grams, solve, column scaling, iprod/fit),
   pyttb/ktensor.py (norm, innerprod), pyttb/{tensor,sptensor,ttensor,sumtensor}.py (mttkrp, innerprod, norm) — the data
   holder enters only through its denotation X : idx -> V (spec side) or through an abstract mttkrp function (executable side).
   Definitions only (proofs in Proofs/C09*.v). Values: any commutative ring given by Section variables; LAPACK `solve` and the
   column-scaling (sqrt / max) are ORACLES (Section variables) whose contracts are stated next to the theorems that use them. *)
From Coq Require Import List Arith Lia Bool.
From PV Require Import Base.Index Base.Sum Np.Array Model.Sparse Model.Repr.
Import ListNotations.

Section Als.
Context {V : Type} (v0 v1 : V) (vadd vmul vsub : V -> V -> V).
Local Notation mx := (@matrix V).
Local Notation "x + y" := (vadd x y).
Local Notation "x * y" := (vmul x y).
Local Notation "x - y" := (vsub x y).
Local Notation SUM := (sum_over v0 vadd).
Local Notation SUMN := (sum_n v0 vadd).
Local Notation mg := (mget v0).

(* ---------------------------------------------------------------------------------------------- *)
(* spec side: everything on denotations                                                            *)
(* ---------------------------------------------------------------------------------------------- *)

(* Π_{m <> n} A_m[i_m, r]  (the Khatri-Rao row that multiplies X(i) in the mode-n MTTKRP) *)
Fixpoint kprod_ex (n : nat) (As : list mx) (i : idx) (r : nat) : V :=
  match As, i with
  | A :: As', x :: i' =>
      match n with
      | O => kprod v0 v1 vmul As' i' r
      | S n' => mg A x r * kprod_ex n' As' i' r
      end
  | _, _ => v1
  end.

(* mode-n MTTKRP of the array X (a denotation on shape s) with the factor list As: entry (j, r) *)
Definition mttkrp_den (s : shape) (X : idx -> V) (As : list mx) (n j r : nat) : V :=
  SUM (allsubs s) (fun i => if Nat.eqb (nth n i 0) j then X i * kprod_ex n As i r else v0).

Definition innerprod_den (s : shape) (X Y : idx -> V) : V := SUM (allsubs s) (fun i => X i * Y i).
Definition normsq_den (s : shape) (X : idx -> V) : V := innerprod_den s X X.
(* || X - M ||^2 *)
Definition resid_den (s : shape) (X M : idx -> V) : V := normsq_den s (fun i => X i - M i).

(* Gram matrix entry (A^T A)[r,t] and the Hadamard product of the Grams of all modes but n: cp_als's Y *)
Definition gram (A : mx) (r t : nat) : V := SUMN (nrows A) (fun j => mg A j r * mg A j t).
Fixpoint gramall (As : list mx) (r t : nat) : V :=
  match As with [] => v1 | A :: As' => gram A r t * gramall As' r t end.
Fixpoint gramhad (n : nat) (As : list mx) (r t : nat) : V :=
  match As with
  | [] => v1
  | A :: As' => match n with O => gramall As' r t | S n' => gram A r t * gramhad n' As' r t end
  end.

(* cp_als line 238: iprod = sum_r weights[r] * sum_j A_n[j,r] * P[j,r] *)
Definition iprod_saved (R I : nat) (w : list V) (A : mx) (P : nat -> nat -> V) : V :=
  SUMN R (fun r => nth r w v0 * SUMN I (fun j => mg A j r * P j r)).

(* the Kruskal model as a LINEAR function of the (weight-absorbed) mode-n factor a : row -> column -> V *)
Definition kmodel (n : nat) (As : list mx) (R : nat) (a : nat -> nat -> V) (i : idx) : V :=
  SUMN R (fun r => a (nth n i 0) r * kprod_ex n As i r).

(* normal equations of the mode-n least-squares problem, row j / column t:  sum_r a[j,r] * Y[r,t] = P[j,t] *)
Definition normal_eq (s : shape) (X : idx -> V) (n : nat) (As : list mx) (R : nat) (a : nat -> nat -> V) : Prop :=
  forall j t, j < nth n s 0 -> t < R ->
    SUMN R (fun r => a j r * gramhad n As r t) = mttkrp_den s X As n j t.

(* ---------------------------------------------------------------------------------------------- *)
(* executable side: matrices as row lists; the data enters through its mttkrp function             *)
(* ---------------------------------------------------------------------------------------------- *)

Definition tabmx (I R : nat) (f : nat -> nat -> V) : mx := map (fun j => map (fun r => f j r) (seq 0 R)) (seq 0 I).
Definition mttkrp_mat (s : shape) (X : idx -> V) (As : list mx) (n R : nat) : mx :=
  tabmx (nth n s 0) R (fun j r => mttkrp_den s X As n j r).
Definition ymat (n : nat) (As : list mx) (R : nat) : mx := tabmx R R (fun r t => gramhad n As r t).
Definition matmul_ent (R : nat) (A Y : mx) (j t : nat) : V := SUMN R (fun r => mg A j r * mg Y r t).

Record als_state := mkAls { st_w : list V; st_U : list mx; st_P : mx }.

Section Sweep.
Variable mk : list mx -> nat -> mx.          (* input_tensor.mttkrp(U, n) *)
Variable solve : mx -> mx -> mx.             (* solve Y P = A with A . Y = P   (np.linalg.solve(Y.T, P.T).T; zeros when Y == 0) *)
Variable scale : nat -> mx -> list V * mx.   (* iteration, A |-> (weights, A / weights)  (2-norm at iteration 0, max(max|.|,1) later) *)
Variable R : nat.

Definition als_update (it : nat) (st : als_state) (n : nat) : als_state :=
  let P := mk (st_U st) n in
  let A := solve (ymat n (st_U st) R) P in
  let wa := scale it A in
  mkAls (fst wa) (upd (st_U st) n (snd wa)) P.

Definition als_sweep (it : nat) (dims : list nat) (st : als_state) : als_state :=
  fold_left (als_update it) dims st.

(* sweeps 0 .. k-1 *)
Fixpoint als_iter (k : nat) (dims : list nat) (st : als_state) : als_state :=
  match k with
  | O => st
  | S k' => als_sweep k' dims (als_iter k' dims st)
  end.
End Sweep.

Definition st_model (st : als_state) : ktensor V := mkK (st_w st) (st_U st).

End Als.

Arguments als_state V : clear implicits.
Arguments mkAls {V} st_w st_U st_P.
