(* Proofs/C17A41Fix.v — wave 5: the two-line repair of finding A-41 recorded in findings.d/C17.jsonl, as a model, with the
   theorem that it meets the FULL contract for ALL arguments (repeated rows anywhere).

     repair:  tt_intersect_rows   return np.sort(idxA)[location[valid]]
              tt_setdiff_rows     return np.setdiff1d(idxA, np.sort(idxA)[location[valid]])

   Over the facts already proved about the regenerated code (tt_intersect_rows_gen / tt_setdiff_rows_gen, Proofs/C17Dup.v):
   location[valid] = ranks of the common rows among the distinct rows of A, np.sort(idxA) = firstpos A.  The repaired results are
       repaired_intersect A B = first positions (in A) of the common rows, in B's order of first occurrence
       repaired_setdiff  A B = first positions of the distinct rows of A that do not occur in B, ascending
   and A[result] is exactly the set-algebra answer (repair_intersect_contract, repair_setdiff_contract).  On requests outside
   the A-41 trigger the repair returns what the current code returns (repair_agrees_outside) — so no caller that is served
   correctly today sees a change.  This is a hand model of the repair (the repair is NOT applied to /repo: it changes
   Gen/GenUtils.v and with it theorems of C03 and C17 that must be restated in the same step). *)
From Coq Require Import List ZArith Arith Bool Lia Permutation Sorted.
From PV Require Import Base.Index Np.NpZ Np.NpZ2 Proofs.NpZProofs Gen.GenUtils Gen.GenUtils2 Proofs.RowsProofs Proofs.C03Rows
  Proofs.GenRows Proofs.C17Dup Proofs.GenWrapDims Proofs.C17A41 Proofs.C17A41b.
Import ListNotations.
Local Open Scope Z_scope.

Definition repaired_intersect (A B : mat) : vec := np_take 0 (firstpos A) (cranks A B).
Definition repaired_setdiff (A B : mat) : vec :=
  filter (fun x => negb (zmem x (repaired_intersect A B))) (firstpos A).

Lemma firstpos_length A : length (firstpos A) = length (dedup A).
Proof.
  pose proof (a41_ctx_holds A) as cx. rewrite <- (cx_snd _ _ cx), map_length. exact (cx_len _ _ cx).
Qed.

Lemma firstpos_inj A j k : (j < length (dedup A))%nat -> (k < length (dedup A))%nat ->
  nth j (firstpos A) 0 = nth k (firstpos A) 0 -> j = k.
Proof.
  intros Hj Hk E. pose proof (firstpos_sorted A) as Hs. pose proof (firstpos_length A) as HL.
  destruct (Nat.lt_trichotomy j k) as [H|[H|H]]; [|exact H|].
  - pose proof (sorted_gap (firstpos A) Hs j k ltac:(lia) ltac:(lia)). lia.
  - pose proof (sorted_gap (firstpos A) Hs k j ltac:(lia) ltac:(lia)). lia.
Qed.

(* the rank of a row of A among the distinct rows *)
Lemma rank_of A r : In r A -> exists j, loc (dedup A) r = Z.of_nat j /\ (j < length (dedup A))%nat /\ nth j (dedup A) [] = r.
Proof.
  intros Hr. destruct (dedup_reading (dedup A)) as (_ & _ & _ & _ & _ & _ & Hloc).
  exact (Hloc r (proj2 (dedup_in A r) Hr)).
Qed.

Theorem repair_intersect_contract (A B : mat) :
  np_take [] A (repaired_intersect A B) = filter (inrows A) (dedup B).
Proof.
  unfold repaired_intersect, cranks. fold (common A B). unfold np_take. rewrite !map_map.
  rewrite <- (map_id (common A B)) at 2. apply map_ext_in. intros r Hr. apply common_in in Hr as [HrA _].
  destruct (rank_of A r HrA) as (j & El & Hj & Hn). rewrite El, znth_nat.
  pose proof (a41_ctx_holds A) as cx. destruct (cx_at _ _ cx j Hj) as (jj & Es & _ & Ef).
  rewrite Es, znth_nat, <- Ef. exact Hn.
Qed.

(* every pair of P is (d_j, f_j) for a rank j *)
Lemma pairs_at A p : In p (firstpairs (combine A (tags A))) ->
  exists j, (j < length (dedup A))%nat /\ fst p = nth j (dedup A) [] /\ snd p = nth j (firstpos A) 0.
Proof.
  intros Hp. pose proof (a41_ctx_holds A) as cx. pose proof (cx_len _ _ cx) as HL.
  apply (In_nth _ _ ([], 0)) in Hp as (j & Hj & E). pose proof (cx_nth _ _ cx j Hj) as En.
  assert (Ep : p = (nth j (dedup A) [], nth j (firstpos A) 0)) by (rewrite <- E; exact En).
  exists j. split; [rewrite <- HL; exact Hj|]. rewrite Ep. split; reflexivity.
Qed.

Theorem repair_setdiff_contract (A B : mat) :
  np_take [] A (repaired_setdiff A B) = filter (fun r => negb (inrows B r)) (dedup A).
Proof.
  unfold repaired_setdiff. pose proof (a41_ctx_holds A) as cx. set (P := firstpairs (combine A (tags A))) in *.
  rewrite <- (cx_snd _ _ cx), <- (cx_fst _ _ cx). rewrite !filter_of_map. unfold np_take. rewrite map_map.
  assert (Hkey : forall p, In p P -> zmem (snd p) (repaired_intersect A B) = inrows B (fst p)).
  { intros p Hp. destruct (pairs_at A p Hp) as (j & Hj & Ef & Es). rewrite Ef, Es.
    apply eq_true_iff_eq. rewrite zmem_in, inrows_spec. unfold repaired_intersect, np_take. rewrite in_map_iff. split.
    - intros (x & Ex & Hx). destruct (cranks_range A B x Hx) as (k & -> & Hk). rewrite znth_nat in Ex.
      apply firstpos_inj in Ex; [|exact Hk|exact Hj]. subst k. now apply (cranks_spec A B j Hj).
    - intros HB. exists (Z.of_nat j). split; [apply znth_nat|]. now apply (cranks_spec A B j Hj). }
  rewrite (filter_ext_in _ (fun x => negb (inrows B (fst x))) P) by (intros p Hp; cbv beta; now rewrite Hkey).
  apply map_ext_in. intros p Hp. apply filter_In in Hp as [Hp _].
  destruct (cx_pos _ _ cx p Hp) as (jj & Es & _ & Ef). destruct p as [r z]. cbn [fst snd] in *. subst z r. apply znth_nat.
Qed.

(* the repaired results are row indices of A, ascending for setdiff *)
Theorem repair_setdiff_sorted (A B : mat) : StronglySorted Z.lt (repaired_setdiff A B).
Proof.
  unfold repaired_setdiff. generalize (firstpos_sorted A). generalize (firstpos A). intros F Hs.
  induction F as [|x F IH]; cbn [filter]; [constructor|]. apply StronglySorted_inv in Hs as [Hs Hx].
  destruct (negb _); [|now apply IH]. constructor; [now apply IH|].
  rewrite Forall_forall in *. intros y Hy. apply filter_In in Hy as [Hy _]. now apply Hx.
Qed.

(* outside the trigger nothing changes *)
Theorem repair_agrees_outside (A B : mat) : okw A -> okw B -> a41_trigger A B = false ->
  tt_intersect_rows A B = Ok (repaired_intersect A B) /\ tt_setdiff_rows A B = Ok (repaired_setdiff A B).
Proof.
  intros HA HB Htr.
  assert (E : repaired_intersect A B = cranks A B).
  { unfold repaired_intersect, np_take. rewrite <- (map_id (cranks A B)) at 2. apply map_ext_in. intros x Hx.
    destruct (cranks_range A B x Hx) as (j & -> & Hj). rewrite znth_nat.
    destruct (Z.eq_dec (nth j (firstpos A) 0) (Z.of_nat j)) as [Ef|Ne]; [exact Ef|exfalso].
    pose proof (a41_ctx_holds A) as cx. pose proof (cx_len _ _ cx) as HL. pose proof (cx_ge _ _ cx j ltac:(lia)) as Hge.
    (* a common row whose first position exceeds its rank IS the trigger *)
    apply (cranks_spec A B j Hj) in Hx.
    assert (Ht : a41_trigger A B = true); [|rewrite Htr in Ht; discriminate].
    unfold a41_trigger. apply existsb_exists. exists (nth j (dedup A) []). split.
    - apply (common_in A B). split; [apply (dedup_in A); now apply nth_In|exact Hx].
    - apply negb_true_iff. apply not_true_is_false. intros Eq. apply row_eqb_spec in Eq.
      destruct (rank_of A (nth j (dedup A) [])) as (k & El & Hk & Hn); [apply (dedup_in A); now apply nth_In|].
      assert (k = j) by (apply (proj1 (NoDup_nth (dedup A) []) (dedup_nodup A)); auto). subst k.
      rewrite El, znth_nat in Eq. apply Ne. now apply (cx_fix _ _ cx j ltac:(lia)). }
  split.
  - rewrite (tt_intersect_rows_gen A B HA HB). now rewrite E.
  - rewrite (tt_setdiff_rows_gen A B HA HB). unfold repaired_setdiff. now rewrite E.
Qed.

Theorem repair_contract (A B : mat) :
  np_take [] A (repaired_intersect A B) = filter (inrows A) (dedup B) /\
  np_take [] A (repaired_setdiff A B) = filter (fun r => negb (inrows B r)) (dedup A) /\
  StronglySorted Z.lt (repaired_setdiff A B).
Proof.
  split; [apply repair_intersect_contract|]. split; [apply repair_setdiff_contract|apply repair_setdiff_sorted].
Qed.

Example repair_witness :
  repaired_intersect [[1]; [1]; [2]] [[2]] = [2] /\ repaired_setdiff [[1]; [1]; [2]] [[2]] = [0] /\
  repaired_intersect [[1]; [1]; [2]; [3]] [[3]; [2]] = [3; 2] /\ repaired_setdiff [[1]; [1]; [2]; [3]; [1]] [[3]] = [0; 2].
Proof. repeat split; reflexivity. Qed.
