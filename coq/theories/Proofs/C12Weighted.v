(* Proofs/C12Weighted.v — finding C12-W1 decided in Coq (over the reals, all shapes / ranks / numbers of modes / weight arrays):
   for a Kruskal model WITH component weights the exact partial derivative of the objective eval_F in the entry (j, r) of the
   k-th factor matrix is  weights[r] * (the matrix fg.evaluate returns)[k][j, r]  — the matrices returned
   (tensor(Y).mttkrps(model.factor_matrices), Model/C12Gcp.v eval_G) lack the factor weights[r]; they are the partial
   derivatives exactly when that weight is 1 or the entry vanishes.  Generalises Proofs/C12TensorR.v (unit weights). *)
From Coq Require Import List Arith Lia Bool Reals Lra.
From Coquelicot Require Import Coquelicot.
From PV Require Import Base.Index Base.Sum Np.Array Model.Sparse Model.Repr Model.C12Gcp Proofs.C12Tensor Proofs.C12TensorR.
Import ListNotations.
Local Open Scope R_scope.

Section GradW.

Notation matR := (list (list R)).
Notation msumR := (sum_over 0 Rplus).
Notation dkR := (den_k 0 1 Rplus Rmult).
Notation mgR := (mget 0).
Notation ksR := (kprod_skip 0 1 Rmult).
Notation RSO_single := (sum_over_single R 0 1 Rplus Rmult Rminus Ropp RTheory).
Notation RSO_zero := (sum_over_zero R 0 1 Rplus Rmult Rminus Ropp RTheory).
Notation RSO_ext := (sum_over_ext R 0 Rplus).

Theorem eval_gradient_weighted_pointwise :
  forall (f g : R -> R -> R) (K : ktensor R) (X : dense R) (w : option (dense R)) (k j r : nat),
  (forall i, inb (dshape X) i = true ->
     is_derive (fun m => f (den_dense 0 X i) m) (dkR K i) (g (den_dense 0 X i) (dkR K i))) ->
  wf_k K ->
  (k < length (kfactors K))%nat ->
  (j < nrows (nth k (kfactors K) []))%nat ->
  (r < krank K)%nat ->
  dshape X = kshape K ->
  is_derive (fun t => eval_F 0 1 Rplus Rmult f (kset R K k (mset (nth k (kfactors K) []) j r t)) X w)
            (mgR (nth k (kfactors K) []) j r)
            (nth r (kweights K) 0 * mgR (nth k (eval_G 0 1 Rplus Rmult g K X w) []) j r).
Proof.
  intros f g K X w k j r Hfg Hwf Hk Hj Hr Hs.
  set (A := nth k (kfactors K) []) in *.
  assert (Hrow : (r < length (nth j A []))%nat).
  { unfold wf_k in Hwf. rewrite Forall_forall in Hwf.
    assert (HA : In A (kfactors K)) by (apply nth_In; auto).
    specialize (Hwf A HA). rewrite Forall_forall in Hwf.
    rewrite (Hwf (nth j A [])) by (apply nth_In; exact Hj). exact Hr. }
  assert (Hsh : forall t, kshape (kset R K k (mset A j r t)) = kshape K).
  { intros t. apply kshape_kset. unfold nrows. rewrite mset_length. symmetry. apply nth_kshape. }
  assert (HK0 : kset R K k (mset A j r (mgR A j r)) = K).
  { rewrite mset_same. unfold kset. destruct K as [wt As]. cbn [kweights kfactors] in *. f_equal.
    now apply (upd_same _ _ _ []). }
  set (lr := nth r (kweights K) 0).
  set (Dd := fun i : idx => if Nat.eqb (nth k i 0%nat) j then lr * ksR (kfactors K) i r k else 0).
  replace (lr * mgR (nth k (eval_G 0 1 Rplus Rmult g K X w) []) j r)
    with (msumR (allsubs (dshape X))
            (fun i => wget 0 1 w i * (Dd i * g (den_dense 0 X i) (dkR K i)))).
  2:{ unfold eval_G. rewrite (nth_map_seq _ _ k []) by (rewrite Hs, kshape_length; exact Hk).
      rewrite mget_mttkrp_den; [| rewrite Hs, nth_kshape; exact Hj | exact Hr].
      rewrite (sum_over_filter R 0 1 Rplus Rmult Rminus Ropp RTheory).
      rewrite <- (sum_over_scale_l R 0 1 Rplus Rmult Rminus Ropp RTheory).
      apply RSO_ext. intros i _. unfold Dd, eval_Y.
      destruct (Nat.eqb (nth k i 0%nat) j); ring. }
  unfold eval_F.
  apply (is_derive_msum (allsubs (dshape X))
           (fun i t => f (den_dense 0 X i) (dkR (kset R K k (mset A j r t)) i) * wget 0 1 w i)).
  intros i Hi. apply in_allsubs in Hi.
  assert (Hm : is_derive (fun t => dkR (kset R K k (mset A j r t)) i) (mgR A j r) (Dd i)).
  { apply (is_derive_ext (fun t => msumR (seq 0 (krank K)) (fun q =>
             nth q (kweights K) 0 * (mgR (mset A j r t) (nth k i 0%nat) q * ksR (kfactors K) i q k)))).
    { intros t. symmetry.
      apply (den_kset R 0 1 Rplus Rmult Rminus Ropp RTheory K k (mset A j r t) i Hk).
      rewrite Hsh, <- Hs. exact Hi. }
    replace (Dd i) with (msumR (seq 0 (krank K)) (fun q =>
       if (Nat.eqb (nth k i 0%nat) j && Nat.eqb q r)%bool
       then nth q (kweights K) 0 * ksR (kfactors K) i q k else 0)).
    2:{ unfold Dd. destruct (Nat.eqb (nth k i 0%nat) j); cbn [andb].
        - rewrite (RSO_single (seq 0 (krank K)) r).
          + rewrite Nat.eqb_refl. reflexivity.
          + apply seq_NoDup.
          + apply in_seq. lia.
          + intros a _ Ha. apply Nat.eqb_neq in Ha. now rewrite Ha.
        - apply RSO_zero. reflexivity. }
    apply (is_derive_msum (seq 0 (krank K))
      (fun q t => nth q (kweights K) 0 * (mgR (mset A j r t) (nth k i 0%nat) q * ksR (kfactors K) i q k))).
    intros q _.
    apply (is_derive_ext (fun t => nth q (kweights K) 0 *
             ((if (Nat.eqb (nth k i 0%nat) j && Nat.eqb q r)%bool then t else mgR A (nth k i 0%nat) q)
              * ksR (kfactors K) i q k))).
    { intros t. now rewrite mget_mset by auto. }
    destruct (Nat.eqb (nth k i 0%nat) j && Nat.eqb q r)%bool.
    - auto_derive; [exact I | ring].
    - auto_derive; [exact I | ring]. }
  apply (is_derive_ext (fun t => wget 0 1 w i *
           f (den_dense 0 X i) (dkR (kset R K k (mset A j r t)) i))).
  { intros t. apply Rmult_comm. }
  apply is_derive_scal.
  apply (is_derive_comp (fun m => f (den_dense 0 X i) m)
           (fun t => dkR (kset R K k (mset A j r t)) i) (mgR A j r)).
  - cbv beta. rewrite HK0. apply Hfg. exact Hi.
  - exact Hm.
Qed.

(* every loss whose gradient handle is its derivative on m >= lb, every model (ANY weights) respecting the bound *)
Theorem eval_gradient_weighted :
  forall (lb : R) (f g : R -> R -> R) (K : ktensor R) (X : dense R) (w : option (dense R)) (k j r : nat),
  (forall x m, lb <= m -> is_derive (fun m => f x m) m (g x m)) ->
  (forall i, inb (kshape K) i = true -> lb <= dkR K i) ->
  wf_k K ->
  (k < length (kfactors K))%nat ->
  (j < nrows (nth k (kfactors K) []))%nat ->
  (r < krank K)%nat ->
  dshape X = kshape K ->
  is_derive (fun t => eval_F 0 1 Rplus Rmult f (kset R K k (mset (nth k (kfactors K) []) j r t)) X w)
            (mgR (nth k (kfactors K) []) j r)
            (nth r (kweights K) 0 * mgR (nth k (eval_G 0 1 Rplus Rmult g K X w) []) j r).
Proof.
  intros lb f g K X w k j r Hfg Hlb Hwf Hk Hj Hr Hs.
  apply eval_gradient_weighted_pointwise; auto. intros i Hi. apply Hfg. apply Hlb. now rewrite <- Hs.
Qed.

(* C12-W1: the matrix entry fg.evaluate returns is NOT the partial derivative whenever the component weight is not 1 and
   the entry is not 0 *)
Theorem eval_G_unweighted_refuted_pointwise :
  forall (f g : R -> R -> R) (K : ktensor R) (X : dense R) (w : option (dense R)) (k j r : nat),
  (forall i, inb (dshape X) i = true ->
     is_derive (fun m => f (den_dense 0 X i) m) (dkR K i) (g (den_dense 0 X i) (dkR K i))) ->
  wf_k K ->
  (k < length (kfactors K))%nat ->
  (j < nrows (nth k (kfactors K) []))%nat ->
  (r < krank K)%nat ->
  dshape X = kshape K ->
  nth r (kweights K) 0 <> 1 ->
  mgR (nth k (eval_G 0 1 Rplus Rmult g K X w) []) j r <> 0 ->
  ~ is_derive (fun t => eval_F 0 1 Rplus Rmult f (kset R K k (mset (nth k (kfactors K) []) j r t)) X w)
              (mgR (nth k (kfactors K) []) j r)
              (mgR (nth k (eval_G 0 1 Rplus Rmult g K X w) []) j r).
Proof.
  intros f g K X w k j r Hfg Hwf Hk Hj Hr Hs Hl HG Hd.
  pose proof (eval_gradient_weighted_pointwise f g K X w k j r Hfg Hwf Hk Hj Hr Hs) as Hd2.
  apply is_derive_unique in Hd. apply is_derive_unique in Hd2. rewrite Hd in Hd2.
  set (G := mgR (nth k (eval_G 0 1 Rplus Rmult g K X w) []) j r) in *.
  set (l := nth r (kweights K) 0) in *.
  assert (E : (l - 1) * G = 0) by lra.
  apply Rmult_integral in E. destruct E; [apply Hl; lra | contradiction].
Qed.

Theorem eval_G_unweighted_refuted :
  forall (lb : R) (f g : R -> R -> R) (K : ktensor R) (X : dense R) (w : option (dense R)) (k j r : nat),
  (forall x m, lb <= m -> is_derive (fun m => f x m) m (g x m)) ->
  (forall i, inb (kshape K) i = true -> lb <= dkR K i) ->
  wf_k K ->
  (k < length (kfactors K))%nat ->
  (j < nrows (nth k (kfactors K) []))%nat ->
  (r < krank K)%nat ->
  dshape X = kshape K ->
  nth r (kweights K) 0 <> 1 ->
  mgR (nth k (eval_G 0 1 Rplus Rmult g K X w) []) j r <> 0 ->
  ~ is_derive (fun t => eval_F 0 1 Rplus Rmult f (kset R K k (mset (nth k (kfactors K) []) j r t)) X w)
              (mgR (nth k (kfactors K) []) j r)
              (mgR (nth k (eval_G 0 1 Rplus Rmult g K X w) []) j r).
Proof.
  intros lb f g K X w k j r Hfg Hlb Hwf Hk Hj Hr Hs.
  apply eval_G_unweighted_refuted_pointwise; auto. intros i Hi. apply Hfg. apply Hlb. now rewrite <- Hs.
Qed.

End GradW.

(* non-vacuity (the witness of the finding): 2 x 2 model, one component of weight 2, factors (1,2) and (1,1), all-zero data,
   Gaussian loss: the returned entry [0][0,0] is 8, the partial derivative is 16 *)
Section Witness.
Let K : ktensor R := mkK [2] [ [[1]; [2]]; [[1]; [1]] ].
Let X : dense R := mkDense [2; 2]%nat [0; 0; 0; 0].
Let f (x m : R) : R := (m - x) * (m - x).
Let g (x m : R) : R := 2 * (m - x).

Lemma witness_entry : mget 0 (nth 0 (eval_G 0 1 Rplus Rmult g K X None) []) 0 0 = 8.
Proof.
  unfold eval_G, mttkrp_den, eval_Y, wget, K, X, g, den_k, den_dense, mget, sum_over, sum_n, kshape, krank, nrows.
  cbn [kfactors kweights dshape ddata length map seq nth allsubs size fold_right Nat.mul Nat.add ind2sub Nat.modulo Nat.div
       Nat.divmod fst snd filter Nat.eqb inb sub2ind Nat.ltb Nat.leb andb sumv kprod kprod_skip mget].
  cbn. lra.
Qed.

Example eval_G_unweighted_refuted_witness :
  ~ is_derive (fun t => eval_F 0 1 Rplus Rmult f (kset R K 0 (mset (nth 0 (kfactors K) []) 0 0 t)) X None)
              (mget 0 (nth 0 (kfactors K) []) 0 0)
              (mget 0 (nth 0 (eval_G 0 1 Rplus Rmult g K X None) []) 0 0)
  /\ is_derive (fun t => eval_F 0 1 Rplus Rmult f (kset R K 0 (mset (nth 0 (kfactors K) []) 0 0 t)) X None)
              (mget 0 (nth 0 (kfactors K) []) 0 0) 16.
Proof.
  assert (Hfg : forall i, inb (dshape X) i = true ->
     is_derive (fun m => f (den_dense 0 X i) m) (den_k 0 1 Rplus Rmult K i) (g (den_dense 0 X i) (den_k 0 1 Rplus Rmult K i))).
  { intros i _. unfold f, g. auto_derive; [exact I | ring]. }
  assert (Hwf : wf_k K) by (unfold wf_k, K; cbn; repeat constructor).
  assert (H0 : (0 < length (kfactors K))%nat) by (unfold K; cbn; lia).
  assert (H1 : (0 < nrows (nth 0 (kfactors K) []))%nat) by (unfold K, nrows; cbn; lia).
  assert (H2 : (0 < krank K)%nat) by (unfold K, krank; cbn; lia).
  assert (H3 : dshape X = kshape K) by reflexivity.
  split.
  - apply (eval_G_unweighted_refuted_pointwise f g K X None 0 0 0 Hfg Hwf H0 H1 H2 H3).
    + unfold K; cbn [kweights nth]. lra.
    + rewrite witness_entry. lra.
  - replace 16 with (nth 0 (kweights K) 0 * mget 0 (nth 0 (eval_G 0 1 Rplus Rmult g K X None) []) 0 0)
      by (rewrite witness_entry; unfold K; cbn [kweights nth]; lra).
    exact (eval_gradient_weighted_pointwise f g K X None 0 0 0 Hfg Hwf H0 H1 H2 H3).
Qed.
End Witness.

Print Assumptions eval_gradient_weighted.
Print Assumptions eval_G_unweighted_refuted.
Print Assumptions eval_G_unweighted_refuted_witness.
