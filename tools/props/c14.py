"""C14 — leading mode-n vectors span the dominant subspace in every representation (DESIGN §C14).

nvecs is run on integer tensors held dense / sparse / Kruskal / Tucker.  The LAPACK/ARPACK calls inside nvecs are
recorded (scipy functions wrapped by the harness, pyttb untouched): the recorded solver INPUT must equal the Gram matrix of
the denotation computed exactly in Coq, the list-level post-processing model applied to the recorded solver OUTPUT must
reproduce the returned matrix, and the returned matrix is certificate-checked in exact rationals against a full
eigen-decomposition of the exact Gram matrix (itself certificate-checked)."""
import contextlib
import math
from fractions import Fraction

from vcheck import Case, gnlist, gq, gbool, gzmat, gzlist
import tgen
from props.c10 import rq, gqmat, gqlist
from props import c14_util as cu

PROP = "C14"
LEVEL = "proof"
GEN_UNITS = ["GenUtils", "GenUtils2"]     # gather_wrap_dims (C14_gram_dense_code / _tucker_code), tt_sub2ind / tt_ind2sub (C14_gram_sparse_code)
SHARD = 8
COQ_TARGETS = ["Props/C14.vo", "Model/C14Check.vo", "Model/Harness.vo"]
THEOREM_FILES = ["Props/C14.v"]
COQ_IMPORTS = ("From Coq Require Import List ZArith Bool QArith Qcanon.\n"
               "From PV Require Import Base.Index Np.Array Model.Sparse Model.Repr Model.Harness Model.C10Tucker Model.C10Check "
               "Model.C14Nvecs Model.C14Check.\n")
RULE = ("integer tensors (Tucker-structured low rank with integer core/factors, and unstructured) with mode sizes 1..6, 2- to 4-way, each held "
        "dense/sparse/Kruskal/Tucker (dense core and sparse core with dense factors); all modes n, all 1 <= r <= size (iterative path "
        "r < size-1 and dense path), flipsign on/off; holder variants: arrays held C-contiguous or as non-contiguous views, data scaled by "
        "2^(+-24) (Kruskal: in the weights or in one factor), dense tensors held in float32/int64/int32/int16/int8/uint8/uint16 with "
        "magnitudes whose slice inner products overflow that dtype, Tucker/Kruskal factors with unit-norm columns (signed unit vectors: "
        "orthonormal, or repeated = not orthogonal; generic directions normalised on the 2^-30 grid); sequences of nvecs calls over all modes "
        "on ONE object with another operation between the calls (normalize / normalize(weight_factor=k|'all') / normalize(sort) / arrange / "
        "fixsigns / redistribute / full / norm / innerprod / ttv / to_tenmat / collapse), sparse sequences checked at the Gram matrix; "
        "inside every exact sparse / sparse-core run the output of sptensor.spmatrix() (stored order) resp. of core.ttm(V) is recorded and "
        "compared with the code-path models; "
        "agreement across representations only where the eigen-gap at r is > 1e-3 relative; non-trivial = mode size >= 2; "
        "distinct = distinct (op,args)")
CORRESPONDENCE_ONLY = ["scipy.sparse products (COO x COO in sptensor.nvecs, COO x ndarray in the sparse-core branch of ttensor.nvecs) compute the matrix "
                       "product of the arrays the COO matrices denote: library oracle; C14_coo_product proves that the coordinate-level model "
                       "is that matrix product, the recorded solver input is compared with the model on every sample",
                       "the single-mode kernel of sptensor.ttm used as the first step of the chain H = core.ttm(V) is C02's coordinate-level "
                       "model impl_ttm_sp (theorem C02_ttm_sparse; tied to the code by C02's correspondence and here by the recorded H of "
                       "every exact sparse-core sample); the sptensor constructor calls inside reshape/squeeze are taken to keep the rows "
                       "as given (recorded spmatrix() output = model tnt on every exact sparse sample)",
                       "eigen solvers eigh/eigsh/eig/eigs: certificate-checked oracles"]
ASSUMPTIONS = ["floats converted exactly (solver input/output) or on the 2^-40 grid (returned vectors) to rationals; recorded solver input of "
               "scaled data divided exactly by 4^exponent in the harness",
               "inputs whose products are rounded (after normalize/arrange/redistribute, factors on the 2^-30 grid) are compared within 1e-12*trace",
               "degenerate leading spectra are excluded from the cross-representation agreement (quantifier of the property)",
               "theorems: ring-generic (closed) for the Gram identities; stdlib Reals for the post-processing order/sign theorems"]
EXPLANATION = ("C14_gram_dense / _sparse / _kruskal / _tucker: the Gram matrix the code forms equals gram_spec of the denotation (any ring, "
               "shape, mode); C14_gram_dense_code / C14_gram_tucker_code / C14_gram_tucker_sparse_core: the same matrices built from the "
               "GENERATED gather_wrap_dims + C01's to_tenmat / to_sptenmat(+constructor) / double + tensor.ttm transliterations; "
               "C14_coo_product: the COO product model is the matrix product of the denotations; C14_sparse_rekey_bridge / "
               "C14_gram_sparse_code(_spec): sptensor.nvecs' reshape (over the GENERATED tt_sub2ind / tt_ind2sub) / squeeze / spmatrix / transpose "
               "yields exactly the triples of C14_gram_sparse, so the code path's product is gram_sp_impl = the matrix product of the denoted "
               "arrays = gram_spec; C14_sparse_singleton_refused: the same path refuses singleton modes (finding C14-F2); "
               "C14_sparse_ttm_chain / C14_gram_tucker_sparse_core_code(_spec): H = core.ttm(V) as the code computes it (sparse first step, "
               "tensor.ttm afterwards) is dense and holds core x_m V_m, so the sparse-core theorem needs no hypothesis about H; the COO matrix "
               "spmatrix() returns inside sptensor.nvecs and the tensor core.ttm(V) returns inside ttensor.nvecs are RECORDED and compared "
               "with these models; all executable code models are evaluated "
               "on every exact sampled input against the recorded solver input; op seq calls nvecs for every mode on ONE object (other "
               "operations between the calls) and checks each result against the original denotation; C14_postprocess / C14_sign_rule: "
               "argsort(-|w|) selection and sign rule for any solver output; correspondence: recorded solver input/output tie the model "
               "to the code, the result is certificate-checked in Qc.")


# ---------------------------------------------------------------- bundles: one tensor in four representations
def _full_tucker(shape, cshape, core, Us):
    subs = tgen.all_subs(shape)
    csubs = tgen.all_subs(cshape)
    out = []
    for s in subs:
        acc = 0
        for j, g in zip(csubs, core):
            if g:
                acc += g * math.prod(Us[n][s[n]][j[n]] for n in range(len(shape)))
        out.append(acc)
    return out


def _bundle_tucker(rng, shape, fkinds=None):
    """fkinds[n] in generic | unit (signed unit vectors, repeated: unit norm, not orthogonal) | ortho (distinct signed unit vectors) |
    gridnorm (generic directions, norm 1 up to 2^-29, integers to be scaled by 2^-30: key fexp)"""
    d = len(shape)
    cshape = [rng.randint(1, min(s, 2 if d > 2 else 3)) for s in shape]
    if fkinds:
        cshape = [min(shape[n], 2) if fkinds[n] != "generic" else cshape[n] for n in range(d)]
    while True:
        core = tgen.rand_dense(rng, cshape, rng.choice([0.6, 1.0]), -2, 3)
        if any(core):
            break
    Us = []
    for n in range(d):
        k = fkinds[n] if fkinds else "generic"
        if k == "unit":
            Us.append(cu.unit_factor(rng, shape[n], cshape[n], False))
        elif k == "ortho":
            Us.append(cu.unit_factor(rng, shape[n], cshape[n], True))
        elif k == "gridnorm":
            Us.append(cu.gridnorm_factor(rng, shape[n], cshape[n]))
        else:
            Us.append([[rng.randint(-2, 2) for _ in range(cshape[n])] for _ in range(shape[n])])
    data = _full_tucker(shape, cshape, core, Us)
    weights, cols = [], [[] for _ in range(d)]
    for j, g in zip(tgen.all_subs(cshape), core):
        if g:
            weights.append(g)
            for n in range(d):
                cols[n].append([Us[n][i][j[n]] for i in range(shape[n])])
    kf = [[[cols[n][r][i] for r in range(len(weights))] for i in range(shape[n])] for n in range(d)]
    b = {"shape": list(shape), "data": data, "kw": weights, "kf": kf, "tcs": cshape, "tcore": core, "tf": Us}
    if fkinds and "gridnorm" in fkinds:
        b["fexp"] = [-cu.GRID_BITS if k == "gridnorm" else 0 for k in fkinds]
    return b


def _bundle_dense(rng, shape, lo=-3, hi=4):
    d = len(shape)
    while True:
        data = tgen.rand_dense(rng, shape, rng.choice([0.5, 0.8, 1.0]), lo, hi)
        if any(data):
            break
    subs = tgen.all_subs(shape)
    nz = [(s, v) for s, v in zip(subs, data) if v]
    kf = [[[1 if s[n] == i else 0 for s, _ in nz] for i in range(shape[n])] for n in range(d)]
    eye = [[[1 if i == j else 0 for j in range(shape[n])] for i in range(shape[n])] for n in range(d)]
    return {"shape": list(shape), "data": data, "kw": [v for _, v in nz], "kf": kf, "tcs": list(shape), "tcore": data, "tf": eye}


SHAPES_Q = [(3, 2), (4, 3, 2), (2, 5, 2), (1, 3, 2), (2, 3, 2, 2)]
SHAPES_T = SHAPES_Q + [(5,), (2, 3), (4, 4), (3, 4, 2), (1, 4, 3), (3, 1, 2), (2, 2, 3, 2), (5, 2, 2), (3, 3, 3), (2, 4, 3, 2)]
REPRS = ("dense", "sparse", "ktensor", "ttensor", "ttensor_sp")
SEQ_REPRS = ("ktensor", "ttensor", "ttensor_sp", "dense")


def gen_cases(rng, tier):
    big = tier == "thorough"
    cases = []
    for shp in (SHAPES_T if big else SHAPES_Q):
        for kind in ((_bundle_tucker, _bundle_dense) if (big or len(shp) < 3) else (rng.choice([_bundle_tucker, _bundle_dense]),)):
            if len(shp) == 1 and kind is _bundle_tucker:
                continue
            b = kind(rng, shp)
            b["order"] = rng.choice(["sorted", "reversed", "random"])
            b["sseed"] = rng.randrange(10 ** 6)
            for n in range(len(shp)):
                for r in range(1, shp[n] + 1):
                    flip = rng.random() < 0.8
                    for rp in REPRS:
                        if rp == "sparse" and all(s == 1 for k, s in enumerate(shp) if k != n):
                            continue          # sptensor.nvecs refuses tensors whose other modes are all singleton
                        a = dict(b, n=n, r=r, flip=flip, repr=rp)
                        if rp == "sparse":
                            for op in ("sp_gram", "sp_real", "sp_eig", "sp_post"):
                                cases.append(Case(op, a, shp[n] >= 2))
                        else:
                            cases.append(Case("nvecs", a, shp[n] >= 2))
                    cases.append(Case("agree", dict(b, n=n, r=r, flip=flip), shp[n] >= 2))
                    if not all(s == 1 for k, s in enumerate(shp) if k != n):
                        cases.append(Case("sp_agree", dict(b, n=n, r=r, flip=flip), shp[n] >= 2))
            # sequences: nvecs for every mode on ONE object (as cp_als / tucker_als(init="nvecs") do), each result checked against
            # the Gram matrix of the ORIGINAL denotation; Kruskal operands get non-unit weights
            if len(shp) >= 2:
                for rp in SEQ_REPRS:
                    for rep in range(2 if (big or rp == "ktensor") else 1):
                        bs = kind(rng, shp)
                        for _ in range(20):
                            if rp != "ktensor" or any(abs(w) != 1 for w in bs["kw"]):
                                break
                            bs = kind(rng, shp)
                        bs["order"] = rng.choice(["sorted", "reversed", "random"])
                        bs["sseed"] = rng.randrange(10 ** 6)
                        modes = list(range(len(shp)))
                        if rep == 1:
                            rng.shuffle(modes)
                        rs = [rng.randint(1, shp[n]) for n in modes]
                        cases.append(Case("seq", dict(bs, repr=rp, modes=modes, rs=rs, flip=rng.random() < 0.8),
                                          any(shp[n] >= 2 for n in modes)))
    cases += _gen_variants(rng, big)
    return cases


DTYPES = (("float32", -3, 4), ("int64", -3, 4), ("int32", -80000, 80000), ("int16", -400, 400), ("int8", -50, 50), ("uint8", 0, 255), ("uint16", 0, 60000))
SHAPES_VQ = [(4, 3, 2), (3, 1, 2), (5, 2), (2, 2, 3, 2)]
SHAPES_VT = SHAPES_VQ + [(1, 3, 2), (3, 4), (2, 5, 2), (4, 1, 1), (3, 3, 3), (6, 2, 2)]


def _pick_nr(rng, shp, cap=None):
    n = rng.randrange(len(shp))
    top = shp[n] if cap is None else max(1, min(shp[n], cap[n]))
    r = rng.choice([1, top, rng.randint(1, top)])
    return n, r


def _emit(cases, b, rp, n, r, flip, shp):
    a = dict(b, n=n, r=r, flip=flip, repr=rp)
    if rp == "sparse":
        if shp[n] == 1 or all(s == 1 for k, s in enumerate(shp) if k != n):
            return          # refused by sptensor.nvecs / known finding C14-F2 (covered by the main stream)
        cases.append(Case("sp_gram", a, shp[n] >= 2))
    else:
        cases.append(Case("nvecs", a, shp[n] >= 2))


def _gen_variants(rng, big):
    """holders in C order / as non-contiguous views, data scaled by 2^(+-24), narrow integer dtypes of a dense tensor, Tucker / Kruskal
    factors with unit-norm (orthogonal and not) columns, and sequences of nvecs calls on one object with other operations between"""
    cases = []
    for shp in (SHAPES_VT if big else SHAPES_VQ):
        d = len(shp)

        def fresh(kind=None):
            kind = kind or rng.choice([_bundle_tucker, _bundle_dense])
            b = kind(rng, shp)
            b["order"] = rng.choice(["sorted", "reversed", "random"])
            b["sseed"] = rng.randrange(10 ** 6)
            return b
        # memory layout of the holders
        for lay in ("C", "view"):
            for rp in REPRS:
                for _ in range(2 if big else 1):
                    b = fresh()
                    n, r = _pick_nr(rng, shp)
                    _emit(cases, dict(b, lay=lay), rp, n, r, rng.random() < 0.8, shp)
        # magnitudes
        for e in (24, -24) + ((7, -40) if big else ()):
            for rp in REPRS:
                b = fresh()
                n, r = _pick_nr(rng, shp)
                _emit(cases, dict(b, exp=e, kexp_in=rng.choice(["weights", "factor"]), lay=rng.choice(["F", "F", "C"])), rp, n, r,
                      rng.random() < 0.8, shp)
        # dtype of a dense tensor's data
        for dt, lo, hi in DTYPES:
            b = _bundle_dense(rng, shp, lo, hi)
            b["order"], b["sseed"] = "sorted", 0
            for _ in range(2 if big else 1):
                n, r = _pick_nr(rng, shp)
                _emit(cases, dict(b, dtype=dt), "dense", n, r, rng.random() < 0.8, shp)
        # structured factors: the requested mode's factor has unit-norm columns (orthogonal / not orthogonal / generic directions)
        for fk in ("unit", "ortho") + (("gridnorm",) if (big or shp == SHAPES_VQ[0]) else ()):
            for n in range(d):
                kinds = [rng.choice(["generic", fk]) for _ in range(d)]
                kinds[n] = fk
                if fk == "gridnorm":
                    kinds = ["gridnorm" if k == n else "generic" for k in range(d)]
                b = _bundle_tucker(rng, shp, kinds)
                b["order"] = rng.choice(["sorted", "reversed", "random"])
                b["sseed"] = rng.randrange(10 ** 6)
                for rp in ("ttensor", "ttensor_sp", "ktensor"):
                    for r in sorted({1, max(1, min(shp[n], b["tcs"][n]))}):
                        _emit(cases, b, rp, n, r, rng.random() < 0.8, shp)
        # sequences on one object with other operations between the calls
        for rp in ("ktensor", "ktensor", "ttensor", "ttensor_sp", "dense", "sparse"):
            for rep in range(2 if big else 1):
                b = fresh(_bundle_tucker if rp in ("ktensor", "ttensor", "ttensor_sp") else None)
                for _ in range(20):
                    if rp != "ktensor" or any(abs(w) != 1 for w in b["kw"]):
                        break
                    b = fresh(_bundle_tucker)
                modes = [k for k in range(d)
                         if rp != "sparse" or (shp[k] > 1 and not all(s == 1 for j, s in enumerate(shp) if j != k))]
                if not modes:
                    continue
                modes = modes + [rng.choice(modes)]
                rng.shuffle(modes)
                rs = [rng.choice([1, shp[n], rng.randint(1, shp[n])]) for n in modes]
                btw = [rng.choice(cu.BETWEEN[rp]) for _ in modes]
                cases.append(Case("sp_seq" if rp == "sparse" else "seq",
                                  dict(b, repr=rp, modes=modes, rs=rs, flip=rng.random() < 0.8, between=btw,
                                       lay=rng.choice(["F", "C"])), any(shp[n] >= 2 for n in modes)))
    return cases


AGREE_REPRS = ("dense", "ktensor", "ttensor", "ttensor_sp")


# ---------------------------------------------------------------- running pyttb with the solvers recorded
@contextlib.contextmanager
def _recorded(np, log, aux=None):
    """scipy's eigen solvers wrapped (record input and output); with aux: also the COO matrix sptensor.spmatrix() returns inside
    sptensor.nvecs and the result of the outermost sptensor.ttm call inside ttensor.nvecs (record only, pyttb untouched)"""
    import scipy.linalg
    import scipy.sparse
    import scipy.sparse.linalg
    import pyttb as ttb
    o_spm, o_ttm = ttb.sptensor.spmatrix, ttb.sptensor.ttm
    depth = [0]

    def spm(self):
        out = o_spm(self)
        if aux is not None and "tnt" not in aux:
            c = out.tocoo(False) if not isinstance(out, scipy.sparse.coo_matrix) else out
            aux["tnt"] = {"shape": [int(x) for x in c.shape], "rows": [int(x) for x in c.row], "cols": [int(x) for x in c.col],
                          "data": [tgen.exact(x) for x in c.data]}
        return out

    def ttm(self, *a, **k):
        depth[0] += 1
        try:
            out = o_ttm(self, *a, **k)
        finally:
            depth[0] -= 1
        if aux is not None and depth[0] == 0 and "H" not in aux:
            aux["H"] = ({"kind": "tensor", **tgen.obs_dense(np, out)} if isinstance(out, ttb.tensor)
                        else {"kind": "sptensor", **tgen.obs_sparse(np, out)} if isinstance(out, ttb.sptensor)
                        else {"kind": type(out).__name__})
        return out
    saved = [(scipy.linalg, "eigh"), (scipy.linalg, "eig"), (scipy.sparse.linalg, "eigsh"), (scipy.sparse.linalg, "eigs")]
    orig = [(m, nm, getattr(m, nm)) for m, nm in saved]

    def wrap(nm, f):
        def g(y, *a, **k):
            out = f(y, *a, **k)
            yd = y.toarray() if scipy.sparse.issparse(y) else np.asarray(y)
            log.append((nm, np.array(yd, dtype=float), np.array(out[0]), np.array(out[1])))
            return out
        return g
    try:
        for m, nm, f in orig:
            setattr(m, nm, wrap(nm, f))
        if aux is not None:
            ttb.sptensor.spmatrix, ttb.sptensor.ttm = spm, ttm
        yield
    finally:
        for m, nm, f in orig:
            setattr(m, nm, f)
        ttb.sptensor.spmatrix, ttb.sptensor.ttm = o_spm, o_ttm


_mk = cu.mk


def _run_one(ttb, np, a, rp, X=None):
    if X is None:
        X = _mk(ttb, np, a, rp)
    log, aux = [], {}
    with _recorded(np, log, aux):
        v = X.nvecs(a["n"], a["r"], flipsign=a["flip"])
    v = np.asarray(v)
    o = {"is_real": not np.iscomplexobj(v), "vshape": [int(x) for x in v.shape],
         "V": [[rq(x) for x in row] for row in np.real(v).reshape((v.shape[0], -1))],
         "Vx": [[tgen.exact(x) for x in np.real(v)[:, j]] for j in range(v.shape[1])] if v.ndim == 2 else [],
         "imag": float(np.max(np.abs(np.imag(v)))) if v.size else 0.0, "ncalls": len(log)}
    if log:
        nm, y, w, vv = log[-1]
        o["solver"] = nm
        o["Y"] = [[tgen.exact(x) for x in row] for row in y]
        o["w"] = [tgen.exact(x) for x in np.real(w)]
        o["cols"] = [[tgen.exact(x) for x in np.real(vv)[:, j]] for j in range(vv.shape[1])]
    o.update(aux)          # "tnt": spmatrix() inside sptensor.nvecs;  "H": core.ttm(V) inside ttensor.nvecs (sparse core)
    return o


def _cert(np, a):
    """full eigen-decomposition (numpy) of the exact Gram matrix: certificate-checked in Coq"""
    X = np.array(a["data"], dtype=float).reshape(tuple(a["shape"]), order="F")
    Xn = np.moveaxis(X, a["n"], 0).reshape((a["shape"][a["n"]], -1))
    w, W = np.linalg.eigh(Xn @ Xn.T)
    o = np.argsort(-w, kind="stable")
    w, W = w[o], W[:, o]
    r = a["r"]
    gap = float("inf") if r >= len(w) else float(w[r - 1] - w[r]) / max(1.0, float(w[0]))
    return {"W": [[rq(x) for x in row] for row in W], "mu": [rq(x) for x in w], "gap": gap}


def run_impl(c):
    import numpy as np
    import pyttb as ttb
    a = c.args
    try:
        if c.op in ("seq", "sp_seq"):
            X = _mk(ttb, np, a, a["repr"])           # ONE object for the whole sequence
            steps = []
            btw = a.get("between") or [None] * len(a["modes"])
            for k, (n, r, bo) in enumerate(zip(a["modes"], a["rs"], btw)):
                an = dict(a, n=n, r=r)
                st = _run_one(ttb, np, an, a["repr"], X)
                st["cert"] = _cert(np, an)
                steps.append(st)
                if bo is not None:
                    cu.apply_between(ttb, np, X, bo, k)
            return {"steps": steps}
        if c.op in ("agree", "sp_agree"):
            o = {"cert": _cert(np, a)}
            for rp in (AGREE_REPRS if c.op == "agree" else ("dense", "sparse")):
                o[rp] = _run_one(ttb, np, a, rp)
            return o
        o = _run_one(ttb, np, a, a["repr"])
        o["cert"] = _cert(np, a)
        return o
    except Exception as ex:
        return {"exc": type(ex).__name__, "msg": str(ex)[:200]}


# ---------------------------------------------------------------- Coq side
def _grepr(a, rp):
    import random
    if rp == "dense":
        return f"(RDense {tgen.gdense(a['shape'], a['data'])})"
    if rp == "sparse":
        subs, vals = tgen.dense_to_sparse(a["shape"], a["data"], random.Random(a["sseed"]), a["order"])
        return f"(RSparse {tgen.gsparse(a['shape'], subs, vals)})"
    if rp == "ktensor":
        return f"(RKruskal {tgen.gktensor(a['kw'], a['kf'])})"
    return f"(RTucker {tgen.gttensor(a['tcs'], a['tcore'], a['tf'])})"       # ttensor and ttensor_sp: same denotation


def _gmats(ms):
    return "[" + "; ".join(tgen.gmatrix(m) for m in ms) + "]"


def _all_int(m):
    return all(isinstance(x, int) for row in m for x in row)


def _e_gram(a, o, rp, inexact=False):
    """recorded solver input (divided exactly by 4^(total exponent)) against the Gram matrix of the integer denotation: equal when
    every product the code forms is exact, otherwise within 1e-12 * trace"""
    if "Y" not in o or any(isinstance(x, str) for row in o["Y"] for x in row):
        return "false"
    Y = cu.unscale_exact(o["Y"], 2 * cu.total_exp(a))
    if inexact or not cu.is_exact(a):
        return f"gram_recorded_close {_grepr(a, rp)} {a['n']} {gqmat(Y)}"
    if not _all_int(Y):
        return "false"
    o = dict(o, Y=Y)
    e = f"gram_recorded_ok {_grepr(a, rp)} {a['n']} {gzmat(o['Y'])}"
    if rp == "dense":
        e += f" && mat_eqb (gram_dense_code {tgen.gdense(a['shape'], a['data'])} {a['n']}) {gzmat(o['Y'])}"
        e += f" && omat_eqb (gram_dense_tm_code {tgen.gdense(a['shape'], a['data'])} {a['n']}) {gzmat(o['Y'])}"
    if rp == "ktensor":
        e += f" && mat_eqb (gram_k_code {tgen.gktensor(a['kw'], a['kf'])} {a['n']}) {gzmat(o['Y'])}"
    if rp == "sparse":          # the COO-product model of C14_gram_sparse on the stored subscripts/values as given
        import random
        subs, vals = tgen.dense_to_sparse(a["shape"], a["data"], random.Random(a["sseed"]), a["order"])
        gs = tgen.gsparse(a['shape'], subs, vals)
        e += f" && mat_eqb (gram_sp_code {gs} {a['n']}) {gzmat(o['Y'])}"
        # the code path itself (C14_gram_sparse_code): reshape over the generated tt_sub2ind/tt_ind2sub, squeeze, spmatrix, transpose —
        # on the domain where that path accepts the request (mode n and the product of the other modes > 1; elsewhere the path
        # refuses, C14_sparse_singleton_refused / finding C14-F2, and only the representation-independent checks above apply)
        if a["shape"][a["n"]] > 1 and math.prod(d for k, d in enumerate(a["shape"]) if k != a["n"]) > 1:
            e += f" && omat_eqb (gram_sp_path_code {gs} {a['n']}) {gzmat(o['Y'])}"
            e += " && " + _e_tnt(a, o, gs)
    if rp in ("ttensor", "ttensor_sp"):      # the through-the-core model of C14_gram_tucker
        e += f" && mat_eqb (gram_t_code {tgen.gttensor(a['tcs'], a['tcore'], a['tf'])} {a['n']}) {gzmat(o['Y'])}"
        if rp == "ttensor":
            e += f" && omat_eqb (gram_t_tm_code {tgen.gttensor(a['tcs'], a['tcore'], a['tf'])} {a['n']}) {gzmat(o['Y'])}"
        else:                   # sparse core as stored
            import random
            subs, vals = tgen.dense_to_sparse(a["tcs"], a["tcore"], random.Random(a["sseed"]), a["order"])
            gs = tgen.gsparse(a['tcs'], subs, vals)
            e += f" && gram_tsp_code {gs} {_gmats(a['tf'])} {a['n']} {gzmat(o['Y'])}"
            # with the H the code computes (C14_gram_tucker_sparse_core_code): the sptensor.ttm chain, and H as recorded
            e += f" && gram_tsp_chain_code {gs} {_gmats(a['tf'])} {a['n']} {gzmat(o['Y'])}"
            e += " && " + _e_chain(a, o, gs)
    return e


def _e_tnt(a, o, gs):
    """the COO matrix spmatrix() returned inside sptensor.nvecs (stored order, values divided exactly by 2^exp) = the model's tnt^T"""
    t = o.get("tnt")
    if not t or any(isinstance(x, str) for x in t["data"]):
        return "false"
    data = cu.unscale_exact([t["data"]], cu.total_exp(a))[0]
    if not all(isinstance(x, int) for x in data):
        return "false"
    return f"sp_tnt_recorded_ok {gs} {a['n']} {gnlist(t['shape'])} {gnlist(t['rows'])} {gnlist(t['cols'])} {gzlist(data)}"


def _e_chain(a, o, gs):
    """H = core.ttm(V) recorded inside ttensor.nvecs (sparse core) against the chain model (values divided exactly by 2^exp: the
    factors are unscaled on this path).  The current code returns a dense tensor (compared entry by entry); a well-formed sptensor with
    the same denotation is the other container C14_gram_tucker_sparse_core admits."""
    h = o.get("H")
    if not h or h.get("kind") not in ("tensor", "sptensor"):
        return "false"
    raw = h["data"] if h["kind"] == "tensor" else h["vals"]
    if any(isinstance(x, str) for x in raw):
        return "false"
    data = cu.unscale_exact([raw], a.get("exp", 0))[0]
    if not all(isinstance(x, int) for x in data):
        return "false"
    if h["kind"] == "sptensor":
        return f"sp_denotes {tgen.gsparse(h['shape'], h['subs'], data)} (sp_chain_code {gs} {_gmats(a['tf'])} {a['n']})"
    return f"sp_chain_recorded_ok {gs} {_gmats(a['tf'])} {a['n']} {tgen.gdense(h['shape'], data)}"


def _e_eig(a, o, rp):
    ct = o["cert"]
    if o["vshape"] != [a["shape"][a["n"]], a["r"]]:
        return "false"
    return (f"nvecs_ok eps8 (zq (rgram {_grepr(a, rp)} {a['n']})) {gqmat(ct['W'])} {gqlist(ct['mu'])} {gqmat(o['V'])} "
            f"{a['r']} {gbool(a['flip'])}")


def _e_post(a, o):
    if "w" not in o:
        return "false"
    if len({abs(x) for x in o["w"]}) < len(o["w"]):
        return "true"      # exactly equal |w|: numpy's default argsort is not stable, the order among ties is unspecified
    cols = "[" + "; ".join(gqlist(cl) for cl in o["cols"]) + "]"
    got = "[" + "; ".join(gqlist(cl) for cl in o["Vx"]) + "]" if o["Vx"] else "(@nil (list Qc))"
    return f"qcols_eqb (qpost {gqlist(o['w'])} {cols} {a['r']} {gbool(a['flip'])}) {got}"


def coq_check(c, o):
    a = c.args
    if "exc" in o:
        return "false"
    if c.op == "nvecs":
        rp = a["repr"]
        return f"{gbool(o['is_real'])} && {_e_gram(a, o, rp)} && {_e_eig(a, o, rp)} && {_e_post(a, o)}"
    if c.op in ("seq", "sp_seq"):
        rp = a["repr"]
        parts = []
        btw = a.get("between") or [None] * len(a["modes"])
        inexact = False
        for n, r, st, bo in zip(a["modes"], a["rs"], o["steps"], btw):
            an = dict(a, n=n, r=r)
            if c.op == "sp_seq":        # eigenvectors of the sparse path: known finding A-38; the Gram matrix is checked at every call
                parts.append(_e_gram(an, st, rp))
            else:
                parts.append(f"{gbool(st['is_real'])} && {_e_gram(an, st, rp, inexact)} && {_e_eig(an, st, rp)} && {_e_post(an, st)}")
            inexact = inexact or bo in cu.INEXACT_OPS
        return " && ".join(f"({p_})" for p_ in parts)
    if c.op == "sp_gram":
        return _e_gram(a, o, "sparse")
    if c.op == "sp_real":
        return gbool(o["is_real"])
    if c.op == "sp_eig":
        return _e_eig(a, o, "sparse")
    if c.op == "sp_post":
        return _e_post(a, o)
    if o["cert"]["gap"] < 1e-3:
        return None
    if c.op == "agree":
        same = f"rsame {_grepr(a, 'dense')} {_grepr(a, 'ktensor')} && rsame {_grepr(a, 'dense')} {_grepr(a, 'ttensor')}"
        return same + " && all_same_subspace eps6 [" + "; ".join(gqmat(o[rp]["V"]) for rp in AGREE_REPRS) + "]"
    if c.op == "sp_agree":
        return (f"rsame {_grepr(a, 'dense')} {_grepr(a, 'sparse')} && {gbool(o['sparse']['is_real'])} && "
                f"same_subspace eps6 {gqmat(o['dense']['V'])} {gqmat(o['sparse']['V'])}")
    raise ValueError(c.op)


# ---------------------------------------------------------------- brute-force oracle (pure Python floats)
def _py_gram(a):
    shp, n = a["shape"], a["n"]
    subs = tgen.all_subs(shp)
    G = [[0.0] * shp[n] for _ in range(shp[n])]
    byrest = {}
    for s, v in zip(subs, a["data"]):
        byrest.setdefault(tuple(s[:n] + s[n + 1:]), {})[s[n]] = v
    for fib in byrest.values():
        for p, x in fib.items():
            for q, y in fib.items():
                G[p][q] += x * y
    return G


def _oracle_one(a, o, what):
    if not o["is_real"]:
        return f"{what}: result is {'complex-typed' if o['imag'] == 0 else 'complex'} (max |imag| = {o['imag']})"
    n, r = a["shape"][a["n"]], a["r"]
    if o["vshape"] != [n, r]:
        return f"{what}: result has shape {o['vshape']}, expected {[n, r]}"
    V = [[float(x) for x in row] for row in o["V"]]
    G = _py_gram(a)
    sc = max(1.0, sum(G[i][i] for i in range(n)))
    mu = [float(x) for x in o["cert"]["mu"]]
    for j in range(r):
        for k in range(r):
            g = sum(V[i][j] * V[i][k] for i in range(n))
            if abs(g - (1.0 if j == k else 0.0)) > 1e-7:
                return f"{what}: columns {j},{k} have inner product {g}"
        Gv = [sum(G[i][k] * V[k][j] for k in range(n)) for i in range(n)]
        lam = sum(V[i][j] * Gv[i] for i in range(n))
        if max(abs(Gv[i] - lam * V[i][j]) for i in range(n)) > 1e-7 * sc:
            return f"{what}: column {j} is not an eigenvector of the mode-{a['n']} Gram matrix"
        if abs(lam - mu[j]) > 1e-7 * sc:
            return f"{what}: column {j} belongs to eigenvalue {lam}, the {j}-th largest is {mu[j]}"
        if a["flip"]:
            m = max(abs(V[i][j]) for i in range(n))
            if m > 1e-7 and not any(V[i][j] > 0 and V[i][j] >= m - 1e-7 for i in range(n)):
                return f"{what}: column {j}: entry of largest magnitude is negative"
    return None


def oracle(c, o):
    a = c.args
    if "exc" in o:
        return f"admissible request raised {o['exc']}: {o.get('msg')}"
    if c.op == "sp_seq":
        return None
    if c.op == "seq":
        for k, (n, r, st) in enumerate(zip(a["modes"], a["rs"], o["steps"])):
            w = _oracle_one(dict(a, n=n, r=r), st, f"{a['repr']} call {k + 1} of {len(o['steps'])} on the same object (mode {n}, r={r})")
            if w:
                return w
        return None
    if c.op in ("agree", "sp_agree"):
        names = [k for k in o if k != "cert"]
        for nm in names:
            w = _oracle_one(a, dict(o[nm], cert=o["cert"]), nm)
            if w:
                return w
        n = a["shape"][a["n"]]
        Ps = []
        for nm in names:
            V = [[float(x) for x in row] for row in o[nm]["V"]]
            Ps.append([[sum(V[i][k] * V[j][k] for k in range(a["r"])) for j in range(n)] for i in range(n)])
        for P in Ps[1:]:
            if max(abs(P[i][j] - Ps[0][i][j]) for i in range(n) for j in range(n)) > 1e-5:
                return f"representations {names} span different subspaces"
        return None
    return _oracle_one(a, o, a["repr"])


# ---------------------------------------------------------------- known findings
def _is_sparse_case(c):
    return c.op in ("sp_real", "sp_eig", "sp_post", "sp_agree")


def _is_sparse_singleton(c):
    return c.op.startswith("sp_") and "n" in c.args and c.args["shape"][c.args["n"]] == 1


TRIGGERS = {"sparse_nvecs": _is_sparse_case, "sparse_singleton_mode": _is_sparse_singleton}


def _wit_a38():
    import numpy as np
    import pyttb as ttb
    data = [3, 0, 1, 2, 0, 1, 0, 4, 0, 1, 2, 0, 1, 0, 0, 2, 5, 0, 0, 1, 0, 3, 1, 0]
    shape = (4, 3, 2)
    X = ttb.tensor(np.array(data, dtype=float).reshape(shape, order="F"))
    S = X.to_sptensor()
    msgs = []
    vd, vs = X.nvecs(0, 3), np.asarray(S.nvecs(0, 3))
    dP = float(np.max(np.abs(vd @ vd.T - np.real(vs) @ np.real(vs).T)))
    if dP > 1e-6:
        msgs.append(f"sptensor.nvecs(0,3) on a 4x3x2 tensor: projector differs from the dense tensor's by {dP:.3g}")
    v1 = np.asarray(S.nvecs(0, 1))
    if np.iscomplexobj(v1):
        msgs.append("sptensor.nvecs(0,1) returns complex128")
    return "; ".join(msgs) or None


def _wit_singleton():
    import numpy as np
    import pyttb as ttb
    S = ttb.sptensor(np.array([[0, 1, 2], [0, 3, 0]]), np.array([[2.0], [1.0]]), (1, 4, 3))
    try:
        v = np.asarray(S.nvecs(0, 1))
    except Exception as ex:
        return f"sptensor.nvecs(0,1) on a 1x4x3 tensor raises {type(ex).__name__}: {ex}"
    return None if v.shape == (1, 1) and abs(abs(v[0, 0]) - 1) < 1e-12 else f"sptensor.nvecs(0,1) on a 1x4x3 tensor returns {v.tolist()}"


WITNESSES = {"A-38": _wit_a38, "C14-F2": _wit_singleton}
