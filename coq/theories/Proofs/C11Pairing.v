(* Proofs/C11Pairing.v — three facts about the CP-APR objective / update (pyttb/cp_apr.py):
   (A) objective_pairing: the dense branch of tt_loglikelihood walks dX = Data.to_tenmat([1]).data and
       dM = Model.to_tenmat([1]).data with a double loop over (i, j); that double loop equals the sum over all
       subscripts of phi (X s) (M s), for ANY combining function phi (log, "skip zeros", product live inside phi).
   (B) mass_factor0_dead: Proofs/C11Mass.mass_factor0 extended to dead components (mode-0 column sums to 0, the other
       column sums arbitrary) — the state after Model.normalize(weight_factor=0, normtype=1) with an all-zero column.
   (C) calc_phi_sp_correct: the sparse branch of calculate_pi / calculate_phi (Model/C11Sparse.v) computes the same Phi
       entries as the dense definition (Model/C11Apr.calc_phi) on a dense tensor with the same denotation. *)
From Coq Require Import List Arith Lia Bool Permutation Ring.
From PV Require Import Base.Index Base.Perm Base.Sum Np.Array Model.Sparse Model.Repr Model.C07Ops Model.C01Conv
  Model.C14Nvecs Model.C11Apr Model.C11Sparse
  Proofs.C07Index Proofs.C07Proofs Proofs.C01Proofs Proofs.C14Sums Proofs.C14Split Proofs.C11Mass.
Import ListNotations.

Section Pairing.
Variable V : Type.
Variables (v0 v1 : V) (vadd vmul vsub : V -> V -> V) (vopp : V -> V).
Hypothesis Vring : ring_theory v0 v1 vadd vmul vsub vopp (@eq V).
Add Ring VrC11p : Vring.
Local Notation "x + y" := (vadd x y).
Local Notation "x * y" := (vmul x y).
Local Notation SO := (sum_over v0 vadd).
Local Notation SN := (sum_n v0 vadd).

(* ------------------------------------------------------------------------------------------------ (A) *)

(* a double loop over a 2-way array = the sum over its subscripts *)
Lemma c11_sum_allsubs_2 (R C : nat) (g : idx -> V) :
  SO (allsubs [R; C]) g = SN R (fun i => SN C (fun j => g [i; j])).
Proof.
  rewrite (sum_allsubs_cons V v0 v1 vadd vmul vsub vopp Vring).
  rewrite (sum_allsubs_cons V v0 v1 vadd vmul vsub vopp Vring).
  change (allsubs []) with [@nil nat]. rewrite sum_over_cons, sum_over_nil.
  unfold sum_n. rewrite (sum_over_swap V v0 v1 vadd vmul vsub vopp Vring). ring.
Qed.

(* matricisation permutes the subscripts *)
Lemma c11_tm_pos_perm (s : shape) (r c : list nat) : is_perm (r ++ c) (length s) ->
  Permutation (map (tm_pos s r c) (allsubs s)) (allsubs [size (pick 0 r s); size (pick 0 c s)]).
Proof.
  intros Hp. apply NoDup_Permutation_bis.
  - apply NoDup_map_inj; [apply allsubs_NoDup|].
    intros a b Ha Hb E. apply in_allsubs in Ha, Hb. now apply (tm_pos_inj s r c a b Hp).
  - rewrite map_length, !allsubs_length. rewrite <- (size_pick (r ++ c) s Hp).
    rewrite pick_app, size_app, !size_cons. change (size []) with 1. lia.
  - intros p Hin. apply in_map_iff in Hin as (i & <- & Hi). apply in_allsubs in Hi. apply in_allsubs.
    now destruct (tm_pos_lin s r c i Hp Hi).
Qed.

(* general row/column modes *)
Theorem objective_pairing_gen (X M : dense V) (r c : list nat) (MX MM : tenmat V) (R C : nat) (phi : V -> V -> V) :
  wf_dense X -> wf_dense M -> dshape M = dshape X ->
  is_perm (r ++ c) (length (dshape X)) ->
  to_tenmat v0 X r c = Some MX -> to_tenmat v0 M r c = Some MM ->
  dshape (tm_data MX) = [R; C] ->
  SN R (fun i => SN C (fun j => phi (den_dense v0 (tm_data MX) [i; j]) (den_dense v0 (tm_data MM) [i; j]))) =
  SO (allsubs (dshape X)) (fun s => phi (den_dense v0 X s) (den_dense v0 M s)).
Proof.
  intros WX WM Hs Hp EX EM HRC.
  destruct (to_tenmat_correct v0 X r c WX Hp) as (MX' & EX' & HrX & HcX & HtX & _ & HsX & HdX & _).
  rewrite EX in EX'. inversion EX'; subst MX'. clear EX'.
  assert (HpM : is_perm (r ++ c) (length (dshape M))) by (now rewrite Hs).
  destruct (to_tenmat_correct v0 M r c WM HpM) as (MM' & EM' & HrM & HcM & HtM & _ & HsM & HdM & _).
  rewrite EM in EM'. inversion EM'; subst MM'. clear EM'.
  rewrite HRC in HsX. injection HsX as HR HC. subst R C.
  set (g := fun p : idx => phi (den_dense v0 (tm_data MX) p) (den_dense v0 (tm_data MM) p)).
  transitivity (SO (allsubs [size (pick 0 r (dshape X)); size (pick 0 c (dshape X))]) g);
    [symmetry; apply c11_sum_allsubs_2|].
  rewrite <- (sum_over_perm V v0 v1 vadd vmul vsub vopp Vring _ _ g (c11_tm_pos_perm (dshape X) r c Hp)).
  rewrite (sum_over_map V v0 vadd). apply sum_over_ext. intros s Hin. apply in_allsubs in Hin.
  unfold g. f_equal.
  - destruct (HdX s Hin) as [_ E]. rewrite <- E. unfold den_tenmat. now rewrite HtX, HrX, HcX.
  - assert (Hin' : inb (dshape M) s = true) by (now rewrite Hs).
    destruct (HdM s Hin') as [_ E]. rewrite <- E. unfold den_tenmat. now rewrite HtM, HrM, HcM, Hs.
Qed.

(* the statement for tt_loglikelihood: row mode [1] *)
Theorem objective_pairing (X M : dense V) (c : list nat) (MX MM : tenmat V) (R C : nat) (phi : V -> V -> V) :
  wf_dense X -> wf_dense M -> dshape M = dshape X ->
  is_perm ([1] ++ c) (length (dshape X)) ->
  to_tenmat v0 X [1] c = Some MX -> to_tenmat v0 M [1] c = Some MM ->
  dshape (tm_data MX) = [R; C] ->
  SN R (fun i => SN C (fun j => phi (den_dense v0 (tm_data MX) [i; j]) (den_dense v0 (tm_data MM) [i; j]))) =
  SO (allsubs (dshape X)) (fun s => phi (den_dense v0 X s) (den_dense v0 M s)).
Proof. apply objective_pairing_gen. Qed.

(* with the column modes the code derives: to_tenmat(np.array([1])) -> cdims = setdiff(range(N), [1]) *)
Corollary objective_pairing_setdiff (X M : dense V) (MX MM : tenmat V) (R C : nat) (phi : V -> V -> V) :
  wf_dense X -> wf_dense M -> dshape M = dshape X ->
  1 < length (dshape X) ->
  to_tenmat v0 X [1] (setdiff_modes (length (dshape X)) [1]) = Some MX ->
  to_tenmat v0 M [1] (setdiff_modes (length (dshape X)) [1]) = Some MM ->
  dshape (tm_data MX) = [R; C] ->
  SN R (fun i => SN C (fun j => phi (den_dense v0 (tm_data MX) [i; j]) (den_dense v0 (tm_data MM) [i; j]))) =
  SO (allsubs (dshape X)) (fun s => phi (den_dense v0 X s) (den_dense v0 M s)).
Proof.
  intros WX WM Hs HN. apply objective_pairing; auto.
  apply setdiff_perm.
  - constructor; [intros []|constructor].
  - intros k [<-|[]]. exact HN.
Qed.

(* both tenmats exist, so the hypotheses of objective_pairing_setdiff are satisfiable for every pair of well-formed
   dense tensors of the same shape with at least two modes *)
Corollary objective_pairing_exists (X M : dense V) (phi : V -> V -> V) :
  wf_dense X -> wf_dense M -> dshape M = dshape X -> 1 < length (dshape X) ->
  exists MX MM R C,
    to_tenmat v0 X [1] (setdiff_modes (length (dshape X)) [1]) = Some MX /\
    to_tenmat v0 M [1] (setdiff_modes (length (dshape X)) [1]) = Some MM /\
    dshape (tm_data MX) = [R; C] /\ dshape (tm_data MM) = [R; C] /\
    SN R (fun i => SN C (fun j => phi (den_dense v0 (tm_data MX) [i; j]) (den_dense v0 (tm_data MM) [i; j]))) =
    SO (allsubs (dshape X)) (fun s => phi (den_dense v0 X s) (den_dense v0 M s)).
Proof.
  intros WX WM Hs HN. set (c := setdiff_modes (length (dshape X)) [1]).
  assert (Hp : is_perm ([1] ++ c) (length (dshape X))).
  { apply setdiff_perm; [constructor; [intros []|constructor]|]. intros k [<-|[]]. exact HN. }
  assert (HpM : is_perm ([1] ++ c) (length (dshape M))) by (now rewrite Hs).
  destruct (to_tenmat_correct v0 X [1] c WX Hp) as (MX & EX & _ & _ & _ & _ & HsX & _).
  destruct (to_tenmat_correct v0 M [1] c WM HpM) as (MM & EM & _ & _ & _ & _ & HsM & _).
  exists MX, MM, (size (pick 0 [1] (dshape X))), (size (pick 0 c (dshape X))).
  split; [exact EX|]. split; [exact EM|]. split; [exact HsX|]. split; [now rewrite HsM, Hs|].
  now apply (objective_pairing X M c).
Qed.

(* ------------------------------------------------------------------------------------------------ (B) *)

Theorem mass_factor0_dead (w : list V) (A0 : list (list V)) (rest : list (list (list V))) :
  (forall r, r < length w ->
     nth r w v0 = v1 /\
     ((forall A, In A rest -> colsum V v0 vadd A r = v1) \/ colsum V v0 vadd A0 r = v0)) ->
  SO (allsubs (kshape (mkK w (A0 :: rest)))) (den_k v0 v1 vadd vmul (mkK w (A0 :: rest))) =
  SN (length w) (fun r => colsum V v0 vadd A0 r).
Proof.
  intros H. rewrite (mass_identity V v0 v1 vadd vmul vsub vopp Vring).
  apply sum_n_ext. intros r Hr. cbn [kweights kfactors map prodv]. unfold krank in Hr. cbn in Hr.
  destruct (H r Hr) as [Hw [Hc|Hd]]; rewrite Hw.
  - rewrite (prodv_ones V v0 v1 vadd vmul vsub vopp Vring); [ring|].
    apply Forall_forall. intros x Hx. apply in_map_iff in Hx. destruct Hx as (A & <- & HA). now apply Hc.
  - rewrite Hd. ring.
Qed.

(* mass_factor0 is the all-alive instance *)
Corollary mass_factor0_from_dead (w : list V) (A0 : list (list V)) (rest : list (list (list V))) :
  (forall r, r < length w -> nth r w v0 = v1) ->
  (forall A r, In A rest -> r < length w -> colsum V v0 vadd A r = v1) ->
  SO (allsubs (kshape (mkK w (A0 :: rest)))) (den_k v0 v1 vadd vmul (mkK w (A0 :: rest))) =
  SN (length w) (fun r => colsum V v0 vadd A0 r).
Proof. intros Hw Hc. apply mass_factor0_dead. intros r Hr. split; auto. Qed.

End Pairing.

(* non-vacuity of (A): a concrete non-symmetric 2 x 3 x 2 instance over nat, phi x m = 0 if x = 0 else x * (m + 7)
   (the "skip zero counts" test sits inside phi) *)
Example objective_pairing_ex :
  let X := mkDense [2; 3; 2] [1; 0; 3; 4; 0; 6; 7; 8; 0; 10; 11; 12] in
  let M := mkDense [2; 3; 2] [2; 3; 5; 7; 11; 13; 17; 19; 23; 29; 31; 37] in
  let phi := fun x m : nat => if Nat.eqb x 0 then 0 else x * (m + 7) in
  match to_tenmat 0 X [1] (setdiff_modes 3 [1]), to_tenmat 0 M [1] (setdiff_modes 3 [1]) with
  | Some MX, Some MM =>
      dshape (tm_data MX) = [3; 4] /\
      ddata (tm_data MX) = [1; 3; 0; 0; 4; 6; 7; 0; 11; 8; 10; 12] /\
      ddata (tm_data MM) = [2; 5; 11; 3; 7; 13; 17; 23; 31; 19; 29; 37] /\
      sum_n 0 Nat.add 3 (fun i => sum_n 0 Nat.add 4 (fun j =>
         phi (den_dense 0 (tm_data MX) [i; j]) (den_dense 0 (tm_data MM) [i; j]))) =
      sum_over 0 Nat.add (allsubs (dshape X)) (fun s => phi (den_dense 0 X s) (den_dense 0 M s)) /\
      sum_over 0 Nat.add (allsubs (dshape X)) (fun s => phi (den_dense 0 X s) (den_dense 0 M s)) = 1903
  | _, _ => False
  end.
Proof. vm_compute. repeat split. Qed.

(* ------------------------------------------------------------------------------------------------ (C) *)
Section SparsePhi.
Variable V : Type.
Variables (v0 v1 : V) (vadd vmul vsub : V -> V -> V) (vopp : V -> V).
Hypothesis Vring : ring_theory v0 v1 vadd vmul vsub vopp (@eq V).
Add Ring VrC11s : Vring.
Variable vdivmax : V -> V -> V.
Variable isz : V -> bool.
Local Notation "x + y" := (vadd x y).
Local Notation "x * y" := (vmul x y).
Local Notation SO := (sum_over v0 vadd).
Local Notation SN := (sum_n v0 vadd).

Lemma c11_mget_mtab (m k : nat) (f : nat -> nat -> V) (a b : nat) : a < m -> b < k ->
  mget v0 (mtab m k f) a b = f a b.
Proof.
  intros Ha Hb. unfold mget, mtab.
  rewrite (nth_indep _ [] ((fun a0 => map (fun b0 => f a0 b0) (seq 0 k)) 0)) by (now rewrite map_length, seq_length).
  rewrite (map_nth (fun a0 => map (fun b0 => f a0 b0) (seq 0 k))). rewrite seq_nth by auto. cbn [Nat.add].
  rewrite (nth_indep _ v0 ((fun b0 => f a b0) 0)) by (now rewrite map_length, seq_length).
  rewrite (map_nth (fun b0 => f a b0)). now rewrite seq_nth.
Qed.

Lemma c11_mtab_ext (m k : nat) (f g : nat -> nat -> V) : (forall a b, f a b = g a b) -> mtab m k f = mtab m k g.
Proof. intros H. unfold mtab. apply map_ext. intros a. apply map_ext. intros b. apply H. Qed.

(* reading row A_n[xsubs[k], :] at the entry's own subscript (the code) or at the target row a (the definition) is the same,
   because the entry only contributes to row a = xsubs[k] *)
Lemma calc_phi_sp_code_eq (S : sparse V) (n : nat) (st : @state V) :
  calc_phi_sp_code v0 v1 vadd vmul vdivmax S n st = calc_phi_sp v0 v1 vadd vmul vdivmax S n st.
Proof.
  unfold calc_phi_sp_code, calc_phi_sp. apply c11_mtab_ext. intros a r. apply sum_over_ext. intros e _.
  destruct (Nat.eqb_spec (nth n (fst e) 0) a) as [E|_]; [|reflexivity]. unfold v_sp. now rewrite E.
Qed.

Theorem calc_phi_sp_correct (S : sparse V) (X : dense V) (n : nat) (st : @state V) (a r : nat) :
  wf_sp isz S -> n < length (sshape S) ->
  dshape X = sshape S -> (forall i, den_dense v0 X i = den_sp v0 S i) ->
  (forall v, vdivmax v0 v = v0) ->
  a < length (fac st n) -> length (fac st n) = nth n (sshape S) 0 -> r < rankof st ->
  mget v0 (calc_phi_sp v0 v1 vadd vmul vdivmax S n st) a r =
  mget v0 (calc_phi v0 v1 vadd vmul vdivmax X n st) a r.
Proof.
  intros W Hn Hs Hden Hdiv Ha HA Hr.
  unfold calc_phi_sp, calc_phi. rewrite !c11_mget_mtab by auto. rewrite Hs.
  set (A := fac st n). set (R := rankof st).
  set (F := fun (v : V) (j : idx) =>
     vdivmax v (SN R (fun s => mget v0 A a s * pi_sp v0 v1 vmul st n j s)) * pi_sp v0 v1 vmul st n j r).
  (* dense side: a sum over the remaining modes of h (insert_at n a i) *)
  transitivity (SO (allsubs (remove_nth n (sshape S))) (fun i => F (den_sp v0 S (insert_at n a i)) (insert_at n a i))).
  2:{ apply sum_over_ext. intros i Hi. apply in_allsubs, inb_length in Hi. rewrite remove_nth_length in Hi by auto.
      unfold F, pi_sp, pi_entry. rewrite remove_insert by lia. now rewrite Hden. }
  rewrite (sum_allsubs_fix V v0 v1 vadd vmul vsub vopp Vring (sshape S) n a
             (fun j => F (den_sp v0 S j) j)) by (auto; fold A in HA, Ha; lia).
  symmetry.
  apply (sum_sparse_gen V v0 v1 vadd vmul vsub vopp Vring isz S
           (fun v j => if Nat.eqb (nth n j 0) a then F v j else v0) W).
  intros j. destruct (Nat.eqb (nth n j 0) a); [|reflexivity]. unfold F. rewrite Hdiv. ring.
Qed.

(* the sparse branch as the code writes it (row A_n[xsubs[k], :]) against the dense branch on Data.full() *)
Corollary calc_phi_sp_code_full (S : sparse V) (n : nat) (st : @state V) (a r : nat) :
  wf_sp isz S -> n < length (sshape S) ->
  (forall v, vdivmax v0 v = v0) ->
  a < length (fac st n) -> length (fac st n) = nth n (sshape S) 0 -> r < rankof st ->
  mget v0 (calc_phi_sp_code v0 v1 vadd vmul vdivmax S n st) a r =
  mget v0 (calc_phi v0 v1 vadd vmul vdivmax (full v0 S) n st) a r.
Proof.
  intros W Hn Hdiv Ha HA Hr. rewrite calc_phi_sp_code_eq.
  apply calc_phi_sp_correct; auto. intros i. apply den_full. now destruct W as (_ & _ & Hb & _).
Qed.
End SparsePhi.

(* ------------------------------------------------------------------------------------------------ instances over Z *)
From Coq Require Import ZArith.

(* (B): rank 2, component 1 is dead (mode-0 column all zero, mode-1 column sums to 12, not 1) *)
Example mass_factor0_dead_ex :
  let w := [1; 1]%Z in
  let A0 := [[2; 0]; [3; 0]]%Z in
  let A1 := [[1; 5]; [0; 7]; [0; 0]]%Z in
  sum_over 0%Z Z.add (allsubs (kshape (mkK w [A0; A1]))) (den_k 0%Z 1%Z Z.add Z.mul (mkK w [A0; A1])) = 5%Z /\
  sum_n 0%Z Z.add (length w) (fun r => colsum Z 0%Z Z.add A0 r) = 5%Z.
Proof.
  cbv zeta. split; [|reflexivity].
  rewrite (mass_factor0_dead Z 0%Z 1%Z Z.add Z.mul Z.sub Z.opp Zth); [reflexivity|].
  intros r Hr. destruct r as [|[|r]]; cbn in Hr; [| |lia].
  - split; [reflexivity|]. left. intros A [<-|[]]. reflexivity.
  - split; [reflexivity|]. right. reflexivity.
Qed.

(* (C): a 2 x 3 x 2 sparse tensor with 4 stored nonzeros, rank 2, every mode; division oracle x / max(v, 1) on Z.
   The values are multiples of v[k] = [4; 9; 2; 9], so every division is exact and the matrices below are the ones
   pyttb's calculate_pi / calculate_phi return for this input (both branches). *)
Example calc_phi_sp_ex :
  let S := mkSp [2; 3; 2] [[0; 0; 0]; [1; 2; 0]; [0; 1; 1]; [1; 2; 1]] [8; 18; 6; 27]%Z in
  let st := mkSt [1; 1]%Z [[[1; 2]; [3; 1]]; [[1; 1]; [2; 0]; [1; 3]]; [[2; 1]; [1; 2]]]%Z [] [] true in
  let dm := fun x v : Z => Z.div x (Z.max v 1) in
  forall n, n < 3 ->
    calc_phi_sp_code 0%Z 1%Z Z.add Z.mul dm S n st = calc_phi 0%Z 1%Z Z.add Z.mul dm (full 0%Z S) n st /\
    calc_phi_sp 0%Z 1%Z Z.add Z.mul dm S n st = calc_phi 0%Z 1%Z Z.add Z.mul dm (full 0%Z S) n st.
Proof. cbv zeta. intros [|[|[|n]]] Hn; [vm_compute; split; reflexivity ..|lia]. Qed.

Example calc_phi_sp_ex_value :
  let S := mkSp [2; 3; 2] [[0; 0; 0]; [1; 2; 0]; [0; 1; 1]; [1; 2; 1]] [8; 18; 6; 27]%Z in
  let st := mkSt [1; 1]%Z [[[1; 2]; [3; 1]]; [[1; 1]; [2; 0]; [1; 3]]; [[2; 1]; [1; 2]]]%Z [] [] true in
  let dm := fun x v : Z => Z.div x (Z.max v 1) in
  calc_phi_sp_code 0%Z 1%Z Z.add Z.mul dm S 0 st = [[10; 2]; [7; 24]]%Z /\
  calc_phi_sp_code 0%Z 1%Z Z.add Z.mul dm S 1 st = [[4; 4]; [3; 12]; [21; 8]]%Z /\
  calc_phi_sp_code 0%Z 1%Z Z.add Z.mul dm S 2 st = [[8; 10]; [15; 9]]%Z.
Proof. vm_compute. repeat split. Qed.
