(* Model/C02Switch.v — the data-dependent result container of sptensor.ttv (some mode kept) and sptensor.contract (order > 2):
     c = accumarray(...) / sptensor.from_aggregator(newsubs, newvals, newsiz)       (sums that vanish are not stored)
     vector result:   if np.count_nonzero(c) <= 0.5 * newsiz: sptensor else tensor
     multiway result: if c.nnz > 0.5 * prod(newsiz): c = c.to_tensor()
   i.e. the result is returned DENSE iff more than half of the entries of the assembled array are nonzero.  Proofs: Proofs/C02SwitchProofs.v *)
From Coq Require Import List Arith Bool.
From PV Require Import Base.Index.
Import ListNotations.

Section Sw.
Context {V : Type} (isz : V -> bool).
Definition count_nz (s : shape) (f : idx -> V) : nat := length (filter (fun i => negb (isz (f i))) (allsubs s)).
Definition densify (s : shape) (f : idx -> V) : bool := size s <? 2 * count_nz s f.
End Sw.
