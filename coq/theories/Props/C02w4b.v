(* Props/C02w4b.v — property C02, wave 4: tensor.mttkrps in C02's terms.  The byte-level algorithm is C12's (imported:
   Proofs/C12Reshape.v, C12_mttkrps_bytes_py); this file states that each matrix it returns holds the defining sums spec_mttkrp of
   Model/C02Spec.v.  Kept in its own file because it depends on C09 / C12 proof files.  Only statements, `exact`, Print Assumptions. *)
From Coq Require Import List Arith Bool ZArith Ring.
From PV Require Import Base.Index Base.Sum Np.Array Model.Repr Model.C02Spec Proofs.C12Mttkrps Proofs.C12Reshape Proofs.C02Mttkrps.
Import ListNotations.

Section C02w4b.
Variable V : Type.
Variables (v0 v1 : V) (vadd vmul vsub : V -> V -> V) (vopp : V -> V).
Hypothesis Vring : ring_theory v0 v1 vadd vmul vsub vopp (@eq V).

(* tensor.mttkrps(U) for a factor list (a Kruskal operand's weights scale the columns afterwards): split index = min_split(shape), right
   and left partial MTTKRPs, mttv_mid / mttv_left sweeps on the flat F-order data: matrix n, entry (x, r) = the mode-n defining sum *)
Theorem C02_mttkrps_dense : forall (T : dense V) (As : list (list (list V))) (R : nat),
  wf_dense T -> Forall (fun d => 1 <= d) (dshape T) -> fdims V R As (dshape T) -> 2 <= length (dshape T) ->
  let Ys := mttkrps_b V v0 vadd vmul (ddata T) As (min_split (dshape T)) in
  length Ys = length (dshape T) /\
  forall n x r, n < length (dshape T) -> x < nth n (dshape T) 0 -> r < R ->
    mget v0 (nth n Ys []) x r = spec_mttkrp v0 v1 vadd vmul (den_dense v0 T) (dshape T) n (repeat v1 R) As x r.
Proof. exact (mttkrps_bytes_spec V v0 v1 vadd vmul vsub vopp Vring). Qed.
End C02w4b.
Print Assumptions C02_mttkrps_dense.

Local Open Scope Z_scope.
(* X = [[1 3 5]; [2 4 6]], A = [[1]; [2]], B = [[1]; [0]; [3]]: mode 0: X B = [16; 20]; mode 1: X^T A = [5; 11; 17] *)
Example C02_ex_mttkrps : mttkrps_b Z 0 Z.add Z.mul [1; 2; 3; 4; 5; 6] [[[1]; [2]]; [[1]; [0]; [3]]] (min_split [2; 3]%nat)
                         = [[[16]; [20]]; [[5]; [11]; [17]]].
Proof. reflexivity. Qed.
