(* Proofs/C12TensorR.v — over the reals: the matrices returned by fg.evaluate (Model/C12Gcp.v, eval_G) are the
   exact partial derivatives of the objective eval_F with respect to every factor-matrix entry
   (DESIGN §C12, T2, part 6).  Uses the ring-generic lemmas of Proofs/C12Tensor.v instantiated at R. *)
From Coq Require Import List Arith Lia Bool Reals Lra.
From Coquelicot Require Import Coquelicot.
From PV Require Import Base.Index Base.Sum Np.Array Model.Sparse Model.Repr Model.C12Gcp Proofs.C12Tensor.
Import ListNotations.
Local Open Scope R_scope.

Section Grad.

Notation matR := (list (list R)).
Notation msumR := (sum_over 0 Rplus).
Notation dkR := (den_k 0 1 Rplus Rmult).
Notation mgR := (mget 0).
Notation ksR := (kprod_skip 0 1 Rmult).
Notation RSO_single := (sum_over_single R 0 1 Rplus Rmult Rminus Ropp RTheory).
Notation RSO_zero := (sum_over_zero R 0 1 Rplus Rmult Rminus Ropp RTheory).
Notation RSO_ext := (sum_over_ext R 0 Rplus).

(* the matrix A with entry (j, r) replaced by t *)
Definition mset (A : matR) (j r : nat) (t : R) : matR := upd A j (upd (nth j A []) r t).

Lemma mset_length A j r t : length (mset A j r t) = length A.
Proof. unfold mset. apply upd_length. Qed.

Lemma mget_mset A j r t j' q : (j < length A)%nat -> (r < length (nth j A []))%nat ->
  mgR (mset A j r t) j' q = if (Nat.eqb j' j && Nat.eqb q r)%bool then t else mgR A j' q.
Proof.
  intros Hj Hr. unfold mget, mset. rewrite nth_upd by auto.
  destruct (Nat.eqb_spec j' j) as [->|_]; cbn [andb]; [|reflexivity].
  now rewrite nth_upd by auto.
Qed.

Lemma mset_same A j r : mset A j r (mgR A j r) = A.
Proof. unfold mset, mget. apply (upd_same _ _ _ []). symmetry. now apply (upd_same _ _ _ 0). Qed.

(* derivative of a finite sum *)
Lemma is_derive_msum {A} (l : list A) (F : A -> R -> R) (D : A -> R) (x : R) :
  (forall a, In a l -> is_derive (F a) x (D a)) ->
  is_derive (fun t => msumR l (fun a => F a t)) x (msumR l D).
Proof.
  induction l as [|a l IH]; intros H.
  - cbn. apply (is_derive_const (V := R_NormedModule) 0 x).
  - change (is_derive (fun t => plus (F a t) (msumR l (fun a => F a t))) x (plus (D a) (msumR l D))).
    apply (is_derive_plus (V := R_NormedModule)).
    + apply H. now left.
    + apply IH. intros b Hb. apply H. now right.
Qed.

(* d/dt of the objective with entry (j, r) of the k-th factor set to t, at the current entry value,
   is entry (j, r) of the k-th matrix returned by eval_G.
   Most general form: the loss only has to be differentiable (with derivative g) at the model values
   actually attained, entry by entry. *)
Theorem eval_gradient_pointwise :
  forall (f g : R -> R -> R) (K : ktensor R) (X : dense R) (w : option (dense R)) (k j r : nat),
  (forall i, inb (dshape X) i = true ->
     is_derive (fun m => f (den_dense 0 X i) m) (dkR K i) (g (den_dense 0 X i) (dkR K i))) ->
  (forall q, (q < krank K)%nat -> nth q (kweights K) 0 = 1) ->
  wf_k K ->
  (k < length (kfactors K))%nat ->
  (j < nrows (nth k (kfactors K) []))%nat ->
  (r < krank K)%nat ->
  dshape X = kshape K ->
  is_derive (fun t => eval_F 0 1 Rplus Rmult f (kset R K k (mset (nth k (kfactors K) []) j r t)) X w)
            (mgR (nth k (kfactors K) []) j r)
            (mgR (nth k (eval_G 0 1 Rplus Rmult g K X w) []) j r).
Proof.
  intros f g K X w k j r Hfg Hw Hwf Hk Hj Hr Hs.
  set (A := nth k (kfactors K) []) in *.
  assert (Hrow : (r < length (nth j A []))%nat).
  { unfold wf_k in Hwf. rewrite Forall_forall in Hwf.
    assert (HA : In A (kfactors K)) by (apply nth_In; auto).
    specialize (Hwf A HA). rewrite Forall_forall in Hwf.
    rewrite (Hwf (nth j A [])) by (apply nth_In; exact Hj). exact Hr. }
  assert (Hsh : forall t, kshape (kset R K k (mset A j r t)) = kshape K).
  { intros t. apply kshape_kset. unfold nrows. rewrite mset_length. symmetry. apply nth_kshape. }
  assert (HK0 : kset R K k (mset A j r (mgR A j r)) = K).
  { rewrite mset_same. unfold kset. destruct K as [wt As]. cbn [kweights kfactors] in *. f_equal.
    now apply (upd_same _ _ _ []). }
  (* the derivative in sum form *)
  set (Dd := fun i : idx => if Nat.eqb (nth k i 0%nat) j then ksR (kfactors K) i r k else 0).
  replace (mgR (nth k (eval_G 0 1 Rplus Rmult g K X w) []) j r)
    with (msumR (allsubs (dshape X))
            (fun i => wget 0 1 w i * (Dd i * g (den_dense 0 X i) (dkR K i)))).
  2:{ unfold eval_G. rewrite (nth_map_seq _ _ k []) by (rewrite Hs, kshape_length; exact Hk).
      rewrite mget_mttkrp_den; [| rewrite Hs, nth_kshape; exact Hj | exact Hr].
      rewrite (sum_over_filter R 0 1 Rplus Rmult Rminus Ropp RTheory).
      apply RSO_ext. intros i _. unfold Dd, eval_Y.
      destruct (Nat.eqb (nth k i 0%nat) j); ring. }
  unfold eval_F.
  apply (is_derive_msum (allsubs (dshape X))
           (fun i t => f (den_dense 0 X i) (dkR (kset R K k (mset A j r t)) i) * wget 0 1 w i)).
  intros i Hi. apply in_allsubs in Hi.
  (* the model value at i is affine in t with slope Dd i *)
  assert (Hm : is_derive (fun t => dkR (kset R K k (mset A j r t)) i) (mgR A j r) (Dd i)).
  { apply (is_derive_ext (fun t => msumR (seq 0 (krank K)) (fun q =>
             nth q (kweights K) 0 * (mgR (mset A j r t) (nth k i 0%nat) q * ksR (kfactors K) i q k)))).
    { intros t. symmetry.
      apply (den_kset R 0 1 Rplus Rmult Rminus Ropp RTheory K k (mset A j r t) i Hk).
      rewrite Hsh, <- Hs. exact Hi. }
    replace (Dd i) with (msumR (seq 0 (krank K)) (fun q =>
       if (Nat.eqb (nth k i 0%nat) j && Nat.eqb q r)%bool
       then nth q (kweights K) 0 * ksR (kfactors K) i q k else 0)).
    2:{ unfold Dd. destruct (Nat.eqb (nth k i 0%nat) j); cbn [andb].
        - rewrite (RSO_single (seq 0 (krank K)) r).
          + rewrite Nat.eqb_refl, Hw by exact Hr. ring.
          + apply seq_NoDup.
          + apply in_seq. lia.
          + intros a _ Ha. apply Nat.eqb_neq in Ha. now rewrite Ha.
        - apply RSO_zero. reflexivity. }
    apply (is_derive_msum (seq 0 (krank K))
      (fun q t => nth q (kweights K) 0 * (mgR (mset A j r t) (nth k i 0%nat) q * ksR (kfactors K) i q k))).
    intros q _.
    apply (is_derive_ext (fun t => nth q (kweights K) 0 *
             ((if (Nat.eqb (nth k i 0%nat) j && Nat.eqb q r)%bool then t else mgR A (nth k i 0%nat) q)
              * ksR (kfactors K) i q k))).
    { intros t. now rewrite mget_mset by auto. }
    destruct (Nat.eqb (nth k i 0%nat) j && Nat.eqb q r)%bool.
    - auto_derive; [exact I | ring].
    - auto_derive; [exact I | ring]. }
  apply (is_derive_ext (fun t => wget 0 1 w i *
           f (den_dense 0 X i) (dkR (kset R K k (mset A j r t)) i))).
  { intros t. apply Rmult_comm. }
  apply is_derive_scal.
  apply (is_derive_comp (fun m => f (den_dense 0 X i) m)
           (fun t => dkR (kset R K k (mset A j r t)) i) (mgR A j r)).
  - cbv beta. rewrite HK0. apply Hfg. exact Hi.
  - exact Hm.
Qed.

(* the matrices returned by fg.evaluate are the exact partial derivatives of the objective *)
Theorem eval_gradient :
  forall (f g : R -> R -> R) (K : ktensor R) (X : dense R) (w : option (dense R)) (k j r : nat),
  (forall x m, is_derive (fun m => f x m) m (g x m)) ->
  (forall q, (q < krank K)%nat -> nth q (kweights K) 0 = 1) ->
  wf_k K ->
  (k < length (kfactors K))%nat ->
  (j < nrows (nth k (kfactors K) []))%nat ->
  (r < krank K)%nat ->
  dshape X = kshape K ->
  is_derive (fun t => eval_F 0 1 Rplus Rmult f (kset R K k (mset (nth k (kfactors K) []) j r t)) X w)
            (mgR (nth k (kfactors K) []) j r)
            (mgR (nth k (eval_G 0 1 Rplus Rmult g K X w) []) j r).
Proof.
  intros f g K X w k j r Hfg. apply eval_gradient_pointwise. intros i _. apply Hfg.
Qed.

(* domain-restricted version: g is the derivative of f only for model values m >= lb (the lower bound
   fg_setup attaches to the objective), and the current model respects the bound on the data's shape *)
Theorem eval_gradient_lb :
  forall (lb : R) (f g : R -> R -> R) (K : ktensor R) (X : dense R) (w : option (dense R)) (k j r : nat),
  (forall x m, lb <= m -> is_derive (fun m => f x m) m (g x m)) ->
  (forall i, inb (kshape K) i = true -> lb <= dkR K i) ->
  (forall q, (q < krank K)%nat -> nth q (kweights K) 0 = 1) ->
  wf_k K ->
  (k < length (kfactors K))%nat ->
  (j < nrows (nth k (kfactors K) []))%nat ->
  (r < krank K)%nat ->
  dshape X = kshape K ->
  is_derive (fun t => eval_F 0 1 Rplus Rmult f (kset R K k (mset (nth k (kfactors K) []) j r t)) X w)
            (mgR (nth k (kfactors K) []) j r)
            (mgR (nth k (eval_G 0 1 Rplus Rmult g K X w) []) j r).
Proof.
  intros lb f g K X w k j r Hfg Hlb Hw Hwf Hk Hj Hr Hs.
  apply eval_gradient_pointwise; auto. intros i Hi. apply Hfg. apply Hlb. now rewrite <- Hs.
Qed.

End Grad.
