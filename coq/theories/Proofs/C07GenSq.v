(* Proofs/C07GenSq.v — the GENERATED whole method sptensor.squeeze (Gen/GenSptensor4b.v, regenerated from pyttb/sptensor.py on every
   run) returns, on every coordinate list with in-range subscripts and one value per row, exactly what sptensor.squeeze's return
   statements return (a tensor, the bare entry, or the refusal of .item() on more than one stored value) with the singleton test the
   regenerated text contains: `shape > 1` (squeeze_sp_impl of Model/C07Impl.v; /repo up to 6e4bb42, finding N-C07-7) or `shape != 1`
   (squeeze_sp_impl_ne of Model/C07Gen4.v; the repair fixes/C07-N-C07-7.diff).  Wave 6: everything is proved once for a parametric
   test (Section Keep), the bridge to the regenerated text (sq_text) is proved here with one script that checks either text, so this
   file compiles unchanged on both trees and does not depend on the translator builder's Proofs/W4Squeeze.v (which states the same
   bridge as squeeze_bridge_text over its own reference H_squeeze_p). *)
From Coq Require Import List ZArith Arith Lia Bool.
From PV Require Import Base.Index Base.Perm Np.NpZ Np.NpZ2 Np.NpZ3 Np.NpZ3c Np.NpZ3d Np.NpZ3e Np.NpZ4 Np.NpZ4b Np.NpZ4d Np.NpZ4e Np.NpZ4f
  Proofs.NpZProofs Gen.GenSptensor4b Model.Sparse Model.C07Ops Model.C07Impl Proofs.W4Loops
  Proofs.W4ReshapeModel Proofs.C07Proofs Model.W4Ktensor Model.W4Sptensor Model.C07W5 Proofs.C07W5 Model.C07Gen4.
Import ListNotations.

(* ---------------- the body of sptensor.squeeze with the entry-wise singleton test as a parameter (kz on the sizes as the generated
   code sees them, kn on the sizes of the models); H_squeeze of the translator builder's Model/W4Squeeze.v is the instance `fun d => d >? 1` *)
Definition Hsq (kz : Z -> bool) (self : sptz) : res sq_result :=
  let sh := spt_shape self in
  let idx := np_where1 (map kz sh) in
  if forallb kz sh then
    (if spt_make_ok (spt_subs self) (spt_vals self) sh then Ok (NpZ4d.SqTensor self) else Err)
  else if (zlen idx =? 0)%Z then
    match spt_vals self with
    | [] => Ok (NpZ4d.SqScalar 0%Z)
    | [v] => Ok (NpZ4d.SqScalar v)
    | _ => Err
    end
  else
    let siz := filter kz sh in
    if (zlen (spt_vals self) =? 0)%Z then (if spt_make_ok [] [] siz then Ok (NpZ4d.SqTensor (mkspt [] [] siz)) else Err)
    else if np_cols_ok (spt_subs self) idx && spt_make_ok (np_cols (spt_subs self) idx) (spt_vals self) siz
         then Ok (NpZ4d.SqTensor (mkspt (np_cols (spt_subs self) idx) (spt_vals self) siz)) else Err.

Section Keep.
Variables (kn : nat -> bool) (kz : Z -> bool).
Hypothesis Hk : forall d : nat, kz (Z.of_nat d) = kn d.

(* positions of the kept modes, counted from k *)
Fixpoint keep_from (k : nat) (s : shape) : list nat :=
  match s with
  | [] => []
  | d :: s' => if kn d then k :: keep_from (S k) s' else keep_from (S k) s'
  end.

Lemma where_keep (k : nat) (s : shape) :
  where_from (Z.of_nat k) (map kz (zs s)) = zs (keep_from k s).
Proof.
  revert k. induction s as [|d s IH]; intros k; [reflexivity|]. unfold zs in *. cbn [map where_from keep_from].
  replace (Z.of_nat k + 1)%Z with (Z.of_nat (S k)) by lia. rewrite IH, Hk. now destruct (kn d).
Qed.

Lemma keep_from_length k s : length (keep_from k s) = length (sqk kn s s).
Proof. revert k. induction s as [|d s IH]; intros k; [reflexivity|]. cbn [keep_from sqk]. destruct (kn d); cbn [length]; now rewrite IH. Qed.

Lemma keep_from_lt k s x : In x (keep_from k s) -> x < k + length s.
Proof.
  revert k. induction s as [|d s IH]; intros k; [intros []|]. cbn [keep_from length].
  destruct (kn d); [intros [<-|H]; [lia|]|intros H]; apply IH in H; lia.
Qed.

Lemma pick_keep_from (pre j : list nat) (s : shape) : length j = length s ->
  pick 0 (keep_from (length pre) s) (pre ++ j) = sqk kn s j.
Proof.
  revert pre j. induction s as [|d s IH]; intros pre [|x j] HL; try discriminate; [reflexivity|].
  cbn [keep_from sqk]. injection HL as HL.
  assert (E : pick 0 (keep_from (S (length pre)) s) (pre ++ x :: j) = sqk kn s j).
  { replace (pre ++ x :: j) with ((pre ++ [x]) ++ j) by (rewrite <- app_assoc; reflexivity).
    replace (S (length pre)) with (length (pre ++ [x])) by (rewrite app_length; cbn; lia). now apply IH. }
  destruct (kn d); [|exact E]. unfold pick in *. cbn [map]. rewrite E. f_equal. apply nth_middle.
Qed.

Lemma filter_k_zs s : filter kz (zs s) = zs (sqk kn s s).
Proof.
  induction s as [|d s IH]; [reflexivity|]. unfold zs in *. cbn [map filter sqk]. rewrite Hk.
  destruct (kn d); cbn [map]; now rewrite IH.
Qed.

Lemma forallb_k_zs s : forallb kz (zs s) = forallb kn s.
Proof. induction s as [|d s IH]; [reflexivity|]. unfold zs in *. cbn [map forallb]. now rewrite IH, Hk. Qed.

(* dropping modes keeps a subscript inside the shape *)
Lemma sqk_inb s j : inb s j = true -> inb (sqk kn s s) (sqk kn s j) = true.
Proof.
  revert j; induction s as [|d s IH]; intros [|x j] H; cbn [inb] in H; try discriminate; [reflexivity|].
  apply andb_true_iff in H as [Hx Hj]. cbn [sqk]. destruct (kn d); [|now apply IH].
  cbn [inb]. rewrite Hx. now apply IH.
Qed.

Theorem gen_sp_squeeze_k (S : sparse Z) : sshape S <> [] ->
  Forall (fun j => inb (sshape S) j = true) (ssubs S) -> length (svals S) = length (ssubs S) ->
  Hsq kz (of_Sp S) =
    match squeeze_sp_impl_k kn 0%Z S with
    | Some (C07Ops.SqT R) => Ok (NpZ4d.SqTensor (of_Sp R))
    | Some (C07Ops.SqScalar v) => Ok (NpZ4d.SqScalar v)
    | None => Err
    end.
Proof.
  intros Hs Hin Hlen. unfold Hsq, squeeze_sp_impl_k, np_where1. cbv zeta.
  change (spt_shape (of_Sp S)) with (zs (sshape S)). change (spt_vals (of_Sp S)) with (svals S).
  change (spt_subs (of_Sp S)) with (zm (ssubs S)). set (s := sshape S) in *.
  rewrite forallb_k_zs. pose proof (where_keep 0 s) as WK. cbn [Z.of_nat] in WK. rewrite WK. clear WK.
  destruct (forallb kn s) eqn:Hall.
  - replace (spt_make_ok _ _ _) with true; [reflexivity|]. symmetry.
    destruct (ssubs S) as [|j0 J] eqn:EJ.
    + destruct (svals S); [reflexivity|discriminate].
    + apply make_ok_zs; auto. discriminate.
  - rewrite zlen_zs, keep_from_length, filter_k_zs.
    destruct (sqk kn s s) as [|d r] eqn:Es.
    + cbn [length Z.eqb Z.of_nat]. destruct (svals S) as [|v [|v' vs]]; reflexivity.
    + replace (Z.of_nat (length (d :: r)) =? 0)%Z with false by (cbn [length]; symmetry; apply Z.eqb_neq; lia).
      unfold zlen at 1.
      destruct (Nat.eqb_spec (length (svals S)) 0) as [E0|E0].
      * replace (Z.of_nat (length (svals S)) =? 0)%Z with true by (symmetry; apply Z.eqb_eq; lia). reflexivity.
      * replace (Z.of_nat (length (svals S)) =? 0)%Z with false by (symmetry; apply Z.eqb_neq; lia).
        assert (HL : Forall (fun j => length j = length s) (ssubs S)).
        { eapply Forall_impl; [|exact Hin]. intros j Hj. now apply inb_length. }
        rewrite (cols_ok_zm (ssubs S) (keep_from 0 s) (length s) HL).
        2:{ apply Forall_forall. intros x Hx. apply keep_from_lt in Hx. lia. }
        rewrite cols_zm. cbn [andb].
        assert (EM : map (pick 0 (keep_from 0 s)) (ssubs S) = map (sqk kn s) (ssubs S)).
        { apply map_ext_in. intros j Hj. rewrite Forall_forall in HL. apply (pick_keep_from [] j s). now apply HL. }
        rewrite EM. rewrite make_ok_zs; [reflexivity| | discriminate | | now rewrite map_length].
        -- destruct (ssubs S); [cbn in Hlen; lia|discriminate].
        -- apply Forall_forall. intros j Hj. apply in_map_iff in Hj as (j0 & <- & Hj0). rewrite Forall_forall in Hin.
           rewrite <- Es. apply sqk_inb. now apply Hin.
Qed.
End Keep.

(* the two instances: `> 1` (sqz, squeeze_sp_impl) and `!= 1` (sqn, squeeze_sp_impl_ne) *)
Lemma sqk_gt1 {A} s (l : list A) : sqk (Nat.ltb 1) s l = sqz s l.
Proof. revert l; induction s as [|d s IH]; intros [|x l]; cbn [sqk sqz]; try reflexivity. now rewrite IH. Qed.

Lemma sqk_ne1 {A} s (l : list A) : sqk ne1 s l = sqn s l.
Proof. revert l; induction s as [|d s IH]; intros [|x l]; cbn [sqk sqn]; try reflexivity. unfold ne1 at 1. rewrite IH. now destruct (Nat.eqb d 1). Qed.

Lemma impl_k_gt1 {V} (v0 : V) S : squeeze_sp_impl_k (Nat.ltb 1) v0 S = squeeze_sp_impl v0 S.
Proof.
  unfold squeeze_sp_impl_k, squeeze_sp_impl. cbv zeta. rewrite sqk_gt1.
  replace (map (sqk (Nat.ltb 1) (sshape S)) (ssubs S)) with (map (sqz (sshape S)) (ssubs S)); [reflexivity|].
  apply map_ext. intros j. now rewrite sqk_gt1.
Qed.

Lemma kz_gt1 (d : nat) : (Z.of_nat d >? 1)%Z = (1 <? d).
Proof. destruct (Nat.ltb_spec 1 d); [apply Z.gtb_lt; lia|]. destruct (Z.gtb_spec (Z.of_nat d) 1); [lia|reflexivity]. Qed.

Lemma kz_ne1 (d : nat) : negb (Z.of_nat d =? 1)%Z = ne1 d.
Proof. unfold ne1. f_equal. destruct (Nat.eqb_spec d 1) as [->|H]; [reflexivity|]. apply Z.eqb_neq. lia. Qed.

(* on positive sizes the two tests agree *)
Lemma impl_k_pos {V} (v0 : V) S : forallb (Nat.ltb 0) (sshape S) = true -> squeeze_sp_impl_k ne1 v0 S = squeeze_sp_impl_k (Nat.ltb 1) v0 S.
Proof.
  intros H. assert (E : forall A (l : list A), sqk ne1 (sshape S) l = sqk (Nat.ltb 1) (sshape S) l).
  { intros A l. rewrite sqk_ne1, sqk_gt1. now apply sqn_sqz. }
  unfold squeeze_sp_impl_k. cbv zeta. rewrite E.
  replace (forallb ne1 (sshape S)) with (forallb (Nat.ltb 1) (sshape S)).
  - replace (map (sqk ne1 (sshape S)) (ssubs S)) with (map (sqk (Nat.ltb 1) (sshape S)) (ssubs S)); [reflexivity|].
    apply map_ext. intros j. now rewrite E.
  - clear E. induction (sshape S) as [|d s IH]; [reflexivity|]. cbn [forallb] in *. apply andb_true_iff in H as [H1 H2].
    rewrite (IH H2). f_equal. unfold ne1. apply Nat.ltb_lt in H1.
    destruct (Nat.ltb_spec 1 d); destruct (Nat.eqb_spec d 1); try reflexivity; lia.
Qed.

Lemma impl_ne_pos {V} (v0 : V) S : forallb (Nat.ltb 0) (sshape S) = true -> squeeze_sp_impl_ne v0 S = squeeze_sp_impl v0 S.
Proof. intros H. unfold squeeze_sp_impl_ne. now rewrite (impl_k_pos v0 S H), impl_k_gt1. Qed.

(* ---------------- the text regenerated on THIS run (Gen/GenSptensor4b.v): it is the body Hsq with one of the two singleton tests —
   `shapeArray > 1` (np_gt_s; /repo up to 6e4bb42, finding N-C07-7 open) or `shapeArray != 1` (np_ne_s of Np/NpZ4f.v; the repaired
   text of fixes/C07-N-C07-7.diff).  The same script checks whichever text the translator produced. *)
(* l[np.where(mask(l))] = the entries that pass, for a mask computed entry-wise (as in the translator builder's Proofs/W4Squeeze.v;
   repeated here so that this file does not depend on which of the two texts that file is written for) *)
Local Open Scope Z_scope.
Lemma c07_take_where_from (P : Z -> bool) (pre l : vec) :
  np_take 0 (pre ++ l) (where_from (zlen pre) (map P l)) = filter P l /\
  np_take_ok (pre ++ l) (where_from (zlen pre) (map P l)) = true.
Proof.
  revert pre. induction l as [|x l IH]; intros pre; cbn [map where_from filter]; [split; reflexivity|].
  destruct (IH (pre ++ [x])) as [I1 I2]. rewrite <- app_assoc in I1, I2. cbn [app] in I1, I2.
  replace (zlen (pre ++ [x])) with (zlen pre + 1) in I1, I2 by (unfold zlen; rewrite app_length; cbn [length]; lia).
  destruct (P x).
  - unfold np_take, np_take_ok in *. cbn [map forallb]. split.
    + f_equal; [|exact I1]. unfold zlen. rewrite znth_nat. apply nth_middle.
    + rewrite I2. rewrite andb_true_r. apply w4_idx_ok_range. unfold zlen. rewrite app_length. cbn [length]. lia.
  - split; assumption.
Qed.

Lemma c07_take_where (P : Z -> bool) (l : vec) :
  np_take 0 l (np_where1 (map P l)) = filter P l /\ np_take_ok l (np_where1 (map P l)) = true.
Proof. exact (c07_take_where_from P [] l). Qed.

Lemma c07_np_all_map (P : Z -> bool) (l : vec) : np_all (map P l) = forallb P l.
Proof. unfold np_all. induction l as [|x l IH]; cbn [map forallb]; [reflexivity|]. now rewrite IH. Qed.

Local Close Scope Z_scope.

Ltac sq_text_tac P self :=
  cbv zeta; rewrite c07_np_all_map; destruct (forallb _ (spt_shape self)); [reflexivity|];
  destruct (c07_take_where P (spt_shape self)) as [T1 T2]; rewrite T1, T2;
  destruct (zlen (np_where1 _) =? 0)%Z;
  [ destruct (spt_vals self) as [|v [|v' vs]]; [reflexivity|reflexivity|];
    unfold zlen; cbn [length];
    replace (Z.of_nat (S (S (length vs))) >? 0)%Z with true by (symmetry; apply Z.gtb_lt; lia);
    replace (Z.of_nat (S (S (length vs))) =? 1)%Z with false by (symmetry; apply Z.eqb_neq; lia); reflexivity
  | destruct (zlen (spt_vals self) =? 0)%Z; reflexivity ].

Theorem sq_text :
  (forall self, sptensor_squeeze self = Hsq (fun d => (d >? 1)%Z) self) \/
  (forall self, sptensor_squeeze self = Hsq (fun d => negb (d =? 1)%Z) self).
Proof.
  first [ left; intros self; unfold sptensor_squeeze, Hsq, np_gt_s, spt_make; sq_text_tac (fun d => (d >? 1)%Z) self
        | right; intros self; unfold sptensor_squeeze, Hsq, np_ne_s, spt_make; sq_text_tac (fun d => negb (d =? 1)%Z) self ].
Qed.

(* the probe of Model/C07Gen4.v tells which *)
Lemma sq_text_probe :
  (sq_text_keeps_zero = false /\ forall self, sptensor_squeeze self = Hsq (fun d => (d >? 1)%Z) self) \/
  (sq_text_keeps_zero = true /\ forall self, sptensor_squeeze self = Hsq (fun d => negb (d =? 1)%Z) self).
Proof.
  destruct sq_text as [H|H]; [left|right]; (split; [|exact H]); unfold sq_text_keeps_zero; rewrite H; reflexivity.
Qed.

Definition sq_out (r : option (C07Ops.sq_res (V:=Z) (sparse Z))) : res sq_result :=
  match r with
  | Some (C07Ops.SqT R) => Ok (NpZ4d.SqTensor (of_Sp R))
  | Some (C07Ops.SqScalar v) => Ok (NpZ4d.SqScalar v)
  | None => Err
  end.

(* every shape, whichever text: the generated method = the return statements with the test the text contains *)
Theorem gen_sp_squeeze_text (S : sparse Z) : sshape S <> [] ->
  Forall (fun j => inb (sshape S) j = true) (ssubs S) -> length (svals S) = length (ssubs S) ->
  sptensor_squeeze (of_Sp S) = sq_out (if sq_text_keeps_zero then squeeze_sp_impl_ne 0%Z S else squeeze_sp_impl 0%Z S).
Proof.
  intros Hs Hin Hlen. destruct sq_text_probe as [[E H]|[E H]]; rewrite E, H.
  - rewrite (gen_sp_squeeze_k (Nat.ltb 1) _ kz_gt1 S Hs Hin Hlen). now rewrite impl_k_gt1.
  - exact (gen_sp_squeeze_k ne1 _ kz_ne1 S Hs Hin Hlen).
Qed.

(* positive sizes: the two tests agree, so both texts return what squeeze_sp_impl returns *)
Theorem gen_sp_squeeze_model (S : sparse Z) : sshape S <> [] -> forallb (Nat.ltb 0) (sshape S) = true ->
  Forall (fun j => inb (sshape S) j = true) (ssubs S) -> length (svals S) = length (ssubs S) ->
  sptensor_squeeze (of_Sp S) =
    match squeeze_sp_impl 0%Z S with
    | Some (C07Ops.SqT R) => Ok (NpZ4d.SqTensor (of_Sp R))
    | Some (C07Ops.SqScalar v) => Ok (NpZ4d.SqScalar v)
    | None => Err
    end.
Proof.
  intros Hs Hp Hin Hlen. rewrite (gen_sp_squeeze_text S Hs Hin Hlen). destruct sq_text_keeps_zero; [|reflexivity].
  unfold squeeze_sp_impl_ne. now rewrite (impl_k_pos 0%Z S Hp), impl_k_gt1.
Qed.

(* through the adapter of Model/C07Gen4.v: generated sptensor.squeeze = the code-path model, hence (C07_squeeze_sparse_code) the
   squeeze model of Model/C07Ops.v with its index law *)
Lemma to_nat_of_nat (l : list nat) : map Z.to_nat (map Z.of_nat l) = l.
Proof. induction l as [|x l IH]; [reflexivity|]. cbn [map]. now rewrite Nat2Z.id, IH. Qed.

Lemma to_of_Sp (R : sparse Z) : to_Sp (of_Sp R) = R.
Proof.
  destruct R as [s J v]. unfold to_Sp, of_Sp, nats, zm. cbn [spt_shape spt_subs spt_vals sshape ssubs svals]. unfold zs. f_equal.
  - apply to_nat_of_nat.
  - induction J as [|j J IH]; [reflexivity|]. cbn [map]. now rewrite to_nat_of_nat, IH.
Qed.

Lemma sq_out_res r : match sq_out r with
                      | Ok (NpZ4d.SqTensor t) => Some (C07Ops.SqT (to_Sp t))
                      | Ok (NpZ4d.SqScalar v) => Some (C07Ops.SqScalar v)
                      | Err => None
                      end = r.
Proof. destruct r as [[R|v]|]; cbn [sq_out]; [|reflexivity|reflexivity]. now rewrite to_of_Sp. Qed.

Theorem gen_sp_squeeze_res (S : sparse Z) : sshape S <> [] -> forallb (Nat.ltb 0) (sshape S) = true ->
  Forall (fun j => inb (sshape S) j = true) (ssubs S) -> length (svals S) = length (ssubs S) ->
  sptensor_squeeze_res (of_Sp S) = squeeze_sp_impl 0%Z S.
Proof.
  intros Hs Hp Hin Hlen. unfold sptensor_squeeze_res. rewrite (gen_sp_squeeze_model S Hs Hp Hin Hlen).
  exact (sq_out_res (squeeze_sp_impl 0%Z S)).
Qed.

Theorem gen_sp_squeeze_text_res (S : sparse Z) : sshape S <> [] ->
  Forall (fun j => inb (sshape S) j = true) (ssubs S) -> length (svals S) = length (ssubs S) ->
  sptensor_squeeze_res (of_Sp S) = if sq_text_keeps_zero then squeeze_sp_impl_ne 0%Z S else squeeze_sp_impl 0%Z S.
Proof. intros Hs Hin Hlen. unfold sptensor_squeeze_res. rewrite (gen_sp_squeeze_text S Hs Hin Hlen). apply sq_out_res. Qed.

(* a holder with a size-0 mode (nothing can be stored): the return statements of the repaired text give what the property demands
   (squeeze_sp_any of Model/C07W5.v: the size-0 modes are kept, the answer is a tensor) ... *)
Lemma impl_ne_zero_mode (S : sparse Z) : Forall (fun j => inb (sshape S) j = true) (ssubs S) -> length (svals S) = length (ssubs S) ->
  In 0 (sshape S) -> squeeze_sp_impl_ne 0%Z S = Some (squeeze_sp_any 0%Z S).
Proof.
  intros Hin Hlen H0. destruct (squeeze_sparse_zero_mode 0%Z S Hin H0) as [Hs _].
  rewrite Hs in Hlen. destruct S as [s J v]. cbn [sshape ssubs svals] in *. subst J. destruct v; [|discriminate].
  unfold squeeze_sp_impl_ne, squeeze_sp_impl_k, squeeze_sp_any. cbn [sshape ssubs svals]. rewrite sqk_ne1.
  change (forallb ne1 s) with (forallb (fun d => negb (Nat.eqb d 1)) s).
  destruct (forallb _ s); [reflexivity|]. pose proof (sqn_has_zero _ H0) as Hz.
  destruct (sqn s s) as [|d r]; [destruct Hz|]. reflexivity.
Qed.

(* ... so a text that passes the probe (the repaired one) answers every such holder as the property demands; the text of /repo up
   to 6e4bb42 (probe false) answers with squeeze_sp_impl: the size-0 modes are dropped like singletons (finding N-C07-7) *)
Theorem gen_sp_squeeze_zero_mode (S : sparse Z) :
  Forall (fun j => inb (sshape S) j = true) (ssubs S) -> length (svals S) = length (ssubs S) -> In 0 (sshape S) ->
  sptensor_squeeze_res (of_Sp S) = if sq_text_keeps_zero then Some (squeeze_sp_any 0%Z S) else squeeze_sp_impl 0%Z S.
Proof.
  intros Hin Hlen H0. assert (Hs : sshape S <> []) by (intros E; rewrite E in H0; exact H0).
  rewrite (gen_sp_squeeze_text_res S Hs Hin Hlen). destruct sq_text_keeps_zero; [|reflexivity]. now apply impl_ne_zero_mode.
Qed.
