(* Proofs/C01W4.v — fourth wave: sumtensor.full as executed (Model/C01W4.v sum_full_code) equals the specified sum_full of
   Model/C01Conv.v, hence denotes the sum of what the parts denote; every part densified by its own proved code route. *)
From Coq Require Import List Arith Lia Bool Ring.
From PV Require Import Base.Index Base.Perm Base.Sum Np.Array Model.Sparse Model.Repr Model.C07Ops Model.C01Conv
  Model.C01Unique Model.C01Coo Model.C02Spec Model.C02Dense Model.C01Ttm Model.C01W3 Model.C01W4
  Proofs.C01Proofs Proofs.C01Kruskal Proofs.C01Tucker Proofs.C01Unique Proofs.C01Converse Proofs.C01Ttm Proofs.C01W3.
Import ListNotations.

Lemma shape_eqb_refl a : shape_eqb a a = true.
Proof. induction a as [|x a IH]; cbn; [reflexivity|]. now rewrite Nat.eqb_refl, IH. Qed.

Lemma shape_eqb_eq a b : shape_eqb a b = true -> a = b.
Proof.
  revert b; induction a as [|x a IH]; intros [|y b] H; cbn in H; try discriminate; [reflexivity|].
  apply andb_true_iff in H as [H1 H2]. apply Nat.eqb_eq in H1. f_equal; auto.
Qed.

Section W4Proofs.
Variable V : Type.
Variables (v0 v1 : V) (vadd vmul vsub : V -> V -> V) (vopp : V -> V) (isz : V -> bool).
Hypothesis Vring : ring_theory v0 v1 vadd vmul vsub vopp (@eq V).
Hypothesis isz_spec : forall v, isz v = true <-> v = v0.

(* admissible parts of a sumtensor of shape s (what the constructors of the part classes guarantee) *)
Definition part4_ok (s : shape) (p : part4 V) : Prop :=
  match p with
  | QD T => wf_dense T /\ dshape T = s
  | QS Sp => Forall (fun j => inb (sshape Sp) j = true) (ssubs Sp) /\ sshape Sp = s
  | QK K => rows_ok V (krank K) (kfactors K) /\ 1 <= length (kfactors K) /\ kshape K = s
  | QT T => wf_dense (tcore T) /\ length (dshape (tcore T)) = length (tfactors T) /\ tshape T = s
  | QTS G Us => wf_sp isz G /\ length (sshape G) = length Us /\ Us <> [] /\ map (nrows (V:=V)) Us = s
  end.

(* each part's own code route yields the specified densification, and the specified part is admissible for C01_sum *)
Lemma part4_full_spec s (p : part4 V) : part4_ok s p ->
  part4_full v0 vadd vmul isz p = Some (part_full v0 v1 vadd vmul (part4_spec v0 p)) /\
  part_ok V v0 v1 vadd vmul s (part4_spec v0 p).
Proof.
  destruct p as [T|Sp|K|T|G Us]; cbn [part4_ok part4_full part4_spec part_full].
  - intros [W Hs]. split; [reflexivity|]. rewrite <- Hs. now apply (part_ok_dense V v0 v1 vadd vmul).
  - intros [Hb Hs]. split; [reflexivity|]. rewrite <- Hs. now apply (part_ok_sparse V v0 v1 vadd vmul).
  - intros (Hok & HN & Hs). rewrite <- Hs.
    destruct (ktensor_full_code_correct V v0 v1 vadd vmul vsub vopp Vring K Hok HN) as (D & E & _ & _ & _ & HD).
    rewrite E, HD. split; [reflexivity|apply (part_ok_kruskal V v0 v1 vadd vmul)].
  - intros (W & HN & Hs). rewrite <- Hs.
    destruct (ttensor_full_impl_correct V v0 v1 vadd vmul vsub vopp Vring T W HN) as (E & _).
    rewrite E. split; [reflexivity|now apply (part_ok_tucker V v0 v1 vadd vmul vsub vopp Vring)].
  - intros (W & HN & Hne & Hs).
    destruct (ttensor_full_spcore_correct V v0 v1 vadd vmul vsub vopp isz Vring isz_spec G Us W HN Hne) as (E & WD & HsD & _ & Hd).
    split; [exact E|]. rewrite <- Hs. split; [exact WD|]. split; [exact HsD|].
    intros i _. cbn [part_full part_den]. apply Hd.
Qed.

Lemma fold_iadd_spec s (rest : list (part4 V)) : forall acc : dense V, dshape acc = s -> Forall (part4_ok s) rest ->
  fold_left (iadd_part v0 vadd vmul isz) rest (Some acc)
  = Some (fold_left (fun a q => add_dense vadd a (part_full v0 v1 vadd vmul q)) (map (part4_spec v0) rest) acc).
Proof.
  induction rest as [|q rest IH]; intros acc Hs Hok; cbn [fold_left map]; [reflexivity|].
  inversion Hok as [|? ? Hq Hok']; subst.
  destruct (part4_full_spec (dshape acc) q Hq) as [E (_ & Sq & _)].
  unfold iadd_part at 2. rewrite E, Sq, shape_eqb_refl. apply IH; [reflexivity|exact Hok'].
Qed.

(* sumtensor.full as executed = the specified sum; result well-formed, of the common shape, denoting the sum of the parts *)
Theorem sum_full_code_correct s (parts : list (part4 V)) : parts <> [] -> Forall (part4_ok s) parts ->
  sum_full_code v0 vadd vmul isz parts = sum_full v0 v1 vadd vmul (map (part4_spec v0) parts) /\
  sum_double_code v0 vadd vmul isz parts = sum_full_code v0 vadd vmul isz parts /\
  Forall (part_ok V v0 v1 vadd vmul s) (map (part4_spec v0) parts) /\
  exists R, sum_full_code v0 vadd vmul isz parts = Some R /\ wf_dense R /\ dshape R = s /\
    forall i, inb s i = true ->
      den_dense v0 R i = den_sum v0 vadd (map (part_den v0 v1 vadd vmul) (map (part4_spec v0) parts)) i.
Proof.
  intros Hne Hok.
  assert (Hok' : Forall (part_ok V v0 v1 vadd vmul s) (map (part4_spec v0) parts)).
  { apply Forall_forall. intros p Hp. apply in_map_iff in Hp as (q & <- & Hq). rewrite Forall_forall in Hok.
    exact (proj2 (part4_full_spec s q (Hok q Hq))). }
  assert (E : sum_full_code v0 vadd vmul isz parts = sum_full v0 v1 vadd vmul (map (part4_spec v0) parts)).
  { destruct parts as [|p rest]; [congruence|]. inversion Hok as [|? ? Hp Hrest]; subst.
    destruct (part4_full_spec _ p Hp) as [Ep (_ & Sp & _)].
    cbn [sum_full_code sum_full map]. rewrite Ep. exact (fold_iadd_spec s rest _ Sp Hrest). }
  split; [exact E|]. split.
  { unfold sum_double_code, dense_double. destruct (sum_full_code v0 vadd vmul isz parts); reflexivity. }
  split; [exact Hok'|]. rewrite E.
  apply (sum_full_correct V v0 v1 vadd vmul vsub vopp Vring); [|exact Hok'].
  destruct parts; [congruence|discriminate].
Qed.

(* a part of another shape is rejected (the assert of tenfun_binary) *)
Theorem sum_full_code_shape_mismatch (a : dense V) (q : part4 V) b :
  part4_full v0 vadd vmul isz q = Some b -> dshape a <> dshape b -> iadd_part v0 vadd vmul isz (Some a) q = None.
Proof.
  intros E Hs. unfold iadd_part. rewrite E. destruct (shape_eqb (dshape a) (dshape b)) eqn:Eb; [|reflexivity].
  apply shape_eqb_eq in Eb. contradiction.
Qed.

(* ------------------------------------------------------------------ the multi-step history of the `chain` stream, end to end:
   tensor -> to_tenmat(r, c) -> to_tensor -> to_sptensor -> to_sptenmat(r2, c2) [with the sorting constructor] -> to_sptensor -> full.
   Every intermediate object is well-formed, reports the nonzero count of the dense tensor, and the last step returns the
   tensor the history started from. *)
Theorem chain_correct (T : dense V) r c r2 c2 : wf_dense T ->
  is_perm (r ++ c) (length (dshape T)) -> is_perm (r2 ++ c2) (length (dshape T)) ->
  let nz := length (filter (fun v => negb (isz v)) (ddata T)) in
  exists M M2,
    to_tenmat v0 T r c = Some M /\ tenmat_to_tensor v0 M = T /\
    wf_sp isz (to_sptensor v0 isz (tenmat_to_tensor v0 M)) /\ nnz (to_sptensor v0 isz (tenmat_to_tensor v0 M)) = nz /\
    to_sptenmat_sorted vadd isz (to_sptensor v0 isz (tenmat_to_tensor v0 M)) r2 c2 = Some M2 /\
    ssorted (stm_subs M2) /\ wf_sp isz (stm_sp M2) /\ length (stm_subs M2) = nz /\
    (forall i, inb (dshape T) i = true -> den_sptenmat v0 M2 i = den_dense v0 T i) /\
    wf_sp isz (sptenmat_to_sptensor M2) /\ nnz (sptenmat_to_sptensor M2) = nz /\
    full v0 (sptenmat_to_sptensor M2) = T.
Proof.
  intros W Hp Hp2 nz.
  destruct (to_tenmat_correct v0 T r c W Hp) as (M & EM & _ & _ & _ & _ & _ & _ & Hback).
  exists M. rewrite Hback. set (S := to_sptensor v0 isz T).
  assert (WS : wf_sp isz S) by (now apply to_sptensor_wf).
  assert (HS : sshape S = dshape T) by reflexivity.
  assert (HnS : nnz S = nz) by (apply nnz_to_sptensor; exact W).
  pose proof WS as (HL & Hnd & Hb & Hnz).
  assert (Hp2' : is_perm (r2 ++ c2) (length (sshape S))) by (now rewrite HS).
  destruct (to_sptenmat_sorted_correct V v0 v1 vadd vmul vsub vopp isz Vring isz_spec S r2 c2 Hp2' Hb HL)
    as (M0 & M2 & _ & E2 & _ & _ & _ & _ & Hsorted & WM2 & _ & Hwf).
  destruct (Hwf WS) as (_ & Hlen & Hden & _ & WB & HsB & HnB & HdB).
  exists M2. split; [exact EM|]. split; [reflexivity|]. split; [exact WS|]. split; [exact HnS|]. split; [exact E2|].
  split; [exact Hsorted|]. split; [exact WM2|]. split; [now rewrite Hlen|]. split.
  { intros i Hi. rewrite Hden by (now rewrite HS). unfold S. now apply den_to_sptensor. }
  split; [exact WB|]. split; [now rewrite HnB|].
  set (B := sptenmat_to_sptensor M2) in *.
  apply (dense_ext v0); [apply wf_full|exact W|change (dshape (full v0 B)) with (sshape B); now rewrite HsB, HS|].
  intros i Hi. destruct WB as (_ & _ & HbB & _). rewrite den_full by exact HbB. rewrite HdB. unfold S. now apply den_to_sptensor.
Qed.

End W4Proofs.
