(* Proofs/C02DenseProofs.v — the dense kernels of Model/C02Dense.v equal the spec of Model/C02Spec.v
   applied to the denotation of their operand, for all shapes and all values of a commutative ring. *)
From Coq Require Import List Arith Lia Bool Permutation Ring.
From PV Require Import Base.Index Base.Perm Base.Sum Np.Array Model.Sparse Model.Repr Model.C02Spec Model.C02Dense.
Import ListNotations.

(* ---------------------------------------------------------------- index helpers (no ring) *)

Lemma sub2ind_snoc s B i b : length i = length s ->
  sub2ind (s ++ [B]) (i ++ [b]) = sub2ind s i + size s * b.
Proof. intros H. rewrite sub2ind_app by auto. cbn [sub2ind]. f_equal. f_equal. lia. Qed.

Lemma inb_snoc s B i b : length i = length s ->
  inb (s ++ [B]) (i ++ [b]) = inb s i && (b <? B).
Proof. intros H. rewrite inb_app by auto. cbn [inb]. now rewrite andb_true_r. Qed.

Lemma size_snoc s B : size (s ++ [B]) = size s * B.
Proof. rewrite size_app. cbn. lia. Qed.

Lemma sub2ind_2 a b x c : sub2ind [a; b] [x; c] = x + a * c.
Proof. cbn. lia. Qed.

Lemma skipn_nth_cons {A} (d : A) : forall (l : list A) a, a < length l -> skipn a l = nth a l d :: skipn (S a) l.
Proof.
  induction l as [|x l IH]; intros [|a] H; cbn in *; try lia; auto.
  rewrite IH by lia. reflexivity.
Qed.

Lemma pick_seq_skip {A} (d : A) (l : list A) : forall k a, a + k <= length l ->
  pick d (seq a k) l = firstn k (skipn a l).
Proof.
  induction k as [|k IH]; intros a H; [reflexivity|].
  cbn [seq]. unfold pick in *. cbn [map]. rewrite IH by lia.
  rewrite (skipn_nth_cons d l a) by lia. reflexivity.
Qed.

Lemma pick_ttm_order {A} (d : A) (l : list A) n : n < length l ->
  pick d (ttm_order (length l) n) l = nth n l d :: remove_at n l.
Proof.
  intros H. unfold ttm_order, remove_at. unfold pick. cbn [map]. f_equal. rewrite map_app.
  fold (pick d (seq 0 n) l). fold (pick d (seq (S n) (length l - S n)) l).
  rewrite !pick_seq_skip by lia. change (skipn 0 l) with l. f_equal.
  apply firstn_all2. rewrite skipn_length. lia.
Qed.

Lemma ttm_order_perm N n : n < N -> is_perm (ttm_order N n) N.
Proof.
  intros H. unfold is_perm, ttm_order.
  replace N with (n + S (N - S n)) at 2 by lia. rewrite seq_app. cbn [seq Nat.add].
  apply Permutation_middle.
Qed.

Lemma remove_at_cons {A} n (x : A) l : remove_at (S n) (x :: l) = x :: remove_at n l.
Proof. reflexivity. Qed.

Lemma remove_at_length {A} n (l : list A) : n < length l -> S (length (remove_at n l)) = length l.
Proof. intros H. unfold remove_at. rewrite app_length, firstn_length, skipn_length. lia. Qed.

Lemma inb_split s : forall n i, n < length s -> length i = length s ->
  inb s i = (nth n i 0 <? nth n s 0) && inb (remove_at n s) (remove_at n i).
Proof.
  induction s as [|d s IH]; intros n [|x i] Hn HL; cbn [length] in *; try lia.
  destruct n as [|n].
  - reflexivity.
  - rewrite !remove_at_cons. cbn [inb nth]. rewrite (IH n i) by lia.
    destruct (x <? d), (nth n i 0 <? nth n s 0); reflexivity.
Qed.

Lemma nth_upd_same {A} (l : list A) n v d : n < length l -> nth n (upd l n v) d = v.
Proof. intros H. rewrite nth_upd by auto. now rewrite Nat.eqb_refl. Qed.

Lemma remove_at_upd {A} (l : list A) : forall n v, remove_at n (upd l n v) = remove_at n l.
Proof.
  induction l as [|x l IH]; intros [|n] v; try reflexivity.
  cbn [upd]. rewrite !remove_at_cons. now rewrite IH.
Qed.

Lemma size_split s n : n < length s -> size s = nth n s 0 * size (remove_at n s).
Proof.
  revert n; induction s as [|d s IH]; intros [|n] H; cbn [length] in *; try lia.
  - reflexivity.
  - rewrite remove_at_cons. cbn [nth]. rewrite !size_cons, (IH n) by lia. lia.
Qed.

Lemma nth_flat_map_uniform {A B} (f : A -> list B) (I : nat) (dp : A) (d : B) : forall (P : list A) b a,
  (forall p, length (f p) = I) -> a < I -> b < length P ->
  nth (a + I * b) (flat_map f P) d = nth a (f (nth b P dp)) d.
Proof.
  induction P as [|p P IH]; intros b a Hf Ha Hb; cbn [length] in Hb; [lia|].
  cbn [flat_map]. destruct b as [|b].
  - rewrite Nat.mul_0_r, Nat.add_0_r. rewrite app_nth1 by (rewrite Hf; exact Ha). reflexivity.
  - rewrite app_nth2 by (rewrite Hf; nia). rewrite Hf.
    replace (a + I * S b - I) with (a + I * b) by nia. cbn [nth]. apply IH; auto. lia.
Qed.

Lemma flat_map_length_uniform {A B} (f : A -> list B) (I : nat) (P : list A) :
  (forall p, length (f p) = I) -> length (flat_map f P) = I * length P.
Proof. intros Hf. induction P as [|p P IH]; cbn [flat_map length]; [lia|]. rewrite app_length, Hf, IH. lia. Qed.

Section P.
Variable V : Type.
Variables (v0 v1 : V) (vadd vmul vsub : V -> V -> V) (vopp : V -> V).
Hypothesis Vring : ring_theory v0 v1 vadd vmul vsub vopp (@eq V).
Add Ring Vr2 : Vring.

Local Notation "x + y" := (vadd x y).
Local Notation "x * y" := (vmul x y).
Local Notation den := (den_dense v0).
Local Notation Sn := (sum_n v0 vadd).
Local Notation smodes := (sum_modes v0 vadd vmul).

(* data list [data] read as an array of shape s *)
Definition dv (s : shape) (data : list V) (i : idx) : V := den (mkDense s data) i.

Lemma dv_in s data i : inb s i = true -> dv s data i = nth (sub2ind s i) data v0.
Proof. intros H. unfold dv, den_dense. cbn [dshape ddata]. now rewrite H. Qed.

(* ---------------------------------------------------------------- sum_modes *)

Lemma sum_modes_ext sizes : forall vs g g', length vs = length sizes ->
  (forall ks, inb sizes ks = true -> g ks = g' ks) -> smodes sizes vs g = smodes sizes vs g'.
Proof.
  induction sizes as [|d sizes IH]; intros [|v vs] g g' HL H; cbn in HL; try discriminate; cbn [sum_modes].
  - apply H. reflexivity.
  - apply sum_n_ext. intros k Hk. f_equal. apply IH; [lia|]. intros ks Hks. apply H.
    cbn [inb]. rewrite Hks. apply Nat.ltb_lt in Hk. now rewrite Hk.
Qed.

Lemma sum_modes_snoc sizes : forall vs d v g, length vs = length sizes ->
  smodes (sizes ++ [d]) (vs ++ [v]) g =
  smodes sizes vs (fun ks => Sn d (fun b => g (ks ++ [b]) * nth b v v0)).
Proof.
  induction sizes as [|d0 sizes IH]; intros [|w vs] d v g HL; cbn in HL; try discriminate.
  - reflexivity.
  - cbn [app sum_modes]. apply sum_n_ext. intros k _. f_equal. rewrite IH by lia. reflexivity.
Qed.

(* ---------------------------------------------------------------- matvec on the last mode *)

Lemma matvec_len (c : dense V) v : length (ddata (matvec v0 vadd vmul c v)) = nth 0 (dshape c) 0.
Proof. unfold matvec. cbn [ddata]. now rewrite map_length, seq_length. Qed.

Lemma matvec_nth A B data v a : a < A ->
  nth a (ddata (matvec v0 vadd vmul (mkDense [A; B] data) v)) v0 =
  Sn B (fun b => nth (a + A * b) data v0 * nth b v v0).
Proof.
  intros H. unfold matvec. cbn [dshape ddata nth].
  set (F := fun a0 => Sn B (fun b => nth (a0 + A * b) data v0 * nth b v v0)).
  rewrite (nth_indep _ v0 (F 0)) by (now rewrite map_length, seq_length).
  rewrite (map_nth F). now rewrite seq_nth.
Qed.

(* ---------------------------------------------------------------- the ttv loop *)

Lemma ttv_loop_spec : forall vs_rev sizes_rev s' (c : dense V),
  length sizes_rev = length vs_rev ->
  wf_dense c -> size (dshape c) = size (s' ++ rev sizes_rev) ->
  let r := ttv_loop v0 vadd vmul c (s' ++ rev sizes_rev) vs_rev in
  snd r = s' /\ length (ddata (fst r)) = size s' /\
  forall i', inb s' i' = true ->
    nth (sub2ind s' i') (ddata (fst r)) v0 =
    smodes (rev sizes_rev) (rev vs_rev) (fun ks => dv (s' ++ rev sizes_rev) (ddata c) (i' ++ ks)).
Proof.
  induction vs_rev as [|v r IH]; intros [|d sr] s' c HL W Hs; cbn in HL; try discriminate.
  - cbn [rev ttv_loop fst snd sum_modes]. rewrite app_nil_r in *. repeat split; auto.
    + unfold wf_dense in W. lia.
    + intros i' Hi. rewrite app_nil_r. now rewrite dv_in.
  - cbn [rev]. rewrite app_assoc. set (l := s' ++ rev sr).
    cbn [ttv_loop]. rewrite removelast_last, last_last.
    assert (Hsz : size [size l; d] = size (dshape c)).
    { rewrite Hs. cbn [rev]. rewrite app_assoc. fold l. rewrite size_snoc. cbn. lia. }
    set (c2 := np_reshapeF v0 c [size l; d]).
    assert (Hc2 : c2 = mkDense [size l; d] (ddata c)).
    { unfold c2. rewrite <- (np_reshapeF_data v0 c [size l; d] W Hsz). reflexivity. }
    rewrite Hc2.
    set (c3 := matvec v0 vadd vmul (mkDense [size l; d] (ddata c)) v).
    assert (W3 : wf_dense c3).
    { unfold wf_dense. unfold c3. rewrite matvec_len. unfold matvec. cbn. lia. }
    assert (Hs3 : size (dshape c3) = size (s' ++ rev sr)).
    { unfold c3, matvec. cbn. fold l. lia. }
    specialize (IH sr s' c3 ltac:(lia) W3 Hs3). cbn zeta in IH. unfold l.
    destruct IH as (E1 & E2 & E3). repeat split; auto.
    intros i' Hi. rewrite E3 by auto.
    rewrite sum_modes_snoc by (rewrite !rev_length; lia).
    apply sum_modes_ext; [rewrite !rev_length; lia|].
    intros ks Hks. fold l.
    assert (Hin : inb l (i' ++ ks) = true).
    { unfold l. rewrite inb_app by (now apply inb_length). now rewrite Hi, Hks. }
    assert (HLen : length (i' ++ ks) = length l) by (now apply inb_length).
    rewrite dv_in by auto. unfold c3. rewrite matvec_nth by (now apply sub2ind_lt).
    apply sum_n_ext. intros b Hb. f_equal.
    rewrite app_assoc.
    rewrite dv_in.
    + now rewrite sub2ind_snoc.
    + rewrite inb_snoc by auto. rewrite Hin. apply Nat.ltb_lt in Hb. now rewrite Hb.
Qed.

(* np.transpose of a 0-/1-way array along the only permutation is the identity *)
Lemma np_transpose_small (X : dense V) p : wf_dense X -> length (dshape X) <= 1 ->
  is_perm p (length (dshape X)) -> np_transpose v0 X p = X.
Proof.
  intros W HN Hp. destruct X as [s data]. cbn [dshape] in *.
  destruct s as [|d [|? ?]]; cbn [length] in *; try lia.
  - unfold is_perm in Hp. cbn [seq] in Hp. apply Permutation_sym, Permutation_nil in Hp. subst p.
    apply (dense_ext v0); [apply wf_tabulate|exact W|reflexivity|].
    intros i Hi. unfold np_transpose in *. cbn [dshape] in *. change (pick 0 [] (@nil nat)) with (@nil nat) in *.
    rewrite den_tabulate by auto.
    destruct i; [reflexivity|discriminate].
  - unfold is_perm in Hp. cbn [seq] in Hp. apply Permutation_sym, Permutation_length_1_inv in Hp. subst p.
    apply (dense_ext v0); [apply wf_tabulate|exact W|reflexivity|].
    intros i Hi. unfold np_transpose in *. cbn [dshape] in *. change (pick 0 [0] [d]) with [d] in *.
    rewrite den_tabulate by auto.
    rewrite dshape_tabulate in Hi.
    destruct i as [|x [|? ?]]; cbn [inb] in Hi; try discriminate; [reflexivity|].
    destruct (x <? d) in Hi; discriminate.
Qed.

(* ---------------------------------------------------------------- tensor.ttv *)

Theorem impl_ttv_dense_correct (X : dense V) dims vs :
  wf_dense X -> length vs = length dims ->
  is_perm (compl (length (dshape X)) dims ++ dims) (length (dshape X)) ->
  let Y := impl_ttv_dense v0 vadd vmul X dims vs in
  dshape Y = ttv_shape (dshape X) dims /\ wf_dense Y /\
  forall i', inb (ttv_shape (dshape X) dims) i' = true ->
    den Y i' = spec_ttv v0 vadd vmul (den X) (dshape X) dims vs i'.
Proof.
  intros W HL Hp. unfold impl_ttv_dense.
  set (N := length (dshape X)) in *. set (rem := compl N dims) in *.
  set (p := rem ++ dims) in *.
  assert (Hc : (if 1 <? N then np_transpose v0 X p else X) = np_transpose v0 X p).
  { destruct (Nat.ltb_spec 1 N); [reflexivity|]. symmetry. apply np_transpose_small; auto; unfold N in *; lia. }
  rewrite Hc. clear Hc.
  assert (Hsz : pick 0 p (dshape X) = ttv_shape (dshape X) dims ++ rev (rev (pick 0 dims (dshape X)))).
  { rewrite rev_involutive. unfold p, pick, ttv_shape. now rewrite map_app. }
  rewrite Hsz.
  pose proof (ttv_loop_spec (rev vs) (rev (pick 0 dims (dshape X))) (ttv_shape (dshape X) dims)
                (np_transpose v0 X p)) as L.
  assert (W0 : wf_dense (np_transpose v0 X p)) by apply wf_tabulate.
  specialize (L ltac:(rewrite !rev_length, pick_length; lia) W0).
  assert (Hs0 : size (dshape (np_transpose v0 X p)) =
                size (ttv_shape (dshape X) dims ++ rev (rev (pick 0 dims (dshape X))))).
  { unfold np_transpose. rewrite dshape_tabulate. now rewrite Hsz. }
  specialize (L Hs0). cbn zeta in L.
  destruct (ttv_loop v0 vadd vmul (np_transpose v0 X p) _ (rev vs)) as [c' sz'] eqn:E.
  cbn [fst snd] in L. destruct L as (-> & HLen & Hval).
  cbn zeta. split; [reflexivity|]. split; [apply wf_tabulate|].
  intros i' Hi. unfold np_reshapeF. rewrite den_tabulate by auto.
  rewrite Hval by auto. rewrite !rev_involutive. unfold spec_ttv.
  apply sum_modes_ext; [rewrite pick_length; lia|].
  intros ks Hks.
  assert (Hin : inb (pick 0 p (dshape X)) (i' ++ ks) = true).
  { rewrite Hsz, rev_involutive. rewrite inb_app by (now apply inb_length). now rewrite Hi, Hks. }
  rewrite <- (rev_involutive (pick 0 dims (dshape X))), <- Hsz.
  rewrite dv_in by auto.
  unfold np_transpose in *. cbn [ddata tabulate].
  change (map (fun k => den X (pick 0 (invperm p) (ind2sub (pick 0 p (dshape X)) k))) (seq 0 (size (pick 0 p (dshape X)))))
    with (ddata (tabulate (pick 0 p (dshape X)) (fun i => den X (pick 0 (invperm p) i)))).
  rewrite nth_tabulate by (now apply sub2ind_lt). rewrite ind2sub_sub2ind by auto. reflexivity.
Qed.

(* ---------------------------------------------------------------- inner product / squared norm *)

Lemma dotv_sum : forall (x y : list V), length x = length y ->
  dotv v0 vadd vmul x y = Sn (length x) (fun k => nth k x v0 * nth k y v0).
Proof.
  induction x as [|a x IH]; intros [|b y] H; cbn in H; try discriminate; [reflexivity|].
  cbn [dotv length]. rewrite IH by lia. unfold sum_n. cbn [seq]. rewrite sum_over_cons. cbn [nth]. f_equal.
  rewrite <- seq_shift, sum_over_map. reflexivity.
Qed.

Theorem impl_innerprod_dense_correct (X Y : dense V) : wf_dense X -> wf_dense Y -> dshape X = dshape Y ->
  impl_innerprod_dense v0 vadd vmul X Y = spec_innerprod v0 vadd vmul (den X) (den Y) (dshape X).
Proof.
  intros WX WY Hs. unfold impl_innerprod_dense, spec_innerprod, allsubs. unfold wf_dense in *.
  rewrite dotv_sum by congruence. rewrite sum_over_map, WX. apply sum_n_ext. intros k Hk.
  rewrite (den_dense_ind2sub v0 X k Hk). rewrite Hs in *. now rewrite (den_dense_ind2sub v0 Y k Hk).
Qed.

Theorem impl_normsq_dense_correct (X : dense V) : wf_dense X ->
  impl_normsq_dense v0 vadd vmul X = spec_normsq v0 vadd vmul (den X) (dshape X).
Proof. intros W. now apply impl_innerprod_dense_correct. Qed.

(* ---------------------------------------------------------------- tensor.ttm (single mode) *)

Lemma den_matmul a b x c : x < nth 0 (dshape a) 0 -> c < nth 1 (dshape b) 0 ->
  den (matmul v0 vadd vmul a b) [x; c] = Sn (nth 1 (dshape a) 0) (fun l => den a [x; l] * den b [l; c]).
Proof.
  intros Hx Hc. unfold matmul. rewrite den_tabulate; [reflexivity|].
  cbn [inb]. apply Nat.ltb_lt in Hx, Hc. now rewrite Hx, Hc.
Qed.

Lemma den_of_matrix U m n x c : x < m -> c < n -> den (of_matrix v0 U m n) [x; c] = mget v0 U x c.
Proof.
  intros Hx Hc. unfold of_matrix. rewrite den_tabulate; [reflexivity|].
  cbn [inb]. apply Nat.ltb_lt in Hx, Hc. now rewrite Hx, Hc.
Qed.

Lemma den_of_matrixT U m n x c : x < n -> c < m -> den (of_matrixT v0 U m n) [x; c] = mget v0 U c x.
Proof.
  intros Hx Hc. unfold of_matrixT. rewrite den_tabulate; [reflexivity|].
  cbn [inb]. apply Nat.ltb_lt in Hx, Hc. now rewrite Hx, Hc.
Qed.

Theorem impl_ttm_dense_correct (X : dense V) n U J tr :
  wf_dense X -> n < length (dshape X) ->
  let Y := impl_ttm_dense v0 vadd vmul X n U J tr in
  dshape Y = upd (dshape X) n J /\ wf_dense Y /\
  forall i, inb (upd (dshape X) n J) i = true ->
    den Y i = spec_ttm v0 vadd vmul (den X) (dshape X) n U tr i.
Proof.
  intros W Hn. unfold impl_ttm_dense.
  set (s := dshape X). set (N := length s). set (order := ttm_order N n).
  set (In := nth n s 0). set (rest := remove_at n s). set (sd := size rest).
  assert (Hp : is_perm order N) by (now apply ttm_order_perm).
  assert (HLs' : length (upd s n J) = N) by (now rewrite upd_length).
  assert (Hsh : J :: rest = pick 0 order (upd s n J)).
  { unfold order. rewrite <- HLs'. rewrite pick_ttm_order by (rewrite HLs'; exact Hn).
    rewrite nth_upd_same by exact Hn. unfold rest. now rewrite remove_at_upd. }
  assert (Hps : pick 0 order s = In :: rest).
  { unfold order, N. now rewrite pick_ttm_order. }
  set (newdata := np_transpose v0 X order).
  set (m2 := np_reshapeF v0 newdata [In; sd]).
  set (Um := if tr then of_matrixT v0 U In J else of_matrix v0 U J In).
  set (prod := matmul v0 vadd vmul Um m2).
  set (Yr := np_reshapeF v0 prod (J :: rest)).
  assert (Hshape : dshape (np_transpose v0 Yr (invperm order)) = upd s n J).
  { unfold np_transpose. rewrite dshape_tabulate. unfold Yr, np_reshapeF. rewrite dshape_tabulate.
    rewrite Hsh. apply (pick_invperm_pick 0 order N); auto. }
  cbn zeta. split; [exact Hshape|]. split; [apply wf_tabulate|].
  intros i Hi.
  assert (HLi : length i = N) by (apply inb_length in Hi; now rewrite HLs' in Hi).
  rewrite (inb_split (upd s n J) n i) in Hi by (rewrite ?HLs'; auto).
  rewrite nth_upd_same, remove_at_upd in Hi by exact Hn.
  apply andb_true_iff in Hi as [Hx Hj]. apply Nat.ltb_lt in Hx. fold rest in Hj.
  set (x := nth n i 0) in *. set (j := remove_at n i) in *.
  assert (Hpi : forall k, pick 0 order (upd i n k) = k :: j).
  { intros k. unfold order. rewrite <- (upd_length i n k) in HLi. rewrite <- HLi.
    rewrite pick_ttm_order by (rewrite HLi; exact Hn).
    rewrite upd_length in HLi.
    rewrite nth_upd_same by (rewrite HLi; exact Hn). unfold j. now rewrite remove_at_upd. }
  assert (Hpi0 : pick 0 order i = x :: j).
  { unfold order. rewrite <- HLi. rewrite pick_ttm_order by (rewrite HLi; exact Hn). reflexivity. }
  (* outer transpose *)
  unfold np_transpose at 1. rewrite den_tabulate.
  2:{ unfold Yr, np_reshapeF. rewrite dshape_tabulate, Hsh.
      rewrite (pick_invperm_pick 0 order N) by auto.
      rewrite (inb_split (upd s n J) n i) by (rewrite ?HLs'; auto).
      rewrite nth_upd_same, remove_at_upd by exact Hn. fold rest. fold x. fold j. rewrite Hj.
      apply Nat.ltb_lt in Hx. now rewrite Hx. }
  rewrite (invperm_invperm order N Hp), Hpi0.
  (* reshape of the product *)
  assert (Wp : wf_dense prod) by apply wf_tabulate.
  assert (Hdp : dshape prod = [J; sd]).
  { unfold prod, matmul. rewrite dshape_tabulate. unfold Um, m2, np_reshapeF.
    destruct tr; unfold of_matrix, of_matrixT; rewrite !dshape_tabulate; reflexivity. }
  assert (Hin : inb (J :: rest) (x :: j) = true).
  { cbn [inb]. rewrite Hj. apply Nat.ltb_lt in Hx. now rewrite Hx. }
  pose proof (sub2ind_lt rest j Hj) as Hc. fold sd in Hc.
  unfold Yr. rewrite den_reshapeF; auto.
  2:{ rewrite Hdp, !size_cons. change (size []) with 1. unfold sd. lia. }
  rewrite Hdp. cbn [sub2ind]. rewrite <- (sub2ind_2 J sd x (sub2ind rest j)).
  rewrite ind2sub_sub2ind.
  2:{ cbn [inb]. apply Nat.ltb_lt in Hx, Hc. now rewrite Hx, Hc. }
  unfold prod. rewrite den_matmul.
  2:{ unfold Um. destruct tr; unfold of_matrix, of_matrixT; rewrite dshape_tabulate; exact Hx. }
  2:{ unfold m2, np_reshapeF. rewrite dshape_tabulate. exact Hc. }
  assert (HUm : nth 1 (dshape Um) 0 = In).
  { unfold Um. destruct tr; unfold of_matrix, of_matrixT; rewrite dshape_tabulate; reflexivity. }
  rewrite HUm. unfold spec_ttm. fold s In x.
  apply sum_n_ext. intros k Hk. f_equal.
  - unfold Um. destruct tr; [now rewrite den_of_matrixT|now rewrite den_of_matrix].
  - (* the permuted, reshaped data *)
    assert (Wn : wf_dense newdata) by apply wf_tabulate.
    assert (Hdn : dshape newdata = In :: rest).
    { unfold newdata, np_transpose. rewrite dshape_tabulate. exact Hps. }
    unfold m2. rewrite den_reshapeF; auto.
    2:{ rewrite Hdn, !size_cons. change (size []) with 1. unfold sd. lia. }
    2:{ cbn [inb]. apply Nat.ltb_lt in Hk, Hc. now rewrite Hk, Hc. }
    rewrite Hdn, sub2ind_2.
    assert (Hkj : inb (In :: rest) (k :: j) = true).
    { cbn [inb]. rewrite Hj. apply Nat.ltb_lt in Hk. now rewrite Hk. }
    change (Nat.add k (Nat.mul In (sub2ind rest j))) with (sub2ind (In :: rest) (k :: j)).
    rewrite ind2sub_sub2ind by exact Hkj.
    unfold newdata, np_transpose. fold s. rewrite Hps. rewrite den_tabulate by exact Hkj.
    rewrite <- (Hpi k).
    rewrite (pick_invperm_pick 0 order N) by (auto; now rewrite upd_length). reflexivity.
Qed.

(* ---------------------------------------------------------------- Khatri-Rao product, reverse=True *)

Definition wf_cols (R : nat) (M : @matrix V) : Prop := Forall (fun r => length r = R) M.

Lemma zipmul_length (a b : list V) R : length a = R -> length b = R -> length (zipmul vmul a b) = R.
Proof. revert b R; induction a as [|x a IH]; intros [|y b] R Ha Hb; cbn in *; try lia. rewrite (IH b (length a)); lia. Qed.

Lemma nth_zipmul : forall (a b : list V) r, r < length a -> r < length b ->
  nth r (zipmul vmul a b) v0 = nth r a v0 * nth r b v0.
Proof.
  induction a as [|x a IH]; intros [|y b] r Ha Hb; cbn [length] in *; try lia.
  destruct r as [|r]; [reflexivity|]. cbn [zipmul nth]. apply IH; lia.
Qed.

Lemma wf_cols_nth R M a : wf_cols R M -> a < length M -> length (nth a M []) = R.
Proof. intros W Ha. unfold wf_cols in W. rewrite Forall_forall in W. apply W. now apply nth_In. Qed.

Lemma kr2_rows (R : nat) M P : length (kr2 vmul M P) = Nat.mul (length M) (length P).
Proof. unfold kr2. apply flat_map_length_uniform. intros p. now rewrite map_length. Qed.

Lemma kr2_cols R M P : wf_cols R M -> wf_cols R P -> wf_cols R (kr2 vmul M P).
Proof.
  intros WM WP. unfold wf_cols, kr2 in *. rewrite Forall_forall in *. intros row Hrow.
  apply in_flat_map in Hrow as (pr & Hpr & Hrow). apply in_map_iff in Hrow as (mr & <- & Hmr).
  apply zipmul_length; auto.
Qed.

Lemma mget_kr2 R M P a b r : wf_cols R M -> wf_cols R P -> a < length M -> b < length P -> r < R ->
  mget v0 (kr2 vmul M P) (Nat.add a (Nat.mul (length M) b)) r = mget v0 M a r * mget v0 P b r.
Proof.
  intros WM WP Ha Hb Hr. unfold mget, kr2.
  rewrite (nth_flat_map_uniform _ (length M) [] []) by (auto; intros; now rewrite map_length).
  set (g := fun mr : list V => zipmul vmul mr (nth b P [])).
  change (@nil V) with (g []) at 1. rewrite (map_nth g M [] a). unfold g.
  apply nth_zipmul; [rewrite (wf_cols_nth R M a)|rewrite (wf_cols_nth R P b)]; auto.
Qed.

Lemma kr_rev_wf R : forall Us, Us <> [] -> Forall (wf_cols R) Us ->
  wf_cols R (kr_rev vmul Us) /\ length (kr_rev vmul Us) = size (map (@length _) Us).
Proof.
  induction Us as [|U Us IH]; intros Hne HW; [congruence|].
  inversion HW as [|? ? HU HUs]; subst. destruct Us as [|U2 Us].
  - cbn. split; auto. lia.
  - destruct (IH ltac:(discriminate) HUs) as [IH1 IH2].
    change (kr_rev vmul (U :: U2 :: Us)) with (kr2 vmul U (kr_rev vmul (U2 :: Us))).
    split; [now apply kr2_cols|]. rewrite (kr2_rows R), IH2. reflexivity.
Qed.

Lemma mget_kr_rev R : forall Us j r, Us <> [] -> Forall (wf_cols R) Us ->
  inb (map (@length _) Us) j = true -> r < R ->
  mget v0 (kr_rev vmul Us) (sub2ind (map (@length _) Us) j) r = kprod v0 v1 vmul Us j r.
Proof.
  induction Us as [|U Us IH]; intros j r Hne HW Hj Hr; [congruence|].
  inversion HW as [|? ? HU HUs]; subst.
  destruct j as [|x j]; [discriminate|]. cbn [map inb] in Hj. apply andb_true_iff in Hj as [Hx Hj].
  apply Nat.ltb_lt in Hx. destruct Us as [|U2 Us].
  - destruct j; [|discriminate]. cbn [map sub2ind kr_rev kprod].
    replace (Nat.add x (Nat.mul (length U) 0)) with x by lia. ring.
  - change (kr_rev vmul (U :: U2 :: Us)) with (kr2 vmul U (kr_rev vmul (U2 :: Us))).
    destruct (kr_rev_wf R (U2 :: Us) ltac:(discriminate) HUs) as [W2 L2].
    change (sub2ind (map (@length _) (U :: U2 :: Us)) (x :: j))
      with (Nat.add x (Nat.mul (length U) (sub2ind (map (@length _) (U2 :: Us)) j))).
    rewrite (mget_kr2 R) by (auto; rewrite L2; now apply sub2ind_lt).
    rewrite IH by (auto; discriminate). reflexivity.
Qed.

(* ---------------------------------------------------------------- tensor.mttkrp, branch n = 0 *)

Theorem impl_mttkrp_dense_n0_correct (X : dense V) Us R :
  wf_dense X -> 2 <= length (dshape X) -> length Us = length (dshape X) ->
  Forall (wf_cols R) (skipn 1 Us) -> map (@length _) (skipn 1 Us) = skipn 1 (dshape X) ->
  let Y := impl_mttkrp_dense v0 vadd vmul X Us 0 R in
  dshape Y = [nth 0 (dshape X) 0; R] /\ wf_dense Y /\
  forall x r, x < nth 0 (dshape X) 0 -> r < R ->
    den Y [x; r] = spec_mttkrp v0 v1 vadd vmul (den X) (dshape X) 0 (repeat v1 R) Us x r.
Proof.
  intros W HN HL HW Hrows. unfold impl_mttkrp_dense. cbn [Nat.eqb].
  destruct X as [s data]. cbn [dshape] in *.
  destruct s as [|d rest]; [cbn in HN; lia|]. destruct Us as [|U0 Ur]; [cbn in HL; lia|].
  cbn [skipn nth firstn] in *. change (size []) with 1.
  assert (Hne : Ur <> []) by (destruct Ur; [cbn in HL, HN; lia|discriminate]).
  cbn zeta. split; [reflexivity|]. split; [apply wf_tabulate|].
  intros x r Hx Hr.
  rewrite den_matmul.
  2:{ unfold np_reshapeF. now rewrite dshape_tabulate. }
  2:{ unfold of_matrix. now rewrite dshape_tabulate. }
  unfold np_reshapeF at 1. rewrite dshape_tabulate. cbn [nth].
  unfold spec_mttkrp, remove_at. cbn [firstn skipn app].
  unfold allsubs. rewrite sum_over_map. apply sum_n_ext. intros c Hc.
  assert (Hxc : inb [d; size rest] [x; c] = true).
  { cbn [inb]. apply Nat.ltb_lt in Hx, Hc. now rewrite Hx, Hc. }
  assert (Hin : inb rest (ind2sub rest c) = true) by (now apply inb_ind2sub).
  f_equal.
  - unfold np_reshapeF. rewrite den_tabulate by exact Hxc. rewrite sub2ind_2.
    unfold insert_at. cbn [firstn skipn app]. unfold den_dense. cbn [dshape ddata inb].
    apply Nat.ltb_lt in Hx. rewrite Hx, Hin. cbn [andb sub2ind]. now rewrite sub2ind_ind2sub.
  - rewrite den_of_matrix by auto.
    rewrite <- (sub2ind_ind2sub rest c Hc) at 1. rewrite <- Hrows.
    rewrite (mget_kr_rev R) by (auto; now rewrite Hrows).
    rewrite nth_indep with (d' := v1) by (now rewrite repeat_length). rewrite nth_repeat. ring.
Qed.

(* full statement for every mode n (all three branches of tensor.mttkrp); proved above for n = 0 only
   (impl_mttkrp_dense_n0_correct); the branches n = N-1 and 0 < n < N-1 are correspondence-only *)
Definition impl_mttkrp_dense_correct_stmt : Prop :=
  forall (X : dense V) Us R n, wf_dense X -> 2 <= length (dshape X) -> n < length (dshape X) ->
  length Us = length (dshape X) -> Forall (wf_cols R) (remove_at n Us) ->
  map (@length _) (remove_at n Us) = remove_at n (dshape X) ->
  let Y := impl_mttkrp_dense v0 vadd vmul X Us n R in
  dshape Y = [nth n (dshape X) 0; R] /\ wf_dense Y /\
  forall x r, x < nth n (dshape X) 0 -> r < R ->
    den Y [x; r] = spec_mttkrp v0 v1 vadd vmul (den X) (dshape X) n (repeat v1 R) Us x r.

End P.
