(* Props/C10W3b.v — wave 3b: ttensor.full over all modes; the stop rule of tucker_als as evaluated by the correspondence; the
   squared norm formed in a wrapping integer dtype (finding C10-N02).  Only statements, `exact`, Print Assumptions. *)
From Coq Require Import List Arith Bool ZArith QArith Qcanon Reals Ring.
From PV Require Import Base.Index Base.Sum Np.Array Np.NpR Model.Sparse Model.Repr Model.Harness Model.C10Tucker Model.C10Loop Model.C10Check
                       Model.C01Conv Model.C01Ttm Proofs.C10Proofs Proofs.C10Full Proofs.C10Stop Proofs.C10Budget.
Import ListNotations.

Section C10_full.
Variable V : Type.
Variables (v0 v1 : V) (vadd vmul vsub : V -> V -> V) (vopp : V -> V).
Hypothesis Vring : ring_theory v0 v1 vadd vmul vsub vopp (@eq V).
(* ttensor.full over ALL modes, every commutative ring, every shape and number of modes: the reconstruction core x_0 U_0 x_1 U_1 ...
   that the correspondence recomputes with the model's defining-sum ttm (tfull_ttm; relerr_ok / fit_ok are evaluated on it) is the array
   pyttb's own route produces (ttensor_full_impl: tensor.ttm = permute / F-reshape / matmul / F-reshape / inverse permute per mode,
   Model/C02Dense.v impl_ttm_dense; C01_tucker_impl) and is the tabulated Tucker denotation den_t *)
Theorem C10_tucker_full : forall T : ttensor V, wf_dense (tcore T) -> length (dshape (tcore T)) = length (tfactors T) ->
  tfull_ttm v0 vadd vmul T = ttensor_full_impl v0 vadd vmul T /\
  tfull_ttm v0 vadd vmul T = tfull v0 v1 vadd vmul T /\
  wf_dense (tfull_ttm v0 vadd vmul T) /\ dshape (tfull_ttm v0 vadd vmul T) = tshape T /\
  forall i, den_dense v0 (tfull_ttm v0 vadd vmul T) i = den_t v0 v1 vadd vmul T i.
Proof. exact (tfull_ttm_correct V v0 v1 vadd vmul vsub vopp Vring). Qed.
End C10_full.
Print Assumptions C10_tucker_full.

(* the stop-rule check evaluated on every sampled tucker_als run (stop_ok: the transliterated loop of Model/C10Loop.v replaying the
   observed per-iteration fits) accepts only traces that obey the rule of tucker_als.py: iters < maxiters, one fit per iteration ending
   in the reported fit, `abs(fitold - fit) < stoptol` false in every iteration before the last (fitold = 0 in the first) and true in
   the last unless the iteration limit was hit *)
Theorem C10_stop_rule_check : forall (trace : list Qc) (stoptol : Qc) (m iters : nat) (fit : Qc),
  stop_ok stoptol m iters trace fit = true ->
  (0 < m)%nat /\ (iters < m)%nat /\ length trace = S iters /\ nth_error trace iters = Some fit /\
  (forall i, (i < iters)%nat -> qfchange_lt (fit_prev trace i) (nth i trace q0) stoptol = false) /\
  ((iters < m - 1)%nat -> qfchange_lt (fit_prev trace iters) fit stoptol = true).
Proof. exact stop_ok_sound. Qed.
Print Assumptions C10_stop_rule_check.

(* finding C10-N02: hosvd forms ||X||^2 in the data's own dtype.  Squares formed in a b-bit integer type (two's complement or
   unsigned) and summed exactly, or squares and sum formed in the same b-bit ring, never exceed the true sum of squares ... *)
Theorem C10_wrapped_normsq_le : forall (b : Z) (signed : bool) (l : list Z), (0 < b)%Z ->
  (sumsq_wrapped (if signed then wrapS b else wrapU b) l <= sumsqZ l)%Z /\
  ((if signed then wrapS b else wrapU b) (sumsqZ l) <= sumsqZ l)%Z.
Proof. exact (fun b signed l Hb => conj (wrapped_normsq_le b signed l Hb) (wrapped_total_le b signed l Hb)). Qed.
Print Assumptions C10_wrapped_normsq_le.

(* ... and the rank rule run with a budget t' below the true budget t (zero or negative included) still discards at most t:
   the error bound survives the wrap-around, only the minimality of the ranks is lost *)
Theorem C10_smaller_budget_safe : forall (eig : list R) (t' t : R) (r : nat),
  (t' <= t)%R -> (0 <= t)%R -> auto_rank 0%R Rplus Rltb eig t' = Some r ->
  (0 < r <= length eig)%nat /\ (sumR (skipn r eig) <= t)%R.
Proof. exact rank_choice_smaller_budget. Qed.
Print Assumptions C10_smaller_budget_safe.

(* non-vacuity *)
Example C10_example_tucker_full :    (* ex_full_T: 2x1x2 core, factors 3x2, 2x1, 4x2 (non-symmetric) *)
  tfull_ttm 0%Z Z.add Z.mul ex_full_T = ttensor_full_impl 0%Z Z.add Z.mul ex_full_T /\
  tfull_ttm 0%Z Z.add Z.mul ex_full_T = tfull 0%Z 1%Z Z.add Z.mul ex_full_T /\
  dshape (tfull_ttm 0%Z Z.add Z.mul ex_full_T) = [3; 2; 4]%nat /\
  den_dense 0%Z (tfull_ttm 0%Z Z.add Z.mul ex_full_T) [2; 1; 3]%nat = 245%Z.
Proof. exact tfull_ttm_example. Qed.
Example C10_example_stop_rule :      (* fits 1/2, 9/10, 95/100, stoptol 1/10 *)
  stop_ok ex_t 5%nat 2%nat [ex_h; ex_n; ex_m] ex_m = true /\ stop_ok ex_t 5%nat 1%nat [ex_h; ex_n] ex_n = false /\
  stop_ok ex_t 2%nat 1%nat [ex_h; ex_n] ex_n = true /\
  stop_ok q0 3%nat 2%nat [q1; q1; q1] q1 = true /\ stop_ok q0 3%nat 1%nat [q1; q1] q1 = false.
Proof. exact stop_ok_example. Qed.
Example C10_example_wrapped_normsq :
  (sumsq_wrapped (wrapU 8) [16; 16; 16; 16; 16; 32] = 0 /\ sumsqZ [16; 16; 16; 16; 16; 32] = 2304 /\
   sumsq_wrapped (wrapS 16) [200; 200; 200; 13] = -76439 /\ sumsqZ [200; 200; 200; 13] = 120169)%Z.
Proof. exact wrapped_normsq_example. Qed.
Example C10_example_negative_budget : auto_rank 0%R Rplus Rltb [9; 4; 1]%R (-5)%R = Some 3%nat.
Proof. exact rank_choice_negative_budget. Qed.
