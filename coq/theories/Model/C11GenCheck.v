(* Model/C11GenCheck.v — Qc instance of the GENERATED MU loop (Model/C11GenMu.v gen_mu = Gen/GenCpAprMu.v with the C11 kernels), run side
   by side with pyttb by op mu_model: exact rationals, exact division, a clock that always reads 0 (the time limit never fires: cp_apr's
   default stoptime is 1e6 s), objective kernel not evaluated (the harness recomputes the log-likelihood itself). *)
From Coq Require Import List Arith Bool ZArith QArith Qabs Qcanon.
From PV Require Import Base.Index Base.Sum Np.Array Model.Sparse Model.Repr Model.Harness Model.C11Check Model.C11GenMu.
Import ListNotations.
Local Open Scope Qc_scope.

Definition gmu_model (eps kappa kappatol stoptol : Qc) (maxinner : nat) (X : dense Qc) (K : ktensor Qc) (maxiters : nat) :=
  gen_mu q0 q1 Qcplus Qcmult Qcminus qdivmax qscale1 qabs qmin qmax (qlt q0) qlt unit (fun w => (w, q0)) (fun _ _ => q0)
         tt X (krank K) K stoptol q1 maxiters maxinner eps 0%nat 0%nat kappa kappatol (length (dshape X)).

(* the generated loop returns (no IndexError / unbound variable); the returned model denotes the tensor pyttb returned, has the same
   weights (explicit, sorted by the final normalize(sort=True)), is non-negative; kktViolations, nInnerIters, nViolations, nTotalIters
   as reported *)
Definition gmu_model_ok (tol eps kappa kappatol stoptol : Qc) (maxinner : nat) (X : dense Qc) (K : ktensor Qc) (maxiters : nat)
    (Kobs : ktensor Qc) (kkt_obs : list Qc) (ninner_obs nviol_obs : list nat) : bool :=
  match gmu_model eps kappa kappatol stoptol maxinner X K maxiters with
  | None => false
  | Some (M, (kkt, ninner, nviol, ntotal, times, tstop, obj), _) =>
      forallb (fun i => qclose tol (qden_k Kobs i) (qden_k M i)) (allsubs (dshape X)) &&
      list_eqb (qclose tol) (kweights Kobs) (kweights M) &&
      list_eqb (qclose tol) kkt_obs kkt && knonneg M &&
      list_eqb Nat.eqb ninner_obs ninner && list_eqb Nat.eqb nviol_obs nviol && Nat.eqb ntotal (list_sum ninner_obs) &&
      Nat.eqb (length times) (length kkt)
  end.
