(* Proofs/C14SpPost.v — what finding A-38 breaks, and what it does not: when the solver returns its eigenvalues with |w| already
   non-increasing, argsort(-|w|) is the identity (the sort is stable) and sptensor.nvecs' post-processing (row permutation on the dense
   path, no sort on the iterative path) coincides with the post-processing of the other representations (postprocess, theorems
   C14_postprocess / C14_sign_rule); in particular for r = 1 on the iterative path.  Examples: any other order gives a different
   matrix.  Generic in the value type (no axioms). *)
From Coq Require Import List Arith Lia Bool Sorted.
From PV Require Import Base.Perm Model.C14Nvecs Model.C14SpPost.
Import ListNotations.

Section SpPostProofs.
Variable V : Type.
Variable v0 : V.
Variables (vabs vopp : V -> V) (vltb : V -> V -> bool).

Notation keyR := (fun p q : V * nat => vltb (fst p) (fst q) = false).

Lemma sort_desc_sorted_id (l : list (V * nat)) : StronglySorted keyR l -> sort_desc vltb l = l.
Proof.
  induction 1 as [|p l Hs IH Hf]; [reflexivity|].
  unfold sort_desc in *. cbn [fold_right]. rewrite IH.
  destruct l as [|q l']; [reflexivity|]. cbn [ins_desc].
  inversion Hf as [|? ? Hq _]; subst. cbn in Hq. now rewrite Hq.
Qed.

Lemma map_snd_combine {A B} (a : list A) : forall (b : list B), length a = length b -> map snd (combine a b) = b.
Proof. induction a as [|x a IH]; intros [|y b] H; cbn in *; try discriminate; [reflexivity|]. f_equal. apply IH. lia. Qed.

Lemma keyed_sorted (w : list V) : StronglySorted (abs_nonincr vabs vltb) w ->
  forall off, StronglySorted keyR (combine (map vabs w) (seq off (length w))).
Proof.
  induction 1 as [|a w Hs IH Hf]; intros off; cbn [map length seq combine]; [constructor|].
  constructor; [apply IH|].
  assert (G : forall o, Forall (fun q : V * nat => vltb (vabs a) (fst q) = false) (combine (map vabs w) (seq o (length w)))).
  { clear IH Hs. induction Hf as [|b w Hb Hf IHf]; intros o; cbn [map length seq combine]; [constructor|].
    constructor; [exact Hb|apply IHf]. }
  exact (G (S off)).
Qed.

(* the stable descending sort leaves an already non-increasing |w| in place *)
Theorem argsort_sorted_id (w : list V) : StronglySorted (abs_nonincr vabs vltb) w ->
  argsort_desc_abs vabs vltb w = seq 0 (length w).
Proof.
  intros H. unfold argsort_desc_abs, keyed. rewrite sort_desc_sorted_id by now apply keyed_sorted.
  apply map_snd_combine. now rewrite map_length, seq_length.
Qed.

Lemma rows_perm_id (cols : list (list V)) (n : nat) : Forall (fun c => length c = n) cols -> rows_perm v0 (seq 0 n) cols = cols.
Proof.
  intros H. unfold rows_perm. rewrite <- (map_id cols) at 2. apply map_ext_in. intros c Hc.
  rewrite Forall_forall in H. rewrite <- (H c Hc). apply (pick_seq v0 c).
Qed.

Lemma select_all (cols : list (list V)) (r : nat) :
  map (fun k => nth k cols []) (firstn r (seq 0 (length cols))) = firstn r cols.
Proof.
  rewrite <- firstn_map. f_equal. apply (pick_seq (@nil V) cols).
Qed.

(* dense-solver path: permuting the ROWS by argsort(-|w|) is right exactly when there is nothing to permute *)
Theorem sp_post_dense_sorted (w : list V) (cols : list (list V)) (r : nat) (flip : bool) :
  StronglySorted (abs_nonincr vabs vltb) w -> length cols = length w -> Forall (fun c => length c = length w) cols ->
  sp_post_dense v0 vabs vopp vltb w cols r flip = postprocess v0 vabs vopp vltb w cols r flip.
Proof.
  intros Hs HL Hc. unfold sp_post_dense, postprocess, select_cols. rewrite (argsort_sorted_id w Hs).
  rewrite (rows_perm_id cols _ Hc). rewrite <- HL. now rewrite select_all.
Qed.

(* iterative path: the r vectors eigs returns are kept in its order: right exactly when that order is non-increasing in |w| *)
Theorem sp_post_iter_sorted (w : list V) (cols : list (list V)) (flip : bool) :
  StronglySorted (abs_nonincr vabs vltb) w -> length cols = length w ->
  sp_post_iter v0 vabs vopp vltb cols flip = postprocess v0 vabs vopp vltb w cols (length w) flip.
Proof.
  intros Hs HL. unfold sp_post_iter, postprocess, select_cols. rewrite (argsort_sorted_id w Hs).
  rewrite <- HL, select_all. now rewrite firstn_all.
Qed.

(* r = 1 on the iterative path: a single eigenpair is always in order *)
Corollary sp_post_iter_one (x : V) (c : list V) (flip : bool) :
  sp_post_iter v0 vabs vopp vltb [c] flip = postprocess v0 vabs vopp vltb [x] [c] 1 flip.
Proof. apply (sp_post_iter_sorted [x] [c] flip); [repeat constructor|reflexivity]. Qed.
End SpPostProofs.

(* non-vacuity / the defect: with |w| increasing both code paths return something else than the selection of the other representations *)
Example sp_post_example :
  let zabs := fun z : nat => z in let zopp := fun z : nat => z in
  (* w = [1; 3]: the second column belongs to the larger eigenvalue *)
  postprocess 0 zabs zopp Nat.ltb [1; 3] [[1; 2]; [3; 4]] 2 false = [[3; 4]; [1; 2]] /\
  sp_post_dense 0 zabs zopp Nat.ltb [1; 3] [[1; 2]; [3; 4]] 2 false = [[2; 1]; [4; 3]] /\
  sp_post_iter 0 zabs zopp Nat.ltb [[1; 2]; [3; 4]] false = [[1; 2]; [3; 4]] /\
  (* w = [3; 1]: in order, all three agree *)
  postprocess 0 zabs zopp Nat.ltb [3; 1] [[1; 2]; [3; 4]] 2 false = [[1; 2]; [3; 4]] /\
  sp_post_dense 0 zabs zopp Nat.ltb [3; 1] [[1; 2]; [3; 4]] 2 false = [[1; 2]; [3; 4]] /\
  sp_post_dense 0 zabs zopp Nat.ltb [3; 1] [[1; 2]; [3; 4]] 1 false = [[1; 2]].
Proof. vm_compute. repeat split. Qed.
