(* Model/W4SHarness.v — all replay instantiations of the generated control-flow skeletons (one file per generated unit). *)
From PV Require Export Model.W4SHarnessBase Model.W4SHarnessSolver Model.W4SHarnessHosvd Model.W4SHarnessCpAls Model.W4SHarnessTucker
  Model.W4SHarnessMu Model.W4SHarnessSampler Model.W4SHarnessHosvdFull Model.W4SHarnessCpAlsPre Model.W4SHarnessGcpOpt.
