(* Proofs/C09Monotone.v — the least-squares step of CP-ALS in exact arithmetic, for all shapes / orders / ranks / values:
   * mttkrp_of_model : the mode-n MTTKRP of the Kruskal model itself is  a . (Hadamard product of the other Grams)
                       (this is why cp_als's Y = prod of U_m^T U_m is the coefficient matrix of the normal equations);
   * ls_step_identity : if a' satisfies the normal equations  a' . Y = MTTKRP_n(X)  then for EVERY a
                        ||X - M(a)||^2 = ||X - M(a')||^2 + ||M(a - a')||^2   (block-wise exact minimisation);
   * over an ordered ring: the residual does not increase in an update, a sweep, a sequence of sweeps. *)
From Coq Require Import List Arith Lia Bool Ring Permutation.
From PV Require Import Base.Index Base.Sum Np.Array Model.Sparse Model.Repr Model.C09Als Proofs.C09Identity.
Import ListNotations.

Section Mono.
Variable V : Type.
Variables (v0 v1 : V) (vadd vmul vsub : V -> V -> V) (vopp : V -> V).
Hypothesis Vring : ring_theory v0 v1 vadd vmul vsub vopp (@eq V).
Add Ring Vr2 : Vring.

Local Notation mx := (@matrix V).
Local Notation "x + y" := (vadd x y).
Local Notation "x * y" := (vmul x y).
Local Notation "x - y" := (vsub x y).
Local Notation SUM := (sum_over v0 vadd).
Local Notation SUMN := (sum_n v0 vadd).
Local Notation mg := (mget v0).
Local Notation kpr := (kprod v0 v1 vmul).
Local Notation kex := (kprod_ex v0 v1 vmul).
Local Notation denk := (den_k v0 v1 vadd vmul).
Local Notation kmod := (kmodel v0 v1 vadd vmul).
Local Notation mtk := (mttkrp_den v0 v1 vadd vmul).
Local Notation inner := (innerprod_den v0 vadd vmul).
Local Notation nsq := (normsq_den v0 vadd vmul).
Local Notation resid := (resid_den v0 vadd vmul vsub).
Local Notation gramh := (gramhad v0 v1 vadd vmul).
Local Notation grama := (gramall v0 v1 vadd vmul).
Local Notation gramm := (gram v0 vadd vmul).

Let S_ext := @sum_over_ext V v0 vadd.
Let S_swap := @sum_over_swap V v0 v1 vadd vmul vsub vopp Vring.
Let S_scale_l := @sum_over_scale_l V v0 v1 vadd vmul vsub vopp Vring.
Let S_scale_r := @sum_over_scale_r V v0 v1 vadd vmul vsub vopp Vring.
Let S_add := @sum_over_add V v0 v1 vadd vmul vsub vopp Vring.
Let S_zero := @sum_over_zero V v0 v1 vadd vmul vsub vopp Vring.
Let S_map := @sum_over_map V v0 vadd.
Let N_ext := @sum_n_ext V v0 vadd.
Let N_mul := @sum_n_mul V v0 v1 vadd vmul vsub vopp Vring.

(* ---------- a sum over all subscripts of (d :: s) = sum over the first index of sums over the rest ---------- *)
Lemma sum_allsubs_cons d s (f : idx -> V) :
  SUM (allsubs (d :: s)) f = SUMN d (fun x => SUM (allsubs s) (fun i => f (x :: i))).
Proof.
  unfold allsubs. rewrite S_map. rewrite size_cons.
  change (SUM (seq 0 (d * size s)) (fun a => f (ind2sub (d :: s) a))) with (SUMN (d * size s) (fun a => f (ind2sub (d :: s) a))).
  rewrite N_mul.
  transitivity (SUMN (size s) (fun j => SUMN d (fun x => f (x :: ind2sub s j)))).
  { apply N_ext. intros j _. apply N_ext. intros x Hx. cbn [ind2sub]. f_equal.
    replace (Nat.add x (Nat.mul d j)) with (Nat.add x (Nat.mul j d)) by lia.
    rewrite Nat.mod_add, Nat.div_add by lia. rewrite Nat.mod_small, Nat.div_small by lia. reflexivity. }
  unfold sum_n. rewrite S_swap. apply S_ext. intros x _. now rewrite S_map.
Qed.

Lemma sum_allsubs_nil (f : idx -> V) : SUM (allsubs []) f = f [].
Proof. unfold allsubs. cbn. ring. Qed.

(* ---------- Gram-Hadamard: sums of products of Khatri-Rao rows are products of Gram entries ---------- *)
Lemma gramall_sum (As : list mx) r t :
  SUM (allsubs (map (@nrows V) As)) (fun i => kpr As i r * kpr As i t) = grama As r t.
Proof.
  induction As as [|A As IH]; cbn [map gramall].
  - rewrite sum_allsubs_nil. cbn. ring.
  - rewrite sum_allsubs_cons. unfold gram.
    transitivity (SUMN (nrows A) (fun x => (mg A x r * mg A x t) * grama As r t)).
    + apply N_ext. intros x _. rewrite <- IH. rewrite <- S_scale_l. apply S_ext. intros i _. cbn [kprod]. ring.
    + unfold sum_n. now rewrite S_scale_r.
Qed.

Definition yj (s : shape) (n : nat) (As : list mx) (j r t : nat) : V :=
  SUM (allsubs s) (fun i => if Nat.eqb (nth n i 0) j then kex n As i r * kex n As i t else v0).

Lemma gram_hadamard (As : list mx) : forall n j r t, n < length As -> j < nth n (map (@nrows V) As) 0 ->
  yj (map (@nrows V) As) n As j r t = gramh n As r t.
Proof.
  induction As as [|A As IH]; intros n j r t Hn Hj; cbn in Hn; [lia|].
  unfold yj. cbn [map]. rewrite sum_allsubs_cons. destruct n as [|n].
  - cbn [nth] in Hj. cbn [gramhad].
    transitivity (SUMN (nrows A) (fun x => if Nat.eqb x j then grama As r t else v0)).
    + apply N_ext. intros x _. cbn [nth kprod_ex]. destruct (Nat.eqb x j).
      * apply gramall_sum.
      * apply S_zero. reflexivity.
    + transitivity (SUMN (nrows A) (fun x => if Nat.eqb j x then grama As r t else v0)).
      { apply N_ext. intros x _. now rewrite Nat.eqb_sym. }
      now rewrite (sum_indicator V v0 v1 vadd vmul vsub vopp Vring (nrows A) j (fun _ => grama As r t)).
  - cbn [nth] in Hj. cbn [gramhad]. unfold gram.
    transitivity (SUMN (nrows A) (fun x => (mg A x r * mg A x t) * gramh n As r t)).
    + apply N_ext. intros x _. rewrite <- (IH n j r t) by (auto; lia). unfold yj.
      rewrite <- S_scale_l. apply S_ext. intros i _. cbn [nth kprod_ex].
      destruct (Nat.eqb (nth n i 0) j); ring.
    + unfold sum_n. now rewrite S_scale_r.
Qed.

(* ---------- MTTKRP of the model itself = a . Y ---------- *)
Lemma mttkrp_of_model (As : list mx) n R (a : nat -> nat -> V) j t :
  n < length As -> j < nth n (map (@nrows V) As) 0 ->
  mtk (map (@nrows V) As) (kmod n As R a) As n j t = SUMN R (fun r => a j r * gramh n As r t).
Proof.
  intros Hn Hj. unfold mttkrp_den, kmodel.
  transitivity (SUM (allsubs (map (@nrows V) As)) (fun i => SUMN R (fun r =>
      if Nat.eqb (nth n i 0) j then a j r * (kex n As i r * kex n As i t) else v0))).
  { apply S_ext. intros i _. destruct (Nat.eqb_spec (nth n i 0) j) as [E|E].
    - unfold sum_n. rewrite <- S_scale_r. apply S_ext. intros r _. rewrite E. ring.
    - symmetry. apply S_zero. reflexivity. }
  unfold sum_n at 1. rewrite S_swap. apply N_ext. intros r _.
  rewrite <- (gram_hadamard As n j r t Hn Hj). unfold yj. rewrite <- S_scale_l.
  apply S_ext. intros i _. destruct (Nat.eqb (nth n i 0) j); ring.
Qed.

(* ---------- linearity of the model in the factor being updated ---------- *)
Lemma kmodel_add n As R (a b : nat -> nat -> V) i :
  kmod n As R (fun j r => a j r + b j r) i = kmod n As R a i + kmod n As R b i.
Proof. unfold kmodel, sum_n. rewrite <- S_add. apply S_ext. intros r _. ring. Qed.

(* ---------- the algebra of a residual with a split model ---------- *)
Lemma resid_split s (X M E : idx -> V) :
  resid s X (fun i => M i + E i) =
  resid s X M + nsq s E - ((inner s X E - inner s M E) + (inner s X E - inner s M E)).
Proof.
  unfold resid_den, normsq_den, innerprod_den.
  induction (allsubs s) as [|i l IH]; [cbn; ring|].
  rewrite !sum_over_cons, IH. ring.
Qed.

Lemma resid_ext s (X M M' : idx -> V) : (forall i, inb s i = true -> M i = M' i) -> resid s X M = resid s X M'.
Proof.
  intros H. unfold resid_den, normsq_den, innerprod_den. apply S_ext. intros i Hi. apply in_allsubs in Hi.
  now rewrite (H i Hi).
Qed.

(* ---------- block-wise exact minimisation ---------- *)
Theorem ls_step_identity (X : idx -> V) (As : list mx) (n R : nat) (a' a : nat -> nat -> V) :
  n < length As ->
  normal_eq v0 v1 vadd vmul (map (@nrows V) As) X n As R a' ->
  resid (map (@nrows V) As) X (kmod n As R a) =
  resid (map (@nrows V) As) X (kmod n As R a') + nsq (map (@nrows V) As) (kmod n As R (fun j r => a j r - a' j r)).
Proof.
  intros Hn NE. set (s := map (@nrows V) As) in *.
  assert (Hns : n < length s) by (unfold s; now rewrite map_length).
  set (d := fun j r => a j r - a' j r).
  rewrite (resid_ext s X (kmod n As R a) (fun i => kmod n As R a' i + kmod n As R d i)).
  2:{ intros i _. rewrite <- kmodel_add. unfold kmodel. apply N_ext. intros r _. unfold d. ring. }
  rewrite resid_split.
  assert (E : inner s X (kmod n As R d) = inner s (kmod n As R a') (kmod n As R d)).
  { rewrite !(innerprod_kmodel V v0 v1 vadd vmul vsub vopp Vring) by auto.
    apply N_ext. intros r Hr. apply N_ext. intros j Hj. f_equal.
    unfold s. rewrite mttkrp_of_model by (auto; exact Hj). symmetry. apply NE; auto. }
  rewrite E. ring.
Qed.

(* ================= ordered ring ================= *)
Variable vle : V -> V -> Prop.
Hypothesis le_refl : forall x, vle x x.
Hypothesis le_trans : forall x y z, vle x y -> vle y z -> vle x z.
Hypothesis le_add_nonneg : forall x y, vle v0 y -> vle x (x + y).
Hypothesis add_nonneg : forall x y, vle v0 x -> vle v0 y -> vle v0 (x + y).
Hypothesis sq_nonneg : forall x, vle v0 (x * x).

Lemma nsq_nonneg s (E : idx -> V) : vle v0 (nsq s E).
Proof.
  unfold normsq_den, innerprod_den. induction (allsubs s) as [|i l IH]; [apply le_refl|].
  rewrite sum_over_cons. apply add_nonneg; auto.
Qed.

(* the mode-n update to ANY solution of the normal equations does not increase the residual, whatever the previous factor was *)
Theorem ls_step_monotone (X : idx -> V) (As : list mx) (n R : nat) (a' a : nat -> nat -> V) :
  n < length As ->
  normal_eq v0 v1 vadd vmul (map (@nrows V) As) X n As R a' ->
  vle (resid (map (@nrows V) As) X (kmod n As R a')) (resid (map (@nrows V) As) X (kmod n As R a)).
Proof.
  intros Hn NE. rewrite (ls_step_identity X As n R a' a Hn NE). apply le_add_nonneg. apply nsq_nonneg.
Qed.

(* ---------- the executable sweep (Model/C09Als.v) under the contracts of its oracles ---------- *)
Variable mk : list mx -> nat -> mx.
Variable solve : mx -> mx -> mx.
Variable scale : nat -> mx -> list V * mx.
Variable R : nat.
Variable X : idx -> V.

Local Notation upd1 := (als_update v0 v1 vadd vmul mk solve scale R).
Local Notation sweep := (als_sweep v0 v1 vadd vmul mk solve scale R).
Local Notation iter := (als_iter v0 v1 vadd vmul mk solve scale R).

Definition st_wf (s : shape) (st : als_state V) : Prop := length (st_w st) = R /\ map (@nrows V) (st_U st) = s.
Definition st_den (st : als_state V) : idx -> V := denk (st_model st).

(* contract of the oracles at one update: the solve result satisfies the normal equations of the TRUE data X (this bundles
   "mk is X's mttkrp" and "solve solves"), and the scaling returns weights w and a factor A' with w_r * A'[j,r] = A[j,r]
   (division by the column norms; or w = 0, A' = A = 0: the `weights == 0` branch) *)
Definition update_contract (s : shape) (it : nat) (st : als_state V) (n : nat) : Prop :=
  let U := st_U st in
  let A := solve (ymat v0 v1 vadd vmul n U R) (mk U n) in
  let wa := scale it A in
  n < length s /\
  normal_eq v0 v1 vadd vmul s X n U R (fun j r => mg A j r) /\
  length (fst wa) = R /\ nrows (snd wa) = nth n s 0 /\
  (forall j r, nth r (fst wa) v0 * mg (snd wa) j r = mg A j r).

Fixpoint sweep_contract (s : shape) (it : nat) (dims : list nat) (st : als_state V) : Prop :=
  match dims with
  | [] => True
  | n :: ds => update_contract s it st n /\ sweep_contract s it ds (upd1 it st n)
  end.

Fixpoint iter_contract (s : shape) (k : nat) (dims : list nat) (st : als_state V) : Prop :=
  match k with
  | O => True
  | S k' => iter_contract s k' dims st /\ sweep_contract s k' dims (iter k' dims st)
  end.

Lemma kex_upd n (As : list mx) : forall (B : mx) i r, kex n (upd As n B) i r = kex n As i r.
Proof.
  revert n; induction As as [|A As IH]; intros n B i r; destruct n as [|n]; cbn [upd kprod_ex]; auto.
  destruct i as [|x i]; auto. now rewrite IH.
Qed.

Lemma map_nrows_upd (As : list mx) : forall n (B : mx), nrows B = nth n (map (@nrows V) As) 0 -> n < length As ->
  map (@nrows V) (upd As n B) = map (@nrows V) As.
Proof.
  induction As as [|A As IH]; intros n B HB Hn; cbn in Hn; [lia|].
  destruct n as [|n]; cbn [upd map nth] in *; [now rewrite HB|]. f_equal. apply IH; auto. lia.
Qed.

Lemma nth_upd_same (As : list mx) : forall n (B : mx), n < length As -> nth n (upd As n B) [] = B.
Proof.
  induction As as [|A As IH]; intros n B Hn; cbn in Hn; [lia|].
  destruct n as [|n]; cbn [upd nth]; auto. apply IH. lia.
Qed.

Lemma st_den_before s st n i : st_wf s st -> n < length s -> inb s i = true ->
  st_den st i = kmod n (st_U st) R (fun j r => nth r (st_w st) v0 * mg (nth n (st_U st) []) j r) i.
Proof.
  intros [Hw Hs] Hn Hi. unfold st_den, st_model.
  rewrite (denk_kmodel V v0 v1 vadd vmul vsub vopp Vring _ n i).
  - cbn [kfactors kweights krank]. unfold krank. cbn [kweights]. now rewrite Hw.
  - unfold kshape. cbn [kfactors]. now rewrite Hs.
  - cbn [kfactors]. rewrite <- (map_length (@nrows V)), Hs. auto.
Qed.

Lemma update_wf_den s it st n : st_wf s st -> update_contract s it st n ->
  st_wf s (upd1 it st n) /\
  (forall i, inb s i = true ->
     st_den (upd1 it st n) i =
     kmod n (st_U st) R (fun j r => mg (solve (ymat v0 v1 vadd vmul n (st_U st) R) (mk (st_U st) n)) j r) i).
Proof.
  intros [Hw Hs] (Hn & NE & HwR & Hrows & Hsc).
  assert (HnU : n < length (st_U st)) by (rewrite <- (map_length (@nrows V)), Hs; auto).
  assert (Hwf' : st_wf s (upd1 it st n)).
  { split; cbn [als_update st_w st_U]; auto. rewrite map_nrows_upd; auto. now rewrite Hs. }
  split; auto. intros i Hi.
  rewrite (st_den_before s _ n i Hwf' Hn Hi). cbn [als_update st_w st_U].
  unfold kmodel. apply N_ext. intros r _. rewrite kex_upd, nth_upd_same by auto. now rewrite Hsc.
Qed.

Theorem update_monotone s it st n : st_wf s st -> update_contract s it st n ->
  vle (resid s X (st_den (upd1 it st n))) (resid s X (st_den st)).
Proof.
  intros Hwf HC. destruct (update_wf_den s it st n Hwf HC) as [_ Hden].
  pose proof HC as (Hn & NE & _). destruct Hwf as [Hw Hs].
  assert (HnU : n < length (st_U st)) by (rewrite <- (map_length (@nrows V)), Hs; auto).
  rewrite (resid_ext s X _ _ Hden).
  rewrite (resid_ext s X (st_den st) _ (fun i Hi => st_den_before s st n i (conj Hw Hs) Hn Hi)).
  rewrite <- Hs. apply ls_step_monotone; auto. now rewrite Hs.
Qed.

Theorem sweep_monotone s it dims : forall st, st_wf s st -> sweep_contract s it dims st ->
  st_wf s (sweep it dims st) /\ vle (resid s X (st_den (sweep it dims st))) (resid s X (st_den st)).
Proof.
  induction dims as [|n ds IH]; intros st Hwf HC; cbn [als_sweep fold_left].
  - split; auto.
  - destruct HC as [HC1 HC2].
    destruct (update_wf_den s it st n Hwf HC1) as [Hwf' _].
    destruct (IH _ Hwf' HC2) as [Hwf'' Hle]. split; auto.
    eapply le_trans; [exact Hle|]. now apply update_monotone.
Qed.

(* consecutive iterations of the whole algorithm: ||X - M_{k+1}||^2 <= ||X - M_k||^2 *)
Theorem iter_monotone s dims st k : st_wf s st -> iter_contract s (S k) dims st ->
  st_wf s (iter (S k) dims st) /\
  vle (resid s X (st_den (iter (S k) dims st))) (resid s X (st_den (iter k dims st))).
Proof.
  intros Hwf. revert k.
  assert (W : forall k, iter_contract s k dims st -> st_wf s (iter k dims st)).
  { induction k as [|k IHk]; intros HC; cbn [als_iter]; auto.
    destruct HC as [HC1 HC2]. exact (proj1 (sweep_monotone s k dims _ (IHk HC1) HC2)). }
  intros k [HC1 HC2]. cbn [als_iter]. apply sweep_monotone; [apply W; exact HC1 | exact HC2].
Qed.

(* the factor updated last satisfies its normal equations in the returned state (weights absorbed) *)
Theorem last_update_normal_eq s it st n : st_wf s st -> update_contract s it st n ->
  normal_eq v0 v1 vadd vmul s X n (st_U (upd1 it st n)) R
    (fun j r => nth r (st_w (upd1 it st n)) v0 * mg (nth n (st_U (upd1 it st n)) []) j r).
Proof.
  intros [Hw Hs] (Hn & NE & HwR & Hrows & Hsc).
  assert (HnU : n < length (st_U st)) by (rewrite <- (map_length (@nrows V)), Hs; auto).
  intros j t Hj Ht. cbn [als_update st_w st_U]. rewrite nth_upd_same by auto.
  specialize (NE j t Hj Ht).
  assert (G : forall r, gramh n (upd (st_U st) n (snd (scale it (solve (ymat v0 v1 vadd vmul n (st_U st) R) (mk (st_U st) n))))) r t
                        = gramh n (st_U st) r t).
  { intros r. clear - HnU. generalize (snd (scale it (solve (ymat v0 v1 vadd vmul n (st_U st) R) (mk (st_U st) n)))).
    revert n HnU. induction (st_U st) as [|A As IH]; intros n Hn B; cbn in Hn; [lia|].
    destruct n as [|n]; cbn [upd gramhad]; auto. rewrite IH by lia. reflexivity. }
  assert (M : mtk s X (upd (st_U st) n (snd (scale it (solve (ymat v0 v1 vadd vmul n (st_U st) R) (mk (st_U st) n))))) n j t
              = mtk s X (st_U st) n j t).
  { unfold mttkrp_den. apply S_ext. intros i _. now rewrite kex_upd. }
  rewrite M, <- NE. apply N_ext. intros r _. now rewrite G, Hsc.
Qed.

End Mono.
