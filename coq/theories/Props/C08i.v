(* Props/C08i.v — C08, wave 5: ktensor.update(modes, data) as a STATE MACHINE ON THE RECEIVER (Model/C08Update.v; pyttb/ktensor.py
   after fix b9311d6: the whole request is validated before the first in-place assignment).  py_update returns
   (accepted?, receiver as the call leaves it); its second pass is the assigning loop WITH its own in-loop tests, which — run alone, as
   before the repair — stops half way on a bad later block.  Only statements, `exact`, Print Assumptions. *)
From Coq Require Import List ZArith Arith Bool.
From PV Require Import Base.Index Model.Repr Model.C08Kruskal Model.C08Update Proofs.C08Update.
Import ListNotations.
Local Open Scope nat_scope.

Section C08i.
Variable V : Type.
Variable v0 : V.

(* A REJECTED update leaves the receiver exactly as it was — weights and every stored factor entry: every ktensor record (no
   well-formedness needed), every list of Python modes (any integers, any order, repeats), every data vector *)
Theorem C08_update_rejected_unchanged : forall (ms : list Z) (data : list V) (K : ktensor V),
  fst (py_update v0 ms data K) = false -> snd (py_update v0 ms data K) = K.
Proof. exact (py_update_rejected_unchanged V v0). Qed.

(* why: once pass 1 has answered `needed` <= len(data) for the receiver's rank and shape, the assigning loop started at loc on ANY
   receiver of that rank and shape runs to its end — none of its in-loop tests can fire (rank and shape survive each assignment) *)
Theorem C08_update_loop_after_validate : forall (data : list V) ms (K0 K : ktensor V) loc tot,
  krank K = krank K0 -> kshape K = kshape K0 ->
  py_needed K0 ms loc = Some tot -> tot <= length data ->
  fst (py_update_loop v0 ms data loc K) = true.
Proof. exact (py_update_loop_after_validate V v0). Qed.

(* accepted <-> modes strictly ascending, each -1 or a mode of the receiver, and the data holds all the blocks *)
Theorem C08_update_accepts_iff : forall (ms : list Z) (data : list V) (K : ktensor V),
  fst (py_update v0 ms data K) = py_strict_asc ms && py_validate K ms data.
Proof. exact (py_update_accepts_iff V v0). Qed.

(* an ACCEPTED update leaves the functional hand model k_update (the one C08_update_all_modes / C08_update_frame of Props/C08.v and
   the generated-code theorems of Props/C08g.v are about) *)
Theorem C08_update_accepted_model : forall (ms : list Z) (data : list V) (K : ktensor V),
  fst (py_update v0 ms data K) = true -> snd (py_update v0 ms data K) = k_update v0 (map mopt ms) data K.
Proof. exact (py_update_accepted_model V v0). Qed.

Theorem C08_update_spec : forall (ms : list Z) (data : list V) (K : ktensor V),
  py_update v0 ms data K =
  if py_strict_asc ms && py_validate K ms data then (true, k_update v0 (map mopt ms) data K) else (false, K).
Proof. exact (py_update_spec V v0). Qed.

(* rank and shape of the receiver never change, accepted or not *)
Theorem C08_update_keeps_rank_shape : forall (ms : list Z) (data : list V) (K : ktensor V),
  krank (snd (py_update v0 ms data K)) = krank K /\ kshape (snd (py_update v0 ms data K)) = kshape K.
Proof. exact (py_update_keeps_rank_shape V v0). Qed.

(* modes = [-1, 0, .., ndims-1] with exactly R * (sum(shape) + 1) numbers: never rejected, and the receiver becomes from_vector(data) *)
Theorem C08_update_all_modes_accepted : forall (v1 : V) (K : ktensor V) (data : list V),
  length data = krank K * (sum_nat (kshape K) + 1) ->
  py_update v0 (all_modes (length (kfactors K))) data K = (true, k_from_vector v0 v1 data (kshape K) true).
Proof. exact (py_update_all_modes V v0). Qed.

End C08i.
Print Assumptions C08_update_rejected_unchanged.
Print Assumptions C08_update_loop_after_validate.
Print Assumptions C08_update_accepts_iff.
Print Assumptions C08_update_accepted_model.
Print Assumptions C08_update_spec.
Print Assumptions C08_update_keeps_rank_shape.
Print Assumptions C08_update_all_modes_accepted.

(* non-vacuity / regression of the repaired defect (former witnesses of C19-N25): 2 x 3 modes, two components.
   Accepted request; rejected requests (invalid later mode, data too short for the second block, repeated mode, mode -2, descending
   modes) leave the receiver untouched; the loop alone (update before b9311d6) had already rewritten factor 0 / the weights *)
Local Open Scope Z_scope.
Example C08_example_update_state :
  let k := mkK [1; 1] [[[0; 0]; [0; 0]]; [[0; 0]; [0; 0]; [0; 0]]] in
  py_update 0 [-1; 1] [11; 12; 5; 6; 7; 8; 9; 10] k = (true, mkK [11; 12] [[[0; 0]; [0; 0]]; [[5; 8]; [6; 9]; [7; 10]]]) /\
  py_update 0 [0; 5] [1; 2; 3; 4; 5; 6] k = (false, k) /\
  py_update 0 [-1; 0] [7; 8; 9] k = (false, k) /\
  py_update 0 [0; 0] [1; 2; 3; 4; 5; 6; 7; 8] k = (false, k) /\
  py_update 0 [-2] [1; 2; 3; 4; 5; 6] k = (false, k) /\
  py_update 0 [1; -1] [5; 6; 7; 8; 9; 10; 11; 12] k = (false, k) /\
  py_update_one_pass 0 [0; 5] [1; 2; 3; 4; 5; 6] k = (false, mkK [1; 1] [[[1; 3]; [2; 4]]; [[0; 0]; [0; 0]; [0; 0]]]) /\
  py_update_one_pass 0 [-1; 0] [7; 8; 9] k = (false, mkK [7; 8] [[[0; 0]; [0; 0]]; [[0; 0]; [0; 0]; [0; 0]]]).
Proof. repeat split; reflexivity. Qed.
