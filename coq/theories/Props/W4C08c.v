(* Props/W4C08c.v — the classmethod ktensor.from_vector as GENERATED from /repo/pyttb/ktensor.py on every run
   (Gen/GenKtensor4b.v; it calls the generated isvector / isrow of Gen/GenUtils3.v): bridge to the hand reference of
   Model/W4FromVector.v and laws.  Only statements, `exact`, Print Assumptions. *)
From Coq Require Import List ZArith Arith Bool.
From PV Require Import Np.NpZ Np.NpZ2 Np.NpZ3 Np.NpZ3c Np.NpZ3d Np.NpZ3e Np.NpZ4 Np.NpZ4c Model.W4FromVector Proofs.W4FromVector
  Gen.GenKtensor4b.
Import ListNotations.
Local Open Scope Z_scope.

Theorem C08_gen_from_vector_bridge : forall (cls : unit) (data shape : vec) (cw : bool),
  ktensor_from_vector cls data shape cw = H_from_vector data shape cw.
Proof. exact from_vector_bridge. Qed.
Print Assumptions C08_gen_from_vector_bridge.

Theorem C08_gen_from_vector_rejects_length : forall (cls : unit) (data shape : vec) (cw : bool),
  zlen data mod (zsum shape + (if cw then 1 else 0)) <> 0 -> ktensor_from_vector cls data shape cw = Err.
Proof. exact gen_from_vector_rejects_length. Qed.
Print Assumptions C08_gen_from_vector_rejects_length.

Theorem C08_gen_from_vector_shape : forall (cls : unit) (data shape : vec) (cw : bool) (k : ktz),
  ktensor_from_vector cls data shape cw = Ok k ->
  let R := zlen data / (zsum shape + (if cw then 1 else 0)) in
  zlen data = R * (zsum shape + (if cw then 1 else 0)) /\
  length (kt_factors k) = length shape /\
  kt_weights k = (if cw then py_slice 0 data (mkslice (Some 0) (Some R) None) else np_full R 1).
Proof. exact gen_from_vector_shape. Qed.
Print Assumptions C08_gen_from_vector_shape.

Example C08_gen_from_vector_example :
  ktensor_from_vector tt [2; 3; 1; 2; 3; 4; 5; 6; 7; 8] [3; 1] true = Ok (mkkt [2; 3] [[[1; 4]; [2; 5]; [3; 6]]; [[7; 8]]]) /\
  ktensor_from_vector tt [1; 2; 3; 4; 5; 6; 7; 8] [3; 1] false = Ok (mkkt [1; 1] [[[1; 4]; [2; 5]; [3; 6]]; [[7; 8]]]) /\
  ktensor_from_vector tt [1; 2; 3; 4; 5; 6; 7] [3; 1] false = Err /\
  ktensor_from_vector tt [1; 2; 3] [] false = Err.
Proof. repeat split; reflexivity. Qed.
