"""helpers of the C13 check: capture of numpy.random draws and of the solver's objective estimates (wrappers live in the
harness process only), pyttb runners, scaling of float observations to integers, brute-force oracle, finding witnesses."""
import math
from fractions import Fraction

D53 = 2 ** 53


# --------------------------------------------------------------------------------------- capture of numpy.random
class Capture:
    """wraps numpy.random.uniform / choice (and poisson) for the duration of a `with` block; records every result.
    force='zero': the first entry of every uniform block is replaced by 0.0 and the last by 1-2^-53 (draws are inputs)"""

    def __init__(self, force=None, poisson_script=None):
        self.force = force
        self.uniform = []
        self.choice = []
        self.poisson_script = list(poisson_script or [])     # outcomes handed out by numpy.random.poisson, in order (draws are inputs)
        self.poisson = []

    def __enter__(self):
        import numpy as np
        self.np = np
        self.o_u, self.o_c = np.random.uniform, np.random.choice
        cap = self

        def w_uniform(low=0.0, high=1.0, size=None):
            r = cap.o_u(low, high, size)
            if cap.force == "zero" and getattr(r, "size", 0) > 0:
                r = np.array(r, dtype=float)
                r.flat[0] = 0.0
                r.flat[r.size - 1] = 1.0 - 2.0 ** -53
            cap.uniform.append(np.array(r, dtype=float).copy())
            return r

        def w_choice(a, size=None, replace=True, p=None):
            r = cap.o_c(a, size=size, replace=replace, p=p)
            cap.choice.append(np.array(r).copy())
            return r
        self.o_p = np.random.poisson

        def w_poisson(lam=1.0, size=None):
            r = cap.o_p(lam, size)
            if cap.poisson_script and size is None:
                r = int(cap.poisson_script.pop(0))
            cap.poisson.append((float(lam), int(r)))
            return r
        np.random.uniform, np.random.choice, np.random.poisson = w_uniform, w_choice, w_poisson
        return self

    def __exit__(self, *exc):
        self.np.random.uniform, self.np.random.choice, self.np.random.poisson = self.o_u, self.o_c, self.o_p
        return False


class CeilCapture:
    """stands in for the name `np` inside pyttb.gcp.samplers (harness process only): numpy, with ceil recording (float argument as an
    exact rational, answer) — the float quotient / product of the oversampling rule of samplers.zeros are ORACLES of the model"""

    class _Proxy:
        def __init__(self, np, rec):
            self._np, self._rec = np, rec

        def __getattr__(self, k):
            return getattr(self._np, k)

        def ceil(self, x):
            r = self._np.ceil(x)
            if self._np.ndim(x) == 0 and math.isfinite(float(x)):
                fr = Fraction(float(x))
                self._rec.append([fr.numerator, fr.denominator, int(r)])
            return r

    def __enter__(self):
        import numpy as np
        from pyttb.gcp import samplers
        self.mod, self.orig, self.calls = samplers, samplers.np, []
        samplers.np = CeilCapture._Proxy(np, self.calls)
        return self

    def __exit__(self, *exc):
        self.mod.np = self.orig
        return False


def _numerators(block):
    out = []
    for row in block.reshape((block.shape[0], -1)):
        r = []
        for u in row:
            f = Fraction(float(u)) * D53
            assert f.denominator == 1, "draw is not a multiple of 2^-53"
            r.append(int(f))
        out.append(r)
    return out


def _fr(x):
    return str(Fraction(float(x)))


def _ivals(np, v):
    out = []
    for x in np.atleast_1d(np.asarray(v, dtype=float)).ravel():
        out.append(int(x) if float(x) == int(x) else str(Fraction(float(x))))
    return out


# --------------------------------------------------------------------------------------- samplers
def run_uniform(a):
    import numpy as np
    import pyttb as ttb
    from pyttb.gcp import samplers
    T = ttb.tensor(np.array(a["data"], dtype=float).reshape(tuple(a["shape"]), order="F"), tuple(a["shape"]), copy=True)
    np.random.seed(a["seed"])
    with Capture(a["force"]) as cap:
        subs, vals, wgts = samplers.uniform(T, a["n"])
    draws = _numerators(cap.uniform[0]) if cap.uniform else []
    return {"subs": [[int(x) for x in r] for r in np.asarray(subs).reshape((-1, len(a["shape"])))],
            "subs_shape": [int(d) for d in np.shape(subs)],
            "vals": _ivals(np, vals), "vals_shape": [int(d) for d in np.shape(vals)],
            "weights": [_fr(w) for w in np.atleast_1d(wgts)], "weights_shape": [int(d) for d in np.shape(wgts)],
            "draws": draws, "meta": {"zero_draw": any(0 in r for r in draws)}}


def run_stratified(a, semi):
    import numpy as np
    import pyttb as ttb
    from pyttb.gcp import samplers
    shp = tuple(a["shape"])
    nd = len(shp)
    size, nnz = math.prod(shp), len(a["subs"])
    if nnz:
        S = ttb.sptensor(np.array(a["subs"], dtype=int).reshape((nnz, nd)), np.array(a["vals"], dtype=float).reshape((nnz, 1)), shp, copy=True)
    else:
        S = ttb.sptensor(shape=shp)
    cnt = samplers.StratifiedCount(num_zeros=a["cz"], num_nonzeros=a["cn"])
    meta = {"total": a["cn"] + a["cz"], "short": (not semi) and size == nnz}
    np.random.seed(a["seed"])
    try:
        with Capture(a["force"], [a["cn"], a["cz"]] if a.get("via_poisson") else None) as cap, CeilCapture() as ceilcap:
            if a.get("via_poisson") and not semi:
                # the uniform GRADIENT sampler of a sparse tensor: stratified with Poisson(n*nnz/size), Poisson(n*(size-nnz)/size) counts;
                # the two Poisson outcomes are inputs (any count can be drawn, also more nonzero samples than nonzeros)
                g = samplers.GCPSampler(S, gradient_sampler=samplers.Samplers.UNIFORM, gradient_samples=a["via_poisson"])
                subs, vals, wgts = g.gradient_sample(S)
                lam_ok = len(cap.poisson) == 2 and abs(cap.poisson[0][0] - a["via_poisson"] * nnz / size) < 1e-9 and \
                    abs(cap.poisson[1][0] - a["via_poisson"] * (size - nnz) / size) < 1e-9
                if not lam_ok:
                    raise AssertionError(f"Poisson rates {cap.poisson}")
            elif semi:
                g = samplers.GCPSampler(S, gradient_sampler=samplers.Samplers.SEMISTRATIFIED, gradient_samples=cnt)
                subs, vals, wgts = g.gradient_sample(S)
            else:
                g = samplers.GCPSampler(S, function_sampler=samplers.Samplers.STRATIFIED, function_samples=cnt)
                subs, vals, wgts = g.function_sample(S)
    except Exception as ex:
        try:
            meta["zero_draw"] = any(0 in r for blk in cap.uniform if blk.size for r in _numerators(blk))
        except Exception:
            pass
        return {"exc": type(ex).__name__, "msg": str(ex)[:200], "meta": meta}
    nidx = [int(x) for x in cap.choice[0]] if cap.choice else (list(range(nnz)) if a["cn"] == nnz else [])
    draws = _numerators(cap.uniform[0]) if cap.uniform and cap.uniform[0].size else []
    subs_l = [[int(x) for x in r] for r in np.asarray(subs).reshape((-1, nd))]
    stored = {tuple(s) for s in a["subs"]}
    zpart = subs_l[a["cn"]:]
    # short zero supply (trigger region of the open finding C13-S1) is decided by the INPUTS and the captured draws alone — how many of
    # the drawn subscripts floor(u*d) are zeros of the data — never by the shape of what came back
    zero_found = sum(1 for r in draws if tuple((u * d) // D53 for u, d in zip(r, shp)) not in stored)
    meta.update({"zero_draw": any(0 in r for r in draws), "total": len(subs_l) if not semi else a["cn"] + a["cz"],
                 "short": meta["short"] or ((not semi) and zero_found < a["cz"]),
                 "semi_hit": semi and any(tuple(r) in stored for r in zpart)})
    if not semi:
        meta["total"] = a["cn"] + a["cz"]
    return {"subs": subs_l, "vals": _ivals(np, vals), "vals_shape": [int(d) for d in np.shape(vals)],
            "weights": [_fr(w) for w in np.atleast_1d(wgts)], "weights_shape": [int(d) for d in np.shape(wgts)],
            "nidx": nidx, "draws": draws, "meta": meta,
            "zceil": list(ceilcap.calls), "zrows": (int(cap.uniform[0].shape[0]) if cap.uniform else -1)}


# --------------------------------------------------------------------------------------- solves
def rand_problem(rng, shp):
    n = math.prod(shp)
    R = rng.randint(1, 2)
    obj = rng.choice(["gaussian", "gaussian_lb", "poisson"])
    data = [rng.randint(0, 4) for _ in range(n)]
    if not any(data):
        data[0] = 2
    sparse = rng.random() < 0.35
    if sparse:          # a sparse tensor without zeros cannot be sampled at all (finding C13-S1): keep two zeros here
        for k in range(1, n, 2):
            data[k] = 0
        data[2 % n] = 0
        data[0] = data[0] or 2
    fac = [[[rng.randint(1, 8) / 4.0 for _ in range(R)] for _ in range(d)] for d in shp]
    return {"shape": list(shp), "data": data, "R": R, "init": fac, "obj": obj, "seed": rng.randrange(10 ** 6),
            "sparse": sparse, "fs": rng.randint(2, 6), "gs": rng.randint(1, 4)}


def _objective(a):
    import numpy as np
    from pyttb.gcp import handles
    if a["obj"] == "gaussian":
        return handles.gaussian, handles.gaussian_grad, -np.inf
    if a["obj"] == "gaussian_lb":
        return handles.gaussian, handles.gaussian_grad, 0.25
    return handles.poisson, handles.poisson_grad, 0.0


def _mk_problem(a):
    import numpy as np
    import pyttb as ttb
    from pyttb.gcp import samplers
    shp = tuple(a["shape"])
    arr = np.array(a["data"], dtype=float).reshape(shp, order="F") * 2.0 ** a.get("dscale", 0)
    X = ttb.tensor(arr, shp, copy=True)
    if a["sparse"]:
        X = X.to_sptensor()
        smp = samplers.GCPSampler(X, function_samples=samplers.StratifiedCount(num_zeros=1, num_nonzeros=max(1, min(a["fs"], X.nnz))),
                                  gradient_sampler=samplers.Samplers.SEMISTRATIFIED,
                                  gradient_samples=samplers.StratifiedCount(num_zeros=a["gs"], num_nonzeros=a["gs"]))
    else:
        smp = samplers.GCPSampler(X, function_samples=max(2, a["fs"]), gradient_samples=max(2, a["gs"]))
    M0 = ttb.ktensor([_layout(np, np.array(A, dtype=float).reshape((len(A), a["R"])), a.get("layout", "C")) for A in a["init"]])
    return X, M0, smp


def _mk_opt(a):
    from pyttb.gcp import optimizers
    cls = {"sgd": optimizers.SGD, "adam": optimizers.Adam, "adagrad": optimizers.Adagrad}[a["opt"]]
    return cls(rate=a["rate"], decay=a["decay"], max_fails=a["max_fails"], epoch_iters=a["epoch_iters"],
               f_est_tol=(-math.inf if a["tol"] is None else a["tol"]), max_iters=a["max_iters"], printitn=a.get("printitn", 0))


class EstCapture:
    """records (model factor matrices, value) of every FUNCTION estimate the solver computes (epoch boundaries)"""

    def __init__(self, script=None):
        # script: the values the FUNCTION estimates of this solve answer, in call order (start, epoch 1, epoch 2, ...): the estimator is
        # an input of the solver's bookkeeping (Alg/C13Solver.v: `fest`), so every history of epoch outcomes can be enumerated
        self.script = script

    def __enter__(self):
        from pyttb.gcp import optimizers
        self.mod = optimizers
        self.orig = optimizers.estimate
        self.rec = []
        cap = self

        def wrapped(model, data_subs, data_vals, weights, function_handle=None, gradient_handle=None, lambda_check=True, crng=None):
            r = cap.orig(model, data_subs, data_vals, weights, function_handle, gradient_handle, lambda_check, crng)
            if function_handle is not None and gradient_handle is None:
                if cap.script is not None and len(cap.rec) < len(cap.script):
                    r = float(cap.script[len(cap.rec)])
                cap.rec.append(([f.copy() for f in model.factor_matrices], float(r)))
            return r
        optimizers.estimate = wrapped
        return self

    def __exit__(self, *exc):
        self.mod.estimate = self.orig
        return False


class AdagradZeroSpy:
    """notes whether Adagrad.update_step was called with an exactly zero gradient while its accumulator _gnormsum was 0 (first step of
    a solve / after a failed epoch / only zero gradients so far): the input class of the REPAIRED finding C13-G1 (/repo 2496788; before:
    step = 1/sqrt(0) = inf, inf * 0 = nan in every factor entry). No attribution any more: a run of this class whose numbers are not
    finite is reported as a mismatch (the model stays put, Alg/C13StepArith.v adagrad_zero_accumulator), not skipped as diverging"""

    def __enter__(self):
        import numpy as np
        from pyttb.gcp import optimizers
        self.cls, self.orig, self.hit = optimizers.Adagrad, optimizers.Adagrad.update_step, False
        spy = self

        def wrapped(this, model, gradient, lower_bound):
            if this._gnormsum == 0 and all(not np.any(g) for g in gradient):
                spy.hit = True
            return spy.orig(this, model, gradient, lower_bound)
        optimizers.Adagrad.update_step = wrapped
        return self

    def __exit__(self, *exc):
        self.cls.update_step = self.orig
        return False


def run_solve(a):
    with AdagradZeroSpy() as zspy:
        return _run_solve(a, zspy)


def _run_solve(a, zspy):
    import numpy as np
    X, M0, smp = _mk_problem(a)
    fh, gh, lb = _objective(a)
    opt = _mk_opt(a)
    np.random.seed(a["seed"])
    init_copy = [f.copy() for f in M0.factor_matrices]
    start_ok = True
    with EstCapture(a.get("script")) as cap:
        if a.get("via") == "gcp_opt":
            import pyttb as ttb
            ini, given_w = _driver_init(np, ttb, a, M0)
            data_before = None if a["sparse"] else X.data.copy()
            result, M0r, info = ttb.gcp_opt(X, a["R"], _driver_objective(a), opt, init=ini, sampler=smp, printitn=a.get("printitn", 0))
            start_ok = _driver_start_ok(np, a, given_w, M0, M0r, X.full() if a["sparse"] else X) and \
                (data_before is None or np.array_equal(data_before, X.data)) and \
                bool(cap.rec) and all(np.array_equal(x, y) for x, y in zip(cap.rec[0][0], M0r.factor_matrices))
            M0, init_copy = M0r, [f.copy() for f in M0r.factor_matrices]
        else:
            result, info = opt.solve(M0, X, fh, gh, lb, smp)
    ests = [v for _, v in cap.rec]
    if zspy.hit and (any(not math.isfinite(v) for v in ests) or any(not np.all(np.isfinite(f)) for f in result.factor_matrices)
                     or any(not np.all(np.isfinite(f)) for fm, _ in cap.rec for f in fm)):          # ... or a model held at an epoch boundary
        # NOT a diverging run: Adagrad turned the model into nan on an exactly zero gradient (regression of the repaired finding C13-G1)
        return {"nonfinite": True, "ests": [str(v) for v in ests], "trace": [str(v) for v in info["f_est_trace"]]}
    if any(not math.isfinite(v) for v in ests):
        return {"skip": "non-finite estimate"}
    cands = [k for k, (fm, _) in enumerate(cap.rec) if all(np.array_equal(x, y) for x, y in zip(fm, result.factor_matrices))]
    mn = min(float(np.min(f)) for f in result.factor_matrices)
    bmin = [min(float(np.min(f)) for f in fm) for fm, _ in cap.rec[1:]]
    return {"ests": [_fr(v) for v in ests], "trace": [_fr(v) for v in info["f_est_trace"]], "n_epoch": int(info["n_epoch"]),
            "nfails": int(opt._nfails), "ret_cands": cands, "lb_ok": bool(mn >= lb),
            "boundary_lb_ok": all(m >= lb for m in bmin), "min_entry": mn,
            "lb": (None if lb == -np.inf else _fr(lb)), "min_entry_q": _fr(mn), "bmin": [_fr(m) for m in bmin],
            "init_unchanged": start_ok and all(np.array_equal(x, y) for x, y in zip(init_copy, M0.factor_matrices)),
            # started AT an exact solution (every sampled gradient exactly zero, feasible start): the returned model and every model held
            # at an epoch boundary ARE the start, entry for entry (only compared for the cases that say so: args["exact_start"])
            "stay": all(np.array_equal(x, y) for x, y in zip(init_copy, result.factor_matrices)) and
                    all(np.array_equal(x, y) for fm, _ in cap.rec for x, y in zip(init_copy, fm)),
            "step_trace_len": int(len(info["step_trace"]))}


def _flat(result, info):
    out = [_fr(v) for v in info["f_est_trace"]]
    for f in result.factor_matrices:
        out += [_fr(v) for v in f.ravel(order="F")]
    return out


def run_reuse(a):
    return _run_reuse(a)


def _run_reuse(a):
    import numpy as np
    reused, fresh = [], []
    shared = _mk_opt(a)
    for mode, sink in (("reused", reused), ("fresh", fresh)):
        for p in a["probs"]:
            q = dict(a)
            q.update(p)
            X, M0, smp = _mk_problem(q)
            fh, gh, lb = _objective(q)
            opt = shared if mode == "reused" else _mk_opt(a)
            np.random.seed(p["seed"])
            try:
                result, info = opt.solve(M0, X, fh, gh, lb, smp)
                flat = _flat(result, info)
                if any("nan" in v or "inf" in v for v in flat):
                    sink.append({"exc": "non-finite"})
                else:
                    sink.append({"flat": flat})
            except Exception as ex:
                sink.append({"exc": type(ex).__name__, "msg": str(ex)[:120]})
    return {"reused": reused, "fresh": fresh}


def scale(ests, trace, tol):
    fe = [Fraction(x) for x in ests]
    ft = [Fraction(x) for x in trace]
    ftol = None if tol is None else Fraction(float(tol))
    L = 1
    for f in fe + ft + ([ftol] if ftol is not None else []):
        L = L * f.denominator // math.gcd(L, f.denominator)
    return [int(f * L) for f in fe], [int(f * L) for f in ft], (None if ftol is None else int(ftol * L))


def scale_many(A, B):
    L = 1
    for row in A + B:
        for x in row:
            d = Fraction(x).denominator
            L = L * d // math.gcd(L, d)
    conv = lambda rows: [[int(Fraction(x) * L) for x in row] for row in rows]
    return conv(A), conv(B)



# --------------------------------------------------------------------------------------- update-step arithmetic (capture)
class _NpProxy:
    """stands in for the name `np` inside pyttb.gcp.optimizers (harness process only): numpy, with sqrt recording its results —
    the square root is the ORACLE of the exact-rational step models (Alg/C13StepArith.v)"""

    def __init__(self, np, rec):
        self._np, self._rec = np, rec

    def __getattr__(self, k):
        return getattr(self._np, k)

    def sqrt(self, x):
        r = self._np.sqrt(x)
        self._rec.append((self._np.array(x, dtype=float).copy(), self._np.array(r, dtype=float).copy()))
        return r


def _flatl(np, mats):
    return [float(v) for m in mats for v in np.asarray(m, dtype=float).ravel()]


class StepCapture:
    """records every update_step / set_failed_epoch of ONE optimizer object: inputs, private state before and after, results,
    and the square roots computed inside"""

    def __init__(self, opt):
        self.opt, self.steps, self.fails, self.sq = opt, [], [], []

    def state(self):
        import numpy as np
        o = self.opt
        if hasattr(o, "_m"):
            return {"m": _flatl(np, o._m), "v": _flatl(np, o._v), "mp": _flatl(np, o._m_prev), "vp": _flatl(np, o._v_prev),
                    "tot": int(o._total_iterations)}
        if hasattr(o, "_gnormsum"):
            return {"gsum": float(o._gnormsum)}
        return {}

    def __enter__(self):
        import numpy as np
        from pyttb.gcp import optimizers
        self.mod, self.o_np = optimizers, optimizers.np
        optimizers.np = _NpProxy(np, self.sq)
        cap, opt = self, self.opt
        o_update, o_fail = opt.update_step, opt.set_failed_epoch

        def w_update(model, gradient, lower_bound):
            rec = {"xs": _flatl(np, model.factor_matrices), "gs": _flatl(np, gradient), "nf": int(opt._nfails),
                   "lb": (None if lower_bound == -np.inf else float(lower_bound)), "before": cap.state()}
            n_sq = len(cap.sq)
            out, step = o_update(model, gradient, lower_bound)
            rec.update({"out": _flatl(np, out), "step": float(step), "after": cap.state(),
                        "sq_in": [float(v) for x, _ in cap.sq[n_sq:] for v in np.atleast_1d(x).ravel()],
                        "sq_out": [float(v) for _, r in cap.sq[n_sq:] for v in np.atleast_1d(r).ravel()],
                        "after_fail": len(cap.fails) > 0 and cap.fails[-1]["at"] == len(cap.steps)})
            cap.steps.append(rec)
            return out, step

        def w_fail():
            b = cap.state()
            o_fail()
            cap.fails.append({"before": b, "after": cap.state(), "at": len(cap.steps)})
        opt.update_step, opt.set_failed_epoch = w_update, w_fail
        return self

    def __exit__(self, *exc):
        self.mod.np = self.o_np
        del self.opt.update_step, self.opt.set_failed_epoch
        return False


def _mk_opt_step(a):
    from pyttb.gcp import optimizers
    kw = dict(rate=a["rate"], decay=a["decay"], max_fails=a["max_fails"], epoch_iters=a["epoch_iters"],
              f_est_tol=-math.inf, max_iters=a["max_iters"], printitn=0)
    if a["opt"] == "adam":
        return optimizers.Adam(beta_1=a["beta_1"], beta_2=a["beta_2"], epsilon=a["epsilon"], **kw)
    return {"sgd": optimizers.SGD, "adagrad": optimizers.Adagrad}[a["opt"]](**kw)


def _frs(l):
    return [_fr(v) for v in l]


def _frstate(st):
    return {k: (v if k == "tot" else (_fr(v) if k == "gsum" else _frs(v))) for k, v in st.items()}


def run_step(a):
    """one stochastic solve with every update step captured; up to four steps (the first two, the first one after a failed
    epoch, the last) and the first set_failed_epoch are handed to the exact-rational models"""
    import numpy as np
    X, M0, smp = _mk_problem(a)
    fh, gh, lb = _objective(a)
    opt = _mk_opt_step(a)
    np.random.seed(a["seed"])
    with StepCapture(opt) as cap:
        try:
            opt.solve(M0, X, fh, gh, lb, smp)
        except ValueError as ex:
            if "Infinite gradient" not in str(ex):
                raise
    n = len(cap.steps)
    pick = sorted(set([k for k in (0, 1, n - 1) if 0 <= k < n] + [k for k, st in enumerate(cap.steps) if st["after_fail"]][:1]))
    steps = []
    for k in pick:
        st = cap.steps[k]
        nums = st["xs"] + st["gs"] + st["out"] + [st["step"]] + st["sq_in"] + st["sq_out"]
        if not all(math.isfinite(v) for v in nums) or any(not math.isfinite(v) for s_ in (st["before"], st["after"]) for key, val in s_.items()
                                                           if key != "tot" for v in (val if isinstance(val, list) else [val])):
            continue
        steps.append({"k": k, "xs": _frs(st["xs"]), "gs": _frs(st["gs"]), "nf": st["nf"], "lb": None if st["lb"] is None else _fr(st["lb"]),
                      "before": _frstate(st["before"]), "after": _frstate(st["after"]), "out": _frs(st["out"]), "step": _fr(st["step"]),
                      "sq_in": _frs(st["sq_in"]), "sq_out": _frs(st["sq_out"]), "after_fail": st["after_fail"]})
    fails = [{"before": _frstate(f["before"]), "after": _frstate(f["after"])} for f in cap.fails[:1]
             if all(math.isfinite(v) for s_ in (f["before"], f["after"]) for key, val in s_.items() if key != "tot"
                    for v in (val if isinstance(val, list) else [val]))]
    if not steps:
        return {"skip": "no finite step"}
    return {"steps": steps, "fails": fails, "nsteps": n, "meta": {"failed_epoch": bool(cap.fails)}}


def step_oracle(a, o):
    """pure Python, floats: every new entry respects the bound and is max(lb, x - d) with d of the sign pyttb's own state implies;
    SGD / Adagrad: the entry moved against its gradient component (or stayed)"""
    for st in o["steps"]:
        lb = None if st["lb"] is None else Fraction(st["lb"])
        xs, gs, out = [Fraction(v) for v in st["xs"]], [Fraction(v) for v in st["gs"]], [Fraction(v) for v in st["out"]]
        if not (len(xs) == len(gs) == len(out)):
            return f"step {st['k']}: {len(xs)} entries, {len(gs)} gradient entries, {len(out)} new entries"
        for x, g, y in zip(xs, gs, out):
            if lb is not None and y < lb:
                return f"step {st['k']}: new factor entry {float(y)} below the lower bound {float(lb)}"
            if a["opt"] in ("sgd", "adagrad") and (lb is None or x >= lb):
                if (g > 0 and y > x) or (g < 0 and y < x) or (g == 0 and y != x):
                    return f"step {st['k']}: entry {float(x)} with gradient {float(g)} moved to {float(y)}"
    return None


# --------------------------------------------------------------------------------------- through the gcp_opt driver
def _driver_objective(a):
    """the objective argument of gcp_opt: the Objectives enum where it gives the same handles, else the (f, g, lower bound) tuple"""
    from pyttb.gcp.handles import Objectives
    if a["obj"] == "gaussian":
        return Objectives.GAUSSIAN
    if a["obj"] == "poisson" and a.get("dscale", 0) >= 0:          # the enum insists on a count tensor
        return Objectives.POISSON
    return _objective(a)


def _driver_init(np, ttb, a, M0):
    """the init argument: a ktensor with non-unit weights denoting M0 . w, a list of factor matrices, or "random" """
    kind = a.get("init_kind", "ktensor")
    if kind == "random":
        return "random", None
    if kind == "list":
        return [f.copy() for f in M0.factor_matrices], [1.0] * a["R"]
    w = [float(x) for x in a.get("init_weights", [1.0] * a["R"])][: a["R"]]
    return ttb.ktensor([f.copy() for f in M0.factor_matrices], np.array(w)), w


def _full_brute(shape, R, weights, factors):
    """the dense array a Kruskal model denotes, F-order list, pure Python floats"""
    out = []
    for k in range(math.prod(shape)):
        sub, r = [], k
        for d in shape:
            sub.append(r % d)
            r //= d
        m = 0.0
        for c in range(R):
            t = float(weights[c])
            for mode, i in enumerate(sub):
                t *= float(factors[mode][i][c])
            m += t
        out.append(m)
    return out


def _driver_start_ok(np, a, given_w, M0, M0r, X, mask_tensor=None):
    """initial-guess handling of the driver: the returned initial model has unit weights and denotes the same tensor as the init
    handed in (a random init is scaled to the norm of the data)"""
    rows = lambda K: [[[float(v) for v in row] for row in np.asarray(f)] for f in K.factor_matrices]
    if not all(float(w) == 1.0 for w in M0r.weights):
        return False
    got = _full_brute(a["shape"], a["R"], [1.0] * a["R"], rows(M0r))
    if given_w is None:
        dat = np.asarray(X.data) if mask_tensor is None else np.asarray(X.data) * np.asarray(mask_tensor.data)   # missing entries count as 0
        nd = math.sqrt(sum(float(v) ** 2 for v in dat.ravel()))
        ng = math.sqrt(sum(v * v for v in got))
        return abs(nd - ng) <= 1e-9 * max(1.0, nd)
    want = _full_brute(a["shape"], a["R"], given_w, rows(M0))
    return all(abs(g - w) <= 1e-9 * max(1.0, abs(w)) for g, w in zip(got, want))


# --------------------------------------------------------------------------------------- L-BFGS-B wrapper
LB_OPTION_KEYS = ("maxiter", "maxls", "maxfun", "pgtol", "m", "factr")


def lbfgsb_option_corners():
    """non-default solver options that change scipy's control flow: restricted line searches (abandoned line search: scipy goes
    back to its previous iterate, which is NOT the last evaluated point), iteration / evaluation budgets of 0..3, a projected
    gradient tolerance that stops at once, one correction pair, loose / tight factr"""
    return [{}, {"maxls": 1}, {"maxls": 1}, {"maxls": 1}, {"maxls": 2}, {"maxls": 2}, {"maxls": 3}, {"maxls": 1, "m": 1},
            {"maxiter": 1}, {"maxiter": 3}, {"maxiter": 0}, {"maxfun": 1}, {"maxfun": 2}, {"maxfun": 3}, {"pgtol": 1e10},
            {"m": 1, "maxls": 2}, {"factr": 1e16}, {"factr": 10.0, "maxls": 1}, {"maxiter": 1, "maxls": 1}]


def _layout(np, A, layout):
    """the same matrix in another memory layout (C-contiguous, F-contiguous, a non-contiguous view)"""
    A = np.array(A, dtype=float)
    if layout == "F":
        return np.asfortranarray(A)
    if layout == "view":
        big = np.zeros((2 * A.shape[0], 2 * A.shape[1]))
        big[::2, ::2] = A
        return big[::2, ::2]
    return np.ascontiguousarray(A)


def _lb_problem(a):
    import numpy as np
    import pyttb as ttb
    shp = tuple(a["shape"])
    sc = 2.0 ** a.get("dscale", 0)
    arr = np.array(a["data"], dtype=float).reshape(shp, order="F") * sc
    X = ttb.tensor(arr, shp, copy=True)
    isc = 2.0 ** a.get("iscale", 0)
    facs = [_layout(np, np.array(A, dtype=float).reshape((len(A), a["R"])) * isc, a.get("layout", "C")) for A in a["init"]]
    M0 = ttb.ktensor(facs)
    mask = None if a.get("mask") is None else np.array(a["mask"], dtype=float).reshape(shp, order="F")
    return X, M0, mask


def _rows(np, f):
    return [[_fr(v) for v in row] for row in np.asarray(f)]


def _task(info):
    t = info.get("task", "")
    return t.decode() if isinstance(t, bytes) else str(t)


def _lb_one_solve(np, optimizers, fg, opt, a, seen, user_cb):
    """one LBFGSB.solve on `opt`; raw observations (factor rows, what scipy got and answered)"""
    X, M0, mask = _lb_problem(a)
    fh, gh, lb = _objective(a)
    init = M0.copy()
    via, start_ok = a.get("via") == "gcp_opt", True
    if via:          # the driver normalises the initial guess (C-ordered factors, unit weights) and hands back what it started from
        import pyttb as ttb
        np.random.seed(a["seed"])
        ini, given_w = _driver_init(np, ttb, a, M0)
        mk = None if mask is None else (ttb.tensor(mask.copy()) if a.get("mask_kind", "tensor") == "tensor" else mask.copy())
        data_before = X.data.copy()
        n_before = len(seen)
        res, M0r, info = ttb.gcp_opt(X, a["R"], _driver_objective(a), opt, init=ini, mask=mk, printitn=a.get("printitn", 0))
        start_ok = _driver_start_ok(np, a, given_w, M0, M0r, X, mk if isinstance(mk, ttb.tensor) else None) and np.array_equal(data_before, X.data)
        M0 = init = M0r
    start_rows = [_rows(np, f) for f in M0.factor_matrices]
    # scipy first projects the start into the box [lower_bound, inf): "the start" is that projected point (= M0 when feasible)
    P0 = M0.copy()
    P0.factor_matrices = [np.maximum(lb, f) for f in M0.factor_matrices]
    f0 = float(fg.evaluate(P0, X, mask, fh, None))
    if not via:
        n_before = len(seen)
        res, info = opt.solve(init, X, fh, gh, lb, mask)
    f_end = float(fg.evaluate(res, X, mask, fh, None))
    rec = seen[-1]
    nvec = sum(a["shape"]) * a["R"]
    slots_ok = bool(isinstance(rec["cb"], optimizers.LBFGSB.Monitor) and rec["cb"].callback is user_cb
                    and rec["slot_during"] is rec["cb"] and not rec["none_passed"]
                    and rec["approx_grad"] is False and rec["fprime"] is None and len(seen) == n_before + 1
                    and all(b == (lb, np.inf) for b in rec["bounds"]))
    return {"f0": _fr(f0), "f_end": _fr(f_end), "final_f": _fr(info["final_f"]), "scipy_f": _fr(rec["final_f"]),
            "start": start_rows, "weights": [_fr(w) for w in M0.weights], "x0": [_fr(v) for v in rec["x0"]], "nbounds": len(rec["bounds"]),
            "x": [_fr(v) for v in rec["final_vector"]], "factors": [_rows(np, f) for f in res.factor_matrices],
            "res_weights": [_fr(w) for w in res.weights],
            "lb": (None if lb == -np.inf else _fr(lb)), "nvec": nvec, "slots_ok": slots_ok and start_ok,
            "task": _task(info), "warnflag": int(info.get("warnflag", -1)), "nit": int(info.get("nit", -1)),
            "cb_calls": int(rec["cb"].iter), "trace_len": int(len(rec["cb"].time_trace)),
            "init_unchanged": all(np.array_equal(x, y) for x, y in zip(init.factor_matrices, M0.factor_matrices)),
            "shapes_ok": [f.shape for f in res.factor_matrices] == [f.shape for f in M0.factor_matrices],
            "abandoned": int(info.get("warnflag", -1)) == 2 and "LNSRCH" in _task(info),
            "opts": rec["opts"], "size": int(math.prod(a["shape"]))}


class ScipySpy:
    """wraps pyttb.gcp.optimizers.fmin_l_bfgs_b in the harness process: records what LBFGSB.solve hands to scipy and what scipy
    answers (scipy is the oracle of C13_lbfgsb_wrap)"""

    def __init__(self, opt_ref):
        self.opt_ref = opt_ref
        self.seen = []

    def __enter__(self):
        import numpy as np
        from pyttb.gcp import optimizers
        self.mod, self.orig = optimizers, optimizers.fmin_l_bfgs_b
        spy = self

        def wrapped(func, x0, fprime=None, approx_grad=False, bounds=None, **kw):
            opt = spy.opt_ref[0]
            rec = {"x0": np.array(x0, dtype=float).copy(), "bounds": list(bounds), "cb": kw.get("callback"),
                   "slot_during": opt._solver_kwargs.get("callback"), "none_passed": any(v is None for v in kw.values()),
                   "approx_grad": approx_grad, "fprime": fprime,
                   # every keyword handed to scipy, raw: numbers as exact rationals, the callback slot as "is it the Monitor"
                   "opts": [[k, "cb", bool(isinstance(v, optimizers.LBFGSB.Monitor))] if k == "callback" or callable(v)
                            else [k, "num", _fr(v)] for k, v in kw.items() if v is not None]}
            r = spy.orig(func, x0, fprime=fprime, approx_grad=approx_grad, bounds=bounds, **kw)
            rec["final_vector"], rec["final_f"] = np.array(r[0], dtype=float).copy(), float(r[1])
            spy.seen.append(rec)
            return r
        optimizers.fmin_l_bfgs_b = wrapped
        return self

    def __exit__(self, *exc):
        self.mod.fmin_l_bfgs_b = self.orig
        return False


def _lb_opt(optimizers, opts, user_cb):
    kw = {k: opts[k] for k in LB_OPTION_KEYS if k in opts}
    return optimizers.LBFGSB(callback=user_cb, **kw)


def _restored(opt, before, user_cb):
    after = opt._solver_kwargs
    return bool(after.get("callback") is user_cb and set(after) == set(before)
                and all(after[k] == before[k] or (after[k] is before[k]) for k in before if k != "callback"))


def run_lbfgsb(a):
    """two identical solves on ONE LBFGSB object (the second must not depend on the first); every float raw"""
    import numpy as np
    from pyttb.gcp import optimizers, fg
    calls = []
    user_cb = (lambda xk: calls.append(1)) if a["callback"] else None
    opt = _lb_opt(optimizers, a.get("opts", {}), user_cb)
    before = dict(opt._solver_kwargs)
    outs = []
    with ScipySpy([opt]) as spy:
        for rep in range(2):
            outs.append(_lb_one_solve(np, optimizers, fg, opt, a, spy.seen, user_cb))
    return {"outs": outs, "callback_restored": _restored(opt, before, user_cb),
            "callback_called": (len(calls) > 0) if a["callback"] else None,
            "meta": {"abandoned": any(o["abandoned"] for o in outs)}}


def run_lbfgsb_reuse(a):
    """a sequence of solves (different problems / sizes) on ONE LBFGSB object against the same solves on fresh objects"""
    import numpy as np
    from pyttb.gcp import optimizers, fg
    reused, fresh = [], []
    shared = _lb_opt(optimizers, a.get("opts", {}), None)
    before = dict(shared._solver_kwargs)
    for mode, sink in (("reused", reused), ("fresh", fresh)):
        for p in a["probs"]:
            opt = shared if mode == "reused" else _lb_opt(optimizers, a.get("opts", {}), None)
            try:
                with ScipySpy([opt]) as spy:
                    o = _lb_one_solve(np, optimizers, fg, opt, p, spy.seen, None)
                sink.append({"opts": o["opts"], "size": o["size"],
                             "flat": [o["final_f"]] + [v for f in o["factors"] for row in f for v in row],
                             "le": Fraction(o["f_end"]) <= Fraction(o["f0"]), "f_end": o["f_end"], "f0": o["f0"],
                             "abandoned": o["abandoned"]})
            except Exception as ex:
                sink.append({"exc": type(ex).__name__, "msg": str(ex)[:120]})
    return {"reused": reused, "fresh": fresh, "restored": _restored(shared, before, None),
            "meta": {"abandoned": any(r.get("abandoned") for r in reused + fresh)}}


def g_ctor(opts, callback):
    """the constructor call of a case as the Coq record q_ctor (Alg/C13Opts.v): m factr pgtol maxfun maxiter maxls, callback given?
    factr / maxiter carry the constructor's own defaults (1e7 / 1000) when the case does not set them"""
    from vcheck import gq, gbool
    o = dict(opts)
    o.setdefault("factr", 1e7)
    o.setdefault("maxiter", 1000)
    f = lambda k: "None" if o.get(k) is None else f"(Some {gq(Fraction(float(o[k])))})"
    return f"(q_ctor {f('m')} {f('factr')} {f('pgtol')} {f('maxfun')} {f('maxiter')} {f('maxls')} {gbool(bool(callback))})"


def g_opts_seen(seen):
    """the recorded keyword dictionaries of a sequence of solves as list (list (string * oval))"""
    from vcheck import gq, gbool
    keys = ("m", "factr", "pgtol", "epsilon", "iprint", "disp", "maxfun", "maxiter", "callback", "maxls")
    def one(d):
        if not d:
            return "no_entries"
        return "[" + "; ".join(f"oentry K_{k if k in keys else 'other'} (" + (f"VCb {gbool(v)}" if kind == "cb" else f"VNum {gq(Fraction(v))}") + ")"
                               for k, kind, v in d) + "]"
    return "(@nil oentries)" if not seen else "[" + "; ".join(one(d) for d in seen) + "]"


def lb_scale(outs):
    """one common denominator for every vector / matrix entry and the bound of the observed solves of one case; another for the
    objective values"""
    if isinstance(outs, dict):
        outs = [outs]
    vals, fvals = [], []
    for o in outs:
        vals += list(o["x0"]) + list(o["x"]) + list(o["weights"]) + list(o["res_weights"]) + [v for f in o["start"] + o["factors"] for row in f for v in row]
        if o["lb"] is not None:
            vals.append(o["lb"])
        fvals += [o["f0"], o["f_end"], o["final_f"], o["scipy_f"]]
    L = 1
    for x in vals:
        d = Fraction(x).denominator
        L = L * d // math.gcd(L, d)
    z = lambda x: int(Fraction(x) * L)
    fl = 1
    for x in fvals:
        d = Fraction(x).denominator
        fl = fl * d // math.gcd(fl, d)
    zf = lambda x: int(Fraction(x) * fl)
    return z, zf


def brute_objective(a, factors, weights):
    """sum over all (unmasked) cells of the loss at the model value — pure Python"""
    shp = a["shape"]
    sc = 2.0 ** a.get("dscale", 0)
    mask = a.get("mask")
    total = 0.0
    n = math.prod(shp)
    for k in range(n):
        sub, r = [], k
        for d in shp:
            sub.append(r % d)
            r //= d
        if mask is not None and not mask[k]:
            continue
        m = 0.0
        for c in range(a["R"]):
            t = float(Fraction(weights[c]))
            for mode, i in enumerate(sub):
                t *= float(Fraction(factors[mode][i][c]))
            m += t
        x = a["data"][k] * sc
        if a["obj"] in ("gaussian", "gaussian_lb"):
            total += (m - x) ** 2
        else:
            total += m - x * math.log(m + 1e-10)
    return total


# --------------------------------------------------------------------------------------- brute-force oracle
def _cell(shape, data, sub):
    k, mul = 0, 1
    for x, d in zip(sub, shape):
        k += x * mul
        mul *= d
    return data[k]


def oracle(op, a, o):
    if op.startswith("uniform") or op.startswith("strat") or op.startswith("semi"):
        shp = a["shape"]
        size = math.prod(shp)
        subs, vals, ws = o["subs"], o["vals"], [Fraction(w) for w in o["weights"]]
        if not (len(subs) == len(vals) == len(ws)) or o["vals_shape"] != [len(subs)]:
            return f"{len(subs)} subscripts, values of shape {o['vals_shape']}, {len(ws)} weights"
        for r in subs:
            if any(not (0 <= x < d) for x, d in zip(r, shp)):
                return f"subscript {r} is outside the tensor of shape {shp}"
        if op.startswith("uniform"):
            for r, v in zip(subs, vals):
                if _cell(shp, a["data"], r) != v:
                    return f"value {v} at {r} is not the data there"
            if abs(sum(ws) - size) > Fraction(1, 10 ** 6):
                return f"weights total {float(sum(ws))}, the tensor has {size} entries"
            return None
        stored = {tuple(s): v for s, v in zip(a["subs"], a["vals"])}
        for k, (r, v) in enumerate(zip(subs, vals)):
            if stored.get(tuple(r), 0) != v:
                return f"sample {k}: value {v} at {r} but the data there is {stored.get(tuple(r), 0)}"
        cn = a["cn"]
        nnz = len(a["subs"])
        ztot = size if op.startswith("semi") else size - nnz
        if cn and abs(sum(ws[:cn]) - nnz) > Fraction(1, 10 ** 6):
            return f"nonzero weights total {float(sum(ws[:cn]))} for {nnz} nonzeros"
        if a["cz"] and abs(sum(ws[cn:]) - ztot) > Fraction(1, 10 ** 6):
            return f"zero weights total {float(sum(ws[cn:]))} for {ztot} entries"
        return None
    if op in ("solve", "solve_trace") and o.get("nonfinite"):
        return ("the solve returned a model / estimates that are not finite (trace " + ", ".join(o["trace"]) + "): nan factor entries do not respect "
                "the lower bound and the result is not the best model seen at an epoch boundary")
    if op in ("solve", "solve_trace"):
        ests = [Fraction(x) for x in o["ests"]]
        trace = [Fraction(x) for x in o["trace"]]
        if trace != ests:
            return (f"the reported trace has {len(trace)} values {[float(t) for t in trace]}; the start plus {len(ests) - 1} completed "
                    f"epochs were estimated: {[float(e) for e in ests]}")
        best = min(ests)
        if not o["ret_cands"]:
            return "returned model is none of the models held at an epoch boundary"
        if not any(ests[k] == best for k in o["ret_cands"]):
            return f"returned model is the boundary model #{o['ret_cands']} but the smallest estimate {float(best)} belongs to #{ests.index(best)}"
        if not (o["lb_ok"] or 0 in o["ret_cands"]):
            return f"returned factor entry {o['min_entry']} below the lower bound"
        if a.get("exact_start") and not o["stay"]:
            return ("the solve was started AT an exact solution with a feasible guess (every sampled gradient is exactly zero): the returned "
                    "model or a model held at an epoch boundary is not the starting guess")
        return None
    if op in ("lbfgsb", "lbfgsb_final_f"):
        for k, r in enumerate(o["outs"]):
            if op == "lbfgsb_final_f":
                if Fraction(r["final_f"]) != Fraction(r["f_end"]):
                    return (f"L-BFGS-B solve #{k + 1} ({r['task']}): info['final_f'] = {float(Fraction(r['final_f']))} is not the objective "
                            f"{float(Fraction(r['f_end']))} of the returned model (start: {float(Fraction(r['f0']))})")
                continue
            if [v for f in r["factors"] for c in range(a["R"]) for v in [row[c] for row in f]] != r["x"]:
                return f"L-BFGS-B solve #{k + 1} ({r['task']}): the returned model is not the vector scipy returned"
            proj = r["start"] if r["lb"] is None else [[[max(Fraction(v), Fraction(r["lb"])) for v in row] for row in f] for f in r["start"]]
            b0, b1 = brute_objective(a, proj, r["weights"]), brute_objective(a, r["factors"], r["res_weights"])
            if Fraction(r["f_end"]) > Fraction(r["f0"]) and b1 > b0 * (1 + 1e-9) + 1e-300:
                return f"L-BFGS-B solve #{k + 1} ({r['task']}) returned a model with objective {b1} above the starting objective {b0}"
            if r["lb"] is not None and any(Fraction(v) < Fraction(r["lb"]) for f in r["factors"] for row in f for v in row):
                return f"factor entry below the lower bound {r['lb']}"
        if op == "lbfgsb_final_f":
            return None
        if o["outs"][0]["factors"] != o["outs"][1]["factors"]:
            return "second solve on the same LBFGSB object differs from the first identical solve"
        if not o["callback_restored"]:
            return "the user's callback slot / the solver options were not restored after the solve"
        if not all(r["slots_ok"] for r in o["outs"]):
            return "LBFGSB.solve: bounds / callback handed to scipy do not match the model"
        return None
    if op == "lbfgsb_reuse":
        for k, (r, f) in enumerate(zip(o["reused"], o["fresh"])):
            if "exc" in r or "exc" in f:
                return f"solve #{k + 1}: {r.get('exc') or f.get('exc')}: {r.get('msg') or f.get('msg')}"
            if r["flat"] != f["flat"]:
                return f"L-BFGS-B solve #{k + 1} on the reused object differs from the same solve on a fresh object"
            if not r["le"]:
                return f"L-BFGS-B solve #{k + 1} on the reused object returned a model worse than its start"
        if not o["restored"]:
            return "solver options / callback slot not restored after the sequence"
        return None
    if op == "config":
        c, size, nnz = o["conf"], o["size"], o["nnz"]
        r = a["req"]
        if c[0] == "bad":
            return f"sampler configuration cannot be read back: {c[1]}"
        if c[0] == "error":
            return None
        if r is None:          # defaults never ask for more than the tensor holds
            if c[0] == "uniform" and not (0 <= c[1] <= size):
                return f"default uniform sample count {c[1]} for a tensor with {size} entries"
            if c[0] in ("stratified", "semistrat") and not (0 <= c[1] <= nnz and 0 <= c[2] <= size - nnz):
                return f"default stratified counts ({c[1]} nonzeros, {c[2]} zeros) for a tensor with {nnz} nonzeros and {size - nnz} zeros"
        elif isinstance(r, int):
            if c[0] in ("uniform", "poisson") and c[1] != r:
                return f"requested {r} samples, configured {c[1]}"
            if c[0] in ("stratified", "semistrat") and (c[1], c[2]) != (r, r):
                return f"requested {r} nonzero and {r} zero samples, configured {c[1:]}"
        elif c[0] in ("stratified", "semistrat") and [c[1], c[2]] != list(r):
            return f"requested StratifiedCount{tuple(r)}, configured {c[1:]}"
        if (c[0] == "semistrat") != (len(o["crng"]) > 0) and not (c[0] == "semistrat" and c[1] == 0):
            return f"correction range {o['crng']} for a {c[0]} sampler"
        return None
    if op == "step":
        return step_oracle(a, o)
    if op == "reuse":
        for k, (r, f) in enumerate(zip(o["reused"], o["fresh"])):
            if r != f:
                return f"solve #{k + 1} on the reused object differs from the same solve on a fresh object"
        return None
    return None


# --------------------------------------------------------------------------------------- witnesses of the findings


def weak_orderings(n):
    """every sequence of length n over 0..k-1 that uses all of 0..k-1 (k = 1..n): one representative of every relative order, ties
    included, of n estimates"""
    out = []
    def rec(prefix):
        if len(prefix) == n:
            k = max(prefix) + 1
            if set(prefix) == set(range(k)):
                out.append(list(prefix))
            return
        for v in range(n):
            rec(prefix + [v])
    rec([])
    return out


def rand_witness_problem():
    return {"shape": [2, 3], "data": [1, 0, 2, 3, 0, 1], "R": 1, "init": [[[1.0], [0.5]], [[0.5], [1.0], [1.5]]],
            "obj": "gaussian", "seed": 7, "sparse": False, "fs": 6, "gs": 3}




def _w_a47():
    a = {"shape": [2, 2], "subs": [[0, 0], [1, 0], [0, 1], [1, 1]], "vals": [1, 2, 3, 5], "cn": 1, "cz": 2, "seed": 3, "force": None}
    o = run_stratified(a, semi=True)
    if o["meta"]["semi_hit"]:
        return f"semistrat returns value 0 at {o['subs'][1:]} where the data are nonzero"
    return None


def _w_short():
    a = {"shape": [2, 3], "subs": [[0, 0], [1, 0], [0, 1], [1, 1], [0, 2]], "vals": [1, 2, 3, 4, 5], "cn": 2, "cz": 3, "force": None}
    for seed in range(40):
        a["seed"] = seed
        o = run_stratified(a, semi=False)
        if "exc" not in o and len(o["subs"]) != len(o["vals"]):
            return f"stratified(2 nonzeros, 3 zeros) on a 2x3 tensor with one zero (seed {seed}): {len(o['subs'])} subscripts, {len(o['vals'])} values"
    return None




def _w_empty():
    a = {"shape": [2, 3], "subs": [], "vals": [], "cn": 0, "cz": 2, "seed": 3, "force": None}
    o = run_stratified(a, semi=False)
    return f"stratified sampling of an all-zero sptensor raises {o['exc']}" if "exc" in o else None




def lb_witness_args(opts):
    """the 2x3 witness problem of the repaired findings C13-L1 (maxls=1: abandoned line search) and C13-L2 (maxiter=0): fixed
    regression cases of c13.gen_cases"""
    return {"shape": [2, 3], "data": [1, 0, 2, 3, 0, 1], "R": 1, "init": [[[1.0], [0.5]], [[0.5], [1.0], [1.5]]],
            "obj": "gaussian", "callback": False, "mask": None, "opts": opts}


# only the OPEN findings are replayed as witnesses; the inputs of the repaired ones (A-35, A-36, A-37, A-48, C13-S2, C13-L1, C13-L2)
# are fixed regression cases in c13.gen_cases (C13-G1: the exact-start solves there, incl. the former witness call through gcp_opt)
WITNESSES = {"C13-S3": _w_empty, "A-47": _w_a47, "C13-S1": _w_short}


# --------------------------------------------------------------------------------------- GCPSampler configuration table
_KINDS = [None, "uniform", "stratified", "semistratified"]


def config_cases(rng, big):
    from vcheck import Case
    cases = []
    tensors = [(False, [2, 3], 3), (True, [2, 3], 5), (True, [2, 3], 0), (False, [15, 10, 10], 1500), (True, [1000, 1000, 1000], 1500),
               (True, [1000, 1000, 1000], 120000), (True, [40, 50], 2000), (False, [120, 100, 100], 7)]
    if big:
        tensors += [(True, [1000, 1000, 1000], 250000), (False, [300, 200, 200], 12000000), (True, [700, 30], 20990)]
    reqs = [None, 4, [2, 3], [0, 1]]
    for (sparse, shape, nnz) in tensors:
        for mi in ([1000, 7] if not big else [1000, 7, 1, 3]):
            for side in ("f", "g"):
                for kind in _KINDS:
                    for req in reqs:
                        cases.append(Case("config", {"sparse": sparse, "shape": shape, "nnz": nnz, "max_iters": mi, "side": side,
                                                     "kind": kind, "req": req}, True))
    # max_iters = 0 divides by zero in the gradient defaults
    cases.append(Case("config", {"sparse": True, "shape": [2, 3], "nnz": 5, "max_iters": 0, "side": "g", "kind": None, "req": None}, True))
    cases.append(Case("config", {"sparse": False, "shape": [2, 3], "nnz": 5, "max_iters": 0, "side": "g", "kind": None, "req": None}, True))
    return cases


_DATA_CACHE = {}


def _config_data(np, ttb, sparse, shape, nnz):
    key = (sparse, tuple(shape), nnz)
    if key in _DATA_CACHE:
        return _DATA_CACHE[key]
    size = math.prod(shape)
    step = max(1, size // max(nnz, 1))
    lin = np.arange(nnz, dtype=np.int64) * step
    if sparse:
        if nnz:
            subs = np.array(np.unravel_index(lin, tuple(shape), order="F")).T.copy()
            X = ttb.sptensor(subs, np.ones((nnz, 1)), tuple(shape))
        else:
            X = ttb.sptensor(shape=tuple(shape))
    else:
        arr = np.zeros(size)
        arr[lin] = 1.0
        X = ttb.tensor(arr.reshape(tuple(shape), order="F"))
    _DATA_CACHE.clear()
    _DATA_CACHE[key] = X
    return X


def _read_conf(np, size, nnz, fn):
    """the configured sampler, read back from the object"""
    import functools
    if isinstance(fn, functools.partial):
        kw = fn.keywords
        name = fn.func.__name__
        if name == "uniform":
            return ["uniform", int(kw["samples"])]
        if name in ("stratified", "semistrat"):
            if name == "stratified" and not (len(kw["nz_idx"]) == nnz and bool(np.all(np.diff(kw["nz_idx"]) >= 0))):
                return ["bad", "nz_idx is not the sorted list of the nonzeros' linear indices"]
            return [name, int(kw["num_nonzeros"]), int(kw["num_zeros"])]
        return ["bad", name]
    cells = dict(zip(fn.__code__.co_freevars, [c.cell_contents for c in fn.__closure__]))
    en, ez = Fraction(float(cells["exp_nonzeros"])), Fraction(float(cells["exp_zeros"]))
    n = round(en + ez)
    ok = size > 0 and abs(en - Fraction(n * nnz, size)) < Fraction(1, 10 ** 6) and abs(ez - Fraction(n * (size - nnz), size)) < Fraction(1, 10 ** 6)
    return ["poisson", n, size, nnz] if ok else ["bad", f"expected counts {float(en)}, {float(ez)}"]


def run_config(a):
    import numpy as np
    import pyttb as ttb
    from pyttb.gcp import samplers
    X = _config_data(np, ttb, a["sparse"], a["shape"], a["nnz"])
    size, nnz = int(np.prod(X.shape)), int(X.nnz)
    K = {None: None, "uniform": samplers.Samplers.UNIFORM, "stratified": samplers.Samplers.STRATIFIED,
         "semistratified": samplers.Samplers.SEMISTRATIFIED}

    def req(r):
        return r if not isinstance(r, list) else samplers.StratifiedCount(num_nonzeros=r[0], num_zeros=r[1])
    # the other side of the constructor gets a request that is always accepted
    safe_kind = samplers.Samplers.STRATIFIED if a["sparse"] else samplers.Samplers.UNIFORM
    safe_req = samplers.StratifiedCount(num_nonzeros=1, num_zeros=1) if a["sparse"] else 2
    kw = {"function_sampler": safe_kind, "function_samples": safe_req, "gradient_sampler": safe_kind, "gradient_samples": safe_req,
          "max_iters": a["max_iters"]}
    if a["side"] == "f":
        kw["function_sampler"], kw["function_samples"] = K[a["kind"]], req(a["req"])
    else:
        kw["gradient_sampler"], kw["gradient_samples"] = K[a["kind"]], req(a["req"])
    calls = []
    o_ceil = samplers.ceil

    def w_ceil(x):          # math.ceil of a float quotient: argument (exact dyadic rational) and answer recorded
        r = o_ceil(x)
        fr = Fraction(float(x))
        calls.append([fr.numerator, fr.denominator, int(r)])
        return r
    samplers.ceil = w_ceil
    try:
        try:
            g = samplers.GCPSampler(X, **kw)
        finally:
            samplers.ceil = o_ceil
    except (ValueError, ZeroDivisionError) as ex:
        return {"conf": ["error", type(ex).__name__], "size": size, "nnz": nnz, "ceil_calls": calls}
    fn = g._fsampler if a["side"] == "f" else g._gsampler
    return {"conf": _read_conf(np, size, nnz, fn), "crng": [int(x) for x in g.crng], "size": size, "nnz": nnz, "ceil_calls": calls}


def config_check(a, o):
    from vcheck import gz
    c = o["conf"]
    if c[0] == "bad":
        return "false"
    obs = {"uniform": lambda: f"(CUniform {gz(c[1])})", "stratified": lambda: f"(CStratified {gz(c[1])} {gz(c[2])})",
           "semistrat": lambda: f"(CSemistrat {gz(c[1])} {gz(c[2])})", "poisson": lambda: f"(CPoisson {gz(c[1])} {gz(c[2])} {gz(c[3])})",
           "error": lambda: "CError"}[c[0]]()
    kind = {None: "None", "uniform": "(Some Uniform)", "stratified": "(Some Stratified)", "semistratified": "(Some Semistratified)"}[a["kind"]]
    r = a["req"]
    req = "RNone" if r is None else (f"(RInt {gz(r)})" if isinstance(r, int) else f"(RStrat {gz(r[0])} {gz(r[1])})")
    sp = "true" if a["sparse"] else "false"
    # the table is run with the RECORDED answers of math.ceil (cd_obs: a call fits when its float argument is the quotient the
    # model asks for, within one rounding, and its answer is the exact ceiling of that float); the number of calls and the
    # agreement with the exact-ceiling instance (fn_config / gr_config) are compared as well; the recorded calls must be exactly the
    # one quotient the table asks for (ceil_queries_ok), also where the answer is dominated by the max(…, 10^5) around it
    calls = "(@nil (Z * Z * Z))" if not o["ceil_calls"] else "[" + "; ".join(f"({gz(n)}, {gz(d)}, {gz(r)})" for n, d, r in o["ceil_calls"]) + "]"
    if a["side"] == "f":
        model = f"(fn_config_o (cd_obs {calls}) {sp} {gz(o['size'])} {gz(o['nnz'])} {kind} {req})"
        exact = f"(fn_config {sp} {gz(o['size'])} {gz(o['nnz'])} {kind} {req})"
        ncalls = f"(fn_ceil_calls {sp} {kind} {req})"
        query = f"(fn_ceil_query {sp} {gz(o['size'])} {gz(o['nnz'])} {kind} {req})"
    else:
        model = f"(gr_config_o (cd_obs {calls}) {sp} {gz(o['size'])} {gz(o['nnz'])} {gz(a['max_iters'])} {kind} {req})"
        exact = f"(gr_config {sp} {gz(o['size'])} {gz(o['nnz'])} {gz(a['max_iters'])} {kind} {req})"
        # dense data with a stratified gradient sampler computes the default count before it rejects the request
        ncalls = f"(gr_ceil_calls {gz(a['max_iters'])} {req})"
        query = f"(gr_ceil_query {sp} {gz(o['size'])} {gz(o['nnz'])} {gz(a['max_iters'])} {kind} {req})"
    crng = "true"
    if c[0] != "error":
        from vcheck import gzlist
        n = len(o["crng"])
        if n <= 64:          # the correction range is arange(num_nonzeros): compared in Coq
            crng = f"Z.eqb (crng_len {model}) {gz(n)} && vec_eqb {gzlist(o['crng'])} (map Z.of_nat (seq 0 {n}))"
        else:                # long ranges (1000 entries): length in Coq, the entries as one harness-decided observation bit (memory of the shard)
            crng = f"Z.eqb (crng_len {model}) {gz(n)} && obs_bits [{'true' if o['crng'] == list(range(n)) else 'false'}]"
    return f"sconf_eqb {model} {obs} && sconf_eqb {model} {exact} && Nat.eqb {len(o['ceil_calls'])}%nat {ncalls} && ceil_queries_ok {calls} {query} && {crng}"
