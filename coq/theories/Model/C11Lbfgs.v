(* Model/C11Lbfgs.v — transliteration of get_search_dir_pqnr (pyttb/cp_apr.py:1590-1680), the L-BFGS two-loop direction of the PQNR
   row sub-problem, over Qc, AS THE CODE IS (it differs from a textbook two-loop recursion: the slot walk
   `k = lbfgsSize - np.mod(1 - k, lbfgsSize) - 1`, the second loop re-using ONE slot `k = np.mod(k, lbfgsSize)`, the projected
   gradient step `(m - g) * (m - (g > 0))`).
   delm / delg: list of slots (columns of delta_model / delta_grad), rho: list of 1/(delm_k . delg_k), pos = lbfgs_pos, iters = inner
   iteration number.  The Euclidean norm wk only enters through `m_r <= min(eps, wk)`, decided on squares (wk >= 0). *)
From Coq Require Import List Arith Bool ZArith QArith Qabs Qcanon.
From PV Require Import Base.Index Base.Sum Np.Array Model.Sparse Model.Repr Model.Harness Model.C14Nvecs Model.C11Apr Model.C11Rows
                       Model.C11Check Model.C11Replay.
Import ListNotations.
Local Open Scope Qc_scope.

Definition vget (l : list Qc) (k : nat) : Qc := nth k l q0.
Definition slot (M : list (list Qc)) (k : nat) : list Qc := nth k M [].
(* y + a x *)
Definition vaxpy (a : Qc) (x y : list Qc) : list Qc := map (fun p : Qc * Qc => snd p + a * fst p) (combine x y).

(* fixedVars = (grad > 0) & (m <= min(epsActSet, ||m - projGradStep||)) *)
Definition fixed_vars (eps : Qc) (m g : list Qc) : list bool :=
  let pgs := map (fun p : Qc * Qc => (fst p - snd p) * (fst p - (if qlt q0 (snd p) then q1 else q0))) (combine m g) in
  let wk2 := qdot (qvsub m pgs) (qvsub m pgs) in
  map (fun p : Qc * Qc => qlt q0 (snd p) && qleb (fst p) eps && (qleb (fst p) q0 || qleb (fst p * fst p) wk2)) (combine m g).
Definition zero_fixed (fx : list bool) (d : list Qc) : list Qc := map (fun p : bool * Qc => if fst p then q0 else snd p) (combine fx d).

(* k = lbfgsSize - np.mod(1 - k, lbfgsSize) - 1   (numpy's non-negative mod) *)
Definition next_k (size k : nat) : nat := Z.to_nat (Z.of_nat size - ((1 - Z.of_nat k) mod Z.of_nat size) - 1).

Fixpoint loop1 (n size : nat) (delm delg : list (list Qc)) (rho : list Qc) (k : nat) (alpha d : list Qc)
  : nat * list Qc * list Qc :=
  match n with
  | O => (k, alpha, d)
  | S n' =>
      let a := vget rho k * qdot (slot delm k) d in
      loop1 n' size delm delg rho (next_k size k) (upd alpha k a) (vaxpy (- a) (slot delg k) d)
  end.

Fixpoint loop2 (n size : nat) (delm delg : list (list Qc)) (rho : list Qc) (k : nat) (alpha d : list Qc) : list Qc :=
  match n with
  | O => d
  | S n' =>
      let k' := Nat.modulo k size in
      let b := vget rho k' * qdot (slot delg k') d in
      loop2 n' size delm delg rho k' alpha (vaxpy (vget alpha k' - b) (slot delm k') d)
  end.

Definition search_dir_pqnr (eps : Qc) (m g : list Qc) (delm delg : list (list Qc)) (rho : list Qc) (pos iters : nat) : list Qc :=
  let size := length delm in
  let fx := fixed_vars eps m g in
  let d0 := zero_fixed fx (map Qcopp g) in
  if qisz (qdot (slot delm pos) (slot delg pos)) then d0
  else
    let n := Nat.min iters size in
    match loop1 n size delm delg rho pos (repeat q1 size) d0 with
    | (k, alpha, d1) =>
        let coef := q1 / vget rho pos / qdot (slot delg pos) (slot delg pos) in
        zero_fixed fx (loop2 n size delm delg rho k alpha (map (Qcmult coef) d1))
    end.

(* correspondence: pyttb's direction for the same inputs, entrywise at tol relative to max(1, |exact|) *)
Definition search_dir_ok (tol eps : Qc) (m g : list Qc) (delm delg : list (list Qc)) (rho : list Qc) (pos iters : nat)
    (obs : list Qc) : bool :=
  list_eqb (qclose tol) obs (search_dir_pqnr eps m g delm delg rho pos iters).
