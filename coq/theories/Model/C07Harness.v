(* Model/C07Harness.v — Z instances of the C07 operations and the boolean comparers used by the generated cases.
   Observations are compared on what the property pins: shape, denotation at every subscript, well-formedness, nnz. *)
From Coq Require Import List ZArith Bool Arith.
From PV Require Import Base.Index Base.Perm Base.Sum Np.Array Model.Sparse Model.Repr Model.Harness Model.C07Ops.
Import ListNotations.

Definition all_subs_ok (s : shape) (f g : idx -> Z) : bool :=
  forallb (fun k => (f (ind2sub s k) =? g (ind2sub s k))%Z) (seq 0 (size s)).

(* sparse: same shape, same nnz, same number of stored values, same well-formedness verdict, same array *)
Definition sp_same (A B : sparse Z) : bool :=
  nvec_eqb (sshape A) (sshape B) && Nat.eqb (nnz A) (nnz B) && Nat.eqb (length (svals A)) (length (svals B)) &&
  Bool.eqb (wf_spb zisz A) (wf_spb zisz B) && all_subs_ok (sshape A) (zden_sp A) (zden_sp B).

Definition wf_kb (K : ktensor Z) : bool :=
  forallb (fun A => forallb (fun r => Nat.eqb (length r) (krank K)) A) (kfactors K).
Definition k_same (A B : ktensor Z) : bool :=
  nvec_eqb (kshape A) (kshape B) && Nat.eqb (krank A) (krank B) && wf_kb B &&
  all_subs_ok (kshape A) (zden_k A) (zden_k B).

Definition t_same (A B : ttensor Z) : bool :=
  nvec_eqb (tshape A) (tshape B) && nvec_eqb (dshape (tcore A)) (dshape (tcore B)) && wf_denseb (tcore B) &&
  Nat.eqb (length (tfactors A)) (length (tfactors B)) &&
  all_subs_ok (tshape A) (zden_t A) (zden_t B).

(* model result (option) against pyttb's observation (None = pyttb raised) *)
Definition od_ok (m o : option (dense Z)) : bool := opt_eqb dense_eqb m o.
Definition os_ok (m o : option (sparse Z)) : bool := opt_eqb sp_same m o.
Definition ok_ok (m o : option (ktensor Z)) : bool := opt_eqb k_same m o.
Definition ot_ok (m o : option (ttensor Z)) : bool := opt_eqb t_same m o.

Definition sqd_ok (m o : sq_res (V:=Z) (dense Z)) : bool :=
  match m, o with
  | SqT a, SqT b => dense_eqb a b
  | SqScalar a, SqScalar b => (a =? b)%Z
  | _, _ => false
  end.
Definition sqs_ok (m o : sq_res (V:=Z) (sparse Z)) : bool :=
  match m, o with
  | SqT a, SqT b => sp_same a b
  | SqScalar a, SqScalar b => (a =? b)%Z
  | _, _ => false
  end.

(* the holders agree: a dense observation against any denotation *)
Definition dense_of_k (K : ktensor Z) : dense Z := ztab (kshape K) (zden_k K).
Definition dense_of_t (T : ttensor Z) : dense Z := ztab (tshape T) (zden_t T).
Definition dense_of_sp (S : sparse Z) : dense Z := ztab (sshape S) (zden_sp S).
