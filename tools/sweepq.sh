#!/bin/sh
# usage: sweepq.sh <tag> <ids...>   — one sweep WORKER: takes each listed seed unless another worker holds / finished it for this <tag>
# (lock dirs under /var/tmp/sweeplocks/<tag>/); start several workers on the same list to scale up or down.
tag="$1"; shift
mkdir -p /var/tmp/sweeplocks/"$tag"
for id in "$@"; do
  if mkdir /var/tmp/sweeplocks/"$tag"/"$id" 2>/dev/null; then
    python3 /verif/tools/seedsweep.py "$id"
  fi
done
