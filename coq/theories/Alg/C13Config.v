(* Alg/C13Config.v — (1) the default-count rules of GCPSampler as a decision table, (2) the L-BFGS-B wrapper around the
   scipy oracle (DESIGN §C13).
   Source anchors: pyttb/gcp/samplers.py::GCPSampler.__init__ / _prepare_function_sampler / _prepare_gradient_sampler;
                   pyttb/gcp/optimizers.py::LBFGSB.solve, LBFGSB.Monitor.
   Hand models (tie B): the correspondence reads the configured counts back from the sampler object (functools.partial
   keywords / closure cells / crng) for every row of the table, and captures what LBFGSB.solve hands to
   scipy.optimize.fmin_l_bfgs_b (bounds, callback) and what it gets back (final vector). *)
From Coq Require Import List ZArith Lia Bool Arith.
Import ListNotations.
Local Open Scope Z_scope.

(* ============================================================================================== *)
(* 1. GCPSampler: which sampler with how many samples                                              *)
(* ============================================================================================== *)
Inductive skind := Uniform | Stratified | Semistratified.
(* the function_samples / gradient_samples argument: None, an int, a StratifiedCount(num_nonzeros, num_zeros) *)
Inductive sreq := RNone | RInt (n : Z) | RStrat (nz z : Z).
(* what the configured sampler will do on every call *)
Inductive sconf :=
| CUniform (n : Z)                     (* uniform(data, samples = n) *)
| CStratified (nz z : Z)               (* stratified(data, nz_idx, num_nonzeros = nz, num_zeros = z) *)
| CSemistrat (nz z : Z)                (* semistrat(data, nz, z); crng = arange(nz) *)
| CPoisson (n size nnz : Z)            (* sparse data + uniform gradient sampler: stratified with Poisson(n*nnz/size), Poisson(n*(size-nnz)/size) counts *)
| CError.                              (* ValueError / ZeroDivisionError *)

Definition cdiv (a b : Z) : Z := (a + b - 1) / b.              (* the exact ceiling of a / b for a >= 0, b > 0 *)

(* The code computes the default counts with math.ceil of a FLOAT quotient: ceil(num_nonzeros / 100), ceil(tensor_size / 10),
   ceil(3 * num_nonzeros / max_iters), ceil(10 * tensor_size / max_iters).  The table below is a transliteration in which that
   float computation is an ORACLE  cd : numerator -> denominator -> Z  (the harness records every call of samplers.ceil: the float
   argument and the answer, and the generated cases run the table with the recorded answers, see cd_obs).  Every theorem below
   holds for EVERY oracle: none of them depends on how the quotient is rounded.  fn_config / gr_config are the instances with the
   exact ceiling cdiv. *)
Section ConfigOracle.
Variable cd : Z -> Z -> Z.

Definition default_kind (sparse : bool) (k : option skind) : skind :=
  match k with Some k => k | None => if sparse then Stratified else Uniform end.

(* _prepare_function_sampler *)
Definition fn_config_o (sparse : bool) (size nnz : Z) (k : option skind) (req : sreq) : sconf :=
  match default_kind sparse k with
  | Stratified =>
      if negb sparse then CError else
      match req with
      | RNone => let ftmp := Z.max (cd nnz 100) (10 ^ 5) in
                 CStratified (Z.min ftmp nnz) (Z.min (Z.min ftmp nnz) (size - nnz))
      | RInt n => CStratified n n
      | RStrat nz z => CStratified nz z
      end
  | Uniform =>
      match req with
      | RNone => CUniform (Z.min (Z.max (cd size 10) (10 ^ 6)) size)
      | RInt n => CUniform n
      | RStrat _ _ => CError
      end
  | Semistratified => CError
  end.

(* _prepare_gradient_sampler *)
Definition gr_config_o (sparse : bool) (size nnz max_iters : Z) (k : option skind) (req : sreq) : sconf :=
  match default_kind sparse k with
  | Uniform =>
      match req with
      | RStrat _ _ => CError
      | RNone => if max_iters =? 0 then CError else
                 let n := Z.min (Z.max 1000 (cd (10 * size) max_iters)) size in
                 if sparse then CPoisson n size nnz else CUniform n
      | RInt n => if sparse then CPoisson n size nnz else CUniform n
      end
  | kd =>
      let cnt := match req with
                 | RNone => if max_iters =? 0 then None else
                            let gtmp := Z.max 1000 (cd (3 * nnz) max_iters) in
                            Some (Z.min gtmp nnz, Z.min (Z.min gtmp nnz) (size - nnz))
                 | RInt n => Some (n, n)
                 | RStrat nz z => Some (nz, z)
                 end in
      match cnt with
      | None => CError
      | Some (nz, z) =>
          match kd with
          | Semistratified => CSemistrat nz z
          | _ => if negb sparse then CError else CStratified nz z
          end
      end
  end.

(* how often math.ceil is called while one side is configured (the harness compares the number of recorded calls) *)
Definition fn_ceil_calls (sparse : bool) (k : option skind) (req : sreq) : nat :=
  match default_kind sparse k, req with
  | Stratified, RNone => if sparse then 1%nat else 0%nat
  | Uniform, RNone => 1%nat
  | _, _ => 0%nat
  end.
Definition gr_ceil_calls (max_iters : Z) (req : sreq) : nat :=
  match req with RNone => if max_iters =? 0 then 0%nat else 1%nat | _ => 0%nat end.
(* WHICH quotient (numerator, denominator) is handed to math.ceil — the recorded call must be this quotient *)
Definition fn_ceil_query (sparse : bool) (size nnz : Z) (k : option skind) (req : sreq) : option (Z * Z) :=
  match default_kind sparse k, req with
  | Stratified, RNone => if sparse then Some (nnz, 100) else None
  | Uniform, RNone => Some (size, 10)
  | _, _ => None
  end.
Definition gr_ceil_query (sparse : bool) (size nnz max_iters : Z) (k : option skind) (req : sreq) : option (Z * Z) :=
  match req with
  | RNone => if max_iters =? 0 then None else
             match default_kind sparse k with
             | Uniform => Some (10 * size, max_iters)
             | _ => Some (3 * nnz, max_iters)
             end
  | _ => None
  end.
Lemma ceil_query_calls sparse size nnz max_iters k req :
  fn_ceil_calls sparse k req = (match fn_ceil_query sparse size nnz k req with Some _ => 1 | None => 0 end)%nat /\
  gr_ceil_calls max_iters req = (match gr_ceil_query sparse size nnz max_iters k req with Some _ => 1 | None => 0 end)%nat.
Proof.
  unfold fn_ceil_calls, fn_ceil_query, gr_ceil_calls, gr_ceil_query. split.
  - destruct (default_kind sparse k), req, sparse; reflexivity.
  - destruct req; try reflexivity. destruct (max_iters =? 0); [reflexivity|]. destruct (default_kind sparse k); reflexivity.
Qed.
End ConfigOracle.

Definition fn_config := fn_config_o cdiv.
Definition gr_config := gr_config_o cdiv.

(* the correction range handed to fg_est.estimate: arange(num_nonzeros) for the semi-stratified sampler, empty otherwise *)
Definition crng_len (c : sconf) : Z := match c with CSemistrat nz _ => nz | _ => 0 end.

(* what a configuration asks of the tensor *)
Definition conf_feasible (size nnz : Z) (c : sconf) : Prop :=
  match c with
  | CUniform n => 0 <= n <= size
  | CStratified nz z => 0 <= nz <= nnz /\ 0 <= z <= size - nnz /\ z <= nz
  | CSemistrat nz z => 0 <= nz <= nnz /\ 0 <= z <= size - nnz /\ z <= nz
  | CPoisson n sz k => 0 <= n <= size /\ sz = size /\ k = nnz
  | CError => False
  end.

Lemma cdiv_nonneg a b : 0 <= a -> 0 < b -> 0 <= cdiv a b.
Proof. intros. unfold cdiv. apply Z.div_pos; lia. Qed.

(* cdiv is the exact ceiling: the least c with a <= c * b *)
Theorem cdiv_spec a b : 0 < b -> (cdiv a b - 1) * b < a <= cdiv a b * b.
Proof.
  intros Hb. unfold cdiv.
  pose proof (Z.div_mod (a + b - 1) b ltac:(lia)) as E. pose proof (Z.mod_pos_bound (a + b - 1) b Hb) as M. nia.
Qed.

(* ---- the decision table, for EVERY ceil oracle cd ---- *)
Section Table.
Variable cd : Z -> Z -> Z.
Notation fn := (fn_config_o cd).
Notation gr := (gr_config_o cd).

(* (a) DEFAULT counts (no request) never ask for more than the tensor holds: at most every nonzero, at most every zero,
       never more zeros than nonzeros, at most every entry for the uniform sampler — for every tensor size and however the
       float quotient inside ceil is rounded *)
Theorem fn_default_feasible sparse size nnz k :
  0 <= nnz <= size -> fn sparse size nnz k RNone <> CError ->
  conf_feasible size nnz (fn sparse size nnz k RNone).
Proof.
  intros H. unfold fn_config_o. destruct (default_kind sparse k); [| |congruence].
  - intros _. cbn. lia.
  - destruct sparse; cbn [negb]; [|congruence]. intros _. cbn. lia.
Qed.

Theorem gr_default_feasible sparse size nnz max_iters k :
  0 <= nnz <= size -> 0 < max_iters -> gr sparse size nnz max_iters k RNone <> CError ->
  conf_feasible size nnz (gr sparse size nnz max_iters k RNone).
Proof.
  intros H Hm. unfold gr_config_o. replace (max_iters =? 0) with false by (symmetry; apply Z.eqb_neq; lia).
  destruct (default_kind sparse k); destruct sparse; cbn [negb]; intros Hne; try congruence; cbn; lia.
Qed.

(* (b) small tensors: the defaults take EVERY nonzero (and as many zeros, capped by the zeros there are) resp. every entry *)
Theorem fn_default_small size nnz :
  0 <= nnz <= size ->
  (nnz <= 10 ^ 5 -> fn true size nnz None RNone = CStratified nnz (Z.min nnz (size - nnz))) /\
  (size <= 10 ^ 6 -> fn false size nnz None RNone = CUniform size).
Proof.
  intros H. unfold fn_config_o. cbn [default_kind negb]. split; intros Hs; f_equal; lia.
Qed.

Theorem gr_default_small size nnz max_iters :
  0 <= nnz <= size -> 0 < max_iters ->
  (nnz <= 1000 -> gr true size nnz max_iters None RNone = CStratified nnz (Z.min nnz (size - nnz))) /\
  (size <= 1000 -> gr false size nnz max_iters None RNone = CUniform size).
Proof.
  intros H Hm. unfold gr_config_o. cbn [default_kind negb].
  replace (max_iters =? 0) with false by (symmetry; apply Z.eqb_neq; lia). split; intros Hs; f_equal; lia.
Qed.

(* (c) explicit requests are taken as they are: an int for the uniform sampler; an int n (= n nonzeros and n zeros) or a
       StratifiedCount for the (semi-)stratified ones *)
Theorem explicit_requests sparse size nnz max_iters n nz z :
  fn sparse size nnz (Some Uniform) (RInt n) = CUniform n /\
  fn true size nnz (Some Stratified) (RInt n) = CStratified n n /\
  fn true size nnz (Some Stratified) (RStrat nz z) = CStratified nz z /\
  gr false size nnz max_iters (Some Uniform) (RInt n) = CUniform n /\
  gr true size nnz max_iters (Some Uniform) (RInt n) = CPoisson n size nnz /\
  gr true size nnz max_iters (Some Stratified) (RInt n) = CStratified n n /\
  gr true size nnz max_iters (Some Stratified) (RStrat nz z) = CStratified nz z /\
  gr sparse size nnz max_iters (Some Semistratified) (RInt n) = CSemistrat n n /\
  gr sparse size nnz max_iters (Some Semistratified) (RStrat nz z) = CSemistrat nz z.
Proof. repeat split; reflexivity. Qed.

(* (d) rejected rows: stratified sampling of dense data, a semi-stratified FUNCTION sampler, a StratifiedCount for the
       uniform sampler *)
Theorem rejected_requests size nnz max_iters req nz z k :
  fn false size nnz (Some Stratified) req = CError /\
  gr false size nnz max_iters (Some Stratified) req = CError /\
  fn k size nnz (Some Semistratified) req = CError /\
  fn k size nnz (Some Uniform) (RStrat nz z) = CError /\
  gr k size nnz max_iters (Some Uniform) (RStrat nz z) = CError.
Proof.
  repeat split; try reflexivity.
  - unfold gr_config_o. cbn [default_kind negb]. destruct req; [destruct (max_iters =? 0)| |]; reflexivity.
Qed.

(* (e) the kind defaults: sparse data -> stratified, dense data -> uniform (function and gradient alike); the correction
       range is non-empty only for the semi-stratified sampler and then covers exactly the nonzero samples *)
Theorem kind_defaults_and_crng sparse size nnz max_iters req :
  default_kind sparse None = (if sparse then Stratified else Uniform) /\
  crng_len (fn sparse size nnz None req) = 0 /\
  crng_len (gr sparse size nnz max_iters None req) = 0 /\
  (forall nz z, gr sparse size nnz max_iters (Some Semistratified) req = CSemistrat nz z ->
                crng_len (gr sparse size nnz max_iters (Some Semistratified) req) = nz).
Proof.
  repeat split.
  - unfold fn_config_o. destruct sparse; cbn; destruct req; reflexivity.
  - unfold gr_config_o. destruct sparse; cbn [default_kind negb]; destruct req; try destruct (max_iters =? 0); reflexivity.
  - intros nz z ->. reflexivity.
Qed.

(* (f) math.ceil is called exactly when a default count is computed: never for an explicit request *)
Theorem ceil_calls_only_for_defaults sparse k max_iters req :
  req <> RNone -> fn_ceil_calls sparse k req = 0%nat /\ gr_ceil_calls max_iters req = 0%nat.
Proof. intros H. unfold fn_ceil_calls, gr_ceil_calls. destruct (default_kind sparse k), req; try congruence; auto. Qed.
End Table.

(* two oracles that agree on the (at most one) quotient a side asks for give the same configuration *)
Theorem config_oracle_ext cd1 cd2 sparse size nnz max_iters k req :
  (cd1 nnz 100 = cd2 nnz 100 -> cd1 size 10 = cd2 size 10 ->
   fn_config_o cd1 sparse size nnz k req = fn_config_o cd2 sparse size nnz k req) /\
  (cd1 (10 * size) max_iters = cd2 (10 * size) max_iters -> cd1 (3 * nnz) max_iters = cd2 (3 * nnz) max_iters ->
   gr_config_o cd1 sparse size nnz max_iters k req = gr_config_o cd2 sparse size nnz max_iters k req).
Proof.
  split; intros H1 H2.
  - unfold fn_config_o. now rewrite H1, H2.
  - unfold gr_config_o. now rewrite H1, H2.
Qed.

(* non-vacuity: a 1000 x 1000 x 1000 sparse tensor with 250 000 nonzeros, max_iters = 1000; a 300 x 200 x 200 dense one *)
Example config_examples :
  fn_config true (10 ^ 9) 250000 None RNone = CStratified 100000 100000 /\
  gr_config true (10 ^ 9) 250000 1000 None RNone = CStratified 1000 1000 /\
  fn_config false 12000000 12000000 None RNone = CUniform 1200000 /\
  gr_config false 12000000 12000000 1000 None RNone = CUniform 120000 /\
  fn_config true 6 5 None RNone = CStratified 5 1 /\
  gr_config true 6 5 1000 (Some Semistratified) (RStrat 2 3) = CSemistrat 2 3.
Proof. repeat split; reflexivity. Qed.

(* ============================================================================================== *)
(* 2. LBFGSB.solve around the scipy oracle                                                         *)
(* ============================================================================================== *)
Local Close Scope Z_scope.
Section Lbfgsb.
Variables Mdl V F CB KW : Type.         (* models, vector entries, objective values, user callbacks, the other solver options *)
Variable leb : F -> F -> bool.
Variable vle : V -> V -> Prop.
Variable tovec : Mdl -> list V.         (* ktensor.tovec(False) *)
Variable update : Mdl -> list V -> Mdl. (* ktensor.update(arange(ndims), vector) *)
Variable objective : Mdl -> F.          (* fg.evaluate(model, data, mask, function_handle) *)
Variable wf : Mdl -> Prop.               (* every factor matrix has one column per component *)
Hypothesis update_tovec : forall m, wf m -> update m (tovec m) = m.
Hypothesis tovec_update : forall m v, length v = length (tovec m) -> tovec (update m v) = v.

(* the "callback" slot of self._solver_kwargs *)
Inductive slot := UserCb (cb : option CB) | MonitorOf (cb : option CB).
Record kwargs := mkKw { kw_callback : slot; kw_other : KW }.

(* one bound pair per vector entry: (lower_bound, +inf) *)
Definition bounds_of (lb : option V) (x0 : list V) : list (option V * option V) := repeat (lb, None) (length x0).
Definition within (lb : option V) (x : V) : Prop := match lb with None => True | Some b => vle b x end.

(* scipy.optimize.fmin_l_bfgs_b(func, x0, bounds, **kwargs) -> (final_vector, final_f, info["warnflag"]): an ORACLE *)
Variable scipy : (list V -> F) -> list V -> list (option V * option V) -> kwargs -> list V * F * nat.
(* the stated contract of the oracle: the returned point x has the length of the start, is never worse than a FEASIBLE start
   (an infeasible start is first projected into the box, which may change the objective either way) and a feasible start
   stays feasible.  NOTHING is assumed about the reported value fx here. *)
Definition scipy_contract : Prop :=
  forall func x0 lb kw, let '(x, fx, wf_) := scipy func x0 (bounds_of lb x0) kw in
    length x = length x0 /\ (Forall (within lb) x0 -> leb (func x) (func x0) = true /\ Forall (within lb) x).
(* the documented extra clause "f = value of func at the minimum" holds on every run that does not abandon a line search.  When a
   line search is abandoned (ABNORMAL_TERMINATION_IN_LNSRCH, warnflag 2; e.g. maxls = 1) scipy goes back to its previous iterate but
   reports the value of the rejected trial point, which may exceed the starting objective (observed with scipy 1.14; that was
   finding C13-L1, repaired in /repo a2890fd: LBFGSB.solve re-evaluates the returned model when warnflag = 2) *)
Definition scipy_reports_value : Prop :=
  forall func x0 lb kw, let '(x, fx, wf_) := scipy func x0 (bounds_of lb x0) kw in wf_ <> 2 -> fx = func x.
(* feasibility alone (scipy projects the start into the box): used for the bound on the result *)
Definition scipy_feasible : Prop :=
  forall func x0 lb kw, Forall (within lb) (fst (fst (scipy func x0 (bounds_of lb x0) kw))).

Record outcome := mkOut { o_model : Mdl; o_final_f : F; o_kwargs : kwargs; o_bounds : list (option V * option V);
                          o_kwargs_during : kwargs; o_final_vector : list V; o_warnflag : nat }.

Definition user_cb (s : slot) : option CB := match s with UserCb c => c | MonitorOf c => c end.

Definition lbfgsb_solve (kw : kwargs) (m0 : Mdl) (lb : option V) : outcome :=
  let x0 := tovec m0 in                                                  (* x0 = model.tovec(False) *)
  let func := fun v => objective (update m0 v) in                        (* lbfgsb_func_grad: model.update(...); evaluate(...) *)
  let during := mkKw (MonitorOf (user_cb (kw_callback kw))) (kw_other kw) in  (* monitor = Monitor(maxiter, kwargs.get("callback")) *)
  let bnds := bounds_of lb x0 in                                         (* [(lower_bound, np.inf)] * len(x0) *)
  let '(x, fx, wflag) := scipy func x0 bnds during in
  let m := update m0 x in                                                (* model.update(np.arange(ndims), final_vector) *)
  let ff := if Nat.eqb wflag 2 then objective m else fx in               (* if warnflag == 2: final_f = evaluate(model, ...) *)
  let after := mkKw (UserCb (user_cb (kw_callback during))) (kw_other during) in  (* kwargs["callback"] = monitor.callback *)
  mkOut m ff after bnds during x wflag.

Theorem lbfgsb_wrap : scipy_contract -> forall cb other m0 lb, wf m0 ->
  let o := lbfgsb_solve (mkKw (UserCb cb) other) m0 lb in
  (* one (lower_bound, +inf) pair per entry of the vectorised model *)
  o_bounds o = repeat (lb, None) (length (tovec m0)) /\
  (* during the call the slot holds the monitor around exactly the user's callback; afterwards the slot and every other
     option are what they were: the object can be reused *)
  kw_callback (o_kwargs_during o) = MonitorOf cb /\ o_kwargs o = mkKw (UserCb cb) other /\
  (* the returned model is the vector scipy returned, read back through update — not the last evaluated point *)
  tovec (o_model o) = o_final_vector o /\
  (* a feasible start (every entry >= lower bound; always the case for lower_bound = -inf): never worse than the start, and
     the result is feasible *)
  (Forall (within lb) (tovec m0) ->
   leb (objective (o_model o)) (objective m0) = true /\ Forall (within lb) (tovec (o_model o))).
Proof.
  intros HC cb other m0 lb Hwf. unfold lbfgsb_solve. cbn [kw_callback kw_other user_cb].
  specialize (HC (fun v => objective (update m0 v)) (tovec m0) lb (mkKw (MonitorOf cb) other)).
  destruct (scipy (fun v => objective (update m0 v)) (tovec m0) (bounds_of lb (tovec m0)) (mkKw (MonitorOf cb) other)) as [[x fx] wflag].
  destruct HC as (Hl & Hb). cbn.
  rewrite (tovec_update m0 x Hl). rewrite update_tovec in Hb by exact Hwf.
  repeat split; auto; apply Hb; assumption.
Qed.

(* info["final_f"] IS the objective of the returned model: after an abandoned line search (warnflag 2) because the wrapper
   re-evaluates it, otherwise because scipy reports the value at the point it returns (C13-L1 repaired) *)
Theorem lbfgsb_final_f : scipy_reports_value -> forall kw m0 lb,
  let o := lbfgsb_solve kw m0 lb in objective (o_model o) = o_final_f o.
Proof.
  intros HR kw m0 lb. unfold lbfgsb_solve.
  specialize (HR (fun v => objective (update m0 v)) (tovec m0) lb (mkKw (MonitorOf (user_cb (kw_callback kw))) (kw_other kw))).
  destruct (scipy _ _ _ _) as [[x fx] wflag]. cbn.
  destruct (Nat.eqb wflag 2) eqn:E; [reflexivity|]. apply Nat.eqb_neq in E. symmetry. exact (HR E).
Qed.
(* after an abandoned line search nothing at all is needed from scipy's reported value *)
Theorem lbfgsb_final_f_abandoned : forall kw m0 lb,
  let o := lbfgsb_solve kw m0 lb in o_warnflag o = 2 -> objective (o_model o) = o_final_f o.
Proof.
  intros kw m0 lb. unfold lbfgsb_solve. destruct (scipy _ _ _ _) as [[x fx] wflag]. cbn. intros ->. reflexivity.
Qed.
(* and then (with the contract) the reported value is no worse than the start either *)
Corollary lbfgsb_final_f_le : scipy_contract -> scipy_reports_value -> forall cb other m0 lb, wf m0 ->
  Forall (within lb) (tovec m0) ->
  leb (o_final_f (lbfgsb_solve (mkKw (UserCb cb) other) m0 lb)) (objective m0) = true.
Proof.
  intros HC HR cb other m0 lb Hwf Hfeas. rewrite <- (lbfgsb_final_f HR).
  apply (lbfgsb_wrap HC cb other m0 lb Hwf). exact Hfeas.
Qed.
(* lower_bound = -inf: every start is feasible *)
Lemma within_none l : Forall (within None) l.
Proof. apply Forall_forall. intros x _. exact I. Qed.

(* with the oracle's feasibility guarantee every entry of the returned factor matrices respects the lower bound,
   whatever the start was *)
Theorem lbfgsb_bounds : scipy_contract -> scipy_feasible -> forall cb other m0 lb,
  Forall (within lb) (tovec (o_model (lbfgsb_solve (mkKw (UserCb cb) other) m0 lb))).
Proof.
  intros HC HF cb other m0 lb. unfold lbfgsb_solve. cbn [kw_callback kw_other user_cb].
  specialize (HC (fun v => objective (update m0 v)) (tovec m0) lb (mkKw (MonitorOf cb) other)).
  specialize (HF (fun v => objective (update m0 v)) (tovec m0) lb (mkKw (MonitorOf cb) other)).
  destruct (scipy (fun v => objective (update m0 v)) (tovec m0) (bounds_of lb (tovec m0)) (mkKw (MonitorOf cb) other)) as [[x fx] wflag].
  destruct HC as (Hl & _). cbn in *. now rewrite (tovec_update m0 x Hl).
Qed.

(* reuse: two solves on one object — the second sees exactly the options of a fresh object *)
Theorem lbfgsb_reuse : forall cb other m0 lb m1 lb1,
  let kw := mkKw (UserCb cb) other in
  lbfgsb_solve (o_kwargs (lbfgsb_solve kw m0 lb)) m1 lb1 = lbfgsb_solve kw m1 lb1.
Proof.
  intros cb other m0 lb m1 lb1 kw. f_equal. unfold lbfgsb_solve, kw. cbn [kw_callback kw_other user_cb].
  destruct (scipy _ _ _ _) as [[x fx] wflag]. reflexivity.
Qed.
End Lbfgsb.

(* ---- LBFGSB.Monitor: time_trace = np.zeros((max(maxiter, 1),)), every callback writes time_trace[iter] and advances iter.
   scipy completes (and reports through the callback) at least one iteration before it tests the iteration budget, so the number
   of calls is at most max(maxiter, 1): the write stays inside the array for EVERY maxiter, 0 included (C13-L2 repaired in /repo
   87cee74; with the former maxiter slots the first callback of LBFGSB(maxiter=0) raised IndexError) *)
Definition monitor_slots (maxiter : nat) : nat := Nat.max maxiter 1.
(* IndexError on some call when more calls than slots *)
Definition monitor_raises (slots ncalls : nat) : bool := Nat.ltb slots ncalls.
Theorem monitor_index : forall maxiter ncalls, (ncalls <= Nat.max maxiter 1)%nat ->
  monitor_raises (monitor_slots maxiter) ncalls = false /\ (1 <= monitor_slots maxiter)%nat /\
  ((1 <= maxiter)%nat -> monitor_slots maxiter = maxiter).
Proof.
  intros maxiter ncalls H. unfold monitor_raises, monitor_slots. split; [|split].
  - apply Nat.ltb_ge. lia.
  - lia.
  - lia.
Qed.

(* boolean equality of configurations, for the generated correspondence cases *)
Definition sconf_eqb (a b : sconf) : bool :=
  match a, b with
  | CUniform n, CUniform n' => Z.eqb n n'
  | CStratified x y, CStratified x' y' => Z.eqb x x' && Z.eqb y y'
  | CSemistrat x y, CSemistrat x' y' => Z.eqb x x' && Z.eqb y y'
  | CPoisson n s k, CPoisson n' s' k' => Z.eqb n n' && Z.eqb s s' && Z.eqb k k'
  | CError, CError => true
  | _, _ => false
  end.
